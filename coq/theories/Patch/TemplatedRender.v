(** C04, templated clause, closing the loop with the placeholder templater (Templ/Model.v, C15):
    when the templated file is [process src vals caps] and the final tree is [tree_ok], the fixed source is
    literal pieces woven around the captures' own texts, and running the templater again on it - with the
    same parameter values, on the captures found at the same places (same names, same texts; that the regex
    engine finds exactly these in the fixed text is its contract here, and is what the recorded finding
    "placeholder fused with its neighbour" breaks) - renders exactly the raw of the final tree. *)
From Sq Require Import Base.Bytes.
From Sq Require Templ.Model Templ.ProcProofs.
From Sq Require Import Patch.Model Patch.Proofs Patch.TemplatedModel Patch.TemplatedWeave Patch.TemplatedTree.
Arguments N.add : simpl never.
Arguments N.sub : simpl never.
Arguments N.eqb : simpl never.
Arguments N.ltb : simpl never.
Arguments N.leb : simpl never.

Section Render.
  Variable vals : list (str * TM.cval).

  Definition repl_of (c : TM.cap) (cnt : N) : str :=
    match TM.replacement vals (TP.pname c cnt) with Some r => r | None => [] end.
  (** the replacement texts of the captures, positional counter threaded as in [process] *)
  Fixpoint repls (caps : list TM.cap) (cnt : N) : list str :=
    match caps with [] => [] | c :: cs => repl_of c cnt :: repls cs (TP.pcnt c cnt) end.
  Fixpoint all_some (caps : list TM.cap) (cnt : N) : Prop :=
    match caps with
    | [] => True
    | c :: cs => TM.replacement vals (TP.pname c cnt) <> None /\ all_some cs (TP.pcnt c cnt)
    end.
  Definition cap_txt (src : str) (c : TM.cap) : str := TP.slice_of src (TM.c0 c) (TM.c1 c).

  (** the captures at their places in [weave lits (map (cap_txt src) caps)], starting at offset [off] *)
  Fixpoint reloc (src : str) (lits : list str) (caps : list TM.cap) (off : N) : list TM.cap :=
    match lits, caps with
    | l :: lits', c :: caps' =>
        let a := off + TM.len l in
        let b := a + TM.len (cap_txt src c) in
        TM.mk_cap a b (TM.cname c) :: reloc src lits' caps' b
    | _, _ => []
    end.

  Lemma reloc_names : forall src caps lits off, length lits = S (length caps) ->
    map TM.cname (reloc src lits caps off) = map TM.cname caps.
  Proof.
    intros src. induction caps as [|c cs IH]; intros lits off H; destruct lits as [|l lits]; try discriminate.
    - reflexivity.
    - cbn [reloc map TM.cname]. f_equal. apply IH. cbn [length] in H. lia.
  Qed.

  (** * The templated slices [process] builds are the captures, their renderings the replacements *)
  Lemma filter_lit_tpl : forall a b c d a' b' c' d' L,
    filter is_templ (TM.mk_ts TM.SLit a b c d :: TM.mk_ts TM.STempl a' b' c' d' :: L) =
    TM.mk_ts TM.STempl a' b' c' d' :: filter is_templ L.
  Proof. reflexivity. Qed.
  Lemma ploop_templ : forall src caps last_raw last_tpl cnt r,
    TP.caps_ok caps last_raw (TM.len src) ->
    TM.ploop src vals caps last_raw last_tpl cnt = TM.ROk r ->
    all_some caps cnt /\
    map (fun s => TP.slice_of src (TM.s0 s) (TM.s1 s)) (filter is_templ (TM.tf_sl r)) = map (cap_txt src) caps /\
    forall pre, TM.len pre = last_tpl ->
      map (fun s => TP.slice_of (pre ++ TM.tf_tpl r) (TM.t0 s) (TM.t1 s)) (filter is_templ (TM.tf_sl r)) = repls caps cnt.
  Proof.
    intros src. induction caps as [|c cs IH]; intros last_raw last_tpl cnt r Hok H.
    - cbn [TM.ploop] in H. destruct (last_raw <? TM.len src).
      + destruct (TM.substr src last_raw (TM.len src)); [|discriminate]. injection H as <-.
        cbn. auto.
      + injection H as <-. cbn. auto.
    - cbn [TP.caps_ok] in Hok. destruct Hok as (H1 & H2 & H3).
      pose proof (TP.caps_ok_le _ _ _ H3) as H4.
      cbn [TM.ploop] in H. fold (TP.pname c cnt) (TP.pcnt c cnt) in H.
      destruct (N.ltb_spec (TM.c0 c) last_raw) as [Hbad|_]; [lia|].
      destruct (TM.replacement vals (TP.pname c cnt)) as [repl|] eqn:Er; [|discriminate].
      rewrite (TP.substr_some src last_raw (TM.c0 c)) in H by lia.
      rewrite (TP.substr_some src (TM.c0 c) (TM.c1 c)) in H by lia.
      destruct (TM.ploop src vals cs (TM.c1 c) (last_tpl + (TM.c0 c - last_raw) + TM.len repl) (TP.pcnt c cnt)) as [r'| |] eqn:E;
        try discriminate.
      injection H as <-. cbn [TM.tf_sl TM.tf_tpl].
      destruct (IH _ _ _ _ H3 E) as (A1 & A2 & A3).
      pose proof (TP.slice_of_len src last_raw (TM.c0 c) ltac:(lia) ltac:(lia)) as Hl1.
      split; [|split].
      + cbn [all_some]. split; [rewrite Er; discriminate|exact A1].
      + rewrite filter_lit_tpl. cbn [map TM.s0 TM.s1]. rewrite A2. reflexivity.
      + intros pre Hpre. rewrite filter_lit_tpl. cbn [map TM.t0 TM.t1 repls].
        unfold repl_of. rewrite Er. f_equal.
        * replace (pre ++ TP.slice_of src last_raw (TM.c0 c) ++ repl ++ TM.tf_tpl r')
            with ((pre ++ TP.slice_of src last_raw (TM.c0 c)) ++ repl ++ TM.tf_tpl r') by (rewrite <- app_assoc; reflexivity).
          replace (last_tpl + (TM.c0 c - last_raw)) with (TM.len (pre ++ TP.slice_of src last_raw (TM.c0 c)))
            by (rewrite TP.len_app; lia).
          apply TP.slice_of_app_mid.
        * specialize (A3 (pre ++ TP.slice_of src last_raw (TM.c0 c) ++ repl)).
          rewrite !TP.len_app, Hl1, Hpre in A3. specialize (A3 ltac:(lia)).
          rewrite <- !app_assoc in A3. exact A3.
  Qed.

  (** * Rendering a woven text on the relocated captures *)
  Lemma skipn_len_app : forall (pre z : str), skipn (N.to_nat (TM.len pre)) (pre ++ z) = z.
  Proof.
    intros pre z. unfold TM.len. rewrite Nnat.Nat2N.id. rewrite skipn_app, skipn_all.
    replace (length pre - length pre)%nat with 0%nat by lia. reflexivity.
  Qed.

  Lemma render_weave : forall src caps lits pre cnt,
    length lits = S (length caps) -> all_some caps cnt ->
    TP.render_spec (pre ++ weave lits (map (cap_txt src) caps)) vals (reloc src lits caps (TM.len pre)) (TM.len pre) cnt
      = Some (weave lits (repls caps cnt)) /\
    TP.caps_ok (reloc src lits caps (TM.len pre)) (TM.len pre) (TM.len (pre ++ weave lits (map (cap_txt src) caps))).
  Proof.
    intros src. induction caps as [|c cs IH]; intros lits pre cnt Hl Hs; destruct lits as [|l lits]; try discriminate.
    - destruct lits; [|discriminate]. cbn [map weave reloc TP.render_spec TP.caps_ok repls]. split.
      + rewrite skipn_len_app. reflexivity.
      + rewrite TP.len_app. lia.
    - cbn [length] in Hl. cbn [all_some] in Hs. destruct Hs as [Hs1 Hs2].
      cbn [map weave reloc TP.render_spec TP.caps_ok repls TM.c0 TM.c1].
      change (TP.pname (TM.mk_cap (TM.len pre + TM.len l) (TM.len pre + TM.len l + TM.len (cap_txt src c)) (TM.cname c)) cnt)
        with (TP.pname c cnt).
      change (TP.pcnt (TM.mk_cap (TM.len pre + TM.len l) (TM.len pre + TM.len l + TM.len (cap_txt src c)) (TM.cname c)) cnt)
        with (TP.pcnt c cnt).
      unfold repl_of. destruct (TM.replacement vals (TP.pname c cnt)) as [rp|]; [|congruence].
      specialize (IH lits (pre ++ l ++ cap_txt src c) (TP.pcnt c cnt) ltac:(lia) Hs2).
      rewrite !TP.len_app in IH. rewrite N.add_assoc in IH.
      rewrite <- !app_assoc in IH. destruct IH as [IH1 IH2].
      split.
      + rewrite IH1. rewrite TP.slice_of_app_mid. reflexivity.
      + repeat split; try lia. rewrite !TP.len_app, !N.add_assoc. exact IH2.
  Qed.
End Render.

(** The templated clause of C04 with the templater in the loop. *)
Theorem templated_rerender : forall sr vals caps r rs t,
  TP.caps_ok caps 0 (TM.len sr) ->
  TM.process sr vals caps = TM.ROk r ->
  tree_ok (mkTf sr (TM.tf_tpl r) rs) (TM.tf_sl r) t = true ->
  exists lits,
    let tf := mkTf sr (TM.tf_tpl r) rs in
    let caps' := reloc sr lits caps 0 in
    length lits = S (length caps) /\
    fixed_text tf t = weave lits (map (cap_txt sr) caps) /\
    map TM.cname caps' = map TM.cname caps /\
    TP.caps_ok caps' 0 (TM.len (fixed_text tf t)) /\
    TP.render_spec (fixed_text tf t) vals caps' 0 1 = Some (raw t) /\
    exists r', TM.process (fixed_text tf t) vals caps' = TM.ROk r' /\ TM.tf_tpl r' = raw t.
Proof.
  intros sr vals caps r rs t Hok Hp Htok.
  pose proof (TP.process_spec sr vals caps Hok) as Hspec. rewrite Hp in Hspec. destruct Hspec as (_ & Htile & _).
  assert (Hpl : TM.ploop sr vals caps 0 0 1 = TM.ROk r).
  { unfold TM.process in Hp. destruct (TM.ploop sr vals caps 0 0 1) as [r0| |]; try discriminate.
    destruct (TM.tf_new sr (TM.tf_tpl r0) (TM.tf_sl r0) (TM.tf_rs r0)); try discriminate. exact Hp. }
  destruct (ploop_templ vals sr caps 0 0 1 r Hok Hpl) as (Hs & Hph & Hrd).
  specialize (Hrd [] eq_refl). cbn [app] in Hrd.
  destruct (templated_fixed_text (mkTf sr (TM.tf_tpl r) rs) (TM.tf_sl r) t Htile Htok) as [lits [Hl [Hx Hy]]].
  unfold render, phs, rds in *. cbn [src tpl] in *.
  change (map (fun s => sub sr (TM.s0 s) (TM.s1 s)) (filter is_templ (TM.tf_sl r)))
    with (map (fun s => TP.slice_of sr (TM.s0 s) (TM.s1 s)) (filter is_templ (TM.tf_sl r))) in *.
  change (map (fun s => sub (TM.tf_tpl r) (TM.t0 s) (TM.t1 s)) (filter is_templ (TM.tf_sl r)))
    with (map (fun s => TP.slice_of (TM.tf_tpl r) (TM.t0 s) (TM.t1 s)) (filter is_templ (TM.tf_sl r))) in *.
  rewrite Hph in Hl, Hx. rewrite Hrd in Hy. rewrite map_length in Hl.
  exists lits. cbv zeta.
  destruct (render_weave vals sr caps lits [] 1 Hl Hs) as [R1 R2]. cbn [app] in R1, R2.
  change (TM.len []) with 0 in R1, R2.
  rewrite <- Hx in R1, R2. rewrite <- Hy in R1.
  split; [exact Hl|]. split; [exact Hx|]. split; [apply reloc_names; exact Hl|]. split; [exact R2|]. split; [exact R1|].
  pose proof (TP.process_spec (fixed_text (mkTf sr (TM.tf_tpl r) rs) t) vals (reloc sr lits caps 0) R2) as Hs2.
  destruct (TM.process (fixed_text (mkTf sr (TM.tf_tpl r) rs) t) vals (reloc sr lits caps 0)) as [r'| |].
  - exists r'. split; [reflexivity|]. destruct Hs2 as (Hs2 & _). rewrite R1 in Hs2. injection Hs2 as ->. reflexivity.
  - rewrite R1 in Hs2. discriminate.
  - destruct Hs2.
Qed.

(** Non-vacuity: the file of [TemplatedTree.ex_templated] is what the templater makes of "sel  :x ,b\n" with
    x = 123 and the capture 5..7 named x; its final tree is [tree_ok]; the relocated capture is 4..6. *)
Example ex_rerender :
  let vals := [([120], TM.VStr [49;50;51])] in
  let caps := [TM.mk_cap 5 7 (Some [120])] in
  TP.caps_ok caps 0 (TM.len ex_t_src) /\
  (exists r, TM.process ex_t_src vals caps = TM.ROk r /\ TM.tf_tpl r = ex_t_tpl /\ TM.tf_sl r = ex_t_sl /\
     tree_ok (mkTf ex_t_src (TM.tf_tpl r) [(0, true); (5, false); (7, true)]) (TM.tf_sl r) ex_t_tree = true) /\
  reloc ex_t_src [[83;69;76;32]; [44;32;98;10]] caps 0 = [TM.mk_cap 4 6 (Some [120])].
Proof.
  split; [cbn; lia|]. split; [|vm_compute; reflexivity].
  eexists. split; [vm_compute; reflexivity|]. repeat split; vm_compute; reflexivity.
Qed.
