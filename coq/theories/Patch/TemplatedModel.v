(** C04, templated clause: executable definitions.

    [dpatches] is [iter_patches] (Patch/Model.v) run once more with a ghost: every patch also records
    the TEMPLATED range it stands for (the leaf's / node's own templated slice, or for the gap and
    tail patches of the non-literal branch the running [templated_idx] up to the next child's
    templated start / the node's templated end), and the walk answers [None] when the templated side
    of the tree is not in reading order on the branches [iter_patches] takes (a templated range running
    backwards, a changed leaf that is neither unchanged nor literal - its edit is silently dropped by
    [iter_patches] -, source fixes, dropped trailing metas that carry text).

    [tree_ok] = the walk succeeds, the root's templated slice is the whole templated text, the patches
    are sorted / disjoint / duplicate-free in the source ([sdb] = the decidable [sorted_disjoint]) and
    every patch is [aligned]: its source range and its templated range are the same stretch of ONE
    literal slice, or it is an insertion at a common slice border.  Nothing is asked of segments that
    yield no patch (unchanged subtrees are not even descended into), so placeholders' tokens, glued
    tokens, split white space ... may sit anywhere.

    Slices are [Templ.Model.tslice] (what [PlaceholderTemplater::process] builds, C15). *)
From Sq Require Import Base.Bytes Patch.Model.
From Sq Require Templ.Model.
Module TM := Sq.Templ.Model.

Record dpatch := mkD { da : N; db : N; du : N; dv : N; dr : str }.
(** the patch [iter_patches] emits, and its image in the templated text *)
Definition spatch (d : dpatch) : patch := mkPatch (da d) (db d) (dr d).
Definition tpatch (d : dpatch) : patch := mkPatch (du d) (dv d) (dr d).

Fixpoint dpatches (tf : tfile) (s : seg) : option (list dpatch) :=
  match s with
  | Leaf _ r p =>
      if negb (t0 p <=? t1 p) then None
      else if str_eqb r (sub (tpl tf) (t0 p) (t1 p)) then Some []
      else if is_literal (rawsl tf) (s0 p) (s1 p) then Some [mkD (s0 p) (s1 p) (t0 p) (t1 p) r]
      else None
  | Node _ p sfx cs =>
      let r := flat_map raw cs in
      if negb (t0 p <=? t1 p) || negb (is_empty sfx) then None
      else if str_eqb r (sub (tpl tf) (t0 p) (t1 p)) then Some []
      else if is_literal (rawsl tf) (s0 p) (s1 p) then Some [mkD (s0 p) (s1 p) (t0 p) (t1 p) r]
      else
        match cs with
        | [] => None
        | _ =>
          (fix loop (l : list seg) (k : nat) (sidx tidx : N) (buf : str) {struct l} : option (list dpatch) :=
             match l with
             | c :: l' =>
                 match k with
                 | S k' =>
                     let cp := seg_pos c in
                     if negb (is_empty (raw c)) && is_point cp then
                       loop l' k' sidx tidx (buf ++ raw c)
                     else if tidx <=? t0 cp then
                       let fp := first_leaf_pos c in
                       let gap := if (tidx <? t0 cp) || negb (is_empty buf)
                                  then [mkD sidx (s0 fp) tidx (t0 cp) buf] else [] in
                       match dpatches tf c, loop l' k' (s1 cp) (t1 cp) [] with
                       | Some dc, Some dl => Some (gap ++ dc ++ dl)
                       | _, _ => None
                       end
                     else None
                 | O =>
                     if (tidx <=? t1 p) && forallb (fun c => is_empty (raw c)) l then
                       Some (if negb (t1 p =? tidx) || negb (is_empty buf)
                             then [mkD sidx (s1 p) tidx (t1 p) buf] else [])
                     else None
                 end
             | [] =>
                 if tidx <=? t1 p then
                   Some (if negb (t1 p =? tidx) || negb (is_empty buf)
                         then [mkD sidx (s1 p) tidx (t1 p) buf] else [])
                 else None
             end) cs (n_keep cs) (s0 p) (t0 p) []
        end
  end.

(** * Alignment of a patch with the slice list *)
Definition is_lit (s : TM.tslice) : bool := TM.stype_eqb (TM.ty s) TM.SLit.
(** source range and templated range are the same stretch of the literal slice [s] *)
Definition in_slice (s : TM.tslice) (d : dpatch) : bool :=
  is_lit s && (TM.s0 s <=? da d) && (da d <=? db d) && (db d <=? TM.s1 s) &&
  (du d =? TM.t0 s + (da d - TM.s0 s)) && (dv d =? TM.t0 s + (db d - TM.s0 s)).
Definition at_end (s : TM.tslice) (d : dpatch) : bool := (da d =? TM.s1 s) && (du d =? TM.t1 s).
(** [ps], [pt]: where the slice list starts (0, 0 for a whole file) *)
Definition aligned (ps pt : N) (sl : list TM.tslice) (d : dpatch) : bool :=
  existsb (fun s => in_slice s d) sl ||
  ((da d =? db d) && (du d =? dv d) &&
   (((da d =? ps) && (du d =? pt)) || existsb (fun s => at_end s d) sl)).

(** decidable [sorted_disjoint] (Patch/Proofs.v [sd]) *)
Fixpoint sdb (idx : N) (ps : list patch) : bool :=
  match ps with
  | [] => true
  | p :: ps' => (idx <=? p_s p) && (p_s p <=? p_e p) && negb (mem_key (p_key p) (map p_key ps')) && sdb (p_e p) ps'
  end.

Definition tree_ok (tf : tfile) (sl : list TM.tslice) (t : seg) : bool :=
  match dpatches tf t with
  | None => false
  | Some ds =>
      (t0 (seg_pos t) =? 0) && (t1 (seg_pos t) =? len (tpl tf)) &&
      sdb 0 (map spatch ds) && forallb (aligned 0 0 sl) ds
  end.

(** * The statement's vocabulary *)
Definition is_templ (s : TM.tslice) : bool := TM.stype_eqb (TM.ty s) TM.STempl.
(** the placeholders' source texts and their renderings, in file order *)
Definition phs (tf : tfile) (sl : list TM.tslice) : list str :=
  map (fun s => sub (src tf) (TM.s0 s) (TM.s1 s)) (filter is_templ sl).
Definition rds (tf : tfile) (sl : list TM.tslice) : list str :=
  map (fun s => sub (tpl tf) (TM.t0 s) (TM.t1 s)) (filter is_templ sl).
(** [l0 ++ x1 ++ l1 ++ x2 ++ ... ++ ln] *)
Fixpoint weave (lits : list str) (xs : list str) : str :=
  match lits with
  | [] => []
  | l :: lits' => l ++ match xs with [] => [] | x :: xs' => x ++ weave lits' xs' end
  end.
(** re-rendering a source that reads [weave lits (phs ..)]: literal parts copied, every placeholder
    replaced by its recorded rendering *)
Definition render (tf : tfile) (sl : list TM.tslice) (lits : list str) : str := weave lits (rds tf sl).

(** [splice] up to [e] instead of the end of the text *)
Fixpoint splice_r (txt : str) (idx e : N) (ps : list patch) : str :=
  match ps with
  | [] => sub txt idx e
  | p :: ps' => sub txt idx (p_s p) ++ p_raw p ++ splice_r txt (p_e p) e ps'
  end.

(** decidable [Templ.ProcProofs.tiling] (what C15_render_tiling proves of [process]' output):
    contiguous in both texts, literal slices cover identical text, only literal / templated types *)
Fixpoint tilingb (sr tp : str) (sl : list TM.tslice) (ps pt : N) : bool :=
  match sl with
  | [] => (ps =? len sr) && (pt =? len tp)
  | s :: sl' =>
      (TM.s0 s =? ps) && (TM.t0 s =? pt) && (TM.s0 s <=? TM.s1 s) && (TM.s1 s <=? len sr) &&
      (TM.t0 s <=? TM.t1 s) && (TM.t1 s <=? len tp) && (is_lit s || is_templ s) &&
      (negb (is_lit s) ||
       (str_eqb (sub sr (TM.s0 s) (TM.s1 s)) (sub tp (TM.t0 s) (TM.t1 s)) &&
        (TM.s1 s - TM.s0 s =? TM.t1 s - TM.t0 s))) &&
      tilingb sr tp sl' (TM.s1 s) (TM.t1 s)
  end.
