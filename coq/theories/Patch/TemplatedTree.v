(** C04, templated clause, tree side and the end-to-end theorem.
    For a tree on which the ghost walk [dpatches] succeeds:
      - forgetting the templated ranges gives exactly [iter_patches] ([dpatches_erase]);
      - the patches' templated images, spliced into the templated text over the segment's own
        templated range, give the segment's raw ([dpatches_T]) - by induction over the tree, following
        the loop of the non-literal branch.
    With the slice-side lemma ([TemplatedWeave.weave_patches]) this yields [templated_fixed_text]. *)
From Sq Require Import Base.Bytes Patch.Model Patch.Proofs Patch.TemplatedModel Patch.TemplatedWeave.
From Sq Require Templ.Model Templ.ProcProofs.
Arguments N.add : simpl never.
Arguments N.sub : simpl never.
Arguments N.eqb : simpl never.
Arguments N.ltb : simpl never.
Arguments N.leb : simpl never.

(** * Induction principle for the nested tree type *)
Section seg_ind'.
  Variable P : seg -> Prop.
  Hypothesis HL : forall b r p, P (Leaf b r p).
  Hypothesis HN : forall b p sfx cs, Forall P cs -> P (Node b p sfx cs).
  Fixpoint seg_ind' (s : seg) : P s :=
    match s with
    | Leaf b r p => HL b r p
    | Node b p sfx cs =>
        HN b p sfx cs ((fix go (l : list seg) : Forall P l :=
                          match l with
                          | [] => Forall_nil P
                          | x :: l' => Forall_cons x (seg_ind' x) (go l')
                          end) cs)
    end.
End seg_ind'.

(** * The two inner loops as functions of the recursive call *)
Section PLoop.
Variable f : seg -> list patch.
Variable p : pos.
Fixpoint ploop (l : list seg) (k : nat) (sidx tidx : N) (buf : str) {struct l}
  : list patch :=
  match l with
  | c :: l' =>
      match k with
      | S k' =>
          let cp := seg_pos c in
          if negb (is_empty (raw c)) && is_point cp then ploop l' k' sidx tidx (buf ++ raw c)
          else
            let fp := first_leaf_pos c in
            let gap := if (tidx <? t0 cp) || negb (is_empty buf)
                       then [mkPatch sidx (s0 fp) buf] else [] in
            gap ++ f c ++ ploop l' k' (s1 cp) (t1 cp) []
      | O => if negb (t1 p =? tidx) || negb (is_empty buf) then [mkPatch sidx (s1 p) buf] else []
      end
  | [] => if negb (t1 p =? tidx) || negb (is_empty buf) then [mkPatch sidx (s1 p) buf] else []
  end.
End PLoop.

Lemma iter_patches_node : forall tf b p sfx cs,
  iter_patches tf (Node b p sfx cs) =
  if str_eqb (flat_map raw cs) (sub (tpl tf) (t0 p) (t1 p)) then sfx
  else if is_literal (rawsl tf) (s0 p) (s1 p) then sfx ++ [mkPatch (s0 p) (s1 p) (flat_map raw cs)]
  else match cs with
       | [] => []
       | _ => ploop (iter_patches tf) p cs (n_keep cs) (s0 p) (t0 p) []
       end.
Proof. intros. destruct cs; reflexivity. Qed.

Definition tail_d (p : pos) (sidx tidx : N) (buf : str) : list dpatch :=
  if negb (t1 p =? tidx) || negb (is_empty buf) then [mkD sidx (s1 p) tidx (t1 p) buf] else [].

Section DLoop.
Variable f : seg -> option (list dpatch).
Variable p : pos.
Fixpoint dloop (l : list seg) (k : nat) (sidx tidx : N) (buf : str) {struct l}
  : option (list dpatch) :=
  match l with
  | c :: l' =>
      match k with
      | S k' =>
          let cp := seg_pos c in
          if negb (is_empty (raw c)) && is_point cp then dloop l' k' sidx tidx (buf ++ raw c)
          else if tidx <=? t0 cp then
            let fp := first_leaf_pos c in
            let gap := if (tidx <? t0 cp) || negb (is_empty buf)
                       then [mkD sidx (s0 fp) tidx (t0 cp) buf] else [] in
            match f c, dloop l' k' (s1 cp) (t1 cp) [] with
            | Some dc, Some dl => Some (gap ++ dc ++ dl)
            | _, _ => None
            end
          else None
      | O => if (tidx <=? t1 p) && forallb (fun c => is_empty (raw c)) l then Some (tail_d p sidx tidx buf) else None
      end
  | [] => if tidx <=? t1 p then Some (tail_d p sidx tidx buf) else None
  end.
End DLoop.

Lemma dpatches_node : forall tf b p sfx cs,
  dpatches tf (Node b p sfx cs) =
  if negb (t0 p <=? t1 p) || negb (is_empty sfx) then None
  else if str_eqb (flat_map raw cs) (sub (tpl tf) (t0 p) (t1 p)) then Some []
  else if is_literal (rawsl tf) (s0 p) (s1 p) then Some [mkD (s0 p) (s1 p) (t0 p) (t1 p) (flat_map raw cs)]
  else match cs with
       | [] => None
       | _ => dloop (dpatches tf) p cs (n_keep cs) (s0 p) (t0 p) []
       end.
Proof. intros. destruct cs; reflexivity. Qed.

(** * Forgetting the ghost *)
Lemma dloop_erase : forall tf p l,
  Forall (fun c => forall ds, dpatches tf c = Some ds -> map spatch ds = iter_patches tf c) l ->
  forall k sidx tidx buf dl,
    dloop (dpatches tf) p l k sidx tidx buf = Some dl ->
    map spatch dl = ploop (iter_patches tf) p l k sidx tidx buf.
Proof.
  intros tf p. induction l as [|c l IH]; intros HF k sidx tidx buf dl H.
  - cbn [dloop ploop] in *. destruct (tidx <=? t1 p); [|discriminate]. injection H as <-.
    unfold tail_d. destruct (negb (t1 p =? tidx) || negb (is_empty buf)); reflexivity.
  - inversion HF as [|? ? Hc HF']; subst. cbn [dloop ploop] in *. destruct k as [|k].
    + destruct ((tidx <=? t1 p) && forallb (fun c0 => is_empty (raw c0)) (c :: l)); [|discriminate].
      injection H as <-. unfold tail_d. destruct (negb (t1 p =? tidx) || negb (is_empty buf)); reflexivity.
    + cbv zeta in *. destruct (negb (is_empty (raw c)) && is_point (seg_pos c)).
      * apply (IH HF' _ _ _ _ _ H).
      * destruct (tidx <=? t0 (seg_pos c)); [|discriminate].
        destruct (dpatches tf c) as [dc|] eqn:Ec; [|discriminate].
        destruct (dloop (dpatches tf) p l k (s1 (seg_pos c)) (t1 (seg_pos c)) []) as [dl'|] eqn:El; [|discriminate].
        injection H as <-. rewrite !map_app. rewrite (Hc _ eq_refl). rewrite (IH HF' _ _ _ _ _ El).
        destruct ((tidx <? t0 (seg_pos c)) || negb (is_empty buf)); reflexivity.
Qed.

Theorem dpatches_erase : forall tf s ds, dpatches tf s = Some ds -> map spatch ds = iter_patches tf s.
Proof.
  intros tf. induction s as [b r p | b p sfx cs IH] using seg_ind'; intros ds H.
  - cbn [dpatches iter_patches] in *. destruct (negb (t0 p <=? t1 p)); [discriminate|].
    destruct (str_eqb r (sub (tpl tf) (t0 p) (t1 p))); [injection H as <-; reflexivity|].
    destruct (is_literal (rawsl tf) (s0 p) (s1 p)); [injection H as <-; reflexivity|discriminate].
  - rewrite dpatches_node in H. rewrite iter_patches_node.
    destruct (t0 p <=? t1 p); cbn [negb orb] in H; [|discriminate].
    destruct sfx as [|x sfx]; cbn [is_empty negb] in H; [|discriminate].
    destruct (str_eqb (flat_map raw cs) (sub (tpl tf) (t0 p) (t1 p))); [injection H as <-; reflexivity|].
    destruct (is_literal (rawsl tf) (s0 p) (s1 p)); [injection H as <-; reflexivity|].
    destruct cs as [|c cs]; [discriminate|].
    apply (dloop_erase tf p (c :: cs) IH _ _ _ _ _ H).
Qed.

(** * The templated side *)
Fixpoint tch (lo hi : N) (ds : list dpatch) : Prop :=
  match ds with
  | [] => lo <= hi
  | d :: ds' => lo <= du d /\ du d <= dv d /\ tch (dv d) hi ds'
  end.

Lemma tch_le : forall ds lo hi, tch lo hi ds -> lo <= hi.
Proof.
  induction ds as [|d ds IH]; intros lo hi H; cbn [tch] in H; [exact H|].
  destruct H as (H1 & H2 & H3). specialize (IH _ _ H3). lia.
Qed.
Lemma tch_weaken : forall ds a b c, a <= b -> tch b c ds -> tch a c ds.
Proof. destruct ds as [|d ds]; intros a b c Hab H; cbn [tch] in *; [lia|]. destruct H as (H1 & H2). split; [lia|exact H2]. Qed.
Lemma tch_app : forall d1 d2 a b c, tch a b d1 -> tch b c d2 -> tch a c (d1 ++ d2).
Proof.
  induction d1 as [|d d1 IH]; intros d2 a b c H1 H2; cbn [app].
  - cbn [tch] in H1. eapply tch_weaken; eauto.
  - cbn [tch] in *. destruct H1 as (A & B & C). repeat split; try assumption. eapply IH; eauto.
Qed.

Lemma splice_r_len : forall txt ps idx, splice txt idx ps = splice_r txt idx (len txt) ps.
Proof. intros txt. induction ps as [|p ps IH]; intro idx; cbn [splice splice_r]; [reflexivity|]. rewrite IH. reflexivity. Qed.

Lemma splice_r_skip : forall txt ds a b c, a <= b -> tch b c ds ->
  splice_r txt a c (map tpatch ds) = sub txt a b ++ splice_r txt b c (map tpatch ds).
Proof.
  intros txt ds a b c Hab H. destruct ds as [|d ds]; cbn [map splice_r tpatch p_s p_e p_raw tch] in *.
  - rewrite sub_app by assumption. reflexivity.
  - destruct H as (H1 & _). rewrite (app_assoc (sub txt a b)). rewrite sub_app by assumption. reflexivity.
Qed.

Lemma splice_r_app : forall txt d1 d2 a b c, tch a b d1 -> tch b c d2 ->
  splice_r txt a c (map tpatch (d1 ++ d2)) =
  splice_r txt a b (map tpatch d1) ++ splice_r txt b c (map tpatch d2).
Proof.
  intros txt. induction d1 as [|d d1 IH]; intros d2 a b c H1 H2; cbn [app map splice_r tpatch p_s p_e p_raw].
  - cbn [tch] in H1. apply splice_r_skip; assumption.
  - cbn [tch] in H1. destruct H1 as (A & B & C). rewrite (IH d2 _ b c C H2). rewrite <- !app_assoc. reflexivity.
Qed.

Lemma flat_map_raw_empty : forall l, forallb (fun c => is_empty (raw c)) l = true -> flat_map raw l = [].
Proof.
  induction l as [|c l IH]; intro H; [reflexivity|]. cbn [forallb flat_map] in *.
  apply andb_true_iff in H. destruct H as [H1 H2]. rewrite (IH H2).
  destruct (raw c); [reflexivity|discriminate].
Qed.

Definition T_ok (tf : tfile) (c : seg) : Prop :=
  forall ds, dpatches tf c = Some ds ->
    tch (t0 (seg_pos c)) (t1 (seg_pos c)) ds /\
    splice_r (tpl tf) (t0 (seg_pos c)) (t1 (seg_pos c)) (map tpatch ds) = raw c.

Lemma tail_T : forall txt p sidx tidx buf, tidx <= t1 p ->
  tch tidx (t1 p) (tail_d p sidx tidx buf) /\
  splice_r txt tidx (t1 p) (map tpatch (tail_d p sidx tidx buf)) = buf.
Proof.
  intros txt p sidx tidx buf Hle. unfold tail_d.
  destruct (negb (t1 p =? tidx) || negb (is_empty buf)) eqn:G.
  - cbn [tch map splice_r tpatch du dv dr p_s p_e p_raw]. split; [lia|].
    rewrite !sub_nil by lia. cbn [app]. apply app_nil_r.
  - apply orb_false_iff in G. destruct G as [G1 G2]. apply negb_false_iff in G1, G2.
    apply N.eqb_eq in G1. destruct buf; [|discriminate].
    cbn [tch map splice_r]. split; [lia|]. apply sub_nil. lia.
Qed.

Lemma dloop_T : forall tf p l, Forall (T_ok tf) l ->
  forall k sidx tidx buf dl,
    dloop (dpatches tf) p l k sidx tidx buf = Some dl ->
    tch tidx (t1 p) dl /\
    splice_r (tpl tf) tidx (t1 p) (map tpatch dl) = buf ++ flat_map raw l.
Proof.
  intros tf p. induction l as [|c l IH]; intros HF k sidx tidx buf dl H.
  - cbn [dloop flat_map] in *. destruct (tidx <=? t1 p) eqn:E; [|discriminate]. injection H as <-.
    apply N.leb_le in E. rewrite app_nil_r. apply tail_T; assumption.
  - inversion HF as [|? ? Hc HF']; subst. cbn [dloop] in H. destruct k as [|k].
    + destruct (tidx <=? t1 p) eqn:E; cbn [andb] in H; [|discriminate].
      destruct (forallb (fun c0 => is_empty (raw c0)) (c :: l)) eqn:F; [|discriminate].
      injection H as <-. apply N.leb_le in E. rewrite (flat_map_raw_empty _ F), app_nil_r.
      apply tail_T; assumption.
    + cbv zeta in H. cbn [flat_map]. destruct (negb (is_empty (raw c)) && is_point (seg_pos c)).
      * destruct (IH HF' _ _ _ _ _ H) as [A B]. split; [exact A|]. rewrite B. rewrite app_assoc. reflexivity.
      * destruct (tidx <=? t0 (seg_pos c)) eqn:E; [|discriminate]. apply N.leb_le in E.
        destruct (dpatches tf c) as [dc|] eqn:Ec; [|discriminate].
        destruct (dloop (dpatches tf) p l k (s1 (seg_pos c)) (t1 (seg_pos c)) []) as [dl'|] eqn:El; [|discriminate].
        injection H as <-.
        destruct (Hc _ Ec) as [C1 C2]. destruct (IH HF' _ _ _ _ _ El) as [L1 L2]. cbn [app] in L2.
        assert (CL : tch (t0 (seg_pos c)) (t1 p) (dc ++ dl')) by (eapply tch_app; eauto).
        assert (SL : splice_r (tpl tf) (t0 (seg_pos c)) (t1 p) (map tpatch (dc ++ dl')) = raw c ++ flat_map raw l).
        { rewrite (splice_r_app _ _ _ _ _ _ C1 L1). rewrite C2, L2. reflexivity. }
        destruct ((tidx <? t0 (seg_pos c)) || negb (is_empty buf)) eqn:G.
        -- cbn [app tch map splice_r tpatch du dv dr p_s p_e p_raw]. split; [repeat split; try lia; exact CL|].
           rewrite sub_nil by lia. cbn [app]. fold (map tpatch (dc ++ dl')). rewrite SL. reflexivity.
        -- apply orb_false_iff in G. destruct G as [G1 G2]. apply negb_false_iff in G2.
           apply N.ltb_ge in G1. assert (G3 : t0 (seg_pos c) = tidx) by lia.
           destruct buf; [|discriminate]. cbn [app]. rewrite <- G3. split; assumption.
Qed.

Theorem dpatches_T : forall tf s, T_ok tf s.
Proof.
  intros tf. induction s as [b r p | b p sfx cs IH] using seg_ind'; intros ds H.
  - cbn [dpatches seg_pos raw] in *. destruct (t0 p <=? t1 p) eqn:E; cbn [negb] in H; [|discriminate].
    apply N.leb_le in E.
    destruct (str_eqb r (sub (tpl tf) (t0 p) (t1 p))) eqn:U.
    + injection H as <-. apply str_eqb_eq in U. cbn [tch map splice_r]. split; [exact E|symmetry; exact U].
    + destruct (is_literal (rawsl tf) (s0 p) (s1 p)); [|discriminate]. injection H as <-.
      cbn [tch map splice_r tpatch du dv dr p_s p_e p_raw]. split; [lia|].
      rewrite !sub_nil by lia. cbn [app]. apply app_nil_r.
  - rewrite dpatches_node in H. cbn [seg_pos raw].
    destruct (t0 p <=? t1 p) eqn:E; cbn [negb orb] in H; [|discriminate]. apply N.leb_le in E.
    destruct sfx as [|x sfx]; cbn [is_empty negb] in H; [|discriminate].
    destruct (str_eqb (flat_map raw cs) (sub (tpl tf) (t0 p) (t1 p))) eqn:U.
    + injection H as <-. apply str_eqb_eq in U. cbn [tch map splice_r]. split; [exact E|symmetry; exact U].
    + destruct (is_literal (rawsl tf) (s0 p) (s1 p)).
      * injection H as <-. cbn [tch map splice_r tpatch du dv dr p_s p_e p_raw]. split; [lia|].
        rewrite !sub_nil by lia. cbn [app]. apply app_nil_r.
      * destruct cs as [|c cs]; [discriminate|].
        destruct (dloop_T tf p (c :: cs) IH _ _ _ _ _ H) as [A B]. split; [exact A|]. rewrite B. reflexivity.
Qed.

(** * Assembly *)
Lemma sdb_sd : forall ps idx, sdb idx ps = true -> sd idx ps.
Proof.
  induction ps as [|p ps IH]; intros idx H; [exact I|]. cbn [sdb sd] in *.
  repeat (apply andb_true_iff in H; destruct H as [H ?]).
  apply N.leb_le in H, H2. split; [exact H|]. split; [exact H2|]. split; [|apply IH; assumption].
  intros q Hq Heq. apply negb_true_iff in H1.
  assert (M : mem_key (p_key p) (map p_key ps) = true).
  { apply mem_key_In. rewrite <- Heq. apply in_map. exact Hq. }
  congruence.
Qed.

Lemma sd_tch_dchain : forall ds a u hi, sd a (map spatch ds) -> tch u hi ds -> dchain a u ds.
Proof.
  induction ds as [|d ds IH]; intros a u hi H1 H2; [exact I|].
  cbn [map sd spatch p_s p_e tch dchain] in *.
  destruct H1 as (A & B & _ & C). destruct H2 as (D & E & F).
  repeat split; try assumption. eapply IH; eauto.
Qed.

Lemma forallb_aligned_al : forall sl ds, forallb (aligned 0 0 sl) ds = true -> Forall (al 0 0 sl) ds.
Proof.
  intros sl ds H. apply Forall_forall. intros d Hd. rewrite forallb_forall in H. apply aligned_al. apply H. exact Hd.
Qed.

(** The templated clause of C04 about the model: for every templated file whose slices tile the
    source and the templated text (what C15_render_tiling proves of the placeholder templater) and
    every final tree with [tree_ok], the text that fix writes is some literal pieces woven around
    the placeholders' own source texts - all of them, byte-identical, in order -, and the tree's raw
    is the same literal pieces woven around the placeholders' renderings, i.e. the fixed source
    re-rendered. *)
Theorem templated_fixed_text : forall tf sl t,
  TP.tiling (src tf) (tpl tf) sl 0 0 -> tree_ok tf sl t = true ->
  exists lits, length lits = S (length (phs tf sl)) /\
    fixed_text tf t = weave lits (phs tf sl) /\
    raw t = render tf sl lits.
Proof.
  intros tf sl t Ht Hok. unfold tree_ok in Hok.
  destruct (dpatches tf t) as [ds|] eqn:Ed; [|discriminate].
  repeat (apply andb_true_iff in Hok; destruct Hok as [Hok ?]).
  apply N.eqb_eq in Hok, H1.
  pose proof (sdb_sd _ _ H0) as Hsd.
  destruct (dpatches_T tf t ds Ed) as [Tc Ts].
  rewrite Hok, H1 in Tc, Ts.
  destruct (weave_patches (src tf) (tpl tf) sl ds) as [lits [Hl [Hx Hy]]].
  - apply tiling_tl. exact Ht.
  - eapply sd_tch_dchain; eauto.
  - apply forallb_aligned_al. exact H.
  - exists lits. unfold phs, rds, render, rds. rewrite map_length. split; [exact Hl|]. split.
    + unfold fixed_text. rewrite <- (dpatches_erase _ _ _ Ed). rewrite fix_string_sorted by exact Hsd. exact Hx.
    + rewrite <- Ts. rewrite <- splice_r_len. exact Hy.
Qed.

(** The same with the decidable tiling check (what the correspondence stage evaluates). *)
Corollary templated_fixed_text_b : forall tf sl t,
  tilingb (src tf) (tpl tf) sl 0 0 = true -> tree_ok tf sl t = true ->
  exists lits, length lits = S (length (phs tf sl)) /\
    fixed_text tf t = weave lits (phs tf sl) /\
    raw t = render tf sl lits.
Proof.
  intros tf sl t Ht Hok. unfold tree_ok in Hok.
  destruct (dpatches tf t) as [ds|] eqn:Ed; [|discriminate].
  repeat (apply andb_true_iff in Hok; destruct Hok as [Hok ?]).
  apply N.eqb_eq in Hok, H1.
  pose proof (sdb_sd _ _ H0) as Hsd.
  destruct (dpatches_T tf t ds Ed) as [Tc Ts].
  rewrite Hok, H1 in Tc, Ts.
  destruct (weave_patches (src tf) (tpl tf) sl ds) as [lits [Hl [Hx Hy]]].
  - apply tilingb_tl. exact Ht.
  - eapply sd_tch_dchain; eauto.
  - apply forallb_aligned_al. exact H.
  - exists lits. unfold phs, rds, render, rds. rewrite map_length. split; [exact Hl|]. split.
    + unfold fixed_text. rewrite <- (dpatches_erase _ _ _ Ed). rewrite fix_string_sorted by exact Hsd. exact Hx.
    + rewrite <- Ts. rewrite <- splice_r_len. exact Hy.
Qed.

(** * Non-vacuity *)
(** "sel  :x ,b\n" with x = 123 renders "sel  123 ,b\n". The final tree reads "SEL 123, b\n": keyword
    capitalised, the double blank replaced by one, the blank before the comma deleted (a gap patch of the
    non-literal branch), a blank inserted after the comma (an inserted point segment, carried by the next gap
    patch). *)
Definition ex_t_src : str := [115;101;108;32;32;58;120;32;44;98;10].
Definition ex_t_tpl : str := [115;101;108;32;32;49;50;51;32;44;98;10].
Definition ex_t_tf : tfile := mkTf ex_t_src ex_t_tpl [(0, true); (5, false); (7, true)].
Definition ex_t_sl : list TM.tslice :=
  [TM.mk_ts TM.SLit 0 5 0 5; TM.mk_ts TM.STempl 5 7 5 8; TM.mk_ts TM.SLit 7 11 8 12].
Definition ex_t_tree : seg :=
  Node false (mkPos 0 11 0 12) []
    [Leaf false [83;69;76] (mkPos 0 3 0 3); Leaf false [32] (mkPos 3 5 3 5);
     Leaf false [49;50;51] (mkPos 5 7 5 8); Leaf false [44] (mkPos 8 9 9 10);
     Leaf false [32] (mkPos 9 9 10 10); Leaf false [98] (mkPos 9 10 10 11);
     Leaf false [10] (mkPos 10 11 11 12); Leaf true [] (mkPos 11 11 12 12)].
Example ex_templated :
  TP.tiling (src ex_t_tf) (tpl ex_t_tf) ex_t_sl 0 0 /\ tree_ok ex_t_tf ex_t_sl ex_t_tree = true /\
  iter_patches ex_t_tf ex_t_tree =
    [mkPatch 0 3 [83;69;76]; mkPatch 3 5 [32]; mkPatch 7 8 []; mkPatch 9 9 [32]] /\
  phs ex_t_tf ex_t_sl = [[58;120]] /\ rds ex_t_tf ex_t_sl = [[49;50;51]] /\
  fixed_text ex_t_tf ex_t_tree = weave [[83;69;76;32]; [44;32;98;10]] (phs ex_t_tf ex_t_sl) /\
  raw ex_t_tree = render ex_t_tf ex_t_sl [[83;69;76;32]; [44;32;98;10]].
Proof.
  split.
  - cbn. repeat split; try lia; try (left; reflexivity); try (right; reflexivity); try discriminate.
  - repeat split; vm_compute; reflexivity.
Qed.

(** [tree_ok] rejects the recorded defect classes. "a :n;" with n empty renders "a ;"; a tree that lost the
    blank yields the gap patch 1..4 := "" which swallows the placeholder: not aligned with a literal slice. *)
Example ex_tree_ok_rejects_swallow :
  let tf := mkTf [97;32;58;110;59] [97;32;59] [(0, true); (2, false); (4, true)] in
  let sl := [TM.mk_ts TM.SLit 0 2 0 2; TM.mk_ts TM.STempl 2 4 2 2; TM.mk_ts TM.SLit 4 5 2 3] in
  let t := Node false (mkPos 0 5 0 3) [] [Leaf false [97] (mkPos 0 1 0 1); Leaf false [59] (mkPos 4 5 2 3); Leaf true [] (mkPos 5 5 3 3)] in
  tilingb (src tf) (tpl tf) sl 0 0 = true /\ iter_patches tf t = [mkPatch 1 4 []] /\ tree_ok tf sl t = false /\
  fixed_text tf t = [97;59].
Proof. repeat split; vm_compute; reflexivity. Qed.

(** a changed token inside a placeholder's rendering (the conflict filter failed): [iter_patches] drops the
    edit silently, the walk answers [None] *)
Example ex_tree_ok_rejects_templated_edit :
  let t := Node false (mkPos 0 11 0 12) []
    [Leaf false [115;101;108] (mkPos 0 3 0 3); Leaf false [32;32] (mkPos 3 5 3 5);
     Leaf false [49;50;52] (mkPos 5 7 5 8); Leaf false [32] (mkPos 7 8 8 9); Leaf false [44] (mkPos 8 9 9 10);
     Leaf false [98] (mkPos 9 10 10 11); Leaf false [10] (mkPos 10 11 11 12); Leaf true [] (mkPos 11 11 12 12)] in
  dpatches ex_t_tf t = None /\ tree_ok ex_t_tf ex_t_sl t = false /\ iter_patches ex_t_tf t = [].
Proof. repeat split; vm_compute; reflexivity. Qed.
