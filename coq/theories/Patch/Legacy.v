(** The patch pipeline as it was before the repair (fixed: see known_findings.txt):
    [FixPatch::dedupe_tuple] was the source slice alone and [build_up_fixed_source_string] looked a
    region up among ALL patches. Kept as documentation: the specification still holds for
    well-formed ranges ([fix_string_legacy_spec]), but two different insertions at one source
    position lose the second one ([legacy_refuted]). *)
From Coq Require Import Permutation.
From Sq Require Import Patch.Model.

Definition mem_slice_legacy (x : slice) (l : list slice) : bool := existsb (slice_eqb x) l.
(** [generate_source_patches_legacy]: keep the first patch of every [source_slice]
    ([dedupe_tuple] is the source slice), then a stable sort by [source_slice.start]. *)
Fixpoint dedupe_legacy (seen : list slice) (ps : list patch) : list patch :=
  match ps with
  | [] => []
  | p :: ps' =>
      if mem_slice_legacy (p_slice p) seen then dedupe_legacy seen ps'
      else p :: dedupe_legacy (p_slice p :: seen) ps'
  end.
Definition generate_source_patches_legacy (ps : list patch) : list patch :=
  sort_by_start (dedupe_legacy [] ps).

(** [build_up_fixed_source_string]: a region is patched by the FIRST patch whose
    source slice EQUALS the region. *)
Fixpoint find_patch_legacy (r : slice) (ps : list patch) : option patch :=
  match ps with
  | [] => None
  | p :: ps' => if slice_eqb (p_slice p) r then Some p else find_patch_legacy r ps'
  end.
Definition region_text_legacy (src : str) (ps : list patch) (r : slice) : str :=
  match find_patch_legacy r ps with
  | Some p => p_raw p
  | None => sub src (fst r) (snd r)
  end.
Definition build_legacy (regions : list slice) (ps : list patch) (src : str) : str :=
  flat_map (region_text_legacy src ps) regions.

Definition fix_string_so_legacy (src : str) (so : list slice) (ps : list patch) : str :=
  let f := generate_source_patches_legacy ps in
  build_legacy (slice_loop f so 0 (len src)) f src.
(** the raw and placeholder templaters never produce source-only slices *)
Definition fix_string_legacy (src : str) (ps : list patch) : str := fix_string_so_legacy src [] ps.

Definition normalise_legacy (ps : list patch) : list patch := drop_overlap 0 (generate_source_patches_legacy ps).

Arguments N.add : simpl never.
Arguments N.sub : simpl never.
Arguments N.eqb : simpl never.
Arguments N.ltb : simpl never.
Arguments N.leb : simpl never.

(** * Basics *)
Lemma str_eqb_eq_L : forall a b, str_eqb a b = true <-> a = b.
Proof.
  induction a as [|x a IH]; destruct b as [|y b]; cbn [str_eqb]; split; intro H;
    try reflexivity; try discriminate.
  - apply andb_true_iff in H. destruct H as [H1 H2]. apply N.eqb_eq in H1. apply IH in H2. congruence.
  - inversion H; subst. apply andb_true_iff. split; [apply N.eqb_refl | apply IH; reflexivity].
Qed.

Lemma slice_eqb_eq_L : forall a b, slice_eqb a b = true <-> a = b.
Proof.
  intros [a1 a2] [b1 b2]. unfold slice_eqb. cbn [fst snd]. rewrite andb_true_iff, !N.eqb_eq.
  split; [intros [? ?]; congruence | intro H; inversion H; auto].
Qed.
Lemma slice_eqb_refl_L : forall a, slice_eqb a a = true.
Proof. intro a. apply slice_eqb_eq_L. reflexivity. Qed.
Lemma slice_eqb_neq_L : forall a b, slice_eqb a b = false <-> a <> b.
Proof.
  intros a b. split.
  - intros H E. apply slice_eqb_eq_L in E. congruence.
  - intro H. destruct (slice_eqb a b) eqn:E; [apply slice_eqb_eq_L in E; contradiction | reflexivity].
Qed.

Lemma mem_slice_In_L : forall x l, mem_slice_legacy x l = true <-> In x l.
Proof.
  intros x l. unfold mem_slice_legacy. rewrite existsb_exists. split.
  - intros [y [Hy E]]. apply slice_eqb_eq_L in E. subst. exact Hy.
  - intro H. exists x. split; [exact H | apply slice_eqb_refl_L].
Qed.

(** * [sub] *)
Lemma firstn_firstn_skipn_L : forall {A} (n m : nat) (l : list A),
  firstn n l ++ firstn m (skipn n l) = firstn (n + m) l.
Proof.
  induction n as [|n IH]; intros m l; cbn [firstn skipn plus app].
  - reflexivity.
  - destruct l as [|x l]; cbn [firstn skipn app].
    + rewrite firstn_nil. reflexivity.
    + rewrite IH. reflexivity.
Qed.
Lemma skipn_skipn_add_L : forall {A} (n m : nat) (l : list A), skipn m (skipn n l) = skipn (n + m) l.
Proof.
  induction n as [|n IH]; intros m l; cbn [skipn plus].
  - reflexivity.
  - destruct l as [|x l]; cbn [skipn]; [apply skipn_nil | apply IH].
Qed.

Lemma sub_app_L : forall s a b c, a <= b -> b <= c -> sub s a b ++ sub s b c = sub s a c.
Proof.
  intros s a b c Hab Hbc. unfold sub.
  replace (N.to_nat b) with (N.to_nat a + N.to_nat (b - a))%nat by lia.
  rewrite <- skipn_skipn_add_L. rewrite firstn_firstn_skipn_L. f_equal. lia.
Qed.
Lemma sub_nil_L : forall s a b, b <= a -> sub s a b = [].
Proof. intros s a b H. unfold sub. replace (b - a) with 0 by lia. reflexivity. Qed.
Lemma sub_full_L : forall s, sub s 0 (len s) = s.
Proof.
  intro s. unfold sub, len. cbn [N.to_nat skipn]. rewrite N.sub_0_r, Nnat.Nat2N.id. apply firstn_all.
Qed.

(** * dedupe_legacy / sort *)
Lemma dedupe_props_L : forall ps seen,
  NoDup (map p_slice (dedupe_legacy seen ps)) /\
  (forall p, In p (dedupe_legacy seen ps) -> In p ps /\ ~ In (p_slice p) seen).
Proof.
  induction ps as [|p ps IH]; intro seen; cbn [dedupe_legacy].
  - split; [constructor | intros ? []].
  - destruct (mem_slice_legacy (p_slice p) seen) eqn:E.
    + destruct (IH seen) as [H1 H2]. split; [exact H1|].
      intros q Hq. destruct (H2 q Hq). split; [right|]; assumption.
    + destruct (IH (p_slice p :: seen)) as [H1 H2]. split.
      * cbn [map]. constructor; [|exact H1]. intro Hin. apply in_map_iff in Hin.
        destruct Hin as [q [Eq Hq]]. destruct (H2 q Hq) as [_ Hn]. apply Hn. left. congruence.
      * intros q [Hq|Hq].
        -- subst q. split; [left; reflexivity|]. intro Hin. apply mem_slice_In_L in Hin. congruence.
        -- destruct (H2 q Hq) as [Ha Hb]. split; [right; exact Ha|]. intro Hin. apply Hb. right. exact Hin.
Qed.

Lemma insert_perm_L : forall p l, Permutation (insert_by_start p l) (p :: l).
Proof.
  intros p l. induction l as [|q l IH]; cbn [insert_by_start].
  - apply Permutation_refl.
  - destruct (p_s p <=? p_s q); [apply Permutation_refl|].
    eapply Permutation_trans; [apply perm_skip; exact IH | apply perm_swap].
Qed.
Lemma sort_perm_L : forall ps, Permutation (sort_by_start ps) ps.
Proof.
  induction ps as [|p ps IH]; cbn [sort_by_start]; [constructor|].
  eapply Permutation_trans; [apply insert_perm_L | apply perm_skip; exact IH].
Qed.

Fixpoint ssorted_L (l : list patch) : Prop :=
  match l with
  | [] => True
  | p :: l' => (forall q, In q l' -> p_s p <= p_s q) /\ ssorted_L l'
  end.
Lemma insert_sorted_L : forall p l, ssorted_L l -> ssorted_L (insert_by_start p l).
Proof.
  intros p l. induction l as [|q l IH]; intro Hs; cbn [insert_by_start].
  - cbn. split; [intros ? []|exact I].
  - destruct Hs as [Hq Hl]. destruct (p_s p <=? p_s q) eqn:E.
    + apply N.leb_le in E. cbn [ssorted_L]. split; [|split; assumption].
      intros r [Hr|Hr]; [subst; exact E | specialize (Hq r Hr); lia].
    + apply N.leb_gt in E. cbn [ssorted_L]. split; [|apply IH; exact Hl].
      intros r Hr. apply (Permutation_in _ (insert_perm_L p l)) in Hr.
      destruct Hr as [Hr|Hr]; [subst; lia | apply Hq; exact Hr].
Qed.
Lemma sort_sorted_L : forall ps, ssorted_L (sort_by_start ps).
Proof. induction ps as [|p ps IH]; cbn [sort_by_start]; [exact I | apply insert_sorted_L; exact IH]. Qed.

Lemma find_patch_unique_L : forall all p,
  NoDup (map p_slice all) -> In p all -> find_patch_legacy (p_slice p) all = Some p.
Proof.
  induction all as [|q all IH]; intros p Hnd Hin; [destruct Hin|].
  cbn [find_patch_legacy]. cbn [map] in Hnd. inversion Hnd as [|? ? Hnot Hnd']; subst.
  destruct Hin as [Hin|Hin].
  - subst q. rewrite slice_eqb_refl_L. reflexivity.
  - destruct (slice_eqb (p_slice q) (p_slice p)) eqn:E.
    + apply slice_eqb_eq_L in E. exfalso. apply Hnot. rewrite E. apply in_map. exact Hin.
    + apply IH; assumption.
Qed.
Lemma find_patch_none_L : forall all r,
  (forall q, In q all -> p_slice q <> r) -> find_patch_legacy r all = None.
Proof.
  induction all as [|q all IH]; intros r H; cbn [find_patch_legacy]; [reflexivity|].
  destruct (slice_eqb (p_slice q) r) eqn:E.
  - apply slice_eqb_eq_L in E. exfalso. apply (H q); [left; reflexivity | exact E].
  - apply IH. intros q' Hq'. apply H. right. exact Hq'.
Qed.

(** * The slicing loop followed by the build_legacy loop is [splice] of the non-overlapping patches *)
Lemma build_app_L : forall a b ps src, build_legacy (a ++ b) ps src = build_legacy a ps src ++ build_legacy b ps src.
Proof. intros. unfold build_legacy. apply flat_map_app. Qed.

Lemma slice_loop_nil_so_L : forall p ps idx n,
  slice_loop (p :: ps) [] idx n =
  (if idx <? p_s p then [(idx, p_s p)] else []) ++
  (if p_s p <? idx then slice_loop ps [] idx n else p_slice p :: slice_loop ps [] (p_e p) n).
Proof. intros. cbn [slice_loop pop_so app]. destruct (p_s p <? idx); reflexivity. Qed.

Lemma build_loop_L : forall all src,
  NoDup (map p_slice all) -> (forall p, In p all -> p_s p <= p_e p) ->
  forall rest pre idx, all = pre ++ rest -> ssorted_L rest ->
    (forall q, In q pre -> p_s q < idx \/ p_e q <= idx) ->
    build_legacy (slice_loop rest [] idx (len src)) all src = splice src idx (drop_overlap idx rest).
Proof.
  intros all src Hnd Hwf. induction rest as [|p rest IH]; intros pre idx Hall Hs Hpre.
  - rewrite app_nil_r in Hall. subst pre. cbn [slice_loop drop_overlap splice].
    destruct (idx <? len src) eqn:E.
    + apply N.ltb_lt in E. unfold build_legacy. cbn [flat_map]. rewrite app_nil_r. unfold region_text_legacy.
      rewrite find_patch_none_L; [reflexivity|].
      intros q Hq Heq. unfold p_slice in Heq. inversion Heq. destruct (Hpre q Hq); lia.
    + apply N.ltb_ge in E. rewrite sub_nil_L by exact E. reflexivity.
  - rewrite slice_loop_nil_so_L. rewrite build_app_L. destruct Hs as [Hhead Hs].
    assert (Hp : In p all) by (subst all; apply in_or_app; right; left; reflexivity).
    match goal with |- build_legacy ?g all src ++ _ = _ =>
      assert (Hgap : build_legacy g all src = sub src idx (p_s p)) end.
    { destruct (idx <? p_s p) eqn:E.
      - apply N.ltb_lt in E. unfold build_legacy. cbn [flat_map]. rewrite app_nil_r. unfold region_text_legacy.
        rewrite find_patch_none_L; [reflexivity|].
        intros q Hq Heq. unfold p_slice in Heq. inversion Heq. subst all.
        apply in_app_or in Hq. destruct Hq as [Hq|[Hq|Hq]].
        + destruct (Hpre q Hq); lia.
        + subst q. lia.
        + specialize (Hhead q Hq). lia.
      - apply N.ltb_ge in E. rewrite sub_nil_L by exact E. reflexivity. }
    rewrite Hgap. cbn [drop_overlap]. destruct (p_s p <? idx) eqn:E.
    + apply N.ltb_lt in E. rewrite sub_nil_L by lia. cbn [app].
      apply (IH (pre ++ [p])); [rewrite <- app_assoc; exact Hall | exact Hs |].
      intros q Hq. apply in_app_or in Hq. destruct Hq as [Hq|[Hq|[]]]; [apply Hpre; exact Hq | subst q; left; exact E].
    + apply N.ltb_ge in E. cbn [splice]. f_equal.
      change (p_slice p :: slice_loop rest [] (p_e p) (len src)) with ([p_slice p] ++ slice_loop rest [] (p_e p) (len src)).
      rewrite build_app_L. f_equal.
      * unfold build_legacy. cbn [flat_map]. rewrite app_nil_r. unfold region_text_legacy.
        rewrite (find_patch_unique_L all p Hnd Hp). reflexivity.
      * apply (IH (pre ++ [p])); [rewrite <- app_assoc; exact Hall | exact Hs |].
        specialize (Hwf p Hp).
        intros q Hq. apply in_app_or in Hq. destruct Hq as [Hq|[Hq|[]]].
        -- destruct (Hpre q Hq); [left|right]; lia.
        -- subst q. right. lia.
Qed.

Definition wf_ranges_L (ps : list patch) : Prop := forall p, In p ps -> p_s p <= p_e p.

Theorem fix_string_spec_L : forall src ps, wf_ranges_L ps ->
  fix_string_legacy src ps = splice src 0 (normalise_legacy ps).
Proof.
  intros src ps Hwf. unfold fix_string_legacy, fix_string_so_legacy, normalise_legacy, generate_source_patches_legacy.
  apply (build_loop_L _ src) with (pre := []).
  - destruct (dedupe_props_L ps []) as [Hnd _].
    eapply Permutation_NoDup; [|exact Hnd]. apply Permutation_map. apply Permutation_sym. apply sort_perm_L.
  - intros p Hp. apply (Permutation_in _ (sort_perm_L _)) in Hp.
    destruct (dedupe_props_L ps []) as [_ H]. apply Hwf. apply (H p Hp).
  - reflexivity.
  - apply sort_sorted_L.
  - intros ? [].
Qed.

(** * Sorted, disjoint, duplicate-free patch lists are applied as they are *)
Fixpoint sd_L (idx : N) (ps : list patch) : Prop :=
  match ps with
  | [] => True
  | p :: ps' => idx <= p_s p /\ p_s p <= p_e p /\ (forall q, In q ps' -> p_slice q <> p_slice p) /\ sd_L (p_e p) ps'
  end.
Definition sorted_disjoint_L (ps : list patch) : Prop := sd_L 0 ps.

Lemma sd_lower_L : forall ps idx, sd_L idx ps -> forall q, In q ps -> idx <= p_s q /\ p_s q <= p_e q.
Proof.
  induction ps as [|p ps IH]; intros idx H q Hq; [destruct Hq|].
  destruct H as [H1 [H2 [_ H4]]]. destruct Hq as [Hq|Hq]; [subst; split; assumption|].
  destruct (IH _ H4 q Hq). split; lia.
Qed.
Lemma sd_weaken_L : forall ps i j, j <= i -> sd_L i ps -> sd_L j ps.
Proof. destruct ps as [|p ps]; intros i j Hji H; [exact I|]. destruct H as [H1 H2]. split; [lia|exact H2]. Qed.

Lemma dedupe_id_L : forall ps idx seen, sd_L idx ps ->
  (forall q, In q ps -> ~ In (p_slice q) seen) -> dedupe_legacy seen ps = ps.
Proof.
  induction ps as [|p ps IH]; intros idx seen H Hseen; [reflexivity|].
  cbn [dedupe_legacy]. destruct (mem_slice_legacy (p_slice p) seen) eqn:E.
  - apply mem_slice_In_L in E. exfalso. apply (Hseen p); [left; reflexivity | exact E].
  - destruct H as [_ [_ [Hnd Hsd]]]. f_equal. apply (IH (p_e p)); [exact Hsd|].
    intros q Hq [Hin|Hin].
    + apply (Hnd q Hq). symmetry. exact Hin.
    + apply (Hseen q); [right; exact Hq | exact Hin].
Qed.
Lemma sort_id_L : forall ps, ssorted_L ps -> sort_by_start ps = ps.
Proof.
  induction ps as [|p ps IH]; intro H; [reflexivity|]. destruct H as [Hh Hs].
  cbn [sort_by_start]. rewrite IH by exact Hs. destruct ps as [|q ps]; [reflexivity|].
  cbn [insert_by_start]. specialize (Hh q (or_introl eq_refl)). apply N.leb_le in Hh. rewrite Hh. reflexivity.
Qed.
Lemma sd_ssorted_L : forall ps idx, sd_L idx ps -> ssorted_L ps.
Proof.
  induction ps as [|p ps IH]; intros idx H; [exact I|]. destruct H as [H1 [H2 [_ H4]]].
  split; [|apply (IH _ H4)]. intros q Hq. destruct (sd_lower_L _ _ H4 q Hq). lia.
Qed.
Lemma drop_overlap_id_L : forall ps idx, sd_L idx ps -> drop_overlap idx ps = ps.
Proof.
  induction ps as [|p ps IH]; intros idx H; [reflexivity|]. destruct H as [H1 [H2 [_ H4]]].
  cbn [drop_overlap]. apply N.ltb_ge in H1. rewrite H1. f_equal. apply IH. exact H4.
Qed.

Theorem normalise_id_L : forall ps, sorted_disjoint_L ps -> normalise_legacy ps = ps.
Proof.
  intros ps H. unfold normalise_legacy, generate_source_patches_legacy.
  rewrite (dedupe_id_L ps 0 [] H) by (intros ? ? []).
  rewrite sort_id_L by (apply (sd_ssorted_L _ _ H)). apply drop_overlap_id_L. exact H.
Qed.

Lemma sd_wf_L : forall ps idx, sd_L idx ps -> wf_ranges_L ps.
Proof. intros ps idx H p Hp. apply (sd_lower_L _ _ H p Hp). Qed.

Corollary fix_string_sorted_L : forall src ps, sorted_disjoint_L ps -> fix_string_legacy src ps = splice src 0 ps.
Proof.
  intros src ps H. rewrite fix_string_spec_L by (apply (sd_wf_L _ _ H)). rewrite normalise_id_L by exact H. reflexivity.
Qed.


(** the defect: two different insertions at the same source position *)
Definition legacy_witness : list patch := [mkPatch 1 1 [65]; mkPatch 1 1 [66]].
Lemma legacy_refuted :
  exists src ps, sorted_chain ps /\ fix_string_legacy src ps <> splice src 0 ps.
Proof.
  exists [97; 98], legacy_witness. split.
  - unfold sorted_chain, legacy_witness. cbn. repeat split; lia.
  - cbv. discriminate.
Qed.

(** * [iter_patches] before the repair of the gap test
    [let start_diff = pos_marker.templated_slice.start - templated_idx; if start_diff > 0 || ..] on [usize]:
    a build without overflow checks wraps, so the test is [start <> templated_idx] (this definition); a build
    with overflow checks panics as soon as a child starts before the running index. *)
Fixpoint iter_patches_legacy (tf : tfile) (s : seg) : list patch :=
  match s with
  | Leaf _ r p =>
      if str_eqb r (sub (tpl tf) (t0 p) (t1 p)) then []
      else if is_literal (rawsl tf) (s0 p) (s1 p) then [mkPatch (s0 p) (s1 p) r]
      else []
  | Node _ p sfx cs =>
      let r := flat_map raw cs in
      if str_eqb r (sub (tpl tf) (t0 p) (t1 p)) then sfx
      else if is_literal (rawsl tf) (s0 p) (s1 p) then sfx ++ [mkPatch (s0 p) (s1 p) r]
      else
        match cs with
        | [] => []
        | _ =>
          (fix loop (l : list seg) (k : nat) (sidx tidx : N) (buf : str) {struct l} : list patch :=
             match l with
             | c :: l' =>
                 match k with
                 | S k' =>
                     let cp := seg_pos c in
                     if negb (is_empty (raw c)) && is_point cp then
                       loop l' k' sidx tidx (buf ++ raw c)
                     else
                       let fp := first_leaf_pos c in
                       let gap := if negb (t0 cp =? tidx) || negb (is_empty buf)
                                  then [mkPatch sidx (s0 fp) buf] else [] in
                       gap ++ iter_patches_legacy tf c ++ loop l' k' (s1 cp) (t1 cp) []
                 | O =>
                     if negb (t1 p =? tidx) || negb (is_empty buf)
                     then [mkPatch sidx (s1 p) buf] else []
                 end
             | [] =>
                 if negb (t1 p =? tidx) || negb (is_empty buf)
                 then [mkPatch sidx (s1 p) buf] else []
             end) cs (n_keep cs) (s0 p) (t0 p) []
        end
  end.

(** ":x,a" rendered "1,a"; a tree whose children were reordered to "a,1" (a rule moved code backwards under
    an ancestor that holds the placeholder): the second child starts before the running templated index. The
    wrapped subtraction reads that as a gap and emits the patch 4..2 - an inverted source range; the
    comparison emits no gap there and every patch has a well-formed range. *)
Definition w_gap_tf : tfile := mkTf [58;120;44;97] [49;44;97] [(0, true); (0, false); (2, true)].
Definition w_gap_tree : seg :=
  Node false (mkPos 0 4 0 3) []
    [Leaf false [97] (mkPos 3 4 2 3); Leaf false [44] (mkPos 2 3 1 2); Leaf false [49] (mkPos 0 2 0 1)].
Lemma iter_patches_legacy_refuted :
  exists tf t, (exists p, In p (iter_patches_legacy tf t) /\ p_e p < p_s p) /\
               (forall q, In q (iter_patches tf t) -> p_s q <= p_e q).
Proof.
  exists w_gap_tf, w_gap_tree. split.
  - exists (mkPatch 4 2 []). split; [vm_compute; tauto | vm_compute; reflexivity].
  - intros q Hq. vm_compute in Hq.
    repeat (destruct Hq as [<-|Hq]; [vm_compute; discriminate|]). destruct Hq.
Qed.
