(** Grammar graphs of sqruff dialects (C14, also used by C13).

    A dialect, after [Dialect::expand], is a table [library : name -> Matchable]; a [Matchable]
    is an [Arc] to one of 16 node types.  The translator ([sqv c14]) numbers the distinct [Arc]s
    and interns every string (reference names, bracket types, raw keyword strings) so that a
    graph is plain data over [N].  Everything here is executable; nothing is proved in this file.

    Mirrors: crates/lib-core/src/dialects/base.rs ([Dialect::ref], [bracket_sets]),
    parser/grammar/{base,sequence,anyof,delimited}.rs, parser/parsers.rs, node_matcher.rs
    ([simple], [is_optional], what each [match_segments] looks up through [Dialect::ref]). *)
From Coq Require Import FMapPositive.
From Sq Require Import Base.Bytes.

(** node payloads: ids of nodes / interned strings; [greedy] = parse_mode <> Strict *)
Inductive node :=
| NRef (name : N) (excl : option N) (terms : list N) (reset : bool)
| NSeq (elems terms : list N) (greedy : bool)
| NBrack (btype bset : N) (elems terms : list N) (greedy : bool)
| NAnyOf (excl : option N) (elems terms : list N) (greedy : bool)
| NDelim (delim : N) (elems terms : list N)
| NNode (kind : N) (g : N)
| NStr (raws : list N)
| NMulti (raws : list N)
| NTyped (types : list N)
| NRegex | NMeta | NCond
| NAnything (terms : list N)
| NNothing | NNonCode | NBrackSeg.

Definition key (n : N) : positive := N.succ_pos n.
Definition pm_get {A} (m : PositiveMap.t A) (n : N) : option A := PositiveMap.find (key n) m.
Definition pm_of_list {A} (l : list (N * A)) : PositiveMap.t A :=
  fold_left (fun m kv => PositiveMap.add (key (fst kv)) (snd kv) m) l (PositiveMap.empty A).

Definition pset := PositiveMap.t unit.
Definition pset_mem (n : N) (s : pset) : bool := match pm_get s n with Some _ => true | None => false end.
Definition pset_add (n : N) (s : pset) : pset := PositiveMap.add (key n) tt s.
Definition pset_elements (s : pset) : list N := map (fun kv => Pos.pred_N (fst kv)) (PositiveMap.elements s).

Definition bracket_pair := (N * N * N * bool)%type.   (* type, start ref name, end ref name, persists *)

Record graph := {
  g_nodes : PositiveMap.t node;
  g_opts : PositiveMap.t (option bool);      (* what [is_optional()] answers; Some None = it panics (todo!/unimplemented!); absent = false *)
  g_lib : PositiveMap.t N;                   (* interned name -> node id : [Dialect.library] *)
  g_brackets : list (N * list bracket_pair); (* [Dialect.bracket_collections] *)
  g_ids : list N
}.

Definition mk_graph (nodes : list (N * node)) (opts : list (N * option bool)) (library : list (N * N))
           (brackets : list (N * list bracket_pair)) : graph :=
  {| g_nodes := pm_of_list nodes; g_opts := pm_of_list opts; g_lib := pm_of_list library;
     g_brackets := brackets; g_ids := map fst nodes |}.

(** interned names the engine itself uses (the translator pins these ids; checked by [fixed_names_b]) *)
Definition name_FileSegment : N := 0.
Definition name_bracket_pairs : N := 1.

Definition get_node (g : graph) (n : N) : option node := pm_get (g_nodes g) n.
(** [Dialect::ref]: [Some] node or (panic) [None] *)
Definition deref (g : graph) (name : N) : option N := pm_get (g_lib g) name.
(** the table lists only the nodes whose [is_optional()] is [true] or panics; every other node answers [false] *)
Definition get_opt (g : graph) (n : N) : option bool := match pm_get (g_opts g) n with Some o => o | None => Some false end.

Fixpoint mem_N (x : N) (l : list N) : bool := match l with [] => false | y :: l' => (x =? y) || mem_N x l' end.

(** [Dialect::bracket_sets(label)] and the lookup of [Bracketed::get_bracket_from_dialect] *)
Definition bracket_set (g : graph) (label : N) : list bracket_pair :=
  match find (fun p => fst p =? label) (g_brackets g) with Some p => snd p | None => [] end.
Definition bp_type (p : bracket_pair) : N := fst (fst (fst p)).
Definition bp_start (p : bracket_pair) : N := snd (fst (fst p)).
Definition bp_end (p : bracket_pair) : N := snd (fst p).
Definition bracket_lookup (g : graph) (bset btype : N) : option bracket_pair :=
  find (fun p => bp_type p =? btype) (bracket_set g bset).
(** [next_ex_bracket_match] (used by [greedy_match], hence by [Anything] and every greedy
    [Sequence]/[AnyNumberOf]/[Bracketed]) resolves every start and end reference of "bracket_pairs" *)
Definition all_bracket_refs (g : graph) : list N :=
  flat_map (fun p => [bp_start p; bp_end p]) (bracket_set g name_bracket_pairs).

(** names passed to [Dialect::ref] while the interpreter executes this node *)
Definition node_refs (g : graph) (nd : node) : list N :=
  match nd with
  | NRef name _ _ _ => [name]
  | NBrack bt bs _ _ greedy =>
      (match bracket_lookup g bs bt with Some p => [bp_start p; bp_end p] | None => [] end)
      ++ (if greedy then all_bracket_refs g else [])
  | NSeq _ _ true | NAnyOf _ _ _ true | NAnything _ => all_bracket_refs g
  | _ => []
  end.
(** the bracket type of a [Bracketed] exists in its set ([get_bracket_from_dialect(..).unwrap()]) *)
Definition node_bracket_ok (g : graph) (nd : node) : bool :=
  match nd with
  | NBrack bt bs _ _ _ => match bracket_lookup g bs bt with Some _ => true | None => false end
  | _ => true
  end.
Definition opt_list (o : option N) : list N := match o with Some x => [x] | None => [] end.
(** nodes held directly (by [Arc]) in the fields the interpreter uses *)
Definition node_children (nd : node) : list N :=
  match nd with
  | NRef _ excl terms _ => opt_list excl ++ terms
  | NSeq elems terms _ => elems ++ terms
  | NBrack _ _ elems terms _ => elems ++ terms
  | NAnyOf excl elems terms _ => opt_list excl ++ elems ++ terms
  | NDelim d elems terms => d :: elems ++ terms
  | NNode _ gr => [gr]
  | NAnything terms => terms
  | _ => []
  end.

Definition resolved (g : graph) (names : list N) : list N :=
  flat_map (fun nm => opt_list (deref g nm)) names.
Definition succs (g : graph) (n : N) : list N :=
  match get_node g n with
  | None => []
  | Some nd => node_children nd ++ resolved g (node_refs g nd)
  end.

(** fuelled reachability (work-list); the set it returns is only a candidate: [closed_except_b]
    re-checks that it contains the root and is closed under [succs], which is all the soundness
    proof needs *)
Fixpoint bfs (g : graph) (fuel : nat) (work : list N) (seen : pset) : pset :=
  match fuel with
  | O => seen
  | S f =>
      match work with
      | [] => seen
      | n :: w => if pset_mem n seen then bfs g f w seen else bfs g f (succs g n ++ w) (pset_add n seen)
      end
  end.
Definition bfs_fuel (g : graph) : nat :=
  S (fold_left (fun acc n => acc + S (length (succs g n)))%nat (g_ids g) O).
Definition reach (g : graph) : pset :=
  match deref g name_FileSegment with
  | None => PositiveMap.empty unit
  | Some r => bfs g (bfs_fuel g) [r] (PositiveMap.empty unit)
  end.

Definition node_check (g : graph) (K : list N) (R : pset) (n : N) : bool :=
  match get_node g n with
  | None => false
  | Some nd =>
      forallb (fun c => pset_mem c R) (node_children nd)
      && forallb (fun nm => match deref g nm with Some t => pset_mem t R | None => mem_N nm K end) (node_refs g nd)
      && node_bracket_ok g nd
  end.
Definition closed_check (g : graph) (K : list N) (R : pset) : bool :=
  match deref g name_FileSegment with None => false | Some r => pset_mem r R end
  && forallb (node_check g K R) (pset_elements R).
(** closed, except that the names in [K] (known findings) may be missing *)
Definition closed_except_b (g : graph) (K : list N) : bool := closed_check g K (reach g).
Definition closed_b (g : graph) : bool := closed_except_b g [].

(** diagnostics: the dangling names used by nodes of [R] *)
Definition dangling_names (g : graph) (R : pset) : list (N * N) :=
  flat_map (fun n => match get_node g n with
                     | None => [(n, n)]
                     | Some nd => flat_map (fun nm => match deref g nm with Some _ => [] | None => [(n, nm)] end) (node_refs g nd)
                     end) (pset_elements R).

(** a path certificate for one dangling name: root = p0 -> p1 -> ... -> pk, pk uses [nm], [nm] missing *)
Definition is_step_b (g : graph) (a b : N) : bool := mem_N b (succs g a).
Fixpoint path_steps_b (g : graph) (a : N) (rest : list N) : bool :=
  match rest with [] => true | b :: rest' => is_step_b g a b && path_steps_b g b rest' end.
Definition uses_dangling_b (g : graph) (n nm : N) : bool :=
  match get_node g n with
  | Some nd => mem_N nm (node_refs g nd) && match deref g nm with None => true | Some _ => false end
  | None => false
  end.
Definition path_dangling_b (g : graph) (path : list N) (nm : N) : bool :=
  match path with
  | [] => false
  | r :: rest =>
      match deref g name_FileSegment with Some r' => r' =? r | None => false end
      && path_steps_b g r rest && uses_dangling_b g (last path r) nm
  end.

(** ** The first-token hint [Matchable::simple] *)
Definition hint := (list N * list N)%type.        (* upper-case raws (interned), syntax kinds *)
Inductive sres :=
| SFuel                (* the model ran out of fuel: the real recursion would not terminate *)
| SHang                (* a [Ref] is asked again while its own [simple_cache] ([OnceLock::get_or_init]) is being
                          initialised by this very computation: the thread blocks for ever (std: "reentrant
                          initialisation ... the current implementation deadlocks") *)
| SSelfRef             (* panic "Self referential grammar detected" *)
| SDangling            (* panic in [Dialect::ref] *)
| SPanic               (* any other panic: unknown bracket type, [is_optional] of a type that has none *)
| SVal (h : option hint).

Definition hunion (a b : hint) : hint := (fst a ++ fst b, snd a ++ snd b).

(** [Sequence::simple]: accumulate until the first non-optional element; an element that is not
    simple makes the whole sequence not simple *)
Fixpoint seq_simple (rec : N -> sres) (opt : N -> option bool) (elems : list N) (acc : hint) : sres :=
  match elems with
  | [] => SVal (Some acc)
  | e :: es =>
      match rec e with
      | SVal None => SVal None
      | SVal (Some h) =>
          match opt e with
          | None => SPanic
          | Some false => SVal (Some (hunion acc h))
          | Some true => seq_simple rec opt es (hunion acc h)
          end
      | err => err
      end
  end.
(** [anyof::simple] (AnyNumberOf, Delimited): every element is evaluated; any [None] gives [None] *)
Fixpoint any_simple (rec : N -> sres) (elems : list N) : sres :=
  match elems with
  | [] => SVal (Some ([], []))
  | e :: es =>
      match rec e with
      | SVal h =>
          match any_simple rec es with
          | SVal hs => SVal (match h, hs with Some a, Some b => Some (hunion a b) | _, _ => None end)
          | err => err
          end
      | err => err
      end
  end.

(** [busy]: the [Ref] nodes whose [simple_cache.get_or_init] closure is running (the cell is
    entered *before* the crumbs check, base.rs:98-118); [crumbs]: the names on the trail.  The
    value cached in the cell is not modelled: a computation that completes gives the same answer
    whatever the crumbs, and one that panics or blocks leaves the cell uninitialised. *)
Fixpoint simple (g : graph) (fuel : nat) (busy crumbs : list N) (n : N) : sres :=
  match fuel with
  | O => SFuel
  | S f =>
      match get_node g n with
      | None => SPanic
      | Some nd =>
          match nd with
          | NRef name _ _ _ =>
              if mem_N n busy then SHang
              else if mem_N name crumbs then SSelfRef
              else match deref g name with
                   | None => SDangling
                   | Some t => simple g f (n :: busy) (name :: crumbs) t
                   end
          | NSeq elems _ _ => seq_simple (simple g f busy crumbs) (get_opt g) elems ([], [])
          | NAnyOf _ elems _ _ => any_simple (simple g f busy crumbs) elems
          | NDelim _ elems _ => any_simple (simple g f busy crumbs) elems
          | NBrack bt bs _ _ _ =>
              match bracket_lookup g bs bt with
              | None => SPanic
              | Some p =>
                  match deref g (bp_start p), deref g (bp_end p) with
                  | Some st, Some _ => simple g f busy crumbs st
                  | _, _ => SDangling
                  end
              end
          | NNode _ gr => simple g f busy crumbs gr
          | NStr raws => SVal (Some (raws, []))
          | NMulti raws => SVal (Some (raws, []))
          | NTyped ts => SVal (Some ([], ts))
          | _ => SVal None
          end
      end
  end.

(** nodes [simple] may recurse into from [n] (static over-approximation) *)
Fixpoint seq_prefix (opt : N -> option bool) (elems : list N) : list N :=
  match elems with
  | [] => []
  | e :: es => e :: match opt e with Some true => seq_prefix opt es | _ => [] end
  end.
Definition lc_children (g : graph) (n : N) : list N :=
  match get_node g n with
  | None => []
  | Some nd =>
      match nd with
      | NRef name _ _ _ => opt_list (deref g name)
      | NSeq elems _ _ => seq_prefix (get_opt g) elems
      | NAnyOf _ elems _ _ => elems
      | NDelim _ elems _ => elems
      | NBrack bt bs _ _ _ =>
          match bracket_lookup g bs bt with
          | None => []
          | Some p => match deref g (bp_start p), deref g (bp_end p) with Some st, Some _ => [st] | _, _ => [] end
          end
      | NNode _ gr => [gr]
      | _ => []
      end
  end.

Definition mk_ranks (ranks : list (N * N)) : PositiveMap.t N := pm_of_list ranks.
Definition rank_of (rk : PositiveMap.t N) (n : N) : option N := pm_get rk n.
Definition lc_decreases_b (g : graph) (rk : PositiveMap.t N) (n r : N) : bool :=
  forallb (fun c => match rank_of rk c with Some rc => rc <? r | None => false end) (lc_children g n).
(** the certificate: every node of [R] has a rank, and along every left-corner edge out of a
    ranked node the rank strictly decreases *)
Definition rank_ok_b (g : graph) (R : pset) (ranks : list (N * N)) : bool :=
  let rk := mk_ranks ranks in
  forallb (fun n => match rank_of rk n with Some _ => true | None => false end) (pset_elements R)
  && forallb (fun kv => lc_decreases_b g rk (Pos.pred_N (fst kv)) (snd kv)) (PositiveMap.elements rk).
Definition unranked (g : graph) (R : pset) (ranks : list (N * N)) : list N :=
  let rk := mk_ranks ranks in
  filter (fun n => match rank_of rk n with Some _ => false | None => true end) (pset_elements R).

(** the hint computation does not end with an answer or an ordinary panic *)
Definition badb (r : sres) : bool := match r with SFuel | SHang | SSelfRef => true | _ => false end.
Definition sres_code (r : sres) : N :=
  match r with SFuel => 1 | SHang => 2 | SSelfRef => 3 | SDangling => 4 | SPanic => 5 | SVal _ => 0 end.
(** diagnostics: what the model answers for the nodes of [l] whose hint computation is bad
    (1 = out of fuel, 2 = blocks in its own OnceLock, 3 = self-reference panic) *)
Definition hint_failures (g : graph) (fuel : nat) (l : list N) : list (N * N) :=
  flat_map (fun n => let r := simple g fuel [] [] n in if badb r then [(n, sres_code r)] else []) l.

(** a left-corner cycle certificate: c0 -> c1 -> ... -> ck -> c0 along [lc_children] *)
Definition lc_step_b (g : graph) (a b : N) : bool := mem_N b (lc_children g a).
Fixpoint lc_path_b (g : graph) (a : N) (rest : list N) (back : N) : bool :=
  match rest with
  | [] => lc_step_b g a back
  | b :: rest' => lc_step_b g a b && lc_path_b g b rest' back
  end.
Definition lc_cycle_b (g : graph) (cyc : list N) : bool :=
  match cyc with [] => false | c :: rest => lc_path_b g c rest c end.
(** ... whose first node is reached from [FileSegment] along [path] (root first, the node last) *)
Definition reachable_cycle_b (g : graph) (path cyc : list N) : bool :=
  match path, cyc with
  | r :: rest, c :: _ =>
      match deref g name_FileSegment with Some r' => r' =? r | None => false end
      && path_steps_b g r rest && (last path r =? c) && lc_cycle_b g cyc
  | _, _ => false
  end.

(** ** comparison with what the implementation answered (translator fidelity) *)
Definition subset_N (a b : list N) : bool := forallb (fun x => mem_N x b) a.
Definition set_eq_N (a b : list N) : bool := subset_N a b && subset_N b a.
Definition sres_eqb (a b : sres) : bool :=
  match a, b with
  | SFuel, SFuel | SHang, SHang | SSelfRef, SSelfRef | SDangling, SDangling | SPanic, SPanic => true
  | SVal None, SVal None => true
  | SVal (Some x), SVal (Some y) => set_eq_N (fst x) (fst y) && set_eq_N (snd x) (snd y)
  | _, _ => false
  end.
Definition simple_mismatches (g : graph) (fuel : nat) (real : list (N * sres)) : list N :=
  map fst (filter (fun nr => negb (sres_eqb (simple g fuel [] [] (fst nr)) (snd nr))) real).
Definition deref_mismatches (g : graph) (real : list (N * bool)) : list N :=
  map fst (filter (fun nb => negb (Bool.eqb (match deref g (fst nb) with Some _ => true | None => false end) (snd nb))) real).

(** the string table is [(0,s0); (1,s1); ...] with pairwise different strings, and the two pinned
    names are where the model expects them *)
Fixpoint ids_from (k : N) (l : list (N * str)) : bool :=
  match l with [] => true | (i, _) :: l' => (i =? k) && ids_from (k + 1) l' end.
Fixpoint str_ltb (a b : str) : bool :=
  match a, b with
  | _, [] => false
  | [], _ :: _ => true
  | x :: a', y :: b' => (x <? y) || ((x =? y) && str_ltb a' b')
  end.
Fixpoint insert_str (s : str) (l : list str) : list str :=
  match l with [] => [s] | x :: l' => if str_ltb s x then s :: l else x :: insert_str s l' end.
Fixpoint strictly_sorted (l : list str) : bool :=
  match l with
  | [] => true
  | x :: l' => match l' with [] => true | y :: _ => str_ltb x y && strictly_sorted l' end
  end.
Definition s_FileSegment : str := [70;105;108;101;83;101;103;109;101;110;116].
Definition s_bracket_pairs : str := [98;114;97;99;107;101;116;95;112;97;105;114;115].
Definition ids_dense_b (strs : list (N * str)) : bool :=
  ids_from 0 strs
  && match strs with
     | (_, a) :: (_, b) :: _ => str_eqb a s_FileSegment && str_eqb b s_bracket_pairs
     | _ => false
     end.
