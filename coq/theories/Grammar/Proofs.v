(** Proofs about the grammar-graph model (C14): soundness of the closure check, of the
    dangling-path certificate and of the rank certificate for termination of [simple]. *)
From Coq Require Import FMapPositive.
From Sq Require Import Base.Bytes Grammar.Model.

(** ** Semantics: the edges the interpreter can follow *)
Definition step (g : graph) (n m : N) : Prop := In m (succs g n).
Inductive reachable (g : graph) : N -> Prop :=
| reach_root r : deref g name_FileSegment = Some r -> reachable g r
| reach_step n m : reachable g n -> step g n m -> reachable g m.

(** node [n] exists, each name it passes to [Dialect::ref] resolves (or is listed in [K]) and
    its bracket type exists *)
Definition node_ok_except (g : graph) (K : list N) (n : N) : Prop :=
  exists nd, get_node g n = Some nd
    /\ (forall nm, In nm (node_refs g nd) -> (exists t, deref g nm = Some t) \/ In nm K)
    /\ node_bracket_ok g nd = true.
Definition node_ok (g : graph) (n : N) : Prop := node_ok_except g [] n.

Lemma mem_N_In x l : mem_N x l = true <-> In x l.
Proof.
  induction l as [|y l IH]; cbn [mem_N In]; [split; [discriminate|tauto]|].
  rewrite orb_true_iff, N.eqb_eq, IH. split; intros [H|H]; auto.
Qed.

Lemma pset_mem_elements n s : pset_mem n s = true -> In n (pset_elements s).
Proof.
  unfold pset_mem, pm_get. destruct (PositiveMap.find (key n) s) as [u|] eqn:E; [intros _|discriminate].
  apply PositiveMap.elements_correct in E. unfold pset_elements.
  apply in_map_iff. exists (key n, u). split; [cbn [fst]; unfold key; apply N.pos_pred_succ | exact E].
Qed.

Lemma in_resolved g names m : In m (resolved g names) <-> exists nm, In nm names /\ deref g nm = Some m.
Proof.
  unfold resolved. rewrite in_flat_map. split.
  - intros [nm [Hin Hm]]. exists nm. split; [exact Hin|].
    destruct (deref g nm) as [t|]; cbn [opt_list In] in Hm; [destruct Hm as [->|[]]; reflexivity|destruct Hm].
  - intros [nm [Hin Hd]]. exists nm. split; [exact Hin|]. rewrite Hd. cbn. auto.
Qed.

Lemma node_check_succs g K R n :
  node_check g K R n = true -> forall m, In m (succs g n) -> pset_mem m R = true.
Proof.
  unfold node_check, succs. destruct (get_node g n) as [nd|]; [|discriminate].
  rewrite !andb_true_iff, !forallb_forall. intros [[Hc Hr] _] m Hm.
  apply in_app_or in Hm. destruct Hm as [Hm|Hm]; [apply Hc; exact Hm|].
  apply in_resolved in Hm. destruct Hm as [nm [Hin Hd]].
  specialize (Hr nm Hin). rewrite Hd in Hr. exact Hr.
Qed.

Lemma node_check_ok g K R n : node_check g K R n = true -> node_ok_except g K n.
Proof.
  unfold node_check, node_ok_except. destruct (get_node g n) as [nd|]; [|discriminate].
  rewrite !andb_true_iff, !forallb_forall. intros [[_ Hr] Hb]. exists nd. split; [reflexivity|]. split; [|exact Hb].
  intros nm Hin. specialize (Hr nm Hin). destruct (deref g nm) as [t|]; [left; exists t; reflexivity|].
  right. apply mem_N_In. exact Hr.
Qed.

Lemma closed_check_inv g K R :
  closed_check g K R = true -> forall n, reachable g n -> pset_mem n R = true.
Proof.
  unfold closed_check. rewrite andb_true_iff, forallb_forall. intros [Hroot Hall] n Hn.
  induction Hn as [r Hr|n m _ IH Hs].
  - rewrite Hr in Hroot. exact Hroot.
  - apply (node_check_succs g K R n); [apply Hall, pset_mem_elements, IH | exact Hs].
Qed.

(** C14, closure: if the check succeeds, then on every path of edges from [FileSegment] every
    reference resolves (up to the listed names), whatever the SQL that drives the parser there. *)
Theorem closed_except_sound g K :
  closed_except_b g K = true -> forall n, reachable g n -> node_ok_except g K n.
Proof.
  unfold closed_except_b. intros H n Hn.
  pose proof (closed_check_inv g K _ H n Hn) as Hin.
  unfold closed_check in H. rewrite andb_true_iff, forallb_forall in H. destruct H as [_ Hall].
  apply (node_check_ok g K (reach g)). apply Hall, pset_mem_elements, Hin.
Qed.

Corollary closed_sound g : closed_b g = true -> forall n, reachable g n -> node_ok g n.
Proof. exact (closed_except_sound g []). Qed.

(** with an empty exception list a reachable node never makes [Dialect::ref] panic *)
Corollary closed_no_dangling g :
  closed_b g = true -> forall n nd nm, reachable g n -> get_node g n = Some nd -> In nm (node_refs g nd) -> deref g nm <> None.
Proof.
  intros H n nd nm Hn Hg Hin. destruct (closed_sound g H n Hn) as [nd' [Hg' [Hr _]]].
  rewrite Hg in Hg'. injection Hg' as <-. destruct (Hr nm Hin) as [[t Ht]|[]]. rewrite Ht. discriminate.
Qed.

(** ** the certificate of a known finding really exhibits a reachable dangling reference *)
Lemma last_cons_indep (x : N) l d d' : last (x :: l) d = last (x :: l) d'.
Proof.
  revert x. induction l as [|y l IH]; intros x; [reflexivity|].
  change (last (x :: y :: l) d) with (last (y :: l) d). change (last (x :: y :: l) d') with (last (y :: l) d'). apply IH.
Qed.

Lemma path_steps_reach g a rest :
  reachable g a -> path_steps_b g a rest = true -> reachable g (last rest a).
Proof.
  revert a. induction rest as [|b rest IH]; intros a Ha H; cbn [path_steps_b last] in *; [exact Ha|].
  apply andb_true_iff in H. destruct H as [Hs Hrest].
  assert (Hb : reachable g b) by (apply (reach_step g a b Ha); apply mem_N_In; exact Hs).
  specialize (IH b Hb Hrest). destruct rest as [|c rest']; [exact Hb|].
  rewrite (last_cons_indep c rest' a b). exact IH.
Qed.

Theorem path_dangling_sound g path nm :
  path_dangling_b g path nm = true ->
  exists n nd, reachable g n /\ get_node g n = Some nd /\ In nm (node_refs g nd) /\ deref g nm = None.
Proof.
  unfold path_dangling_b. destruct path as [|r rest]; [discriminate|].
  rewrite !andb_true_iff. intros [[Hroot Hsteps] Huse].
  destruct (deref g name_FileSegment) as [r'|] eqn:Er; [|discriminate].
  apply N.eqb_eq in Hroot. subst r'.
  pose proof (path_steps_reach g r rest (reach_root g r Er) Hsteps) as Hreach.
  assert (Hl : last (r :: rest) r = last rest r) by (destruct rest; reflexivity).
  rewrite Hl in Huse. unfold uses_dangling_b in Huse.
  destruct (get_node g (last rest r)) as [nd|] eqn:En; [|discriminate].
  apply andb_true_iff in Huse. destruct Huse as [Hm Hd].
  exists (last rest r), nd. split; [exact Hreach|]. split; [exact En|]. split; [apply mem_N_In; exact Hm|].
  destruct (deref g nm); [discriminate|reflexivity].
Qed.

(** a listed name that has a path certificate cannot be removed from the exception list *)
Corollary path_dangling_not_closed g path nm :
  path_dangling_b g path nm = true -> closed_b g = false.
Proof.
  intros H. destruct (path_dangling_sound g path nm H) as [n [nd [Hn [Hg [Hin Hd]]]]].
  destruct (closed_b g) eqn:Hc; [|reflexivity].
  exfalso. exact (closed_no_dangling g Hc n nd nm Hn Hg Hin Hd).
Qed.

(** ** termination of [simple] from the rank certificate *)
Definition bad (r : sres) : Prop := badb r = true.

Lemma seq_simple_good rec opt elems acc :
  (forall e, In e (seq_prefix opt elems) -> ~ bad (rec e)) -> ~ bad (seq_simple rec opt elems acc).
Proof.
  unfold bad. revert acc. induction elems as [|e es IH]; intros acc H; cbn [seq_simple seq_prefix] in *.
  - cbn. discriminate.
  - assert (He : badb (rec e) <> true) by (apply H; left; reflexivity).
    destruct (rec e) as [| | | | |[h|]] eqn:Er; try (exfalso; apply He; reflexivity); try (cbn; discriminate).
    destruct (opt e) as [[|]|]; try (cbn; discriminate).
    apply IH. intros e' He'. apply H. right. exact He'.
Qed.

Lemma any_simple_good rec elems :
  (forall e, In e elems -> ~ bad (rec e)) -> ~ bad (any_simple rec elems).
Proof.
  unfold bad. induction elems as [|e es IH]; intros H; cbn [any_simple].
  - cbn. discriminate.
  - assert (He : badb (rec e) <> true) by (apply H; left; reflexivity).
    assert (Hes : badb (any_simple rec es) <> true) by (apply IH; intros e' He'; apply H; right; exact He').
    destruct (rec e) as [| | | | |h]; try (exfalso; apply He; reflexivity); try (cbn; discriminate).
    destruct (any_simple rec es) as [| | | | |hs]; try (exfalso; apply Hes; reflexivity); cbn; discriminate.
Qed.

Section Ranked.
  Variable g : graph.
  Variable rk : PositiveMap.t N.
  (** every left-corner edge out of a ranked node goes to a ranked node of strictly smaller rank *)
  Hypothesis Hdec : forall n r, rank_of rk n = Some r -> lc_decreases_b g rk n r = true.

  (** every name on the crumb trail resolves to a node ranked at least as high as the current one *)
  Definition crumbs_ok (cr : list N) (n : N) : Prop :=
    forall X, In X cr -> exists t rt rn, deref g X = Some t /\ rank_of rk t = Some rt /\ rank_of rk n = Some rn /\ rn <= rt.
  (** every [Ref] whose cell is being initialised is ranked strictly higher than the current node *)
  Definition busy_ok (bs : list N) (n : N) : Prop :=
    forall b, In b bs -> exists rb rn, rank_of rk b = Some rb /\ rank_of rk n = Some rn /\ rn < rb.

  Lemma lc_child_rank n r c :
    rank_of rk n = Some r -> In c (lc_children g n) -> exists rc, rank_of rk c = Some rc /\ rc < r.
  Proof.
    intros Hr Hc. specialize (Hdec n r Hr). unfold lc_decreases_b in Hdec.
    rewrite forallb_forall in Hdec. specialize (Hdec c Hc).
    destruct (rank_of rk c) as [rc|]; [|discriminate]. exists rc. split; [reflexivity|]. apply N.ltb_lt. exact Hdec.
  Qed.

  Lemma crumbs_ok_child cr n c r rc :
    rank_of rk n = Some r -> rank_of rk c = Some rc -> rc < r -> crumbs_ok cr n -> crumbs_ok cr c.
  Proof.
    intros Hr Hrc Hlt H X HX. destruct (H X HX) as [t [rt [rn [Hd [Ht [Hn Hle]]]]]].
    exists t, rt, rc. rewrite Hr in Hn. injection Hn as <-. repeat split; try assumption. lia.
  Qed.

  Lemma busy_ok_child bs n c r rc :
    rank_of rk n = Some r -> rank_of rk c = Some rc -> rc < r -> busy_ok bs n -> busy_ok bs c.
  Proof.
    intros Hr Hrc Hlt H b Hb. destruct (H b Hb) as [rb [rn [Hrb [Hn Hl]]]].
    exists rb, rc. rewrite Hr in Hn. injection Hn as <-. repeat split; try assumption. lia.
  Qed.

  Lemma simple_good : forall f n r bs cr,
    rank_of rk n = Some r -> (N.to_nat r < f)%nat -> busy_ok bs n -> crumbs_ok cr n -> ~ bad (simple g f bs cr n).
  Proof.
    induction f as [|f IH]; intros n r bs cr Hr Hf Hbs Hcr; [lia|].
    cbn [simple].
    assert (Hchild : forall c, In c (lc_children g n) -> ~ bad (simple g f bs cr c)).
    { intros c Hc. destruct (lc_child_rank n r c Hr Hc) as [rc [Hrc Hlt]].
      apply (IH c rc bs cr Hrc); [lia| |].
      - exact (busy_ok_child bs n c r rc Hr Hrc Hlt Hbs).
      - exact (crumbs_ok_child cr n c r rc Hr Hrc Hlt Hcr). }
    unfold lc_children in Hchild.
    destruct (get_node g n) as [nd|] eqn:En; [|unfold bad; cbn; discriminate].
    destruct nd as [name excl terms reset|elems terms gr|bt bs' elems terms gr|excl elems terms gr|d elems terms|kind gr'|raws|raws|ts| | | |terms| | |];
      try (unfold bad; cbn; discriminate).
    - (* Ref *)
      destruct (mem_N n bs) eqn:Eb.
      { exfalso. apply mem_N_In in Eb. destruct (Hbs n Eb) as [rb [rn [Hrb [Hn Hl]]]].
        rewrite Hr in Hrb, Hn. injection Hrb as <-. injection Hn as <-. lia. }
      destruct (mem_N name cr) eqn:Em.
      + exfalso. apply mem_N_In in Em. destruct (Hcr name Em) as [t [rt [rn [Hd [Ht [Hn Hle]]]]]].
        rewrite Hr in Hn. injection Hn as <-.
        assert (Hc : In t (lc_children g n)) by (unfold lc_children; rewrite En, Hd; left; reflexivity).
        destruct (lc_child_rank n r t Hr Hc) as [rc [Hrc Hlt]]. rewrite Ht in Hrc. injection Hrc as <-. lia.
      + destruct (deref g name) as [t|] eqn:Ed; [|unfold bad; cbn; discriminate].
        assert (Hc : In t (lc_children g n)) by (unfold lc_children; rewrite En, Ed; left; reflexivity).
        destruct (lc_child_rank n r t Hr Hc) as [rc [Hrc Hlt]].
        apply (IH t rc (n :: bs) (name :: cr) Hrc); [lia| |].
        * intros b [<-|Hb].
          -- exists r, rc. repeat split; assumption.
          -- destruct (Hbs b Hb) as [rb [rn [Hrb [Hn Hl]]]].
             exists rb, rc. rewrite Hr in Hn. injection Hn as <-. repeat split; try assumption. lia.
        * intros X [<-|HX].
          -- exists t, rc, rc. repeat split; try assumption. lia.
          -- destruct (Hcr X HX) as [t' [rt [rn [Hd [Ht [Hn Hle]]]]]].
             exists t', rt, rc. rewrite Hr in Hn. injection Hn as <-. repeat split; try assumption. lia.
    - (* Sequence *)
      apply seq_simple_good. intros e He. apply Hchild; assumption.
    - (* Bracketed *)
      destruct (bracket_lookup g bs' bt) as [p|]; [|unfold bad; cbn; discriminate].
      destruct (deref g (bp_start p)) as [st|]; [|unfold bad; cbn; discriminate].
      destruct (deref g (bp_end p)) as [en|]; [|unfold bad; cbn; discriminate].
      apply Hchild; left; reflexivity.
    - (* AnyNumberOf *)
      apply any_simple_good. intros e He. apply Hchild; assumption.
    - (* Delimited *)
      apply any_simple_good. intros e He. apply Hchild; assumption.
    - (* NodeMatcher *)
      apply Hchild; left; reflexivity.
  Qed.

  (** a left-corner cycle contradicts the certificate: ranks would have to decrease all the way round *)
  Lemma lc_path_rank : forall rest a back ra,
    rank_of rk a = Some ra -> lc_path_b g a rest back = true -> exists rb, rank_of rk back = Some rb /\ rb < ra.
  Proof.
    induction rest as [|b rest IH]; intros a back ra Ha H; cbn [lc_path_b] in H.
    - apply mem_N_In in H. exact (lc_child_rank a ra back Ha H).
    - apply andb_true_iff in H. destruct H as [Hs Hp]. apply mem_N_In in Hs.
      destruct (lc_child_rank a ra b Ha Hs) as [rb [Hb Hlt]].
      destruct (IH b back rb Hb Hp) as [rk' [Hk Hlt']]. exists rk'. split; [exact Hk|lia].
  Qed.

  Lemma lc_cycle_head_unranked c rest : lc_cycle_b g (c :: rest) = true -> rank_of rk c = None.
  Proof.
    cbn [lc_cycle_b]. intros H. destruct (rank_of rk c) as [r|] eqn:Er; [|reflexivity].
    destruct (lc_path_rank rest c c r Er H) as [r' [Hr' Hlt]]. rewrite Er in Hr'. injection Hr' as <-. lia.
  Qed.
End Ranked.

Lemma rank_ok_dec g R ranks :
  rank_ok_b g R ranks = true ->
  forall n r, rank_of (mk_ranks ranks) n = Some r -> lc_decreases_b g (mk_ranks ranks) n r = true.
Proof.
  unfold rank_ok_b. rewrite andb_true_iff, !forallb_forall. intros [_ H] n r Hr.
  unfold rank_of, pm_get in Hr. apply PositiveMap.elements_correct in Hr.
  specialize (H _ Hr). cbn [fst snd] in H. unfold key in H. rewrite N.pos_pred_succ in H. exact H.
Qed.

Lemma rank_ok_ranked g R ranks :
  rank_ok_b g R ranks = true -> forall n, pset_mem n R = true -> exists r, rank_of (mk_ranks ranks) n = Some r.
Proof.
  unfold rank_ok_b. rewrite andb_true_iff, !forallb_forall. intros [H _] n Hn.
  specialize (H n (pset_mem_elements n R Hn)).
  destruct (rank_of (mk_ranks ranks) n) as [r|]; [exists r; reflexivity|discriminate].
Qed.

(** C14, termination: with a checked rank certificate, computing the first-token hint of any
    reachable element, started as the parser starts it (no crumbs, no cell being initialised),
    neither loops (the model never runs out of fuel above the rank), nor blocks in the [OnceLock]
    of a [Ref] that is asked again from its own initialiser, nor hits the self-reference panic. *)
Theorem simple_terminates_reachable g K ranks :
  closed_except_b g K = true -> rank_ok_b g (reach g) ranks = true ->
  forall n, reachable g n ->
  exists r, rank_of (mk_ranks ranks) n = Some r /\
    forall f, (N.to_nat r < f)%nat ->
      simple g f [] [] n <> SFuel /\ simple g f [] [] n <> SHang /\ simple g f [] [] n <> SSelfRef.
Proof.
  intros Hc Hr n Hn.
  pose proof (closed_check_inv g K _ Hc n Hn) as Hin.
  destruct (rank_ok_ranked g _ ranks Hr n Hin) as [r Hrn].
  exists r. split; [exact Hrn|]. intros f Hf.
  pose proof (simple_good g (mk_ranks ranks) (rank_ok_dec g _ ranks Hr) f n r [] [] Hrn Hf) as H.
  assert (Hbs : busy_ok (mk_ranks ranks) [] n) by (intros X []).
  assert (Hcr : crumbs_ok g (mk_ranks ranks) [] n) by (intros X []).
  specialize (H Hbs Hcr). unfold bad in H.
  repeat split; intros E; apply H; rewrite E; reflexivity.
Qed.

(** ... and conversely a left-corner cycle through a reachable element refutes every rank
    certificate: the certificate is not merely "not found" by the translator, none exists. *)
Theorem reachable_cycle_sound g path cyc :
  reachable_cycle_b g path cyc = true ->
  exists c rest, cyc = c :: rest /\ reachable g c /\ lc_cycle_b g cyc = true.
Proof.
  unfold reachable_cycle_b. destruct path as [|r rest]; [discriminate|]. destruct cyc as [|c crest]; [discriminate|].
  rewrite !andb_true_iff. intros [[[Hroot Hsteps] Hlast] Hcyc].
  destruct (deref g name_FileSegment) as [r'|] eqn:Er; [|discriminate].
  apply N.eqb_eq in Hroot. subst r'. apply N.eqb_eq in Hlast.
  exists c, crest. split; [reflexivity|]. split; [|exact Hcyc].
  pose proof (path_steps_reach g r rest (reach_root g r Er) Hsteps) as Hreach.
  assert (Hl : last (r :: rest) r = last rest r) by (destruct rest; reflexivity).
  rewrite Hl in Hlast. rewrite Hlast in Hreach. exact Hreach.
Qed.

Theorem reachable_cycle_no_certificate g K path cyc :
  closed_except_b g K = true -> reachable_cycle_b g path cyc = true ->
  forall ranks, rank_ok_b g (reach g) ranks = false.
Proof.
  intros Hc H ranks. destruct (reachable_cycle_sound g path cyc H) as [c [rest [-> [Hreach Hcyc]]]].
  destruct (rank_ok_b g (reach g) ranks) eqn:Hr; [|reflexivity]. exfalso.
  pose proof (closed_check_inv g K _ Hc c Hreach) as Hin.
  destruct (rank_ok_ranked g _ ranks Hr c Hin) as [r Hrc].
  rewrite (lc_cycle_head_unranked g (mk_ranks ranks) (rank_ok_dec g _ ranks Hr) c rest Hcyc) in Hrc. discriminate.
Qed.


(** ** Non-vacuity: a small closed grammar, the same grammar with a dangling keyword, and a
    left-recursive one.  names: 0 FileSegment, 1 bracket_pairs, 2 StatementSegment,
    3 SelectKeywordSegment, 4 StartBracketSegment, 5 EndBracketSegment, 6 round, 7 FromKeywordSegment *)
Definition ex_nodes : list (N * node) :=
  [ (0, NNode 1 1);                 (* FileSegment = NodeMatcher(File, Delimited) *)
    (1, NDelim 2 [3] []);           (* Delimited(Ref Statement; delimiter = Ref Select (sic)) *)
    (2, NRef 3 None [] false);      (* Ref SelectKeywordSegment *)
    (3, NRef 2 None [] false);      (* Ref StatementSegment *)
    (4, NNode 2 5);                 (* StatementSegment *)
    (5, NSeq [2; 6; 10] [] false);  (* SELECT ( ... ) [FROM] *)
    (6, NBrack 6 1 [3] [] false);   (* Bracketed(round) of a statement: recursion, but not left recursion *)
    (7, NStr [3]);                  (* SelectKeywordSegment *)
    (8, NStr [4]);                  (* "(" *)
    (9, NStr [5]);                  (* ")" *)
    (10, NRef 7 None [] false) ].   (* Ref FromKeywordSegment, optional *)
Definition ex_opts : list (N * option bool) := [(10, Some true)].
Definition ex_lib : list (N * N) := [(0, 0); (2, 4); (3, 7); (4, 8); (5, 9); (7, 7)].
Definition ex_lib_dangling : list (N * N) := [(0, 0); (2, 4); (3, 7); (4, 8); (5, 9)].
Definition ex_brackets : list (N * list bracket_pair) := [(1, [(6, 4, 5, true)])].
Definition g_ex := mk_graph ex_nodes ex_opts ex_lib ex_brackets.
Definition g_ex_dangling := mk_graph ex_nodes ex_opts ex_lib_dangling ex_brackets.
Definition ex_ranks : list (N * N) :=
  [(7, 0); (8, 0); (9, 0); (2, 1); (10, 1); (6, 1); (5, 2); (4, 3); (3, 4); (1, 5); (0, 6)].

Example ex_closed : closed_b g_ex = true.
Proof. vm_compute. reflexivity. Qed.
Example ex_reaches_bracket : reachable g_ex 9.
Proof.
  apply (reach_step g_ex 6); [|vm_compute; tauto].
  apply (reach_step g_ex 5); [|vm_compute; tauto].
  apply (reach_step g_ex 4); [|vm_compute; tauto].
  apply (reach_step g_ex 3); [|vm_compute; tauto].
  apply (reach_step g_ex 1); [|vm_compute; tauto].
  apply (reach_step g_ex 0); [|vm_compute; tauto].
  apply reach_root. reflexivity.
Qed.
Example ex_dangling_not_closed : closed_b g_ex_dangling = false /\ closed_except_b g_ex_dangling [7] = true.
Proof. split; vm_compute; reflexivity. Qed.
Example ex_dangling_path : path_dangling_b g_ex_dangling [0; 1; 3; 4; 5; 10] 7 = true.
Proof. vm_compute. reflexivity. Qed.
Example ex_ranked : rank_ok_b g_ex (reach g_ex) ex_ranks = true.
Proof. vm_compute. reflexivity. Qed.
Example ex_simple : simple g_ex 8 [] [] 0 = SVal (Some ([3], [])) /\ simple g_ex 8 [] [] 6 = SVal (Some ([4], [])).
Proof. split; vm_compute; reflexivity. Qed.
(** a left-recursive grammar has no rank certificate; asked for its hint as the parser asks
    (node 0 or the [Ref] 2 itself) the [Ref] re-enters its own cell and blocks; asked through a
    second [Ref] of the same name (node 3) the first one sees its name on the trail and panics *)
Definition g_ex_leftrec :=
  mk_graph [(0, NNode 1 1); (1, NSeq [2] [] false); (2, NRef 0 None [] false); (3, NRef 0 None [] false)] [] [(0, 0)] [].
Example ex_leftrec : simple g_ex_leftrec 10 [] [] 0 = SHang /\ simple g_ex_leftrec 10 [] [] 2 = SHang
                     /\ simple g_ex_leftrec 10 [] [] 3 = SSelfRef /\ closed_b g_ex_leftrec = true
                     /\ rank_ok_b g_ex_leftrec (reach g_ex_leftrec) [(0, 2); (1, 1); (2, 0)] = false.
Proof. repeat split; vm_compute; reflexivity. Qed.
Example ex_leftrec_cycle : reachable_cycle_b g_ex_leftrec [0; 1; 2] [2; 0; 1] = true
                           /\ hint_failures g_ex_leftrec 10 [0; 1; 2; 3] = [(0, 2); (1, 2); (2, 2); (3, 3)].
Proof. split; vm_compute; reflexivity. Qed.
Example ex_leftrec_no_certificate : forall ranks, rank_ok_b g_ex_leftrec (reach g_ex_leftrec) ranks = false.
Proof. exact (reachable_cycle_no_certificate g_ex_leftrec [] [0; 1; 2] [2; 0; 1] (proj1 (proj2 (proj2 (proj2 ex_leftrec)))) (proj1 ex_leftrec_cycle)). Qed.
