(** C11 — kernel lemmas and the conditional invariance theorem. *)
From Sq Require Import Base.Bytes Layout.Model.
From Coq Require Import Lia.

Arguments N.add : simpl never.
Arguments N.sub : simpl never.
Arguments N.leb : simpl never.
Arguments N.ltb : simpl never.
Arguments N.eqb : simpl never.

(** * 1. The skip functions *)

(** They read nothing but the [is_code] flags. *)
Lemma nth_error_flags xs ys n :
  map is_code xs = map is_code ys ->
  option_map is_code (nth_error xs n) = option_map is_code (nth_error ys n).
Proof.
  revert ys n. induction xs as [|x xs IH]; intros [|y ys] n H; try discriminate.
  - reflexivity.
  - cbn [map] in H. injection H as Hh Ht. destruct n as [|n]; cbn [nth_error option_map].
    + rewrite Hh; reflexivity.
    + apply IH; exact Ht.
Qed.

Lemma skip_fwd_flags fuel xs ys : forall idx max,
  map is_code xs = map is_code ys -> skip_fwd fuel xs idx max = skip_fwd fuel ys idx max.
Proof.
  induction fuel as [|f IH]; intros idx max H; cbn [skip_fwd]; [reflexivity|].
  destruct (idx <? max); [|reflexivity].
  pose proof (nth_error_flags xs ys (N.to_nat idx) H) as Hn.
  destruct (nth_error xs (N.to_nat idx)) as [tx|], (nth_error ys (N.to_nat idx)) as [ty|];
    cbn [option_map] in Hn; try discriminate; [|reflexivity].
  injection Hn as Hn. rewrite Hn. destruct (is_code ty); [reflexivity | apply IH; exact H].
Qed.

Theorem skip_forward_flags xs ys start max :
  map is_code xs = map is_code ys -> skip_forward xs start max = skip_forward ys start max.
Proof. intros H; unfold skip_forward; apply skip_fwd_flags; exact H. Qed.

Lemma skip_bwd_flags fuel xs ys : forall idx min,
  map is_code xs = map is_code ys -> skip_bwd fuel xs idx min = skip_bwd fuel ys idx min.
Proof.
  induction fuel as [|f IH]; intros idx min H; cbn [skip_bwd]; [reflexivity|].
  destruct (min <? idx); [|reflexivity].
  pose proof (nth_error_flags xs ys (N.to_nat (idx - 1)) H) as Hn.
  destruct (nth_error xs (N.to_nat (idx - 1))) as [tx|], (nth_error ys (N.to_nat (idx - 1))) as [ty|];
    cbn [option_map] in Hn; try discriminate; [|reflexivity].
  injection Hn as Hn. rewrite Hn. destruct (is_code ty); [reflexivity | apply IH; exact H].
Qed.

Theorem skip_backward_flags xs ys stop min :
  map is_code xs = map is_code ys -> skip_backward xs stop min = skip_backward ys stop min.
Proof. intros H; unfold skip_backward; apply skip_bwd_flags; exact H. Qed.

(** [firstn] one further *)
Lemma firstn_S_nth {A} (l : list A) n t :
  nth_error l n = Some t -> firstn (S n) l = firstn n l ++ [t].
Proof.
  revert n. induction l as [|a l IH]; intros [|n] H; cbn in H; try discriminate.
  - injection H as ->. reflexivity.
  - cbn [firstn app]. f_equal. apply IH; exact H.
Qed.

Lemma code_rank_step toks idx t :
  nth_error toks (N.to_nat idx) = Some t -> is_code t = false ->
  code_rank toks (idx + 1) = code_rank toks idx.
Proof.
  intros Hn Hc. unfold code_rank.
  replace (N.to_nat (idx + 1)) with (S (N.to_nat idx)) by lia.
  rewrite (firstn_S_nth _ _ _ Hn), filter_app. cbn [filter]. rewrite Hc, app_nil_r. reflexivity.
Qed.

(** Skipping forward never crosses a code token, stays within [start, max] and stops on a code
    token or at [max]: the result is determined by the code rank of the start alone. *)
Lemma skip_fwd_spec fuel toks : forall idx max r,
  (N.to_nat (max - idx) <= fuel)%nat ->
  skip_fwd fuel toks idx max = Some r ->
  idx <= r /\ (r <= max \/ r = idx) /\ code_rank toks r = code_rank toks idx /\
  (r < max -> exists t, nth_error toks (N.to_nat r) = Some t /\ is_code t = true).
Proof.
  induction fuel as [|f IH]; intros idx max r Hf; cbn [skip_fwd].
  - intros [= <-]. split; [lia|]. split; [right; reflexivity|]. split; [reflexivity|]. intros; lia.
  - destruct (idx <? max) eqn:Hlt.
    + apply N.ltb_lt in Hlt.
      destruct (nth_error toks (N.to_nat idx)) as [t|] eqn:Hn; [|discriminate].
      destruct (is_code t) eqn:Hc.
      * intros [= <-]. split; [lia|]. split; [left; lia|]. split; [reflexivity|].
        intros _. exists t. split; assumption.
      * intros H. apply IH in H; [|lia]. destruct H as [H1 [H2 [H3 H4]]].
        split; [lia|]. split; [left; lia|]. split; [|exact H4].
        rewrite H3. apply (code_rank_step _ _ t); assumption.
    + apply N.ltb_ge in Hlt. intros [= <-]. split; [lia|]. split; [right; reflexivity|].
      split; [reflexivity|]. intros; lia.
Qed.

Theorem skip_forward_spec toks start max r :
  skip_forward toks start max = Some r ->
  start <= r /\ (r <= max \/ r = start) /\ code_rank toks r = code_rank toks start /\
  (r < max -> exists t, nth_error toks (N.to_nat r) = Some t /\ is_code t = true).
Proof. unfold skip_forward. apply skip_fwd_spec. lia. Qed.

(** It cannot index out of range when [max] is within the token list (every call site). *)
Lemma skip_fwd_total fuel toks : forall idx max,
  max <= N.of_nat (length toks) -> skip_fwd fuel toks idx max <> None.
Proof.
  induction fuel as [|f IH]; intros idx max Hm; cbn [skip_fwd]; [discriminate|].
  destruct (idx <? max) eqn:Hlt; [|discriminate]. apply N.ltb_lt in Hlt.
  destruct (nth_error toks (N.to_nat idx)) as [t|] eqn:Hn.
  - destruct (is_code t); [discriminate | apply IH; exact Hm].
  - apply nth_error_None in Hn. lia.
Qed.

Theorem skip_forward_total toks start max :
  max <= N.of_nat (length toks) -> skip_forward toks start max <> None.
Proof. unfold skip_forward. apply skip_fwd_total. Qed.

Lemma code_rank_step_back toks idx t :
  0 < idx -> nth_error toks (N.to_nat (idx - 1)) = Some t -> is_code t = false ->
  code_rank toks (idx - 1) = code_rank toks idx.
Proof.
  intros Hp Hn Hc. rewrite <- (code_rank_step toks (idx - 1) t Hn Hc).
  replace (idx - 1 + 1) with idx by lia. reflexivity.
Qed.

Lemma skip_bwd_spec fuel toks : forall idx min r,
  (N.to_nat (idx - min) <= fuel)%nat ->
  skip_bwd fuel toks idx min = Some r ->
  r <= idx /\ (min <= r \/ r = idx) /\ code_rank toks r = code_rank toks idx /\
  (min < r -> exists t, nth_error toks (N.to_nat (r - 1)) = Some t /\ is_code t = true).
Proof.
  induction fuel as [|f IH]; intros idx min r Hf; cbn [skip_bwd].
  - intros [= <-]. split; [lia|]. split; [right; reflexivity|]. split; [reflexivity|]. intros; lia.
  - destruct (min <? idx) eqn:Hlt.
    + apply N.ltb_lt in Hlt.
      destruct (nth_error toks (N.to_nat (idx - 1))) as [t|] eqn:Hn; [|discriminate].
      destruct (is_code t) eqn:Hc.
      * intros [= <-]. split; [lia|]. split; [left; lia|]. split; [reflexivity|].
        intros _. exists t. split; assumption.
      * intros H. apply IH in H; [|lia]. destruct H as [H1 [H2 [H3 H4]]].
        split; [lia|]. split; [left; lia|]. split; [|exact H4].
        rewrite H3. apply (code_rank_step_back _ _ t); [lia | assumption | assumption].
    + apply N.ltb_ge in Hlt. intros [= <-]. split; [lia|]. split; [right; reflexivity|].
      split; [reflexivity|]. intros; lia.
Qed.

Theorem skip_backward_spec toks stop min r :
  skip_backward toks stop min = Some r ->
  r <= stop /\ (min <= r \/ r = stop) /\ code_rank toks r = code_rank toks stop /\
  (min < r -> exists t, nth_error toks (N.to_nat (r - 1)) = Some t /\ is_code t = true).
Proof. unfold skip_backward. apply skip_bwd_spec. lia. Qed.

Example skip_example :
  let toks := [{| t_kind := KCode; t_raw := [97] |}; {| t_kind := KWhitespace; t_raw := [32] |};
               {| t_kind := KComment; t_raw := [45;45] |}; {| t_kind := KNewline; t_raw := [10] |};
               {| t_kind := KCode; t_raw := [98] |}] in
  skip_forward toks 1 5 = Some 4 /\ skip_backward toks 4 0 = Some 1 /\ code_rank toks 4 = 1%nat.
Proof. vm_compute. repeat split. Qed.

(** * 2. Keyword matching depends only on the ASCII-upper-cased raw *)
Lemma ascii_upper_idem b : ascii_upper (ascii_upper b) = ascii_upper b.
Proof.
  unfold ascii_upper.
  destruct (N.leb_spec 97 b), (N.leb_spec b 122); cbn [andb]; try reflexivity;
    try (destruct (N.leb_spec 97 b), (N.leb_spec b 122); cbn [andb]; try reflexivity; lia).
  destruct (N.leb_spec 97 (b - 32)), (N.leb_spec (b - 32) 122); cbn [andb]; try reflexivity; lia.
Qed.

Lemma ascii_upper_lower b : ascii_upper (ascii_lower b) = ascii_upper b.
Proof.
  unfold ascii_upper, ascii_lower.
  destruct (N.leb_spec 65 b), (N.leb_spec b 90); cbn [andb].
  - destruct (N.leb_spec 97 (b + 32)), (N.leb_spec (b + 32) 122); cbn [andb]; try lia.
    destruct (N.leb_spec 97 b), (N.leb_spec b 122); cbn [andb]; lia.
  - reflexivity.
  - reflexivity.
  - reflexivity.
Qed.

Lemma upper_idem s : upper (upper s) = upper s.
Proof. unfold upper. rewrite map_map. apply map_ext. apply ascii_upper_idem. Qed.

Lemma upper_lower s : upper (lower s) = upper s.
Proof. unfold upper, lower. rewrite map_map. apply map_ext. apply ascii_upper_lower. Qed.

Lemma upper_swapcase s : upper (swapcase s) = upper s.
Proof.
  unfold upper, swapcase. rewrite map_map. apply map_ext. intros b. unfold ascii_upper.
  destruct (N.leb_spec 97 b), (N.leb_spec b 122); cbn [andb].
  - destruct (N.leb_spec 97 (b - 32)), (N.leb_spec (b - 32) 122); cbn [andb]; try reflexivity; lia.
  - destruct (N.leb_spec 65 b), (N.leb_spec b 90); cbn [andb]; try lia.
    destruct (N.leb_spec 97 b), (N.leb_spec b 122); cbn [andb]; try reflexivity; lia.
  - destruct (N.leb_spec 65 b), (N.leb_spec b 90); cbn [andb].
    + destruct (N.leb_spec 97 (b + 32)), (N.leb_spec (b + 32) 122); cbn [andb]; lia.
    + destruct (N.leb_spec 97 b), (N.leb_spec b 122); cbn [andb]; try reflexivity; lia.
    + destruct (N.leb_spec 97 b), (N.leb_spec b 122); cbn [andb]; try reflexivity; lia.
    + destruct (N.leb_spec 97 b), (N.leb_spec b 122); cbn [andb]; try reflexivity; lia.
  - destruct (N.leb_spec 65 b), (N.leb_spec b 90); cbn [andb]; try lia.
Qed.

Theorem string_match_upper_only tpl t1 t2 :
  is_code t1 = is_code t2 -> upper (t_raw t1) = upper (t_raw t2) ->
  string_match tpl t1 = string_match tpl t2.
Proof. intros Hc Hu. unfold string_match, eq_ignore_ascii_case. rewrite Hc, Hu. reflexivity. Qed.

Theorem multi_match_upper_only tpls t1 t2 :
  is_code t1 = is_code t2 -> upper (t_raw t1) = upper (t_raw t2) ->
  multi_match tpls t1 = multi_match tpls t2.
Proof. intros Hc Hu. unfold multi_match. rewrite Hc, Hu. reflexivity. Qed.

Lemma str_eqb_sym a : forall b, str_eqb a b = str_eqb b a.
Proof.
  induction a as [|x a IH]; intros [|y b]; cbn [str_eqb]; try reflexivity.
  rewrite IH, N.eqb_sym. reflexivity.
Qed.

(** The two keyword parsers agree. *)
Theorem string_multi_agree tpl t : string_match tpl t = multi_match [upper tpl] t.
Proof.
  unfold string_match, multi_match, eq_ignore_ascii_case. cbn [mem]. rewrite orb_false_r, upper_idem.
  rewrite str_eqb_sym. reflexivity.
Qed.

(** Changing the letter case of a token cannot change whether a keyword parser takes it. *)
Corollary string_match_recase tpl k raw :
  string_match tpl {| t_kind := k; t_raw := swapcase raw |} = string_match tpl {| t_kind := k; t_raw := raw |} /\
  string_match tpl {| t_kind := k; t_raw := lower raw |} = string_match tpl {| t_kind := k; t_raw := raw |} /\
  string_match tpl {| t_kind := k; t_raw := upper raw |} = string_match tpl {| t_kind := k; t_raw := raw |}.
Proof.
  repeat split; apply string_match_upper_only; cbn [t_raw]; auto using upper_swapcase, upper_lower, upper_idem.
Qed.

Example string_match_example :
  string_match [115;101;108;101;99;116] {| t_kind := KCode; t_raw := [83;101;76;101;67;116] |} = true /\
  string_match [115;101;108;101;99;116] {| t_kind := KComment; t_raw := [83;101;76;101;67;116] |} = false.
Proof. vm_compute. split; reflexivity. Qed.

(** * 3. Subdivision produces only the three configured kinds *)
Section SubdivideProofs.
  Variables kp ks kt : tkind.
  Definition kind_ok (e : elem) : Prop := fst e = kp \/ fst e = ks \/ fst e = kt.

  Lemma trim_loop_kinds fuel : forall s content acc,
    Forall kind_ok acc -> Forall kind_ok (trim_loop kp kt fuel s content acc).
  Proof.
    induction fuel as [|f IH]; intros s content acc Ha; cbn [trim_loop]; [exact Ha|].
    destruct (is_empty s).
    - destruct (is_empty content); [exact Ha|].
      apply Forall_app; split; [exact Ha|]. constructor; [left; reflexivity | constructor].
    - destruct (search_ws s) as [[st en]|].
      + destruct (st =? 0).
        * apply IH. apply Forall_app; split; [exact Ha|]. constructor; [right; right; reflexivity | constructor].
        * destruct (en =? lenN s).
          -- apply Forall_app; split; [exact Ha|].
             constructor; [right; right; reflexivity|]. constructor; [right; right; reflexivity | constructor].
          -- apply IH; exact Ha.
      + apply Forall_app; split; [exact Ha|]. constructor; [left; reflexivity | constructor].
  Qed.

  Lemma subdivide_loop_kinds fuel : forall s acc,
    Forall kind_ok acc -> Forall kind_ok (subdivide_loop kp ks kt fuel s acc).
  Proof.
    induction fuel as [|f IH]; intros s acc Ha; cbn [subdivide_loop]; [exact Ha|].
    destruct (is_empty s); [exact Ha|].
    destruct (search_newline s) as [[st en]|].
    - apply IH. apply Forall_app; split; [exact Ha|]. apply Forall_app; split.
      + apply trim_loop_kinds; constructor.
      + constructor; [right; left; reflexivity | constructor].
    - apply Forall_app; split; [exact Ha|]. apply trim_loop_kinds; constructor.
  Qed.

  Theorem subdivide_kinds s : Forall kind_ok (subdivide kp ks kt s).
  Proof. apply subdivide_loop_kinds; constructor. Qed.
End SubdivideProofs.

(** A block comment, however it is laid out, lexes to non-code tokens only. *)
Theorem block_comment_non_code s :
  Forall (fun e => is_code {| t_kind := fst e; t_raw := snd e |} = false) (block_comment_elems s).
Proof.
  unfold block_comment_elems.
  eapply Forall_impl; [|apply subdivide_kinds].
  intros [k r] [H | [H | H]]; cbn [fst] in H; subst k; reflexivity.
Qed.

(* "/* a \n b */" *)
Example block_comment_example :
  block_comment_elems [47;42;32;97;32;10;32;98;32;42;47] =
  [(KComment, [47;42;32;97;32]); (KNewline, [10]); (KWhitespace, [32]); (KComment, [98;32;42;47])].
Proof. vm_compute. reflexivity. Qed.

(** * 3b. The native block comment matcher *)
(** A match is never longer than the text, and consumed at least the opener and a closer. *)
Lemma bc_scan_bounds k : forall s d p n,
  (length s <= k)%nat -> bc_scan s d p = Some n -> p + 2 <= n /\ n <= p + lenN s.
Proof.
  induction k as [|k IH]; intros s d p n Hl H.
  - destruct s; [discriminate | cbn [length] in Hl; lia].
  - destruct s as [|b s']; [discriminate|]. cbn [bc_scan] in H.
    destruct (b =? 0); [discriminate|].
    destruct s' as [|c s'']; [discriminate|].
    unfold lenN in *. cbn [length] in *.
    destruct ((b =? 47) && (c =? 42)).
    + apply IH in H; [|lia]. lia.
    + destruct ((b =? 42) && (c =? 47)).
      * destruct d as [|d].
        -- injection H as <-. lia.
        -- apply IH in H; [|lia]. lia.
      * apply IH in H; [|cbn [length]; lia]. cbn [length] in H. lia.
Qed.

Theorem block_comment_match_bounds s n :
  block_comment_match s = Some n -> 4 <= n /\ n <= lenN s.
Proof.
  unfold block_comment_match. intros H.
  destruct s as [|a s]; [discriminate|].
  destruct (N.eqb_spec a 47) as [->|Ha].
  2:{ exfalso. destruct a as [|a]; [discriminate|].
      do 6 (destruct a as [a|a|]; try discriminate). congruence. }
  destruct s as [|b s]; [discriminate|].
  destruct (N.eqb_spec b 42) as [->|Hb].
  2:{ exfalso. destruct b as [|b]; [discriminate|].
      do 6 (destruct b as [b|b|]; try discriminate). congruence. }
  apply (bc_scan_bounds (length s)) in H; [|lia].
  unfold lenN in *. cbn [length]. lia.
Qed.

(** The matched prefix ends with the closer. *)
Lemma bc_scan_ends k : forall s d p n,
  (length s <= k)%nat -> bc_scan s d p = Some n ->
  exists i, n = p + i + 2 /\ nth_error s (N.to_nat i) = Some 42 /\ nth_error s (N.to_nat (i + 1)) = Some 47.
Proof.
  induction k as [|k IH]; intros s d p n Hl H.
  - destruct s; [discriminate | cbn [length] in Hl; lia].
  - destruct s as [|b s']; [discriminate|]. cbn [bc_scan] in H.
    destruct (b =? 0); [discriminate|].
    destruct s' as [|c s'']; [discriminate|].
    cbn [length] in Hl.
    assert (Hshift2 : forall i, nth_error (b :: c :: s'') (N.to_nat (i + 2)) = nth_error s'' (N.to_nat i)).
    { intros i. replace (N.to_nat (i + 2)) with (S (S (N.to_nat i))) by lia. reflexivity. }
    assert (Hshift1 : forall i, nth_error (b :: c :: s'') (N.to_nat (i + 1)) = nth_error (c :: s'') (N.to_nat i)).
    { intros i. replace (N.to_nat (i + 1)) with (S (N.to_nat i)) by lia. reflexivity. }
    destruct ((b =? 47) && (c =? 42)) eqn:E1.
    + apply IH in H; [|lia]. destruct H as (i & -> & H1 & H2).
      exists (i + 2). split; [lia|]. split.
      * rewrite Hshift2. exact H1.
      * replace (i + 2 + 1) with (i + 1 + 2) by lia. rewrite Hshift2. exact H2.
    + destruct ((b =? 42) && (c =? 47)) eqn:E2.
      * destruct d as [|d].
        -- injection H as <-. apply andb_true_iff in E2. destruct E2 as [Eb Ec].
           apply N.eqb_eq in Eb, Ec. subst b c.
           exists 0. split; [lia|]. split; reflexivity.
        -- apply IH in H; [|lia]. destruct H as (i & -> & H1 & H2).
           exists (i + 2). split; [lia|]. split.
           ++ rewrite Hshift2. exact H1.
           ++ replace (i + 2 + 1) with (i + 1 + 2) by lia. rewrite Hshift2. exact H2.
      * apply IH in H; [|cbn [length]; lia]. destruct H as (i & -> & H1 & H2).
        exists (i + 1). split; [lia|]. split.
        -- rewrite Hshift1. exact H1.
        -- replace (i + 1 + 1) with (i + 1 + 1) by lia. rewrite (Hshift1 (i + 1)). exact H2.
Qed.

(** A clean body is skipped whatever the nesting depth and whatever follows the closer ... *)
Lemma bc_scan_plain b c s d p :
  (b =? 0) = false -> (b =? 47) && (c =? 42) = false -> (b =? 42) && (c =? 47) = false ->
  bc_scan (b :: c :: s) d p = bc_scan (c :: s) d (p + 1).
Proof. intros H0 H1 H2. cbn [bc_scan]. rewrite H0, H1, H2. reflexivity. Qed.

Lemma bc_scan_clean body : forall rest d p,
  clean_body body = true ->
  bc_scan (body ++ 42 :: 47 :: rest) d p = bc_scan (42 :: 47 :: rest) d (p + lenN body).
Proof.
  induction body as [|b body IH]; intros rest d p Hc.
  - cbn [app]. unfold lenN. cbn [length]. f_equal. lia.
  - cbn [clean_body] in Hc. apply andb_true_iff in Hc. destruct Hc as [Hc Hrest].
    apply andb_true_iff in Hc. destruct Hc as [Hnul Hpair].
    apply negb_true_iff in Hnul.
    destruct body as [|c body'].
    + (* the last byte of the body: the look-ahead is the closer's star *)
      apply negb_true_iff in Hpair.
      cbn [app]. rewrite bc_scan_plain.
      * f_equal.
      * exact Hnul.
      * rewrite Hpair. reflexivity.
      * apply andb_false_r.
    + apply andb_true_iff in Hpair. destruct Hpair as [H1 H2].
      apply negb_true_iff in H1, H2.
      change ((b :: c :: body') ++ 42 :: 47 :: rest) with (b :: c :: (body' ++ 42 :: 47 :: rest)).
      rewrite bc_scan_plain by assumption.
      change (c :: body' ++ 42 :: 47 :: rest) with ((c :: body') ++ 42 :: 47 :: rest).
      rewrite IH by exact Hrest.
      f_equal. unfold lenN. cbn [length]. lia.
Qed.

(** ... so a comment of the perturbation class is matched as exactly itself: the length of the
    match is the *byte* length of the comment, whatever bytes (ASCII or not) the body holds
    and whatever text follows. *)
Theorem block_comment_match_context_free body rest :
  clean_body body = true ->
  block_comment_match (comment_of body ++ rest) = Some (lenN (comment_of body)).
Proof.
  intros Hc. unfold comment_of, block_comment_match.
  cbn [app]. rewrite <- app_assoc. cbn [app].
  rewrite bc_scan_clean by exact Hc. cbn [bc_scan].
  replace (42 =? 0) with false by reflexivity.
  replace (42 =? 47) with false by reflexivity.
  replace (42 =? 42) with true by reflexivity.
  replace (47 =? 47) with true by reflexivity.
  rewrite andb_false_r. cbn [andb].
  f_equal. unfold lenN. cbn [length]. rewrite app_length. cbn [length]. lia.
Qed.

Lemma firstn_len_app {A} (l r : list A) : firstn (length l) (l ++ r) = l.
Proof. induction l as [|x l IH]; cbn; [destruct r; reflexivity | f_equal; exact IH]. Qed.
Lemma skipn_len_app {A} (l r : list A) : skipn (length l) (l ++ r) = r.
Proof. induction l as [|x l IH]; cbn; [reflexivity | exact IH]. Qed.

(** The whole matcher on a comment of the class followed by anything: the elements are those
    of the comment alone, all non-code, and the remaining text is exactly what followed. *)
Theorem block_comment_lex_context_free body rest :
  clean_body body = true ->
  block_comment_lex (comment_of body ++ rest) = Some (block_comment_elems (comment_of body), rest) /\
  Forall (fun e => is_code {| t_kind := fst e; t_raw := snd e |} = false)
         (block_comment_elems (comment_of body)).
Proof.
  intros Hc. split; [|apply block_comment_non_code].
  unfold block_comment_lex. rewrite block_comment_match_context_free by exact Hc.
  unfold take, drop, lenN. rewrite Nat2N.id.
  rewrite firstn_len_app, skipn_len_app. reflexivity.
Qed.

(* "/* café */ , b": the body holds a two-byte character; the match is 11 bytes (10 characters) *)
Example block_comment_match_example :
  clean_body [32;99;97;102;195;169;32] = true /\
  block_comment_lex (comment_of [32;99;97;102;195;169;32] ++ [32;44;32;98]) =
    Some ([(KComment, [47;42;32;99;97;102;195;169;32;42;47])], [32;44;32;98]) /\
  block_comment_match [47;42;32;47;42;32;120;32;42;47;32;42;47;59] = Some 13 /\
  block_comment_match [47;42;32;120] = None.
Proof. vm_compute. repeat split; reflexivity. Qed.

(* the trim pattern is Unicode-aware: a line of a comment may start with U+3000 / U+00A0 *)
Example block_comment_unicode_ws_example :
  block_comment_elems [47;42;10;227;128;128;194;160;32;120;42;47] =
  [(KComment, [47;42]); (KNewline, [10]); (KWhitespace, [227;128;128;194;160;32]); (KComment, [120;42;47])].
Proof. vm_compute. reflexivity. Qed.

(** * 4. From engine non-interference to C11 *)
Section Invariance.
  Variable E : list token -> tree.          (* lex-free view of the parser: tokens to tree *)
  Variable kw : token -> bool.              (* tokens the grammar only ever takes through a keyword parser *)

  Definition is_gap (t : token) : bool :=
    match t_kind t with KWhitespace | KNewline => true | _ => false end.
  Definition non_code (ts : list token) : Prop := Forall (fun t => is_code t = false) ts.

  (** the perturbations of the property, one position at a time *)
  Inductive step : list token -> list token -> Prop :=
  | st_regap pre w ws' post :            (* whitespace run -> other whitespace / newlines; blank line doubling *)
      is_gap w = true -> ws' <> [] -> Forall (fun t => is_gap t = true) ws' ->
      step (pre ++ w :: post) (pre ++ ws' ++ post)
  | st_comment_after pre w cs post :     (* comments (and their own whitespace) inserted next to whitespace *)
      is_gap w = true -> non_code cs -> step (pre ++ w :: post) (pre ++ w :: cs ++ post)
  | st_comment_before pre w cs post :
      is_gap w = true -> non_code cs -> step (pre ++ w :: post) (pre ++ cs ++ w :: post)
  | st_recase pre t raw' post :          (* keyword letter case *)
      is_code t = true -> kw t = true -> upper raw' = upper (t_raw t) ->
      kw {| t_kind := t_kind t; t_raw := raw' |} = true ->
      step (pre ++ t :: post) (pre ++ {| t_kind := t_kind t; t_raw := raw' |} :: post).

  (** globally or at any subset of positions: any sequence of steps *)
  Inductive related : list token -> list token -> Prop :=
  | rel_refl x : related x x
  | rel_step x y z : step x y -> related y z -> related x z.

  Definition norm (t : token) : token :=
    if kw t then {| t_kind := t_kind t; t_raw := upper (t_raw t) |} else t.
  Definition code_view (x : list token) : list token := map norm (filter is_code x).

  (** the parser's result, seen code-only, is a function of the code tokens with keyword raws
      upper-cased *)
  Definition engine_noninterference : Prop :=
    forall x y, code_view x = code_view y -> shape (E x) = shape (E y).

  Lemma filter_non_code cs : non_code cs -> filter is_code cs = [].
  Proof.
    induction 1 as [|t cs Ht _ IH]; cbn [filter]; [reflexivity|]. rewrite Ht. exact IH.
  Qed.

  Lemma gap_non_code t : is_gap t = true -> is_code t = false.
  Proof. unfold is_gap, is_code. destruct (t_kind t); intros; try reflexivity; discriminate. Qed.

  Lemma gaps_non_code ts : Forall (fun t => is_gap t = true) ts -> non_code ts.
  Proof. intros H. eapply Forall_impl; [|exact H]. intros t; apply gap_non_code. Qed.

  Lemma step_code_view x y : step x y -> code_view x = code_view y.
  Proof.
    intros H. unfold code_view.
    destruct H as [pre w ws' post Hw _ Hws | pre w cs post Hw Hcs | pre w cs post Hw Hcs | pre t raw' post Hc Hk Hu Hk'].
    - f_equal. rewrite !filter_app. cbn [filter]. rewrite (gap_non_code _ Hw).
      rewrite (filter_non_code _ (gaps_non_code _ Hws)). reflexivity.
    - f_equal. rewrite !filter_app. cbn [filter]. rewrite (gap_non_code _ Hw), filter_app, (filter_non_code _ Hcs). reflexivity.
    - f_equal. rewrite !filter_app. cbn [filter]. rewrite (gap_non_code _ Hw), (filter_non_code _ Hcs). reflexivity.
    - rewrite !filter_app. cbn [filter]. rewrite Hc.
      assert (Hc' : is_code {| t_kind := t_kind t; t_raw := raw' |} = true) by exact Hc.
      rewrite Hc'. rewrite !map_app. cbn [map]. f_equal. f_equal.
      unfold norm. rewrite Hk, Hk'. cbn [t_kind t_raw]. rewrite Hu. reflexivity.
  Qed.

  Lemma related_code_view x y : related x y -> code_view x = code_view y.
  Proof. induction 1 as [|x y z Hs _ IH]; [reflexivity|]. rewrite (step_code_view _ _ Hs). exact IH. Qed.

  Theorem invariance_from_engine x y :
    engine_noninterference -> related x y -> shape (E x) = shape (E y).
  Proof. intros He Hr. apply He. apply related_code_view. exact Hr. Qed.
End Invariance.

(** Non-vacuity: a toy engine that wraps the code tokens in one node satisfies non-interference,
    and a concrete pair of texts is related. *)
Definition toy_kw (t : token) : bool := str_eqb (upper (t_raw t)) [83;69;76;69;67;84].   (* SELECT *)
Definition toy_E (x : list token) : tree :=
  Node [102] (map (fun t => Leaf [107] (toy_kw t) (is_code t) (t_raw t)) x).

Definition toy_leaf (t : token) : tree := Leaf [107] (toy_kw t) (is_code t) (t_raw t).
Definition toy_leaf' (t : token) : tree := Leaf [107] (toy_kw t) true (if toy_kw t then upper (t_raw t) else t_raw t).

Lemma toy_has_code x : existsb has_code (map toy_leaf x) = existsb is_code x.
Proof. induction x as [|t x IH]; cbn [map existsb]; [reflexivity|]. rewrite IH. reflexivity. Qed.

Lemma toy_children x : flat_map shape (map toy_leaf x) = map toy_leaf' (filter is_code x).
Proof.
  induction x as [|t x IH]; cbn [map flat_map filter]; [reflexivity|].
  rewrite IH. unfold toy_leaf at 1. cbn [shape]. destruct (is_code t); reflexivity.
Qed.

Lemma toy_shape x : shape (toy_E x) =
  if existsb is_code x then [Node [102] (map toy_leaf' (filter is_code x))] else [].
Proof.
  unfold toy_E. change (fun t => Leaf [107] (toy_kw t) (is_code t) (t_raw t)) with toy_leaf.
  cbn [shape]. rewrite toy_has_code, toy_children. reflexivity.
Qed.

Lemma toy_kw_upper t : toy_kw {| t_kind := t_kind t; t_raw := upper (t_raw t) |} = toy_kw t.
Proof. unfold toy_kw. cbn [t_raw]. rewrite upper_idem. reflexivity. Qed.

Lemma existsb_filter_code x : existsb is_code x = negb (is_empty (filter is_code x)).
Proof. induction x as [|t x IH]; cbn [existsb filter]; [reflexivity|]. destruct (is_code t); [reflexivity | exact IH]. Qed.

Example toy_noninterference : engine_noninterference toy_E toy_kw.
Proof.
  intros x y H. rewrite !toy_shape, !existsb_filter_code.
  unfold code_view in H.
  assert (Hl : is_empty (filter is_code x) = is_empty (filter is_code y)).
  { destruct (filter is_code x), (filter is_code y); cbn in H; try discriminate; reflexivity. }
  rewrite Hl. destruct (negb (is_empty (filter is_code y))); [|reflexivity]. f_equal. f_equal.
  revert H. generalize (filter is_code x) (filter is_code y). clear Hl.
  induction l as [|a l IH]; intros [|b l'] H; cbn [map] in *; try discriminate; [reflexivity|].
  injection H as Hab Hl. f_equal; [|apply IH; exact Hl].
  unfold toy_leaf'. unfold norm in Hab.
  destruct (toy_kw a) eqn:Ka, (toy_kw b) eqn:Kb.
  - injection Hab as _ Hr. rewrite Hr. reflexivity.
  - subst b. rewrite toy_kw_upper in Kb. congruence.
  - subst a. rewrite toy_kw_upper in Ka. congruence.
  - subst b. reflexivity.
Qed.

Definition tk k s := {| t_kind := k; t_raw := s |}.
(* "select 1" ~ "SELECT /*c*/ \n1" *)
Example toy_related :
  related toy_kw
    [tk KCode [115;101;108;101;99;116]; tk KWhitespace [32]; tk KCode [49]]
    [tk KCode [83;69;76;69;67;84]; tk KWhitespace [32]; tk KComment [47;42;99;42;47]; tk KWhitespace [32]; tk KNewline [10]; tk KCode [49]].
Proof.
  eapply rel_step.
  { apply (st_recase toy_kw [] (tk KCode [115;101;108;101;99;116]) [83;69;76;69;67;84]); reflexivity. }
  eapply rel_step.
  { apply (st_comment_after toy_kw [tk KCode [83;69;76;69;67;84]] (tk KWhitespace [32])
             [tk KComment [47;42;99;42;47]; tk KWhitespace [32]] [tk KCode [49]]); [reflexivity|].
    repeat constructor. }
  eapply rel_step.
  { apply (st_regap toy_kw [tk KCode [83;69;76;69;67;84]; tk KWhitespace [32]; tk KComment [47;42;99;42;47]]
             (tk KWhitespace [32]) [tk KWhitespace [32]; tk KNewline [10]] [tk KCode [49]]);
      [reflexivity | discriminate | repeat constructor]. }
  apply rel_refl.
Qed.

(** * 5. The keyword-terminator guard *)
Definition guard_class (t : token) : N := if is_meta t then 0 else if is_gap_kind t then 1 else 2.

Lemma nth_error_class xs ys n :
  map guard_class xs = map guard_class ys ->
  option_map guard_class (nth_error xs n) = option_map guard_class (nth_error ys n).
Proof.
  revert ys n. induction xs as [|x xs IH]; intros [|y ys] n H; try discriminate.
  - reflexivity.
  - cbn [map] in H. injection H as Hh Ht. destruct n as [|n]; cbn [nth_error option_map].
    + rewrite Hh; reflexivity.
    + apply IH; exact Ht.
Qed.

Lemma guard_class_meta a b : guard_class a = guard_class b -> is_meta a = is_meta b.
Proof. unfold guard_class. destruct (is_meta a), (is_meta b), (is_gap_kind a), (is_gap_kind b); intros; try reflexivity; discriminate. Qed.

Lemma guard_class_gap a b : guard_class a = guard_class b -> is_meta a = false -> is_gap_kind a = is_gap_kind b.
Proof. unfold guard_class. intros H Ha. rewrite Ha in H. destruct (is_meta b), (is_gap_kind a), (is_gap_kind b); try reflexivity; discriminate. Qed.

(** The guard only distinguishes meta / whitespace-or-newline / anything else: turning a
    whitespace token into a newline token (or back) cannot change it ... *)
Theorem guard_class_only xs ys working start :
  map guard_class xs = map guard_class ys ->
  terminator_guard xs working start = terminator_guard ys working start.
Proof.
  intros H. unfold terminator_guard.
  generalize (S (N.to_nat (start - working))) as fuel. generalize (start =? working) as dflt.
  intros dflt fuel. revert start. induction fuel as [|f IH]; intros idx; cbn [guard_loop]; [reflexivity|].
  destruct (idx <? working); [reflexivity|]. destruct (idx =? 0); [reflexivity|].
  pose proof (nth_error_class xs ys (N.to_nat (idx - 1)) H) as Hn.
  destruct (nth_error xs (N.to_nat (idx - 1))) as [a|], (nth_error ys (N.to_nat (idx - 1))) as [b|];
    cbn [option_map] in Hn; try discriminate; [|reflexivity].
  injection Hn as Hn. rewrite <- (guard_class_meta _ _ Hn).
  destruct (is_meta a) eqn:Hm; [apply IH|]. rewrite (guard_class_gap _ _ Hn Hm). reflexivity.
Qed.

(** ... a gap token directly before the terminator always satisfies it (so a comment with
    whitespace on both sides is harmless) ... *)
Theorem guard_gap_before toks working start t :
  0 < start -> working <= start ->
  nth_error toks (N.to_nat (start - 1)) = Some t -> is_gap_kind t = true ->
  terminator_guard toks working start = Some true.
Proof.
  intros Hs Hw Hn Hg. unfold terminator_guard. cbn [guard_loop].
  destruct (start <? working) eqn:E; [apply N.ltb_lt in E; lia|].
  destruct (start =? 0) eqn:E0; [apply N.eqb_eq in E0; lia|].
  rewrite Hn. assert (Hm : is_meta t = false) by (unfold is_meta; unfold is_gap_kind in Hg; destruct (t_kind t); try discriminate; reflexivity).
  rewrite Hm, Hg. reflexivity.
Qed.

(** ... but a comment is not a gap for this guard: inserting one between the whitespace and
    the keyword flips it. This is the mechanism behind the recorded finding
    c11:comment-abuts-next-code-token ("SELECT a /* c */FROM t"). *)
Definition g_sel : list token :=
  [tk KCode [83;69;76;69;67;84]; tk KWhitespace [32]; tk KCode [97]; tk KWhitespace [32]; tk KCode [70;82;79;77]].
Definition g_sel_comment : list token :=
  [tk KCode [83;69;76;69;67;84]; tk KWhitespace [32]; tk KCode [97]; tk KWhitespace [32]; tk KComment [47;42;99;42;47];
   tk KCode [70;82;79;77]].

Theorem guard_comment_refuted :
  filter is_code g_sel = filter is_code g_sel_comment /\
  terminator_guard g_sel 2 4 = Some true /\ terminator_guard g_sel_comment 2 5 = Some false.
Proof. vm_compute. repeat split. Qed.

(** The guard cannot index before the first token when it is not asked about index 0. *)
Theorem guard_total toks working start :
  0 < working -> start <= N.of_nat (length toks) -> terminator_guard toks working start <> None.
Proof.
  intros Hw Hs. unfold terminator_guard.
  generalize (S (N.to_nat (start - working))) as fuel. generalize (start =? working) as dflt.
  intros dflt fuel. revert start Hs. induction fuel as [|f IH]; intros idx Hs; cbn [guard_loop]; [discriminate|].
  destruct (idx <? working) eqn:E; [discriminate|]. apply N.ltb_ge in E.
  destruct (idx =? 0) eqn:E0; [apply N.eqb_eq in E0; lia|]. apply N.eqb_neq in E0.
  destruct (nth_error toks (N.to_nat (idx - 1))) as [t|] eqn:Hn.
  - destruct (is_meta t); [apply IH; lia | discriminate].
  - apply nth_error_None in Hn. lia.
Qed.

(** At index 0 it would: [segments[idx - 1]] underflows. The crash search (every dialect keyword
    as first token) has not reached this. *)
Theorem guard_at_zero_crashes toks : terminator_guard toks 0 0 = None.
Proof. reflexivity. Qed.
