(** C11 — the pieces of the parser and lexer on which invariance under layout and keyword
    case rests. Executable definitions only.

      - [skip_forward] / [skip_backward]   match_algorithms.rs 12-40
      - [string_match] / [multi_match]     parsers.rs StringParser / MultiStringParser match_segments
      - [subdivide] / [trim_match]         lexer.rs 161-251 with the one configuration that uses
                                           them (ANSI block comment: newline subdivider,
                                           whitespace trim), on UTF-8 bytes
      - [block_comment_match]              the native block_comment matcher of ansi.rs on the
                                           lexer's [Cursor] (nesting; byte length of the match)
      - [shape]                            the code-only view of a tree that C11 compares *)
From Sq Require Import Base.Bytes.

(** * Tokens *)
Inductive tkind := KCode | KWhitespace | KNewline | KComment | KMeta.
Record token := { t_kind : tkind; t_raw : str }.

(** [ErasedSegment::is_code] on a token: not comment, not whitespace (incl. newline), not meta *)
Definition is_code (t : token) : bool :=
  match t_kind t with KCode => true | _ => false end.

(** * 1. skip_start_index_forward_to_code / skip_stop_index_backward_to_code *)
(** [None]: the Rust code would index past the end of [segments] (panic). *)
Fixpoint skip_fwd (fuel : nat) (toks : list token) (idx max : N) : option N :=
  match fuel with
  | O => Some idx
  | S f =>
      if idx <? max then
        match nth_error toks (N.to_nat idx) with
        | None => None
        | Some t => if is_code t then Some idx else skip_fwd f toks (idx + 1) max
        end
      else Some idx
  end.
Definition skip_forward (toks : list token) (start max : N) : option N :=
  skip_fwd (N.to_nat (max - start)) toks start max.

Fixpoint skip_bwd (fuel : nat) (toks : list token) (idx min : N) : option N :=
  match fuel with
  | O => Some idx
  | S f =>
      if min <? idx then
        match nth_error toks (N.to_nat (idx - 1)) with
        | None => None
        | Some t => if is_code t then Some idx else skip_bwd f toks (idx - 1) min
        end
      else Some idx
  end.
Definition skip_backward (toks : list token) (stop min : N) : option N :=
  skip_bwd (N.to_nat (stop - min)) toks stop min.

(** number of code tokens among the first [n] *)
Definition code_rank (toks : list token) (n : N) : nat :=
  length (filter is_code (firstn (N.to_nat n) toks)).

(** * 2. Keyword matching *)
Definition ascii_upper (b : N) : N := if (97 <=? b) && (b <=? 122) then b - 32 else b.
Definition ascii_lower (b : N) : N := if (65 <=? b) && (b <=? 90) then b + 32 else b.
Definition upper (s : str) : str := map ascii_upper s.
Definition lower (s : str) : str := map ascii_lower s.
Definition swapcase (s : str) : str :=
  map (fun b => if (97 <=? b) && (b <=? 122) then b - 32 else if (65 <=? b) && (b <=? 90) then b + 32 else b) s.

(** [str::eq_ignore_ascii_case] *)
Definition eq_ignore_ascii_case (a b : str) : bool := str_eqb (upper a) (upper b).

(** [StringParser::new(template, _)] upper-cases the template; [match_segments] matches one token. *)
Definition string_match (template : str) (t : token) : bool :=
  is_code t && eq_ignore_ascii_case (upper template) (t_raw t).

(** [MultiStringParser]: [templates.contains(raw.to_ascii_uppercase())] *)
Definition multi_match (templates : list str) (t : token) : bool :=
  is_code t && mem (upper (t_raw t)) templates.

(** * 3. Block comment subdivision (UTF-8 bytes) *)
(** [Pattern::legacy] compiles [format!("^{}", regex)]: the subdivider is [^\r\n|\n] — a CRLF
    only at the very start of the remaining text, otherwise the first LF — *)
Fixpoint search_lf_from (s : str) (i : N) : option (N * N) :=
  match s with
  | [] => None
  | b :: s' => if b =? 10 then Some (i, i + 1) else search_lf_from s' (i + 1)
  end.
Definition search_newline (s : str) : option (N * N) :=
  match s with
  | b :: c :: _ => if (b =? 13) && (c =? 10) then Some (0, 2) else search_lf_from s 0
  | _ => search_lf_from s 0
  end.

(** — and the trim pattern is [^[^\S\r\n]+]: a whitespace run at the very start only. So of the
    three branches of [trim_match] only the first can be taken. The regex is Unicode-aware:
    [\s] is the White_Space property, so besides tab, VT, FF and space the run may contain
    (UTF-8) U+0085, U+00A0, U+1680, U+2000..U+200A, U+2028, U+2029, U+202F, U+205F, U+3000. *)
Definition is_hspace (b : N) : bool := (b =? 9) || (b =? 11) || (b =? 12) || (b =? 32).
(** byte length of the horizontal-whitespace character at the head of [s]; 0 if there is none *)
Definition ws_len (s : str) : N :=
  match s with
  | [] => 0
  | b :: r =>
      if is_hspace b then 1
      else match r with
           | [] => 0
           | c :: r' =>
               if (b =? 194) && ((c =? 133) || (c =? 160)) then 2
               else match r' with
                    | [] => 0
                    | d :: _ =>
                        if (b =? 225) && (c =? 154) && (d =? 128) then 3
                        else if (b =? 226) && (c =? 128) &&
                                (((128 <=? d) && (d <=? 138)) || (d =? 168) || (d =? 169) || (d =? 175)) then 3
                        else if (b =? 226) && (c =? 129) && (d =? 159) then 3
                        else if (b =? 227) && (c =? 128) && (d =? 128) then 3
                        else 0
                    end
           end
  end.
Fixpoint run_len_f (fuel : nat) (s : str) : N :=
  match fuel with
  | O => 0
  | S f => let n := ws_len s in
           if n =? 0 then 0 else n + run_len_f f (skipn (N.to_nat n) s)
  end.
Definition run_len (s : str) : N := run_len_f (length s) s.
Definition search_ws (s : str) : option (N * N) :=
  if ws_len s =? 0 then None else Some (0, run_len s).

Definition take (n : N) (s : str) : str := firstn (N.to_nat n) s.
Definition drop (n : N) (s : str) : str := skipn (N.to_nat n) s.
Definition lenN (s : str) : N := N.of_nat (length s).

(** An element of the lexer: (kind, text). The matcher is configured by the kinds of its
    pattern [kp], subdivider [ks] and trim pattern [kt]. *)
Definition elem := (tkind * str)%type.

Section Subdivide.
  Variables kp ks kt : tkind.

  (** [Matcher::trim_match]: note the second branch gives the *content* before a trailing
      whitespace run the kind of the trim pattern — as the code does. *)
  Fixpoint trim_loop (fuel : nat) (s content : str) (acc : list elem) : list elem :=
    match fuel with
    | O => acc
    | S f =>
        if is_empty s then
          (if is_empty content then acc else acc ++ [(kp, content)])
        else
          match search_ws s with
          | None => acc ++ [(kp, content ++ s)]
          | Some (st, en) =>
              if st =? 0 then trim_loop f (drop en s) content (acc ++ [(kt, take en s)])
              else if en =? lenN s then
                acc ++ [(kt, content ++ take st s); (kt, drop st s)]
              else trim_loop f (drop en s) (content ++ take en s) acc
          end
    end.
  Definition trim_match (s : str) : list elem := trim_loop (S (length s)) s [] [].

  (** [Matcher::subdivide] *)
  Fixpoint subdivide_loop (fuel : nat) (s : str) (acc : list elem) : list elem :=
    match fuel with
    | O => acc
    | S f =>
        if is_empty s then acc
        else
          match search_newline s with
          | None => acc ++ trim_match s
          | Some (st, en) =>
              subdivide_loop f (drop en s) (acc ++ trim_match (take st s) ++ [(ks, take (en - st) (drop st s))])
          end
    end.
  Definition subdivide (s : str) : list elem := subdivide_loop (S (length s)) s [].
End Subdivide.

(** the ANSI block comment matcher *)
Definition block_comment_elems (s : str) : list elem := subdivide KComment KNewline KWhitespace s.

(** * 3b. The native [block_comment] matcher (ansi.rs) on [Cursor] (lexer.rs)
    [Cursor::shift] yields the next character or ['\0'] at the end, [Cursor::peek] looks one
    character ahead, [Cursor::lexed] is the consumed prefix, whose *byte* length is what
    [Pattern::matches] returns. The matcher only ever compares characters with ['/'], ['*'] and
    ['\0'], which are single bytes in UTF-8 and never occur inside a multi-byte sequence, so the
    scan is modelled on bytes; [pos] is the number of bytes consumed. [depth] is the number of
    *enclosing* comments still open (Rust's [depth - 1]).
    [None]: the matcher returns [false] (no match). *)
Fixpoint bc_scan (s : str) (depth : nat) (pos : N) : option N :=
  match s with
  | [] => None                                   (* shift at the end gives '\0' *)
  | b :: s' =>
      if b =? 0 then None                        (* a NUL character reads as the end *)
      else match s' with
           | [] => None                          (* no pair can start here; the next shift is '\0' *)
           | c :: s'' =>
               if (b =? 47) && (c =? 42) then bc_scan s'' (S depth) (pos + 2)
               else if (b =? 42) && (c =? 47) then
                 match depth with
                 | O => Some (pos + 2)
                 | S d => bc_scan s'' d (pos + 2)
                 end
               else bc_scan s' depth (pos + 1)
           end
  end.
(** byte length of the block comment at the head of [s] *)
Definition block_comment_match (s : str) : option N :=
  match s with
  | 47 :: 42 :: s' => bc_scan s' O 2
  | _ => None
  end.
(** [Matcher::matches] of the ANSI block comment matcher: elements and the remaining text *)
Definition block_comment_lex (s : str) : option (list elem * str) :=
  match block_comment_match s with
  | None => None
  | Some n => Some (block_comment_elems (take n s), drop n s)
  end.

(** comment bodies of the perturbation class: no NUL, no comment opener or closer inside, and
    no ['/'] at the very end (it would pair with the closing ['*']) *)
Fixpoint clean_body (s : str) : bool :=
  match s with
  | [] => true
  | b :: s' =>
      negb (b =? 0) &&
      match s' with
      | [] => negb (b =? 47)
      | c :: _ => negb ((b =? 47) && (c =? 42)) && negb ((b =? 42) && (c =? 47))
      end && clean_body s'
  end.
Definition comment_of (body : str) : str := 47 :: 42 :: body ++ [42; 47].

(** * 4. The code-only view of a tree *)
Inductive tree :=
| Leaf (kind : str) (is_keyword : bool) (code : bool) (raw : str)
| Node (kind : str) (children : list tree).

Fixpoint has_code (t : tree) : bool :=
  match t with
  | Leaf _ _ c _ => c
  | Node _ cs => existsb has_code cs
  end.

(** node types over code tokens; keyword raws upper-cased; non-code leaves and code-free
    nodes dropped *)
Fixpoint shape (t : tree) : list tree :=
  match t with
  | Leaf k kw c raw => if c then [Leaf k kw true (if kw then upper raw else raw)] else []
  | Node k cs => if existsb has_code cs then [Node k (flat_map shape cs)] else []
  end.

(** * 5. The keyword-terminator guard of [greedy_match] (match_algorithms.rs 456-476)
    A terminator that is a plain keyword only counts if the previous non-meta token is
    whitespace or a newline (or if it sits exactly at [working_idx]).
    [None]: [segments[idx - 1]] with [idx = 0] (index underflow, a panic). *)
Definition is_meta (t : token) : bool := match t_kind t with KMeta => true | _ => false end.
Definition is_gap_kind (t : token) : bool :=
  match t_kind t with KWhitespace | KNewline => true | _ => false end.

Fixpoint guard_loop (fuel : nat) (toks : list token) (idx working : N) (dflt : bool) : option bool :=
  match fuel with
  | O => Some dflt
  | S f =>
      if idx <? working then Some dflt
      else if idx =? 0 then None
      else match nth_error toks (N.to_nat (idx - 1)) with
           | None => None
           | Some t => if is_meta t then guard_loop f toks (idx - 1) working dflt
                       else Some (is_gap_kind t)
           end
  end.

(** [allowable_match] for a terminator matched at [start_idx] while scanning from [working_idx] *)
Definition terminator_guard (toks : list token) (working start : N) : option bool :=
  guard_loop (S (N.to_nat (start - working))) toks start working (start =? working).
