(** C18 — all front-ends report the same thing and the exit code follows it. Pinned statements only. *)
From Sq Require Import Base.Bytes Cli.Model Cli.Proofs.
From Coq Require Import Permutation.

(** lint, any format: the exit code is 1 exactly when a non-warning violation is reported and 0 otherwise,
    and every violation of every linted file is reported (under H_flags: no violation is flagged [ignore]). *)
Theorem C18_lint_exit : forall fmt files code reps,
  no_ignore files ->
  run_lint fmt files = Some (code, reps) ->
  (code = 1 \/ code = 0) /\
  (code = 1 <-> exists vs v, In vs files /\ In v vs /\ v_warning v = false) /\
  Forall2 (fun rep vs => Permutation rep (map rl vs)) reps files.
Proof. exact lint_exit_spec. Qed.
Print Assumptions C18_lint_exit.

(** no format aborts *)
Theorem C18_lint_total : forall fmt files, exists r, run_lint fmt files = Some r.
Proof. exact lint_total. Qed.
Print Assumptions C18_lint_total.

(** human, GitHub-annotation and JSON: same exit code, same reported violations per file *)
Theorem C18_formats_agree : forall f1 f2 files c1 r1 c2 r2,
  no_ignore files ->
  run_lint f1 files = Some (c1, r1) -> run_lint f2 files = Some (c2, r2) ->
  c1 = c2 /\ Forall2 (fun a b => Permutation a b) r1 r2.
Proof. exact formats_agree. Qed.
Print Assumptions C18_formats_agree.

(** stdin mode decides like path mode on one file *)
Theorem C18_stdin_agrees : forall fmt vs,
  run_lint_stdin fmt vs = match run_lint fmt [vs] with Some (c, [r]) => Some (c, r) | _ => None end.
Proof. exact stdin_agrees. Qed.
Print Assumptions C18_stdin_agrees.

(** the string entry point (stdin) and the path entry point lint the same thing unless the in-file
    configuration scan aborts (C03) *)
Theorem C18_modes_agree : forall (src linted : Type) (scan_ok : src -> bool) (pipeline : src -> linted) s,
  scan_ok s = true -> lint_string_m src linted scan_ok pipeline s = lint_path_m src linted pipeline s.
Proof. exact modes_agree. Qed.
Print Assumptions C18_modes_agree.

(** fix: exit 1 exactly when a violation that cannot be auto-fixed was found; nothing reported -> nothing
    written; otherwise every linted file is written with its own fixed text *)
Theorem C18_fix : forall fmt files code writes,
  run_fix fmt true files = Some (code, writes) ->
  (code = 1 \/ code = 0) /\
  (code = 1 <-> exists f v, In f files /\ In v (f_viols f) /\ v_fixable v = false) /\
  ((forall f, In f files -> f_viols f = []) -> writes = []) /\
  ((exists f, In f files /\ f_viols f <> []) -> writes = map (fun f => (f_id f, f_fixed f)) files).
Proof. exact fix_spec. Qed.
Print Assumptions C18_fix.

(** a declined confirmation writes nothing *)
Theorem C18_fix_declined : forall fmt files r, run_fix fmt false files = Some r -> r = (0, []).
Proof. exact fix_declined. Qed.
Print Assumptions C18_fix_declined.

Theorem C18_fix_stdin : forall fmt vs fixed code out,
  run_fix_stdin fmt vs fixed = Some (code, out) ->
  out = fixed /\ (code = 1 \/ code = 0) /\ (code = 1 <-> exists v, In v vs /\ v_fixable v = false).
Proof. exact fix_stdin_spec. Qed.
Print Assumptions C18_fix_stdin.

(** H_flags is needed: the JSON [has_fail] does not look at the [ignore] flag, the other two do *)
Theorem C18_flags_needed :
  exists files, run_lint Json files = Some (1, [[rl v_ign]]) /\ run_lint Human files = Some (0, [[]]).
Proof. exact flags_needed. Qed.
Print Assumptions C18_flags_needed.

(** Before the repair the GitHub format aborted on a violation without a rule. *)
Theorem C18_github_legacy_refuted :
  exists files, run_lint_gen true Github files = None /\ exists r, run_lint_gen true Human files = Some r.
Proof. exact github_legacy_refuted. Qed.
Print Assumptions C18_github_legacy_refuted.

(** The formatter is one object for the whole run and [has_fail] one of its fields: the exit code and the lines of
    each file do not depend on the order in which the files are dispatched (argument order, directory walk,
    whichever worker finishes last). *)
Theorem C18_lint_order : forall verb fmt files files',
  Permutation files files' ->
  fst (run_lint_v verb fmt files) = fst (run_lint_v verb fmt files') /\
  Permutation (snd (run_lint_v verb fmt files)) (snd (run_lint_v verb fmt files')).
Proof. exact lint_v_order. Qed.
Print Assumptions C18_lint_order.

(** with the shared formatter at any documented verbosity: exit 1 exactly when a non-warning violation is
    reported, every violation of every file reported *)
Theorem C18_lint_shared : forall verb fmt files,
  (0 <= verb)%Z -> no_ignore files ->
  let '(code, reps) := run_lint_v verb fmt files in
  (code = 1 \/ code = 0) /\
  (code = 1 <-> exists vs v, In vs files /\ In v vs /\ v_warning v = false) /\
  Forall2 (fun rep vs => Permutation (fst rep) (map rl vs)) reps files.
Proof. exact lint_v_exit_spec. Qed.
Print Assumptions C18_lint_shared.

(** any two verbosities from 0 upwards, any two formats: same exit code, same reported violations per file *)
Theorem C18_verbosity_agree : forall v1 v2 f1 f2 files,
  (0 <= v1)%Z -> (0 <= v2)%Z -> no_ignore files ->
  fst (run_lint_v v1 f1 files) = fst (run_lint_v v2 f2 files) /\
  Forall2 (fun a b => Permutation (fst a) (fst b)) (snd (run_lint_v v1 f1 files)) (snd (run_lint_v v2 f2 files)).
Proof. exact lint_v_agree. Qed.
Print Assumptions C18_verbosity_agree.

(** the stateful run refines the per-file account used by the theorems above *)
Theorem C18_shared_refines : forall verb fmt files, (0 <= verb)%Z ->
  run_lint fmt files = Some (fst (run_lint_v verb fmt files), map fst (snd (run_lint_v verb fmt files))).
Proof. exact lint_v_as_lint. Qed.
Print Assumptions C18_shared_refines.

(** human format: the header says FAIL exactly for a file with a non-warning violation; above verbosity 0 every
    file has a header; a file without header has nothing printed and nothing found *)
Theorem C18_human_header : forall verb vs,
  (0 <= verb)%Z -> (forall v, In v vs -> v_ignore v = false) ->
  let '(r, h) := human_file_v verb vs in
  (h = Some false <-> exists v, In v vs /\ v_warning v = false) /\
  ((0 < verb)%Z -> h <> None) /\
  (h = None -> r = [] /\ vs = []).
Proof. exact human_header_spec. Qed.
Print Assumptions C18_human_header.

Theorem C18_stdin_shared : forall verb fmt vs,
  run_lint_v verb fmt [vs] = (fst (run_lint_stdin_v verb fmt vs), [snd (run_lint_stdin_v verb fmt vs)]).
Proof. exact stdin_v_agrees. Qed.
Print Assumptions C18_stdin_shared.

(** outside the documented range (verbose < 0) the human format is silent and exits 0 whatever was found *)
Theorem C18_human_quiet : forall verb files, (verb < 0)%Z ->
  run_lint_v verb Human files = (0, map (fun _ => ([], None)) files).
Proof. exact human_quiet. Qed.
Print Assumptions C18_human_quiet.

(** the end of [Linter::lint_parsed]: the formatter (any implementation of the public trait) is handed exactly the
    violations of the returned [LintedFile] — the collected ones that the file's ignore mask does not cover *)
Theorem C18_formatter_fed : forall raw,
  fed raw = returned raw /\
  (forall v, In v (fed raw) <-> In (v, false) raw) /\
  (forall v, In (v, true) raw -> ~ In (v, false) raw -> ~ In v (fed raw)).
Proof. exact fed_is_returned. Qed.
Print Assumptions C18_formatter_fed.

(** lint on top of it, any format, any documented verbosity: every file's printed lines are the library's result
    for it and the exit code follows the library's result *)
Theorem C18_lint_front : forall verb fmt raws,
  (0 <= verb)%Z -> no_ignore (map returned raws) ->
  let '(code, reps) := lint_front verb fmt raws in
  (code = 1 \/ code = 0) /\
  (code = 1 <-> exists raw v, In raw raws /\ In v (returned raw) /\ v_warning v = false) /\
  Forall2 (fun rep raw => Permutation (fst rep) (map rl (returned raw))) reps raws.
Proof. exact lint_front_spec. Qed.
Print Assumptions C18_lint_front.

(** fix on top of it: what is printed is the library's result, exit 1 exactly when a printed violation cannot be
    auto-fixed, nothing printed => nothing written *)
Theorem C18_fix_front : forall fmt files reps code writes,
  no_ignore (map (fun f => returned (c_raw f)) files) ->
  fix_front fmt true files = Some (reps, (code, writes)) ->
  Forall2 (fun rep f => Permutation rep (map rl (returned (c_raw f)))) reps files /\
  (code = 1 <-> exists f v, In f files /\ In v (returned (c_raw f)) /\ v_fixable v = false) /\
  ((forall rep, In rep reps -> rep = []) -> writes = []).
Proof. exact fix_front_spec. Qed.
Print Assumptions C18_fix_front.
