(** C14 — every dialect grammar is closed. Pinned statements only (general part; the 13
    per-dialect instances [closed_<d>], [<d>_every_reachable_reference_resolves],
    [<d>_simple_terminates], [<d>_known_are_dangling] are generated into coq/gen/Grammar_<d>.v
    from the freshly built dialects on every run and checked by coqc). *)
From Sq Require Import Base.Bytes Grammar.Model Grammar.Proofs.

(** If the executable closure check accepts a grammar graph (with exception list [K]), then on
    every path of interpreter edges from [FileSegment] every node exists, every name it passes to
    [Dialect::ref] resolves or is in [K], and every [Bracketed] finds its bracket type. *)
Theorem C14_closed_except_sound : forall g K,
  closed_except_b g K = true -> forall n, reachable g n -> node_ok_except g K n.
Proof. exact closed_except_sound. Qed.
Print Assumptions C14_closed_except_sound.

(** With the empty exception list no reachable node can make [Dialect::ref] panic. *)
Theorem C14_closed_no_dangling : forall g,
  closed_b g = true ->
  forall n nd nm, reachable g n -> get_node g n = Some nd -> In nm (node_refs g nd) -> deref g nm <> None.
Proof. exact closed_no_dangling. Qed.
Print Assumptions C14_closed_no_dangling.

(** A checked path certificate exhibits a reachable node that uses a missing name (so a listed
    known finding that is no longer dangling cannot keep its certificate) ... *)
Theorem C14_known_finding_is_dangling : forall g path nm,
  path_dangling_b g path nm = true ->
  exists n nd, reachable g n /\ get_node g n = Some nd /\ In nm (node_refs g nd) /\ deref g nm = None.
Proof. exact path_dangling_sound. Qed.
Print Assumptions C14_known_finding_is_dangling.

(** ... and refutes closure of that grammar. *)
Theorem C14_dangling_refutes_closed : forall g path nm,
  path_dangling_b g path nm = true -> closed_b g = false.
Proof. exact path_dangling_not_closed. Qed.
Print Assumptions C14_dangling_refutes_closed.

(** With a checked rank certificate the first-token hint of every reachable element is computed
    without looping, without blocking in the [OnceLock] of a [Ref] that is asked again from its own
    initialiser, and without the self-reference panic. *)
Theorem C14_simple_terminates : forall g K ranks,
  closed_except_b g K = true -> rank_ok_b g (reach g) ranks = true ->
  forall n, reachable g n ->
  exists r, rank_of (mk_ranks ranks) n = Some r /\
    forall f, (N.to_nat r < f)%nat ->
      simple g f [] [] n <> SFuel /\ simple g f [] [] n <> SHang /\ simple g f [] [] n <> SSelfRef.
Proof. exact simple_terminates_reachable. Qed.
Print Assumptions C14_simple_terminates.

(** Conversely a checked left-corner cycle through an element reachable from [FileSegment] (what the
    translator reports when it cannot rank a dialect) refutes every rank certificate. *)
Theorem C14_reachable_cycle_no_certificate : forall g K path cyc,
  closed_except_b g K = true -> reachable_cycle_b g path cyc = true ->
  forall ranks, rank_ok_b g (reach g) ranks = false.
Proof. exact reachable_cycle_no_certificate. Qed.
Print Assumptions C14_reachable_cycle_no_certificate.
