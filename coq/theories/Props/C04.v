(** C04 — the fixed file is exactly the fixed tree; templated code is untouched. Pinned statements only. *)
From Sq Require Import Base.Bytes Patch.Model Patch.Proofs Patch.Legacy Patch.SpanModel Patch.SpanProofs.
From Sq Require Import Patch.TemplatedModel Patch.TemplatedWeave Patch.TemplatedTree Patch.TemplatedRender Patch.TemplatedFacts.
From Sq Require Templ.Model Templ.ProcProofs.

(** What [fix_string] writes for ANY list of patches is the source with the normalised patches
    (first patch per (source slice, text), stable order by start, patches starting before the
    running end dropped) spliced in: nothing else is dropped, duplicated or moved. *)
Theorem C04_fix_string_spec : forall src ps, fix_string src ps = splice src 0 (normalise ps).
Proof. exact fix_string_spec. Qed.
Print Assumptions C04_fix_string_spec.

(** Sorted, disjoint, duplicate-free patch lists are applied exactly as they are. *)
Theorem C04_normalise_id : forall ps, sorted_disjoint ps -> normalise ps = ps.
Proof. exact normalise_id. Qed.
Print Assumptions C04_normalise_id.

(** Without templating, for any final tree whose root spans the file, the text written by fix
    is the text of the tree. *)
Theorem C04_untemplated : forall tf t,
  untemplated tf -> spans_file tf t -> root_sfx t = [] -> fixed_text tf t = raw t.
Proof. exact fixed_text_untemplated. Qed.
Print Assumptions C04_untemplated.

(** A tree that still reads as the text it was parsed from yields the source byte-identical
    (templated or not). *)
Theorem C04_unchanged : forall tf t,
  unchanged tf t = true -> root_sfx t = [] -> fixed_text tf t = src tf.
Proof. exact fixed_text_unchanged. Qed.
Print Assumptions C04_unchanged.

(** With templating (partial: byte survival, not re-rendering): when the final tree's patches are
    sorted and disjoint, every in-bounds source range that no patch touches survives in the fixed text. *)
Theorem C04_templated_keeps_partial : forall tf t a b,
  sorted_disjoint (iter_patches tf t) -> a <= b -> b <= len (src tf) ->
  (forall p, In p (iter_patches tf t) -> p_e p <= a \/ b <= p_s p) ->
  exists pre post, fixed_text tf t = pre ++ sub (src tf) a b ++ post.
Proof. exact fixed_text_keeps. Qed.
Print Assumptions C04_templated_keeps_partial.

(** With templating, full statement about the model. For every templated file whose slices tile the source
    and the templated text ([Templ.ProcProofs.tiling]: what C15_render_tiling proves of the placeholder
    templater's output) and every final tree with [tree_ok] (decidable; Patch/TemplatedModel.v: the ghost walk
    [dpatches] along the branches [iter_patches] takes succeeds - templated ranges in reading order, every
    changed leaf literal, no text in dropped metas -, the root's templated slice is the whole templated text,
    the patches are sorted / disjoint / duplicate-free, every patch covers the same stretch of ONE literal
    slice in source and templated text or is an insertion at a common slice border):
    the text fix writes is literal pieces [lits] woven around ALL placeholders' own source texts, byte-identical
    and in order, and the final tree's raw is the same [lits] woven around the placeholders' renderings - the
    fixed source re-rendered ([render]). *)
Theorem C04_templated : forall tf sl t,
  Templ.ProcProofs.tiling (src tf) (tpl tf) sl 0 0 -> tree_ok tf sl t = true ->
  exists lits, length lits = S (length (phs tf sl)) /\
    fixed_text tf t = weave lits (phs tf sl) /\
    raw t = render tf sl lits.
Proof. exact templated_fixed_text. Qed.
Print Assumptions C04_templated.

(** The ghost walk is [iter_patches]: forgetting the templated ranges gives exactly the model's patch list. *)
Theorem C04_templated_ghost : forall tf s ds,
  dpatches tf s = Some ds -> map spatch ds = iter_patches tf s.
Proof. exact dpatches_erase. Qed.
Print Assumptions C04_templated_ghost.

(** Tree side, for every segment on which the walk succeeds (no premise on source positions): the templated
    images of its patches are in order inside the segment's templated slice and, spliced into the templated
    text over that slice, give the segment's raw. *)
Theorem C04_templated_tree_side : forall tf s ds, dpatches tf s = Some ds ->
  tch (t0 (seg_pos s)) (t1 (seg_pos s)) ds /\
  splice_r (tpl tf) (t0 (seg_pos s)) (t1 (seg_pos s)) (map tpatch ds) = raw s.
Proof. exact dpatches_T. Qed.
Print Assumptions C04_templated_tree_side.

(** What [tree_ok] says about the placeholders themselves: no patch of the final tree reaches into the source
    text of a templated slice (the conflict filter, C04_conflict_verdict, did its job). *)
Theorem C04_templated_untouched : forall tf sl t p k,
  Templ.ProcProofs.tiling (src tf) (tpl tf) sl 0 0 -> tree_ok tf sl t = true ->
  In p (iter_patches tf t) -> In k sl -> Templ.Model.ty k = Templ.Model.STempl ->
  p_e p <= Templ.Model.s0 k \/ Templ.Model.s1 k <= p_s p.
Proof. exact tree_ok_untouched. Qed.
Print Assumptions C04_templated_untouched.

(** Every untemplated final tree whose root spans the file is [tree_ok] (one literal slice): the untemplated
    clause [C04_untemplated] is the instance "no placeholder" of [C04_templated]
    ([TemplatedFacts.untemplated_from_templated]). *)
Theorem C04_tree_ok_untemplated : forall tf t,
  untemplated tf -> spans_file tf t -> root_sfx t = [] ->
  tree_ok tf [Templ.Model.mk_ts Templ.Model.SLit 0 (len (src tf)) 0 (len (src tf))] t = true.
Proof. exact tree_ok_untemplated. Qed.
Print Assumptions C04_tree_ok_untemplated.

(** The same with the placeholder templater in the loop (Templ/Model.v, C15): when the templated file is what
    [process] makes of the source (captures [caps] as the regex engine returned them, contract [caps_ok]) and the
    final tree is [tree_ok], the fixed source is literal pieces woven around the captures' own texts, and the
    templater run again on the fixed source with the same parameter values - on the captures relocated to where
    the weave puts them, same names and texts ([reloc]; that the regex engine finds exactly these is its contract
    here and is what the recorded finding "placeholder fused with its neighbour" breaks) - succeeds and renders
    exactly the raw of the final tree. *)
Theorem C04_templated_rerender : forall sr vals caps r rs t,
  Templ.ProcProofs.caps_ok caps 0 (Templ.Model.len sr) ->
  Templ.Model.process sr vals caps = Templ.Model.ROk r ->
  tree_ok (mkTf sr (Templ.Model.tf_tpl r) rs) (Templ.Model.tf_sl r) t = true ->
  exists lits,
    let tf := mkTf sr (Templ.Model.tf_tpl r) rs in
    let caps' := reloc sr lits caps 0 in
    length lits = S (length caps) /\
    fixed_text tf t = weave lits (map (cap_txt sr) caps) /\
    map Templ.Model.cname caps' = map Templ.Model.cname caps /\
    Templ.ProcProofs.caps_ok caps' 0 (Templ.Model.len (fixed_text tf t)) /\
    Templ.ProcProofs.render_spec (fixed_text tf t) vals caps' 0 1 = Some (raw t) /\
    exists r', Templ.Model.process (fixed_text tf t) vals caps' = Templ.Model.ROk r' /\ Templ.Model.tf_tpl r' = raw t.
Proof. exact templated_rerender. Qed.
Print Assumptions C04_templated_rerender.

(** Before the repair (dedupe on the source slice alone, region looked up among all patches) a
    sorted, non-overlapping patch list with two different insertions at one position lost one. *)
Theorem C04_legacy_refuted :
  exists src ps, sorted_chain ps /\ fix_string_legacy src ps <> splice src 0 ps.
Proof. exact legacy_refuted. Qed.
Print Assumptions C04_legacy_refuted.

(** Before the repair of the gap test ([templated_slice.start - templated_idx] on usize): when a child starts
    before the running templated index (a rule moved code backwards under a templated ancestor) the wrapped
    subtraction reads a gap and emits a patch with an inverted source range (a build with overflow checks
    panics at that subtraction); the comparison of the repaired code emits well-formed ranges on the same tree. *)
Theorem C04_iter_patches_legacy_refuted :
  exists tf t, (exists p, In p (iter_patches_legacy tf t) /\ p_e p < p_s p) /\
               (forall q, In q (iter_patches tf t) -> p_s q <= p_e q).
Proof. exact iter_patches_legacy_refuted. Qed.
Print Assumptions C04_iter_patches_legacy_refuted.

(** Conflict side ("templated code is untouched"): over raw slices that tile the source, every raw
    slice a source range [a, b) overlaps is among the slices [raw_slices_spanning_source_slice]
    returns; hence a deletion / replacement reaching into a placeholder is a template conflict. *)
Theorem C04_conflict_slices_complete : forall l a b r x,
  tiles l 0 -> spanning l a b = Some r ->
  In x l -> r_idx x < b -> a < r_idx x + r_len x -> In x r.
Proof. exact spanning_complete. Qed.
Print Assumptions C04_conflict_slices_complete.

Theorem C04_conflict_verdict : forall l a b r x,
  tiles l 0 -> spanning l a b = Some r ->
  In x l -> r_tpl x = true -> r_idx x < b -> a < r_idx x + r_len x -> any_templated r = true.
Proof. exact conflict_complete. Qed.
Print Assumptions C04_conflict_verdict.
