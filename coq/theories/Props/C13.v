(** C13 — parser shortcuts do not change the result. Pinned statements only.
    The per-dialect static side condition [keys_injective_<d>] (equal cache keys among possible
    options of longest_match imply the same behaviour class) is generated into coq/gen/Keys_<d>.v. *)
From Sq Require Import Base.Bytes Cache.Model Cache.Proofs.

(** Whatever the two switches are, and from any cache whose entries are reference answers,
    [longest_match] returns the cache-free, prune-free answer [lm_spec] and leaves such a cache:
    provided (H_mfn) matching an option at a location is a function of (loc_key, cache_key) and keeps
    the cache consistent, (H_probe) likewise for the terminator probe, and (H_simple_sound) an option
    whose first-token hint excludes the next code token matches nothing. *)
Theorem C13_longest_match_spec :
  forall (matcher : Type) (key_of : matcher -> N) (simple_of : matcher -> option hint)
         (mfn_at : N -> matcher -> cache -> mres * cache) (probe_at : N -> mres -> cache -> bool * cache)
         (pure : N -> N -> mres) (probe_pure : N -> mres -> bool),
  (forall loc m c, Inv pure c -> fst (mfn_at loc m c) = pure loc (key_of m) /\ Inv pure (snd (mfn_at loc m c))) ->
  (forall loc r c, Inv pure c -> fst (probe_at loc r c) = probe_pure loc r /\ Inv pure (snd (probe_at loc r c))) ->
  forall tok_at : N -> option (N * list N),
  (forall loc m, keep (tok_at loc) (simple_of m) = false ->
                 m_has (pure loc (key_of m)) = false /\ m_len (pure loc (key_of m)) = 0) ->
  forall uc up idx max_idx loc has_terms opts c,
  Inv pure c ->
  fst (longest_match matcher key_of simple_of (mfn_at loc) (probe_at loc) uc up idx max_idx loc (tok_at loc) has_terms opts c)
    = lm_spec matcher key_of pure probe_pure idx max_idx loc has_terms opts
  /\ Inv pure (snd (longest_match matcher key_of simple_of (mfn_at loc) (probe_at loc) uc up idx max_idx loc (tok_at loc) has_terms opts c)).
Proof. exact longest_match_spec. Qed.
Print Assumptions C13_longest_match_spec.

(** Hence any sequence of calls sharing one parse cache (a whole parse) returns the same results
    under all four settings of {cache on/off} x {pruning on/off}. *)
Theorem C13_shortcuts_transparent :
  forall (matcher : Type) (key_of : matcher -> N) (simple_of : matcher -> option hint)
         (mfn_at : N -> matcher -> cache -> mres * cache) (probe_at : N -> mres -> cache -> bool * cache)
         (pure : N -> N -> mres) (probe_pure : N -> mres -> bool),
  (forall loc m c, Inv pure c -> fst (mfn_at loc m c) = pure loc (key_of m) /\ Inv pure (snd (mfn_at loc m c))) ->
  (forall loc r c, Inv pure c -> fst (probe_at loc r c) = probe_pure loc r /\ Inv pure (snd (probe_at loc r c))) ->
  forall tok_at : N -> option (N * list N),
  (forall loc m, keep (tok_at loc) (simple_of m) = false ->
                 m_has (pure loc (key_of m)) = false /\ m_len (pure loc (key_of m)) = 0) ->
  forall uc up uc' up' calls,
  run matcher key_of simple_of mfn_at probe_at tok_at uc up calls []
  = run matcher key_of simple_of mfn_at probe_at tok_at uc' up' calls [].
Proof. exact run_transparent. Qed.
Print Assumptions C13_shortcuts_transparent.

(** The static key check is sound: on the checked list a cache key determines the behaviour class. *)
Theorem C13_keys_inj_sound : forall l, keys_inj_b l = true ->
  forall c1 c2 k, In (c1, k) l -> In (c2, k) l -> c1 = c2.
Proof. exact keys_inj_sound. Qed.
Print Assumptions C13_keys_inj_sound.
