(** C13 — parser shortcuts do not change the result. Pinned statements only.
    The per-dialect static side condition [keys_injective_<d>] (equal cache keys among possible
    options of longest_match imply the same behaviour class) is generated into coq/gen/Keys_<d>.v. *)
From Sq Require Import Base.Bytes Cache.Model Cache.Proofs.

(** Whatever the two switches are, and from any cache whose entries are reference answers,
    [longest_match] returns the cache-free, prune-free answer [lm_spec] and leaves such a cache:
    provided (H_mfn) matching an option at a location is a function of (loc_key, cache_key) and keeps
    the cache consistent, (H_probe) likewise for the terminator probe, and (H_simple_sound) an option
    whose first-token hint excludes the next code token matches nothing. *)
Theorem C13_longest_match_spec :
  forall (matcher : Type) (key_of : matcher -> N) (simple_of : matcher -> option hint)
         (mfn_at : N -> matcher -> cache -> mres * cache) (probe_at : N -> mres -> cache -> bool * cache)
         (pure : N -> N -> mres) (probe_pure : N -> mres -> bool),
  (forall loc m c, Inv pure c -> fst (mfn_at loc m c) = pure loc (key_of m) /\ Inv pure (snd (mfn_at loc m c))) ->
  (forall loc r c, Inv pure c -> fst (probe_at loc r c) = probe_pure loc r /\ Inv pure (snd (probe_at loc r c))) ->
  forall tok_at : N -> option (N * list N),
  (forall loc m, keep (tok_at loc) (simple_of m) = false ->
                 m_has (pure loc (key_of m)) = false /\ m_len (pure loc (key_of m)) = 0) ->
  forall uc up idx max_idx loc has_terms opts c,
  Inv pure c ->
  fst (longest_match matcher key_of simple_of (mfn_at loc) (probe_at loc) uc up idx max_idx loc (tok_at loc) has_terms opts c)
    = lm_spec matcher key_of pure probe_pure idx max_idx loc has_terms opts
  /\ Inv pure (snd (longest_match matcher key_of simple_of (mfn_at loc) (probe_at loc) uc up idx max_idx loc (tok_at loc) has_terms opts c)).
Proof. exact longest_match_spec. Qed.
Print Assumptions C13_longest_match_spec.

(** Hence any sequence of calls sharing one parse cache (a whole parse) returns the same results
    under all four settings of {cache on/off} x {pruning on/off}. *)
Theorem C13_shortcuts_transparent :
  forall (matcher : Type) (key_of : matcher -> N) (simple_of : matcher -> option hint)
         (mfn_at : N -> matcher -> cache -> mres * cache) (probe_at : N -> mres -> cache -> bool * cache)
         (pure : N -> N -> mres) (probe_pure : N -> mres -> bool),
  (forall loc m c, Inv pure c -> fst (mfn_at loc m c) = pure loc (key_of m) /\ Inv pure (snd (mfn_at loc m c))) ->
  (forall loc r c, Inv pure c -> fst (probe_at loc r c) = probe_pure loc r /\ Inv pure (snd (probe_at loc r c))) ->
  forall tok_at : N -> option (N * list N),
  (forall loc m, keep (tok_at loc) (simple_of m) = false ->
                 m_has (pure loc (key_of m)) = false /\ m_len (pure loc (key_of m)) = 0) ->
  forall uc up uc' up' calls,
  run matcher key_of simple_of mfn_at probe_at tok_at uc up calls []
  = run matcher key_of simple_of mfn_at probe_at tok_at uc' up' calls [].
Proof. exact run_transparent. Qed.
Print Assumptions C13_shortcuts_transparent.

(** The static key check is sound: on the checked list a cache key determines the behaviour class. *)
Theorem C13_keys_inj_sound : forall l, keys_inj_b l = true ->
  forall c1 c2 k, In (c1, k) l -> In (c2, k) l -> c1 = c2.
Proof. exact keys_inj_sound. Qed.
Print Assumptions C13_keys_inj_sound.

(** --- pruning on the interpreter of the whole parser engine ([Pem.Model], validated against the real parser
    on every run).  The unpruned twin is the interpreter itself on the tokens with [p_fnw] erased ([strip]:
    [prune] is then the identity and nothing else reads [p_fnw]); [parse_root_ref] additionally does not let
    [Ref.exclude] swallow a [SQLParseError] (an error of a sub-match ends the reference run without an answer). *)
From Coq Require Import FMapPositive.
From Sq Require Import Pem.Model Pem.FuelMono Pem.PruneDef Pem.PruneSound Pem.PruneProofs Pem.PruneMon Pem.PruneEx Pem.PruneLegacy.

(** the unpruned twin really is "prune replaced by the identity" *)
Theorem Pem_np_prune_is_identity : forall g toks opts len idx, prune g (strip toks) opts len idx = ROk opts.
Proof. exact prune_strip. Qed.
Print Assumptions Pem_np_prune_is_identity.

(** Hint soundness: on a graph whose dumped hints are justified ([hints_sound_b], decided per dialect by
    [vm_compute]), a node in scope whose hint excludes the code token standing at [idx] never answers with a
    match - for every token array, regex oracle, fuel, slice and context. *)
Theorem Pem_hint_sound : forall g, hints_sound_b g = true ->
  forall toks rx fuel n h idx len terms,
    Hinted g (scope g) n h -> Out g (scope g) (strip toks) h idx len ->
    forall m, match_node_ref g toks rx fuel n idx len terms = ROk m -> has_match m = false.
Proof. exact hint_sound. Qed.
Print Assumptions Pem_hint_sound.

(** Pruning transparency: for every graph with justified hints, every token array satisfying the token
    premise, every regex oracle, fuel and span - whenever the reference run yields a match result, the
    pruned interpreter yields the same result. *)
Theorem Pem_prune_transparent : forall g, hints_sound_b g = true ->
  forall toks rx fuel s e m, toks_ok g toks ->
    parse_root_ref g toks rx fuel s e = ROk m -> parse_root g toks rx fuel s e = ROk m.
Proof. exact prune_transparent. Qed.
Print Assumptions Pem_prune_transparent.

(** The full statement one would like,
      [hints_sound_b g = true -> toks_ok g toks -> parse_root g toks rx fuel s e = parse_root_np g toks rx fuel s e],
    is false for outcomes other than a match result of the reference run: the unpruned run can end in [RErr]
    ([Pem_error_outcomes_differ_refuted] below), in a panic or out of fuel inside an alternative that pruning
    never evaluates, and [Ref.exclude] turns such an [RErr] into "not excluded".  What is proved is the largest
    fragment that is true: every [ROk] outcome of the reference run, at that fuel and every larger one. *)
Theorem Pem_prune_transparent_fuel : forall g, hints_sound_b g = true ->
  forall toks rx fuel fuel' s e m, toks_ok g toks -> (fuel <= fuel')%nat ->
    parse_root_ref g toks rx fuel s e = ROk m -> parse_root g toks rx fuel' s e = ROk m.
Proof. exact prune_transparent_fuel. Qed.
Print Assumptions Pem_prune_transparent_fuel.

(** ... and so does the interpreter with pruning merely switched off (errors swallowed as the code does) *)
Theorem Pem_ref_refines_np : forall g toks rx fuel s e m,
  parse_root_ref g toks rx fuel s e = ROk m -> parse_root_np g toks rx fuel s e = ROk m.
Proof. exact ref_refines_np. Qed.
Print Assumptions Pem_ref_refines_np.

(** the same on token lists with the boolean premise that the monitor evaluates on recorded parses *)
Theorem Pem_prune_transparent_mon : forall g, hints_sound_b g = true ->
  forall l rx fuel s e m, toks_ok_b g l = true ->
    parse_root_ref g (toks_of_list l) rx fuel s e = ROk m ->
    parse_root g (toks_of_list l) rx fuel s e = ROk m /\ parse_root_np g (toks_of_list l) rx fuel s e = ROk m.
Proof. exact prune_transparent_mon. Qed.
Print Assumptions Pem_prune_transparent_mon.

(** Each premise is needed.  (1) a hint that is too small: pruning changes the result. *)
Theorem Pem_hints_sound_needed_refuted :
  exists g toks rx fuel s e m,
    hints_sound_b g = false /\ toks_ok_b g toks = true
    /\ parse_root_ref g (toks_of_list toks) rx fuel s e = ROk m /\ has_match m = true
    /\ parse_root g (toks_of_list toks) rx fuel s e = ROk (empty_at s).
Proof. exact hints_sound_needed_refuted. Qed.
Print Assumptions Pem_hints_sound_needed_refuted.

(** (2) a code token that carries the kind of a NodeMatcher whose hint lacks that kind. *)
Theorem Pem_token_kind_premise_needed_refuted :
  exists g toks rx fuel s e m,
    hints_sound_b g = true /\ toks_ok_b g toks = false /\ risky_kinds g (scope g) = [50]
    /\ parse_root_ref g (toks_of_list toks) rx fuel s e = ROk m /\ has_match m = true
    /\ parse_root g (toks_of_list toks) rx fuel s e = ROk (empty_at s).
Proof. exact token_kind_premise_needed_refuted. Qed.
Print Assumptions Pem_token_kind_premise_needed_refuted.

(** (3) the statement cannot be extended to all outcomes: with justified hints, the unpruned interpreter
    reports [SQLParseError] (a context terminator asked first by a [Delimited] that pruning drops) where
    the pruned one answers with a match. *)
Theorem Pem_error_outcomes_differ_refuted :
  exists g toks rx fuel s e m,
    hints_sound_b g = true /\ toks_ok_b g toks = true
    /\ parse_root_np g (toks_of_list toks) rx fuel s e = RErr
    /\ parse_root_ref g (toks_of_list toks) rx fuel s e = RFuel
    /\ parse_root g (toks_of_list toks) rx fuel s e = ROk m /\ has_match m = true.
Proof. exact error_outcomes_differ_refuted. Qed.
Print Assumptions Pem_error_outcomes_differ_refuted.

(** (4) finding F1: the first-token rule before the repair (the first segment with a non-empty raw, a comment
    included) drops an alternative that matches; the repaired rule keeps it. *)
Theorem Pem_prune_legacy_refuted :
  exists g toks rx fuel opts o idx len m,
    hints_sound_b g = true /\ toks_ok_b g toks = true /\ In o opts
    /\ prune_legacy g (toks_of_list toks) opts len idx = ROk []
    /\ match_node g (toks_of_list toks) rx fuel o idx len [] = ROk m /\ has_match m = true
    /\ prune g (toks_of_list toks) opts len idx = ROk opts.
Proof. exact prune_legacy_refuted. Qed.
Print Assumptions Pem_prune_legacy_refuted.
