(** C02 — parsing never drops, duplicates or reorders tokens. Pinned statements only. *)
From Sq Require Import Base.Bytes Apply.Model Apply.Proofs.

(** For every token array and every well-formed match result, [MatchResult::apply] does not
    panic and the non-meta leaves of what it builds are exactly the ids of the tokens of its
    span, in order, each once. *)
Theorem C02_apply_leaves : forall ts x,
  wf (N.of_nat (length ts)) x = true ->
  exists r, apply ts x = Some r /\ leaves_l r = map t_id (slice_raw ts (mr_start x) (mr_end x)).
Proof. exact apply_leaves. Qed.
Print Assumptions C02_apply_leaves.
