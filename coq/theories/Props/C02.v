(** C02 — parsing never drops, duplicates or reorders tokens. Pinned statements only. *)
From Sq Require Import Base.Bytes Apply.Model Apply.Proofs Apply.Interleave.

(** For every token array and every well-formed match result (any depth, any width),
    [MatchResult::apply] does not panic and the non-meta leaves of what it builds are exactly
    the ids of the tokens of its span, in order, each once. *)
Theorem C02_apply_leaves : forall ts x,
  wf (N.of_nat (length ts)) x = true ->
  exists r, apply ts x = Some r /\ leaves_l r = map t_id (slice_raw ts (mr_start x) (mr_end x)).
Proof. exact apply_leaves. Qed.
Print Assumptions C02_apply_leaves.

(** [FileSegment::root_parse]: whatever well-formed match the root grammar returns, the result is
    a single File node whose non-meta leaves are exactly all lexed tokens, in order. *)
Theorem C02_root : forall ts m,
  ts <> [] -> wf_root ts m = true ->
  exists ch, root_parse ts (GOk m) = Some (POk (Node K_File ch)) /\ leaves_l ch = map t_id ts.
Proof. exact root_parse_covers. Qed.
Print Assumptions C02_root.

(** ... each exactly once when the lexer's token ids are distinct. *)
Theorem C02_root_nodup : forall ts m ch,
  ts <> [] -> wf_root ts m = true -> NoDup (map t_id ts) ->
  root_parse ts (GOk m) = Some (POk (Node K_File ch)) -> NoDup (leaves_l ch) /\ leaves_l ch = map t_id ts.
Proof. exact root_parse_nodup. Qed.
Print Assumptions C02_root_nodup.

(** A grammar error is passed on as the parse error; a file without code keeps all its tokens. *)
Theorem C02_root_err : forall ts,
  ts <> [] ->
  (start_idx ts <> end_idx ts /\ root_parse ts GErr = Some PErr) \/
  (start_idx ts = end_idx ts /\ root_parse ts GErr = Some (POk (Node K_File (map tok_tree ts)))
   /\ leaves_l (map tok_tree ts) = map t_id ts).
Proof. exact root_parse_err. Qed.
Print Assumptions C02_root_err.

(** Text the grammar cannot match is kept: the three content branches of [root_parse]. With no
    match the whole code span goes under one Unparsable node; with a partial match the
    unmatched tail is split into leading non-code and a trailing Unparsable node (a second File node
    before the repair, see [C02_root_legacy_refuted]); nothing else. *)
Theorem C02_unparsable_kept : forall ts m,
  ts <> [] -> wf_root ts m = true -> start_idx ts <> end_idx ts ->
  let n := N.of_nat (length ts) in
  let si := start_idx ts in
  let ei := end_idx ts in
  let pre := map tok_tree (slice_raw ts 0 si) in
  let post := map tok_tree (slice_raw ts ei n) in
  exists matched,
    apply ts m = Some matched /\ leaves_l matched = ids ts si (mr_end m) /\
    (has_match m = false ->
       root_parse ts (GOk m) =
       Some (POk (Node K_File (pre ++ [Node K_Unparsable (map tok_tree (slice_raw ts si ei))] ++ post)))) /\
    (has_match m = true -> mr_end m < ei ->
       exists head tail,
         head ++ tail = slice_raw ts (mr_end m) ei /\
         forallb (fun t => negb (t_code t)) head = true /\ tail <> [] /\
         root_parse ts (GOk m) =
         Some (POk (Node K_File (pre ++ (matched ++ map tok_tree head ++ [Node K_Unparsable (map tok_tree tail)]) ++ post)))) /\
    (has_match m = true -> mr_end m = ei ->
       root_parse ts (GOk m) = Some (POk (Node K_File (pre ++ matched ++ post)))).
Proof. exact root_parse_shape. Qed.
Print Assumptions C02_unparsable_kept.

(** ... so the tokens outside every unparsable node of the result are exactly: the non-code around the
    code span, what the root grammar matched (minus the unparsable sections inside the match) and the
    non-code between the match and the first code token it left over. Everything from the first
    unmatched code token to the last code token ([tail]) is inside an unparsable node. *)
Theorem C02_unmatched_flagged : forall ts m,
  ts <> [] -> wf_root ts m = true -> start_idx ts <> end_idx ts ->
  let n := N.of_nat (length ts) in
  let si := start_idx ts in
  let ei := end_idx ts in
  exists matched ch head tail,
    apply ts m = Some matched /\
    root_parse ts (GOk m) = Some (POk (Node K_File ch)) /\
    head ++ tail = slice_raw ts (if has_match m then mr_end m else si) ei /\
    forallb (fun t => negb (t_code t)) head = true /\
    (tail = [] -> has_match m = true /\ mr_end m = ei) /\
    outside_l ch = map t_id (slice_raw ts 0 si) ++ (if has_match m then outside_l matched else [])
                   ++ map t_id head ++ map t_id (slice_raw ts ei n).
Proof. exact root_parse_unmatched_flagged. Qed.
Print Assumptions C02_unmatched_flagged.

(** The code before the repair (leftover wrapped in a second File node) violates that equation: a
    well-formed partial match whose unmatched code token stays outside every unparsable node. *)
Theorem C02_root_legacy_refuted :
  exists ts m ch,
    ts <> [] /\ wf_root ts m = true /\ has_match m = true /\ mr_end m < end_idx ts /\
    root_parse_legacy ts (GOk m) = Some (POk (Node K_File ch)) /\
    outside_l ch = map t_id ts.
Proof. exact root_parse_legacy_refuted. Qed.
Print Assumptions C02_root_legacy_refuted.

(** The two constructors every combinator uses preserve well-formedness. *)
Theorem C02_append_WF : forall n a b,
  wf n a = true -> wf n b = true -> mr_end a <= mr_start b -> wf n (append a b) = true.
Proof. exact append_wf. Qed.
Print Assumptions C02_append_WF.

Theorem C02_wrap_WF : forall n x k,
  wf n x = true -> wf n (wrap x (MKind k)) = true.
Proof. exact wrap_wf. Qed.
Print Assumptions C02_wrap_WF.

(** Refinement of [C02_apply_leaves]: the complete leaf sequence, metas included, is the token
    sequence of the span with every meta [Meta k p] exactly at the boundary before token [p]. *)
Theorem C02_apply_interleave : forall ts x r,
  wf (N.of_nat (length ts)) x = true -> apply ts x = Some r ->
  IL ts (mr_start x) (mr_end x) (obs_l r).
Proof. exact apply_il. Qed.
Print Assumptions C02_apply_interleave.

Theorem C02_root_interleave : forall ts m ch,
  ts <> [] -> wf_root ts m = true ->
  root_parse ts (GOk m) = Some (POk (Node K_File ch)) ->
  IL ts 0 (N.of_nat (length ts)) (obs_l ch).
Proof. exact root_parse_il. Qed.
Print Assumptions C02_root_interleave.

(** --- the combinator engine (Pem) only produces well-formed matches.
    [wf_safe_b g] is a decidable condition on the dumped grammar graph, evaluated on every dialect's
    graph on every run: whatever can close a bracket is a parser of exactly one code token. *)
From Coq Require Import FMapPositive.
From Sq Require Import Pem.Model Pem.WfSafe Pem.Wf Pem.WfRoot Pem.WfExamples.

(** Every successful match of every node of a safe graph - any tokens, regex answers, fuel, start
    index, slice length and terminator context - is well-formed w.r.t. any token array at least as
    long as the slice. *)
Theorem Pem_match_node_wf : forall g toks rx fuel nd idx len terms m n,
  wf_safe_b g = true -> idx <= len -> len <= n -> 0 < n ->
  match_node g toks rx fuel nd idx len terms = ROk m -> wf n m = true.
Proof. exact match_node_wf. Qed.
Print Assumptions Pem_match_node_wf.

(** The root match on the code span of a token array (the engine sees the array's code flags):
    well-formed, inside the code span, and it starts at the first code token if it matched anything. *)
Theorem Pem_parse_root_wf : forall g ptoks rx ts,
  wf_safe_b g = true -> map p_code ptoks = map t_code ts ->
  forall fuel m,
  start_idx ts <> end_idx ts ->
  parse_root g (toks_of_list ptoks) rx fuel (start_idx ts) (end_idx ts) = ROk m ->
  wf (N.of_nat (length ts)) m = true /\ start_idx ts <= mr_start m /\ mr_end m <= end_idx ts /\
  (has_match m = true -> mr_start m = start_idx ts).
Proof. exact parse_root_wf. Qed.
Print Assumptions Pem_parse_root_wf.

(** ... i.e. the hypothesis [wf_root] of [C02_root] (a root match that matched nothing is only
    looked at for its end: [Pem.WfRoot.root_parse_nomatch]). *)
Theorem Pem_parse_root_wf_root : forall g ptoks rx ts,
  wf_safe_b g = true -> map p_code ptoks = map t_code ts ->
  forall fuel m,
  start_idx ts <> end_idx ts ->
  parse_root g (toks_of_list ptoks) rx fuel (start_idx ts) (end_idx ts) = ROk m ->
  has_match m = true -> wf_root ts m = true.
Proof. exact parse_root_wf_root. Qed.
Print Assumptions Pem_parse_root_wf_root.

(** End to end on the interpreter: for every safe graph, token array, regex oracle and fuel, if the
    engine answers with a match then [root_parse] builds a File tree whose non-meta leaves are
    exactly all tokens, in order. *)
Theorem Pem_parse_keeps_every_token : forall g ptoks rx ts,
  wf_safe_b g = true -> map p_code ptoks = map t_code ts ->
  forall fuel m,
  ts <> [] ->
  parse_root g (toks_of_list ptoks) rx fuel (start_idx ts) (end_idx ts) = ROk m ->
  exists ch, root_parse ts (GOk m) = Some (POk (Node K_File ch)) /\ leaves_l ch = map t_id ts.
Proof. exact parse_keeps_every_token. Qed.
Print Assumptions Pem_parse_keeps_every_token.

(** Without the side condition the engine does produce ill-formed matches and [apply] duplicates
    tokens: a two-token closing bracket of a [Bracketed] overlaps the content matched up to
    [span.end - 1] ... *)
Theorem Pem_wf_arbitrary_graph_refuted :
  exists g ptoks rx fuel ts m ch,
    ts = tks 0 ptoks /\ wf_safe_b g = false /\
    parse_root g (toks_of_list ptoks) rx fuel (start_idx ts) (end_idx ts) = ROk m /\
    wf_root ts m = false /\
    root_parse ts (GOk m) = Some (POk (Node K_File ch)) /\ leaves_l ch = [0; 1; 2; 3; 2; 3].
Proof. exact wf_arbitrary_graph_refuted. Qed.
Print Assumptions Pem_wf_arbitrary_graph_refuted.

(** ... and a non-code closing bracket of the bracket set is trimmed off the span of a greedy match
    but not off the bracket child it collected. *)
Theorem Pem_wf_greedy_bracket_refuted :
  exists g ptoks rx fuel ts m ch,
    ts = tks 0 ptoks /\ wf_safe_b g = false /\
    parse_root g (toks_of_list ptoks) rx fuel (start_idx ts) (end_idx ts) = ROk m /\
    wf_root ts m = false /\
    root_parse ts (GOk m) = Some (POk (Node K_File ch)) /\ leaves_l ch = [0; 1; 2; 2; 3; 4].
Proof. exact wf_greedy_bracket_refuted. Qed.
Print Assumptions Pem_wf_greedy_bracket_refuted.
