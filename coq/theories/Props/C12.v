(** C12 — parse trees carry consistent positions and structure. Pinned statements only. *)
From Sq Require Import Base.Bytes Apply.Model Apply.Interleave TreePos.Model TreePos.Proofs TreePos.ParsePos TreePos.TFile TreePos.TFileProofs.

(** [infer_next_position] is the line/column walk over the bytes of the raw text ... *)
Theorem C12_infer_next_spec : forall raw l c, infer_next raw l c = linecol_from (l, c) raw.
Proof. exact infer_next_spec. Qed.
Print Assumptions C12_infer_next_spec.

(** ... hence the position after a concatenation is the position after its parts in sequence. *)
Theorem C12_infer_next_concat : forall a b l c,
  infer_next (a ++ b) l c = infer_next b (fst (infer_next a l c)) (snd (infer_next a l c)).
Proof. exact infer_next_app. Qed.
Print Assumptions C12_infer_next_concat.

(** [from_child_markers]: the parent span contains every child span, its four bounds are attained
    by children (it is the hull), and its working position is the line/column of its start. *)
Theorem C12_hull_spec : forall nls ms h,
  hull nls ms = Some h ->
  (forall m, In m ms -> m_ss h <= m_ss m /\ m_se m <= m_se h /\ m_ts h <= m_ts m /\ m_te m <= m_te h) /\
  (exists m, In m ms /\ m_ss h = m_ss m) /\ (exists m, In m ms /\ m_se h = m_se m) /\
  (exists m, In m ms /\ m_ts h = m_ts m) /\ (exists m, In m ms /\ m_te h = m_te m) /\
  (m_wl h, m_wp h) = line_pos_of nls (m_ts h).
Proof. exact hull_spec. Qed.
Print Assumptions C12_hull_spec.

(** Children that tile give the span from the start of the first to the end of the last. *)
Theorem C12_contiguous_hull : forall nls m0 r h,
  hull nls (m0 :: r) = Some h ->
  tiles m_ss m_se (m0 :: r) -> tiles m_ts m_te (m0 :: r) ->
  m_ss h = m_ss m0 /\ m_se h = m_se (last r m0) /\ m_ts h = m_ts m0 /\ m_te h = m_te (last r m0).
Proof. exact contiguous_hull. Qed.
Print Assumptions C12_contiguous_hull.

(** [position_segments], including the "recurse only if the marker moved" shortcut: if every input
    segment that still carries a marker is consistent below that marker (new segments carry none),
    then in the result every segment, at every depth, sits at the working position where the text
    before it ends, starting from the parent's working position; and no text changes. *)
Theorem C12_position_segments_working : forall nls segs parent out,
  forallb preb segs = true ->
  position_segments nls segs parent = Some out ->
  chainb wokb out (m_wl parent) (m_wp parent) = true /\ map raw_of out = map raw_of segs.
Proof. exact position_segments_working. Qed.
Print Assumptions C12_position_segments_working.

(** ... in particular every leaf's working line/column is the value computed from the text before it. *)
Theorem C12_position_segments_leaves : forall nls segs parent out,
  forallb preb segs = true ->
  position_segments nls segs parent = Some out ->
  leaves_ok (flat_map pleaves out) (m_wl parent, m_wp parent) = true.
Proof. exact position_segments_leaves. Qed.
Print Assumptions C12_position_segments_leaves.

(** [get_line_pos_of_char_pos] (binary search over the newline offsets) is the line/column
    reached by walking over the first [p] bytes of the text from (1, 1). *)
Theorem C12_line_pos_of_spec : forall text p,
  p <= N.of_nat (length text) ->
  line_pos_of (nl_offsets text) p = linecol_from (1, 1) (firstn (N.to_nat p) text).
Proof. exact line_pos_of_spec. Qed.
Print Assumptions C12_line_pos_of_spec.

(** The position bookkeeping of [apply_fixes] (edit the children, reposition, recurse, reposition
    again) keeps every segment consistent at its own marker, for any fix batch whose new
    segments carry no marker ... *)
Theorem C12_apply_fixes_invariant : forall nls no_fixes_left edit,
  (forall i ch buf, forallb preb ch = true -> edit i ch = Some buf -> forallb preb buf = true) ->
  forall fuel t t',
    scb t = true -> apply_fixes nls no_fixes_left edit fuel t = Some t' ->
    scb t' = true /\ pos_of t' = pos_of t.
Proof. exact apply_fixes_sc. Qed.
Print Assumptions C12_apply_fixes_invariant.

(** ... so after fixes the working line/column of every leaf of the rewritten tree equals the
    value computed from the rewritten text before it. *)
Theorem C12_postfix : forall nls no_fixes_left edit,
  (forall i ch buf, forallb preb ch = true -> edit i ch = Some buf -> forallb preb buf = true) ->
  forall fuel t t' m,
    pos_of t = Some m -> scb t = true ->
    apply_fixes nls no_fixes_left edit fuel t = Some t' ->
    leaves_ok (pleaves t') (m_wl m, m_wp m) = true.
Proof. exact apply_fixes_leaves. Qed.
Print Assumptions C12_postfix.

(** First clause of C12 for every parse tree: given that the lexer's tokens tile the text (C01) and
    the root match is well formed (the monitored hypothesis of C02), the markers of all leaves of
    the tree [root_parse] builds - metas included, positioned by [get_point_pos_at_idx] - are
    contiguous from the start of the first token to the end of the last. *)
Theorem C12_parse_leaves_contiguous : forall nls tm m ch,
  tm <> [] ->
  NoDup (map (fun x => t_id (fst x)) tm) ->
  tiles m_ts m_te (map snd tm) ->
  wf_root (map fst tm) m = true ->
  root_parse (map fst tm) (GOk m) = Some (POk (Node K_File ch)) ->
  exists ms, all_some (map (item_marker nls tm) (obs_l ch)) = Some ms /\
             contig (bound (map snd tm) 0) ms = Some (bound (map snd tm) (length tm)).
Proof. exact parse_leaves_contiguous. Qed.
Print Assumptions C12_parse_leaves_contiguous.

(** [position_segments] does not panic on valid input (every marker it has to read exists). *)
Theorem C12_position_segments_total : forall nls segs parent,
  forallb preb segs = true -> exists out, position_segments nls segs parent = Some out.
Proof. exact position_segments_total. Qed.
Print Assumptions C12_position_segments_total.

(** A templated file ([TemplatedFileInner::new]) keeps one newline table per text;
    [get_line_pos_of_char_pos(p, source)] is the line/column of offset [p] computed from the text
    the flag selects - the *templated* text for [source = false], whatever the source text is. *)
Theorem C12_templated_file_line_pos : forall source templated p (src : bool),
  p <= N.of_nat (length (if src then source else templated)) ->
  tf_line_pos (tf_new source templated) p src
  = linecol_from (1, 1) (firstn (N.to_nat p) (if src then source else templated)).
Proof. exact tf_line_pos_spec. Qed.
Print Assumptions C12_templated_file_line_pos.

(** [PositionMarker::new]: a fresh marker's working line/column (and [templated_position]) is the
    line/column of its templated start in the templated text; [source_position] that of its source
    start in the source text. *)
Theorem C12_marker_new_positions : forall source templated ss se ts te,
  ss <= N.of_nat (length source) -> ts <= N.of_nat (length templated) ->
  let m := marker_new (tf_new source templated) ss se ts te in
  (m_wl m, m_wp m) = linecol_from (1, 1) (firstn (N.to_nat ts) templated) /\
  templated_position (tf_new source templated) m = linecol_from (1, 1) (firstn (N.to_nat ts) templated) /\
  source_position (tf_new source templated) m = linecol_from (1, 1) (firstn (N.to_nat ss) source).
Proof. exact marker_new_spec. Qed.
Print Assumptions C12_marker_new_positions.

(** --- indent/dedent balance, as a theorem about the parser-engine interpreter (Pem, DESIGN 6.21).
    [meta_balanced_b g] is a decidable condition on the dumped grammar graph, evaluated on every dialect's
    graph on every run (coq/gen/PemMeta_<d>.v): a table of net values - what a match of a node adds to the
    Indent/Dedent sum - is consistent node by node and gives the root the value 0.  [isum g m] is the sum of
    [SyntaxKind::indent_val] over every entry of every [insert_segments] list of the match tree [m], i.e. over
    the meta segments [MatchResult::apply] creates; [clean_b g m]: no unparsable node in [m]. *)
From Coq Require Import FMapPositive ZArith.
From Sq Require Import Pem.Model Pem.LayoutInv Pem.MetaBal Pem.MetaBalProofs Pem.MetaBalEx.

(** For every balanced graph, every token list none of whose tokens already carries the kind of a named node
    with a non-zero net value, every regex oracle, fuel and span: the metas of a root match without
    unparsable section sum to zero. *)
Theorem Pem_clean_parse_meta_balanced : forall g ptoks rx fuel s e m,
  meta_balanced_b g = true -> plain_tokens_b g ptoks = true ->
  parse_root g (toks_of_list ptoks) rx fuel s e = ROk m -> clean_b g m = true -> isum g m = 0%Z.
Proof. exact parse_root_meta_balanced. Qed.
Print Assumptions Pem_clean_parse_meta_balanced.

(** The invariant behind it, for every node, start index, slice and terminator context and any consistent
    table [t]: a match without unparsable section has the node's net value - or matched nothing and inserts
    nothing - and, for a node flagged [tz], its own insert list sums to zero unless it stays with a named
    node (what makes the insert list that [Bracketed] drops harmless). *)
Theorem Pem_match_net_value : forall g t, consistent_b g t = true ->
  forall toks rx fuel n idx len terms m, toks_plain g t toks ->
  match_node g toks rx fuel n idx len terms = ROk m -> clean_b g m = true ->
  (isum g m = tv t n \/ (has_match m = false /\ isum g m = 0%Z))
  /\ (tz t n = true -> is_some (mr_matched m) = true \/ inssum g (mr_ins m) = 0%Z).
Proof. exact match_node_net_value. Qed.
Print Assumptions Pem_match_net_value.

(** Without the side condition the interpreter does build parses without unparsable section whose metas do
    not balance ... *)
Theorem Pem_meta_balance_arbitrary_graph_refuted :
  exists g ptoks rx fuel s e m,
    meta_balanced_b g = false /\ plain_tokens_b g ptoks = true /\
    parse_root g (toks_of_list ptoks) rx fuel s e = ROk m /\ clean_b g m = true /\ isum g m = 1%Z.
Proof. exact meta_balance_arbitrary_graph_refuted. Qed.
Print Assumptions Pem_meta_balance_arbitrary_graph_refuted.

(** ... and without the hypothesis on the token kinds too: [NodeMatcher] takes a token that already carries
    its kind as it is, without the inserts of its grammar. *)
Theorem Pem_meta_balance_token_kind_refuted :
  exists g ptoks rx fuel s e m,
    meta_balanced_b g = true /\ plain_tokens_b g ptoks = false /\
    parse_root g (toks_of_list ptoks) rx fuel s e = ROk m /\ clean_b g m = true /\ isum g m = (-1)%Z.
Proof. exact meta_balance_token_kind_refuted. Qed.
Print Assumptions Pem_meta_balance_token_kind_refuted.

(** From the match result to the tree.  [tsum g t] is the sum of [indent_val] over the meta leaves of a tree.
    [MatchResult::apply] creates exactly one meta per entry of every insert list of a well-formed match ... *)
From Sq Require Import Apply.Proofs Pem.WfSafe Pem.MetaTree.
Theorem C12_apply_metas_are_inserts : forall g ts x out,
  wf (N.of_nat (length ts)) x = true -> apply ts x = Some out -> tsum_l g out = isum g x.
Proof. exact apply_tsum. Qed.
Print Assumptions C12_apply_metas_are_inserts.

(** ... so, end to end on the interpreter: for a graph that is balanced and safe ([wf_safe_b], Props/C02.v),
    plain tokens, any regex oracle and fuel, if the root match on the code span has no unparsable section then
    the Indent / Implicit / Dedent metas of the File tree [root_parse] builds from it sum to zero. *)
Theorem Pem_clean_parse_tree_meta_balanced : forall g ptoks rx ts fuel m t,
  meta_balanced_b g = true -> wf_safe_b g = true -> plain_tokens_b g ptoks = true ->
  map p_code ptoks = map t_code ts ->
  parse_root g (toks_of_list ptoks) rx fuel (start_idx ts) (end_idx ts) = ROk m -> clean_b g m = true ->
  root_parse ts (GOk m) = Some (POk t) -> tsum g t = 0%Z.
Proof. exact parse_tree_meta_balanced. Qed.
Print Assumptions Pem_clean_parse_tree_meta_balanced.

(** --- bracket structure, as a theorem about the parser-engine interpreter.
    [brk_safe_b g] is a decidable condition on the dumped grammar graph, evaluated on every dialect's graph
    on every run (coq/gen/PemBrk_<d>.v): the start and end matchers of every bracket set (the dialect's
    "bracket_pairs", the pair of every [Bracketed] node) are String/MultiString parsers behind Refs, matchers
    that compare [==] parse the same strings into the same kind, and no NodeMatcher builds a node of kind
    [bracketed].  It implies the side condition [wf_safe_b] of the well-formedness theorems (Props/C02.v).
    [Shape g toks s e ch] - the children [ch] of a bracketed node spanning the tokens [s, e) -: the first child
    is the opening bracket (one re-tagged code token at [s]), a later child is the closing bracket (one
    re-tagged code token at [e - 1], behind the opening one), and the two tokens are accepted - text and
    kind - by the start and the end parser of one and the same bracket pair of the graph. *)
From Sq Require Import Pem.WfSafe Pem.BrkShape Pem.BrkShapeProofs Pem.BrkShapeEx.

(** Every node of kind [bracketed], at any depth of the root match, for every safe graph, token map, regex
    oracle, fuel and span. *)
Theorem Pem_bracketed_shape : forall g toks rx fuel s e m x,
  brk_safe_b g = true -> parse_root g toks rx fuel s e = ROk m -> sub m x ->
  mr_matched x = Some (MKind (k_bracketed g)) -> Shape g toks (mr_start x) (mr_end x) (mr_ch x).
Proof. exact bracketed_nodes_shape. Qed.
Print Assumptions Pem_bracketed_shape.

(** ... and of every match of every node, start index, slice and terminator context. *)
Theorem Pem_match_bracketed_shape : forall g toks rx fuel n idx len terms m,
  brk_safe_b g = true -> match_node g toks rx fuel n idx len terms = ROk m -> Shapes g toks m.
Proof. exact match_node_bracket_shape. Qed.
Print Assumptions Pem_match_bracketed_shape.

Theorem Pem_brk_safe_wf_safe : forall g, brk_safe_b g = true -> wf_safe_b g = true.
Proof. exact brk_safe_wf_safe. Qed.
Print Assumptions Pem_brk_safe_wf_safe.

(** [wf_safe_b] alone is not enough: with an opening "bracket" of two tokens every match is still well-formed,
    but the bracketed node starts with an unnamed two-token match. *)
Theorem Pem_bracket_shape_arbitrary_graph_refuted :
  exists g ptoks rx fuel s e m,
    wf_safe_b g = true /\ brk_safe_b g = false /\
    parse_root g (toks_of_list ptoks) rx fuel s e = ROk m /\
    mr_matched m = Some (MKind (k_bracketed g)) /\
    ~ Shape g (toks_of_list ptoks) (mr_start m) (mr_end m) (mr_ch m).
Proof. exact bracket_shape_arbitrary_graph_refuted. Qed.
Print Assumptions Pem_bracket_shape_arbitrary_graph_refuted.
