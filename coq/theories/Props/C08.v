(** C08 — violations point at the right place in the source file. Pinned statements only. *)
From Sq Require Import Base.Bytes Pos.Model Pos.Proofs.
From Sq Require Pos.InFile.

(** For every text and every offset (inside the text or not) the line/column lookup over
    the newline table does not panic and returns: line = 1 + number of newlines before the
    offset, column = distance from the start of that line + 1. *)
Theorem C08_line_pos : forall s p,
  get_line_pos_opt (newlines s) p = Some (get_line_pos (newlines s) p) /\
  get_line_pos (newlines s) p = (1 + count_nl (prefix s p), p - start_of_line s p + 1).
Proof. exact line_pos_total_and_spec. Qed.
Print Assumptions C08_line_pos.

(** What [start_of_line] is: at most [p], either 0 or just after a newline, with no
    newline between it and [p]; lines and columns start at 1. *)
Theorem C08_line_start : forall s p,
  start_of_line s p <= p /\
  (start_of_line s p = 0 \/ nth_error s (N.to_nat (start_of_line s p - 1)) = Some 10) /\
  (forall i, start_of_line s p <= i -> i < p -> nth_error s (N.to_nat i) <> Some 10) /\
  1 <= fst (linecol s p) /\ 1 <= snd (linecol s p).
Proof. exact line_start_facts. Qed.
Print Assumptions C08_line_start.

(** (line, column) identifies the offset: two offsets with the same coordinates are equal. *)
Theorem C08_linecol_injective : forall s p q, linecol s p = linecol s q -> p = q.
Proof. exact linecol_inj. Qed.
Print Assumptions C08_linecol_injective.

(** A violation built from a marker carries the marker's source range and the line/column
    of the start of that range in the source text. *)
Theorem C08_violation : forall tf m,
  let v := set_position_marker tf m in
  (v_line v, v_col v) = linecol (tf_source tf) (fst (v_src v)) /\ v_src v = m_src m /\
  1 <= v_line v /\ 1 <= v_col v.
Proof. exact set_position_marker_spec. Qed.
Print Assumptions C08_violation.

(** Same for parse errors that carry a segment (repaired conversion). *)
Theorem C08_parse_error : forall tf m,
  let v := of_parse_error tf (Some m) in
  (v_line v, v_col v) = linecol (tf_source tf) (fst (v_src v)) /\ v_src v = m_src m.
Proof. exact of_parse_error_spec. Qed.
Print Assumptions C08_parse_error.

(** Parent markers: if every child's source range lies in the file so does the parent's,
    and it covers every child. *)
Theorem C08_parent_range : forall ms L, ms <> [] ->
  (forall m, In m ms -> range_ok L (m_src m)) ->
  range_ok L (m_src (from_child_markers ms)) /\
  (forall m, In m ms -> fst (m_src (from_child_markers ms)) <= fst (m_src m) /\
                        snd (m_src m) <= snd (m_src (from_child_markers ms))).
Proof. exact from_child_markers_range. Qed.
Print Assumptions C08_parent_range.

(** The clause "that range lies within the file", given the C15 map: for every source, placeholder
    configuration and capture list under the regex contract, and every list of lexed elements of the
    rendered text, a violation raised on a token of the file, or on any segment spanning a non-empty
    set of its tokens, carries a source range inside the source and the line/column of its start. *)
Theorem C08_in_file : forall src vals caps r els toks,
  InFile.TC.caps_ok caps 0 (InFile.T.len src) -> InFile.T.process src vals caps = InFile.T.ROk r ->
  InFile.TI.echain els 0 -> InFile.TI.echain_end els 0 <= InFile.T.len (InFile.T.tf_tpl r) ->
  InFile.T.iter_segments (InFile.T.tf_sl r) els = Some toks ->
  let tf := {| tf_source := src; tf_templated := InFile.T.tf_tpl r |} in
  (forall g, In g toks ->
     let v := set_position_marker tf (InFile.marker_of g) in
     range_ok (len src) (v_src v) /\ (v_line v, v_col v) = linecol src (fst (v_src v))) /\
  (forall ms, ms <> [] -> (forall m, In m ms -> exists g, In g toks /\ m = InFile.marker_of g) ->
     let v := set_position_marker tf (from_child_markers ms) in
     range_ok (len src) (v_src v) /\ (v_line v, v_col v) = linecol src (fst (v_src v))).
Proof. exact InFile.violation_in_file. Qed.
Print Assumptions C08_in_file.

(** The code before the repairs (fixed: 9a5420e source_position; 464130b parse errors). *)
Theorem C08_legacy_refuted :
  exists tf m, fst (m_src m) <= len (tf_source tf) /\
    let v := set_position_marker_legacy tf m in
    (v_line v, v_col v) <> linecol (tf_source tf) (fst (v_src v)).
Proof. exact source_position_legacy_refuted. Qed.
Print Assumptions C08_legacy_refuted.

Theorem C08_parse_error_legacy_refuted :
  exists tf m, snd (m_src m) <= len (tf_source tf) /\
    let v := of_parse_error_legacy tf (Some m) in
    (v_line v, v_col v) <> linecol (tf_source tf) (fst (v_src v)).
Proof. exact of_parse_error_legacy_refuted. Qed.
Print Assumptions C08_parse_error_legacy_refuted.
