(** C09 — only selected rules report, and rules do not interfere. Pinned statements only. *)
From Sq Require Import Base.Bytes Rules.Model Rules.Proofs.

(** The reference map built with hash maps, entry insertion and chained collection holds
    exactly the references the specification knows ... *)
Theorem C09_refmap_known : forall reg x, has x (refmap reg) = known reg x.
Proof. exact refmap_has. Qed.
Print Assumptions C09_refmap_known.

(** ... and maps each to the codes of the rules it refers to: the rule with that code if it is
    a code, else the rules with that name, else the rules in that group. *)
Theorem C09_refmap_refers : forall reg x c,
  mem c (get x (refmap reg)) = existsb (fun r => str_eqb c (r_code r) && refers reg x r) reg.
Proof. exact refmap_get. Qed.
Print Assumptions C09_refmap_refers.

(** [get_rulepack] returns the registry, in registry order, filtered by "referred to by some
    allowlist entry and by no denylist entry" (an unset allowlist is the list of all codes). *)
Theorem C09_select_spec : forall reg allow deny sel,
  NoDup (codes reg) ->
  get_rulepack reg allow deny = Some sel ->
  sel = filter (fun r => selects reg (allowlist_of reg allow) r
                         && negb (selects reg (denylist_of deny) r)) reg.
Proof. exact select_spec. Qed.
Print Assumptions C09_select_spec.

Theorem C09_select_In : forall reg allow deny sel r,
  NoDup (codes reg) -> get_rulepack reg allow deny = Some sel ->
  (In r sel <-> In r reg /\ selects reg (allowlist_of reg allow) r = true
                /\ selects reg (denylist_of deny) r = false).
Proof. exact select_In. Qed.
Print Assumptions C09_select_In.

Theorem C09_select_nodup : forall reg allow deny sel,
  NoDup (codes reg) -> get_rulepack reg allow deny = Some sel -> NoDup (codes sel).
Proof. exact select_nodup. Qed.
Print Assumptions C09_select_nodup.

(** It panics exactly when some allowlist or denylist entry is no code, name or group. *)
Theorem C09_select_panics : forall reg allow deny,
  get_rulepack reg allow deny = None <->
  all_known reg (allowlist_of reg allow) && all_known reg (denylist_of deny) = false.
Proof. exact select_panics. Qed.
Print Assumptions C09_select_panics.

(** The registry [get_ruleset] builds never holds two rules with one code, whatever [rules()] lists. *)
Theorem C09_register_nodup : forall rs, NoDup (codes (register rs)).
Proof. exact register_nodup. Qed.
Print Assumptions C09_register_nodup.

(** Every reported violation is a parse/noqa error or carries the code of a loaded rule that is
    not skipped for the dialect. *)
Theorem C09_reported_in_selection :
  forall (input res : Type) (body : list rule -> rule -> input -> list res) (force : rule -> bool)
         (masked : option str * res -> bool) d pack pre i v,
  In v (lint input res body force masked d pack pre i) ->
  In v pre \/ exists r, In r pack /\ fst v = Some (r_code r) /\ skipped force d r = false.
Proof. exact reported_in_selection. Qed.
Print Assumptions C09_reported_in_selection.

Theorem C09_skipped_never_reports :
  forall (input res : Type) (body : list rule -> rule -> input -> list res) (force : rule -> bool)
         (masked : option str * res -> bool) d pack pre i r,
  NoDup (codes pack) -> pre_ok res pre -> In r pack -> skipped force d r = true ->
  forall v, In v (lint input res body force masked d pack pre i) -> fst v <> Some (r_code r).
Proof. exact skipped_never_reports. Qed.
Print Assumptions C09_skipped_never_reports.

(** Under independence of the rule bodies, linting with a selection reports exactly the
    violations of the all-rules run that belong to the selected rules (or to no rule), in order. *)
Theorem C09_subset :
  forall (input res : Type) (body : list rule -> rule -> input -> list res) (force : rule -> bool)
         (masked : option str * res -> bool) reg allow deny sel d pre i,
  H_indep input res body -> NoDup (codes reg) -> pre_ok res pre ->
  get_rulepack reg allow deny = Some sel ->
  lint input res body force masked d sel pre i
  = filter (keep res sel) (lint input res body force masked d reg pre i).
Proof. exact select_lint_subset. Qed.
Print Assumptions C09_subset.
