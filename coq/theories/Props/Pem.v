(** Pinned theorems about the parser-engine interpreter (Pem), used by C02, C13 and C14. Statements only. *)
From Coq Require Import FMapPositive.
From Sq Require Import Base.Bytes Apply.Model Pem.Model Pem.Proofs Pem.Bounds.

(** An abort "Grammar refers to ... which was not found" can only come from a node of the dumped
    graph whose reference really is missing. *)
Theorem Pem_dangling_sound : forall g toks rx fuel s e r,
  parse_root g toks rx fuel s e = RPanic (PDangling r) -> dangling_b g r = true.
Proof. exact pem_dangling_sound. Qed.
Print Assumptions Pem_dangling_sound.

(** On a closed graph no token stream, regex behaviour or context can cause that abort. *)
Theorem Pem_closed_never_dangling : forall g,
  pem_closed_b g = true ->
  forall toks rx fuel s e p, parse_root g toks rx fuel s e = RPanic p -> is_dang p = false.
Proof. exact pem_closed_never_dangling. Qed.
Print Assumptions Pem_closed_never_dangling.

(** Every successful match of every grammar node stays inside the slice it was given, starts at or
    after its start index and has a non-negative span. *)
Theorem Pem_match_bounds : forall g toks rx fuel n idx len terms m,
  idx <= len -> match_node g toks rx fuel n idx len terms = ROk m ->
  idx <= mr_start m /\ mr_start m <= mr_end m /\ mr_end m <= len.
Proof. exact match_node_bounds. Qed.
Print Assumptions Pem_match_bounds.

Theorem Pem_root_bounds : forall g toks rx fuel s e m,
  s <= e -> parse_root g toks rx fuel s e = ROk m ->
  s <= mr_start m /\ mr_start m <= mr_end m /\ mr_end m <= e.
Proof. exact parse_root_bounds. Qed.
Print Assumptions Pem_root_bounds.

(** Keyword-case clause of C11 on the interpreter: re-casing (upper / lower / swap) the text of any
    chosen tokens, kinds unchanged, leaves the match result of every grammar graph unchanged.
    [abs h first_word] is the token abstraction the translator computes, for any string interning [h]. *)
From Sq Require Import Layout.Model Pem.CaseInv.
Theorem Pem_recase_invariant : forall (h : str -> N) (first_word : str -> str) g rx fuel s e
    (l : list rtok) (pick : rtok -> bool) (f : str -> str),
  (f = upper \/ f = lower \/ f = swapcase) ->
  parse_root g (toks_of_list (map (abs h first_word) (map (fun t => if pick t then recase_tok f t else t) l))) rx fuel s e
  = parse_root g (toks_of_list (map (abs h first_word) l)) rx fuel s e.
Proof. exact parse_recase_invariant. Qed.
Print Assumptions Pem_recase_invariant.
