(** C17 — clean files are left alone and formatting is stable. Pinned statements only.
    The loop model is parametric in the oracles: [crawl] (rule bodies + noqa mask), [apply]
    (apply_fixes), [key] (the previous_versions tuple); the theorems hold for every instance. *)
From Sq Require Import Patch.Model Patch.Proofs Fix.Model Fix.Proofs Fix.Clean Fix.MaskModel Fix.MaskProofs.

(** No rule has a fix on the initial tree => the loop returns the initial tree, both phases
    leaving after one pass that changed nothing. *)
Theorem C17_clean : forall (T K R F : Type) (key : T -> K) (key_eqb : K -> K -> bool)
    (crawl : R -> T -> option F) (apply : T -> F -> T) (rule_phase : R -> phase)
    (fix_compat : R -> bool) (rules : list R) (t0 : T),
  (forall r : R, In r rules -> crawl r t0 = None) ->
  final T K R F key key_eqb crawl apply rule_phase fix_compat rules t0 = t0 /\
  snd (fst (run T K R F key key_eqb crawl apply rule_phase fix_compat rules t0)) = NoChange /\
  snd (run T K R F key key_eqb crawl apply rule_phase fix_compat rules t0) = NoChange.
Proof. exact clean_is_untouched. Qed.
Print Assumptions C17_clean.

(** ... and with the patch pipeline of C04 the file is written back byte-identical. *)
Theorem C17_clean_bytes : forall (K R F : Type) (key : seg -> K) (key_eqb : K -> K -> bool)
    (crawl : R -> seg -> option F) (apply : seg -> F -> seg) (rule_phase : R -> phase)
    (fix_compat : R -> bool) (rules : list R) (tf : tfile) (t0 : seg),
  (forall r, In r rules -> crawl r t0 = None) ->
  unchanged tf t0 = true -> root_sfx t0 = [] ->
  fixed_text tf (final seg K R F key key_eqb crawl apply rule_phase fix_compat rules t0) = src tf.
Proof. exact clean_bytes. Qed.
Print Assumptions C17_clean_bytes.

(** A phase that ends because a pass changed nothing ends on a tree where every rule that ran in
    that pass has no fix left, or only a fix whose result the loop has already seen. *)
Theorem C17_exit_nochange_is_fixpoint : forall (T K R F : Type) (key : T -> K) (key_eqb : K -> K -> bool)
    (crawl : R -> T -> option F) (apply : T -> F -> T) (rule_phase : R -> phase)
    (fix_compat : R -> bool) (rules : list R) (ph : phase) (fuel : nat) (pass : N) (s s' : st T K R),
  phase_loop T K R F key key_eqb crawl apply rule_phase fix_compat rules ph fuel pass s = (s', NoChange) ->
  exists pass' : N, forall r : R,
    In r (rules_of R rule_phase rules ph) ->
    eligible R fix_compat (is_first ph pass') r = true ->
    settled T K R F key key_eqb crawl apply (tree T K R s') (seen T K R s') r.
Proof. exact exit_nochange_is_fixpoint. Qed.
Print Assumptions C17_exit_nochange_is_fixpoint.

(** fix (fix x) = fix x from: determinism (crawl, apply, parse are functions), re-parse stability,
    convergence, and a lossless parse of the fixed text. *)
Theorem C17_idempotent_decomposition : forall (T K R F : Type) (key : T -> K) (key_eqb : K -> K -> bool)
    (crawl : R -> T -> option F) (apply : T -> F -> T) (rule_phase : R -> phase)
    (fix_compat : R -> bool) (rules : list R) (text : Type) (parse : text -> T) (raw : T -> text) (x : text),
  let t := final T K R F key key_eqb crawl apply rule_phase fix_compat rules (parse x) in
  (forall r : R, In r rules -> crawl r (parse (raw t)) = crawl r t) ->
  (forall r : R, In r rules -> crawl r t = None) ->
  raw (parse (raw t)) = raw t ->
  fix_text T K R F key key_eqb crawl apply rule_phase fix_compat rules text parse raw
    (fix_text T K R F key key_eqb crawl apply rule_phase fix_compat rules text parse raw x) =
  fix_text T K R F key key_eqb crawl apply rule_phase fix_compat rules text parse raw x.
Proof. exact idempotent_decomposition. Qed.
Print Assumptions C17_idempotent_decomposition.

(** H_converged from the exits: both phases end by NoChange, no result of a fix on the Main phase's
    final tree is rejected by the guard, and Post left that tree alone => no fix-compatible rule has
    a fix left on the final tree. *)
Theorem C17_converged_from_exits : forall (T K R F : Type) (key : T -> K) (key_eqb : K -> K -> bool)
    (crawl : R -> T -> option F) (apply : T -> F -> T) (rule_phase : R -> phase) (fix_compat : R -> bool)
    (rules : list R) (fm : nat) (pm : N) (sm sm' : st T K R) (fp : nat) (pp : N) (sp' : st T K R),
  phase_loop T K R F key key_eqb crawl apply rule_phase fix_compat rules Main fm pm sm = (sm', NoChange) ->
  phase_loop T K R F key key_eqb crawl apply rule_phase fix_compat rules Post fp pp sm' = (sp', NoChange) ->
  tree T K R sp' = tree T K R sm' ->
  (forall (r : R) (f : F), crawl r (tree T K R sm') = Some f ->
     mem_key K key_eqb (key (apply (tree T K R sm') f)) (seen T K R sm') = false) ->
  forall r : R, In r rules -> fix_compat r = true -> crawl r (tree T K R sp') = None.
Proof. exact converged_from_exits. Qed.
Print Assumptions C17_converged_from_exits.

(** Clause 1 with the noqa mask inside the model: the loop's [crawl] is "the fixes of the results of [Rule::crawl] that
    the file's IgnoreMask does not silence", and what lint reports is those same unsilenced results. Lint reports
    nothing (no result at all, or every result silenced by a directive) => fix returns the initial tree. *)
Theorem C17_lint_clean_untouched : forall (T K R E X : Type) (key : T -> K) (key_eqb : K -> K -> bool)
    (crawl_raw : R -> T -> list E) (masked : E -> bool) (fixes_of : E -> list X) (apply : T -> list X -> T)
    (rule_phase : R -> phase) (fix_compat : R -> bool) (rules : list R) (t0 : T),
  report T R E crawl_raw masked rules t0 = [] ->
  final T K R (list X) key key_eqb (crawl_m T R E X crawl_raw masked fixes_of) apply rule_phase fix_compat rules t0 = t0 /\
  snd (fst (run T K R (list X) key key_eqb (crawl_m T R E X crawl_raw masked fixes_of) apply rule_phase fix_compat rules t0)) = NoChange /\
  snd (run T K R (list X) key key_eqb (crawl_m T R E X crawl_raw masked fixes_of) apply rule_phase fix_compat rules t0) = NoChange.
Proof. exact lint_clean_is_untouched. Qed.
Print Assumptions C17_lint_clean_untouched.

(** The first event of a fix run: a batch of the first rule (registry order) that has an unsilenced result carrying a
    fix on the initial tree, or the end of a pass that changed nothing. *)
Theorem C17_first_batch_rule : forall (T K R E X : Type) (key : T -> K) (key_eqb : K -> K -> bool)
    (crawl_raw : R -> T -> list E) (masked : E -> bool) (fixes_of : E -> list X) (apply : T -> list X -> T)
    (rule_phase : R -> phase) (fix_compat : R -> bool) (rules : list R) (t0 : T),
  match first_fixing T R E X crawl_raw masked fixes_of rules t0 with
  | Some r => exists acc : bool,
      first_event T K R E X key key_eqb crawl_raw masked fixes_of apply rule_phase fix_compat rules t0 = Some (Batch R Main 0 r acc)
  | None =>
      first_event T K R E X key key_eqb crawl_raw masked fixes_of apply rule_phase fix_compat rules t0 = Some (PassEnd R Main 0 false)
  end.
Proof. exact first_batch_rule. Qed.
Print Assumptions C17_first_batch_rule.

(** ... so the rule of the first batch has a violation that lint reports, and that violation carries a fix:
    fix never starts from something lint does not show. *)
Theorem C17_first_batch_is_reported : forall (T K R E X : Type) (key : T -> K) (key_eqb : K -> K -> bool)
    (crawl_raw : R -> T -> list E) (masked : E -> bool) (fixes_of : E -> list X) (apply : T -> list X -> T)
    (rule_phase : R -> phase) (fix_compat : R -> bool) (rules : list R) (t0 : T) (r : R) (acc : bool),
  first_event T K R E X key key_eqb crawl_raw masked fixes_of apply rule_phase fix_compat rules t0 = Some (Batch R Main 0 r acc) ->
  exists e : E, In (r, e) (report T R E crawl_raw masked rules t0) /\ fixes_of e <> [].
Proof. exact first_batch_is_reported. Qed.
Print Assumptions C17_first_batch_is_reported.
