(** C11 — parse structure is invariant under layout and keyword case. Pinned statements only.
    Kernel lemmas about the pieces the invariance rests on, the conditional theorem that lifts
    engine non-interference to every combination of the property's perturbations, and (at the end)
    layout non-interference of the parser-engine interpreter [Pem.Model] itself: a theorem for every
    grammar graph that passes the decidable side condition [gap_safe_b] (checked by [vm_compute] on
    each dumped dialect graph).  The interpreter is tied to the real parser by the Pem
    correspondence; the lexer's half (which texts lex to aligned token lists) is observed by the
    differential exploration. *)
From Sq Require Import Base.Bytes Layout.Model Layout.Proofs.

(** The gap-skipping helpers read only the [is_code] flags ... *)
Theorem C11_skip_forward_flags : forall xs ys start max,
  map is_code xs = map is_code ys -> skip_forward xs start max = skip_forward ys start max.
Proof. exact skip_forward_flags. Qed.
Print Assumptions C11_skip_forward_flags.

Theorem C11_skip_backward_flags : forall xs ys stop min,
  map is_code xs = map is_code ys -> skip_backward xs stop min = skip_backward ys stop min.
Proof. exact skip_backward_flags. Qed.
Print Assumptions C11_skip_backward_flags.

(** ... never cross a code token, and stop on a code token or at the bound. *)
Theorem C11_skip_forward_spec : forall toks start max r,
  skip_forward toks start max = Some r ->
  start <= r /\ (r <= max \/ r = start) /\ code_rank toks r = code_rank toks start /\
  (r < max -> exists t, nth_error toks (N.to_nat r) = Some t /\ is_code t = true).
Proof. exact skip_forward_spec. Qed.
Print Assumptions C11_skip_forward_spec.

Theorem C11_skip_backward_spec : forall toks stop min r,
  skip_backward toks stop min = Some r ->
  r <= stop /\ (min <= r \/ r = stop) /\ code_rank toks r = code_rank toks stop /\
  (min < r -> exists t, nth_error toks (N.to_nat (r - 1)) = Some t /\ is_code t = true).
Proof. exact skip_backward_spec. Qed.
Print Assumptions C11_skip_backward_spec.

Theorem C11_skip_forward_total : forall toks start max,
  max <= N.of_nat (length toks) -> skip_forward toks start max <> None.
Proof. exact skip_forward_total. Qed.
Print Assumptions C11_skip_forward_total.

(** Keyword parsers see a token only through [is_code] and its ASCII-upper-cased raw. *)
Theorem C11_string_match_upper_only : forall tpl t1 t2,
  is_code t1 = is_code t2 -> upper (t_raw t1) = upper (t_raw t2) ->
  string_match tpl t1 = string_match tpl t2.
Proof. exact string_match_upper_only. Qed.
Print Assumptions C11_string_match_upper_only.

Theorem C11_multi_match_upper_only : forall tpls t1 t2,
  is_code t1 = is_code t2 -> upper (t_raw t1) = upper (t_raw t2) ->
  multi_match tpls t1 = multi_match tpls t2.
Proof. exact multi_match_upper_only. Qed.
Print Assumptions C11_multi_match_upper_only.

Theorem C11_string_multi_agree : forall tpl t, string_match tpl t = multi_match [upper tpl] t.
Proof. exact string_multi_agree. Qed.
Print Assumptions C11_string_multi_agree.

Theorem C11_recase_preserves_upper : forall s,
  upper (swapcase s) = upper s /\ upper (lower s) = upper s /\ upper (upper s) = upper s.
Proof. intros s. split; [apply upper_swapcase | split; [apply upper_lower | apply upper_idem]]. Qed.
Print Assumptions C11_recase_preserves_upper.

(** A block comment lexes to comment / newline / whitespace tokens only, whatever its layout. *)
Theorem C11_block_comment_non_code : forall s,
  Forall (fun e => is_code {| t_kind := fst e; t_raw := snd e |} = false) (block_comment_elems s).
Proof. exact block_comment_non_code. Qed.
Print Assumptions C11_block_comment_non_code.

(** The native block comment matcher consumes at least an opener and a closer, never more than
    the text ... *)
Theorem C11_block_comment_match_bounds : forall s n,
  block_comment_match s = Some n -> 4 <= n /\ n <= lenN s.
Proof. exact block_comment_match_bounds. Qed.
Print Assumptions C11_block_comment_match_bounds.

(** ... and a comment of the perturbation class (any bytes, ASCII or not, without NUL, opener or
    closer inside) is matched as exactly itself in *bytes*, whatever follows it; its elements are
    non-code and the text after it is handed on unchanged. *)
Theorem C11_block_comment_match_context_free : forall body rest,
  clean_body body = true ->
  block_comment_match (comment_of body ++ rest) = Some (lenN (comment_of body)).
Proof. exact block_comment_match_context_free. Qed.
Print Assumptions C11_block_comment_match_context_free.

Theorem C11_block_comment_lex_context_free : forall body rest,
  clean_body body = true ->
  block_comment_lex (comment_of body ++ rest) = Some (block_comment_elems (comment_of body), rest) /\
  Forall (fun e => is_code {| t_kind := fst e; t_raw := snd e |} = false)
         (block_comment_elems (comment_of body)).
Proof. exact block_comment_lex_context_free. Qed.
Print Assumptions C11_block_comment_lex_context_free.

(** The keyword-terminator guard of [greedy_match] distinguishes only meta / whitespace-or-newline /
    anything else ... *)
Theorem C11_guard_class_only : forall xs ys working start,
  map guard_class xs = map guard_class ys ->
  terminator_guard xs working start = terminator_guard ys working start.
Proof. exact guard_class_only. Qed.
Print Assumptions C11_guard_class_only.

(** ... a whitespace or newline token directly before the terminator always satisfies it ... *)
Theorem C11_guard_gap_before : forall toks working start t,
  0 < start -> working <= start ->
  nth_error toks (N.to_nat (start - 1)) = Some t -> is_gap_kind t = true ->
  terminator_guard toks working start = Some true.
Proof. exact guard_gap_before. Qed.
Print Assumptions C11_guard_gap_before.

(** ... a comment does not: same code tokens, different guard (known finding
    c11:comment-abuts-next-code-token). *)
Theorem C11_guard_comment_refuted :
  filter is_code g_sel = filter is_code g_sel_comment /\
  terminator_guard g_sel 2 4 = Some true /\ terminator_guard g_sel_comment 2 5 = Some false.
Proof. exact guard_comment_refuted. Qed.
Print Assumptions C11_guard_comment_refuted.

Theorem C11_guard_total : forall toks working start,
  0 < working -> start <= N.of_nat (length toks) -> terminator_guard toks working start <> None.
Proof. exact guard_total. Qed.
Print Assumptions C11_guard_total.

(** Each perturbation of the property leaves the code view (code tokens, keyword raws
    upper-cased) unchanged ... *)
Theorem C11_step_code_view : forall kw x y, step kw x y -> code_view kw x = code_view kw y.
Proof. exact step_code_view. Qed.
Print Assumptions C11_step_code_view.

(** ... so an engine whose code-only result depends on the code view alone gives the same shape
    for any combination of perturbations (globally or at any subset of positions). *)
Theorem C11_from_engine : forall E kw x y,
  engine_noninterference E kw -> related kw x y -> shape (E x) = shape (E y).
Proof. exact invariance_from_engine. Qed.
Print Assumptions C11_from_engine.

(** * Layout non-interference of the parser-engine interpreter (Pem)

    [lleft bs] / [lright bs]: two token lists aligned block by block - a token kept as it is (code
    and meta tokens can only be kept), or a non-empty run of free gap tokens (whitespace, newline,
    comment tokens invisible to the graph, [gap_ok_b]: no first-token hint, typed parser or node kind
    mentions them) replaced by another non-empty run of free gap tokens whose last token is
    whitespace/newline iff the original's is.  [Rb bs]: corresponding positions (block boundaries).  For every graph with
    [static_ok_b g U] (bracket ends are single tokens; every option handed to [longest_match]
    returns matches that start where it was asked), every fuel, all regex oracle tables that agree
    on kept tokens and reject free gap tokens: the same outcome and, on success, match trees that agree
    node for node with corresponding span ends and insert positions. *)
From Coq Require FMapPositive.
From Sq Require Pem.Model Pem.LayoutRel Pem.LayoutSim Pem.LayoutInv Pem.LayoutEx.

Theorem C11_layout_simulation : forall g U bs rx rx',
  Pem.LayoutRel.static_ok_b g U = true -> Forall (Pem.LayoutInv.blk_ok g) bs -> Pem.LayoutInv.rx_compat g bs rx rx' ->
  forall fuel s s' e e', Pem.LayoutInv.Rb bs s s' -> Pem.LayoutInv.Rb bs e e' ->
  Pem.LayoutSim.res_sim (Pem.LayoutSim.mr_sim (Pem.LayoutInv.Rb bs))
    (Pem.Model.parse_root g (Pem.Model.toks_of_list (Pem.LayoutInv.lleft bs)) rx fuel s e)
    (Pem.Model.parse_root g (Pem.Model.toks_of_list (Pem.LayoutInv.lright bs)) rx' fuel s' e').
Proof. exact Pem.LayoutInv.parse_root_layout_sim. Qed.
Print Assumptions C11_layout_simulation.

(** The layout clause of the property on the interpreter: if the root grammar matches the code span
    of the first list without unparsable sections, it matches the code span of the second list,
    again without unparsable sections, with the same code view (node kinds over code-token ranks). *)
Theorem C11_layout_invariant : forall g bs rx rx' fuel m,
  Pem.LayoutRel.gap_safe_b g = true -> Forall (Pem.LayoutInv.blk_ok g) bs -> Pem.LayoutInv.rx_compat g bs rx rx' ->
  Pem.Model.parse_root g (Pem.Model.toks_of_list (Pem.LayoutInv.lleft bs)) rx fuel
    (Pem.LayoutInv.cstart (Pem.LayoutInv.lleft bs)) (Pem.LayoutInv.cend (Pem.LayoutInv.lleft bs)) = Pem.Model.ROk m ->
  Pem.LayoutInv.clean_b g m = true ->
  exists m',
    Pem.Model.parse_root g (Pem.Model.toks_of_list (Pem.LayoutInv.lright bs)) rx' fuel
      (Pem.LayoutInv.cstart (Pem.LayoutInv.lright bs)) (Pem.LayoutInv.cend (Pem.LayoutInv.lright bs)) = Pem.Model.ROk m'
    /\ Pem.LayoutInv.clean_b g m' = true
    /\ Pem.LayoutInv.cview (Pem.LayoutInv.lright bs) m' = Pem.LayoutInv.cview (Pem.LayoutInv.lleft bs) m.
Proof. exact Pem.LayoutInv.pem_layout_invariant. Qed.
Print Assumptions C11_layout_invariant.

(** The same on plain token lists, with the alignment decided by [layout_related_b] and the regex
    parsers as an arbitrary oracle (a function of the regex and the token) that rejects free gap tokens. *)
Theorem C11_layout_invariant_lists : forall g l l' orx rx rx' fuel m,
  Pem.LayoutRel.gap_safe_b g = true -> Pem.LayoutInv.layout_related_b g l l' = true ->
  Pem.LayoutInv.rx_records orx l rx -> Pem.LayoutInv.rx_records orx l' rx' ->
  (forall rid t, Pem.LayoutRel.okgap g t -> In t l \/ In t l' -> orx rid t = false) ->
  Pem.Model.parse_root g (Pem.Model.toks_of_list l) rx fuel (Pem.LayoutInv.cstart l) (Pem.LayoutInv.cend l) = Pem.Model.ROk m ->
  Pem.LayoutInv.clean_b g m = true ->
  exists m',
    Pem.Model.parse_root g (Pem.Model.toks_of_list l') rx' fuel (Pem.LayoutInv.cstart l') (Pem.LayoutInv.cend l') = Pem.Model.ROk m'
    /\ Pem.LayoutInv.clean_b g m' = true /\ Pem.LayoutInv.cview l' m' = Pem.LayoutInv.cview l m.
Proof. exact Pem.LayoutInv.pem_layout_invariant_lists. Qed.
Print Assumptions C11_layout_invariant_lists.

(** Whatever the outcome, it is the same on both lists: success (same cleanliness, same code view),
    parse error, the same abort, or out of fuel. *)
Theorem C11_layout_same_outcome : forall g bs rx rx' fuel s s' e e',
  Pem.LayoutRel.gap_safe_b g = true -> Forall (Pem.LayoutInv.blk_ok g) bs -> Pem.LayoutInv.rx_compat g bs rx rx' ->
  Pem.LayoutInv.Rb bs s s' -> Pem.LayoutInv.Rb bs e e' ->
  match Pem.Model.parse_root g (Pem.Model.toks_of_list (Pem.LayoutInv.lleft bs)) rx fuel s e,
        Pem.Model.parse_root g (Pem.Model.toks_of_list (Pem.LayoutInv.lright bs)) rx' fuel s' e' with
  | Pem.Model.ROk m, Pem.Model.ROk m' =>
      Pem.LayoutInv.clean_b g m' = Pem.LayoutInv.clean_b g m
      /\ Pem.LayoutInv.cview (Pem.LayoutInv.lright bs) m' = Pem.LayoutInv.cview (Pem.LayoutInv.lleft bs) m
  | Pem.Model.RErr, Pem.Model.RErr => True
  | Pem.Model.RPanic p, Pem.Model.RPanic p' => p = p'
  | Pem.Model.RFuel, Pem.Model.RFuel => True
  | _, _ => False
  end.
Proof. exact Pem.LayoutInv.pem_layout_same_outcome. Qed.
Print Assumptions C11_layout_same_outcome.

(** The span handed to the root grammar (first to last code token) corresponds. *)
Theorem C11_layout_code_span : forall g bs, Forall (Pem.LayoutInv.blk_ok g) bs ->
  Pem.LayoutInv.Rb bs (Pem.LayoutInv.cstart (Pem.LayoutInv.lleft bs)) (Pem.LayoutInv.cstart (Pem.LayoutInv.lright bs))
  /\ Pem.LayoutInv.Rb bs (Pem.LayoutInv.cend (Pem.LayoutInv.lleft bs)) (Pem.LayoutInv.cend (Pem.LayoutInv.lright bs)).
Proof. exact Pem.LayoutInv.code_span_sim. Qed.
Print Assumptions C11_layout_code_span.

(** The clause "the last token of a gap keeps its class" cannot be dropped: same code tokens, every
    gap still non-empty, every gap token invisible to the graph, and the parse is lost (a comment
    directly before a keyword terminator; the guard of [greedy_match]). *)
Theorem C11_layout_last_class_needed :
  exists g bs fuel m,
    Pem.LayoutRel.gap_safe_b g = true /\ Forall (Pem.LayoutEx.blk_ok_weak g) bs
    /\ Pem.Model.parse_root g (Pem.Model.toks_of_list (Pem.LayoutInv.lleft bs)) [] fuel
         (Pem.LayoutInv.cstart (Pem.LayoutInv.lleft bs)) (Pem.LayoutInv.cend (Pem.LayoutInv.lleft bs)) = Pem.Model.ROk m
    /\ Pem.LayoutInv.clean_b g m = true
    /\ forall m',
         Pem.Model.parse_root g (Pem.Model.toks_of_list (Pem.LayoutInv.lright bs)) [] fuel
           (Pem.LayoutInv.cstart (Pem.LayoutInv.lright bs)) (Pem.LayoutInv.cend (Pem.LayoutInv.lright bs)) = Pem.Model.ROk m' ->
         Pem.LayoutInv.cview (Pem.LayoutInv.lright bs) m' <> Pem.LayoutInv.cview (Pem.LayoutInv.lleft bs) m.
Proof. exact Pem.LayoutEx.layout_last_class_needed. Qed.
Print Assumptions C11_layout_last_class_needed.

(** What [gap_safe_b] excludes is layout-sensitive in the engine: with a Greedy AnyNumberOf as an
    alternative of a OneOf tried at the start of a gap, the *length* of a whitespace run decides
    between a clean parse and an unparsable section (no real dialect graph has this shape). *)
Theorem C11_layout_greedy_option_sensitive :
  exists g l l' fuel m,
    Pem.LayoutInv.layout_related_b g l l' = true
    /\ Pem.Model.parse_root g (Pem.Model.toks_of_list l) [] fuel (Pem.LayoutInv.cstart l) (Pem.LayoutInv.cend l) = Pem.Model.ROk m
    /\ Pem.LayoutInv.clean_b g m = true
    /\ (forall m', Pem.Model.parse_root g (Pem.Model.toks_of_list l') [] fuel (Pem.LayoutInv.cstart l') (Pem.LayoutInv.cend l') = Pem.Model.ROk m' ->
                   Pem.LayoutInv.clean_b g m' = false)
    /\ Pem.LayoutRel.gap_safe_b g = false.
Proof. exact Pem.LayoutEx.layout_greedy_option_sensitive. Qed.
Print Assumptions C11_layout_greedy_option_sensitive.

(** The property's layout perturbations are alignments: at one site a run of free gap tokens is replaced
    by another whose last token has the same class (whitespace run -> other whitespace/newlines, a doubled
    blank line, a comment inserted inside whitespace, an inline comment before a newline); several sites at
    once are a block list with several such blocks. *)
Theorem C11_layout_one_site : forall g pre post w x w' x',
  Forall (Pem.LayoutRel.okgap g) (w ++ [x]) -> Forall (Pem.LayoutRel.okgap g) (w' ++ [x']) ->
  Pem.LayoutRel.wsn g x = Pem.LayoutRel.wsn g x' ->
  exists bs, Forall (Pem.LayoutInv.blk_ok g) bs
             /\ Pem.LayoutInv.lleft bs = pre ++ (w ++ [x]) ++ post /\ Pem.LayoutInv.lright bs = pre ++ (w' ++ [x']) ++ post.
Proof. exact Pem.LayoutInv.layout_one_site. Qed.
Print Assumptions C11_layout_one_site.
