(** C19 — file discovery honours extensions and the ignore file. Pinned statements only. *)
From Sq Require Import Base.Bytes Disc.Model Disc.Proofs Disc.Nav Disc.NavProofs.

(** The files handed to the linter (and to fix's write loop) are exactly: the files below a directory
    argument whose lower-cased name ends in a configured extension, plus explicitly named files, minus those
    the ignore patterns match — the file itself or any parent directory. *)
Theorem C19_set : forall t exts pats args outs,
  linted t exts pats args = Some outs ->
  forall p, In p (map snd outs) <->
    ((exists a, In a (effective_args args) /\
        ((lookup t (a_path a) = Some false /\ p = a_path a) \/
         (lookup t (a_path a) = Some true /\ is_prefix (a_path a) p = true /\
          In {| e_path := p; e_dir := false |} t /\ has_ext exts (last p []) = true)))
     /\ gi_ignored pats p false = false).
Proof. exact linted_set. Qed.
Print Assumptions C19_set.

(** Each file is processed once, however the arguments repeat, overlap or are spelled. *)
Theorem C19_once : forall t exts pats args outs,
  linted t exts pats args = Some outs -> NoDup (map snd outs).
Proof. exact linted_once. Qed.
Print Assumptions C19_once.

(** Discovery does not abort when every path argument exists. *)
Theorem C19_total : forall t exts pats args,
  (forall a, In a (effective_args args) -> lookup t (a_path a) <> None) ->
  exists outs, linted t exts pats args = Some outs.
Proof. exact linted_total. Qed.
Print Assumptions C19_total.

(** fix writes linted files only; nothing when no linted file has a violation, all of them otherwise. *)
Theorem C19_written : forall hv outs,
  (forall o, In o (written hv outs) -> In o outs) /\
  ((forall o, In o outs -> hv o = false) -> written hv outs = []) /\
  ((exists o, In o outs /\ hv o = true) -> written hv outs = outs).
Proof. exact written_spec. Qed.
Print Assumptions C19_written.

(** README: a line "d/" ignores ALL files in ANY directory named d — whatever lines precede it, provided no
    negation line follows it (last match wins). *)
Theorem C19_dir_pattern : forall ps1 ps2 d pre post isd,
  no_neg ps2 = true -> post <> [] ->
  gi_ignored (ps1 ++ dir_pat d :: ps2) (pre ++ d :: post) isd = true.
Proof. exact gi_dir_pattern. Qed.
Print Assumptions C19_dir_pattern.

(** The same law on the text of the ignore file: a line "d/" with d a plain name. *)
Theorem C19_dir_line : forall l1 l2 d pre post isd,
  plain_name d = true -> no_neg (parse_lines l2) = true -> post <> [] ->
  gi_ignored (parse_lines (l1 ++ (d ++ [47]) :: l2)) (pre ++ d :: post) isd = true.
Proof. exact gi_dir_line. Qed.
Print Assumptions C19_dir_line.

(** A directory decided "ignore" takes everything below it with it: no negation re-includes below it. *)
Theorem C19_level : forall ps pre d post isd,
  decide ps (pre ++ [d]) true = DIgnore -> post <> [] -> gi_ignored ps (pre ++ d :: post) isd = true.
Proof. exact gi_level. Qed.
Print Assumptions C19_level.

(** README: a glob line such as "*.hql" ignores ALL matching files, at any depth. *)
Theorem C19_glob_pattern : forall ps1 ps2 g pre name isd,
  no_neg ps2 = true -> cmatch g name = true ->
  gi_ignored (ps1 ++ {| p_neg := false; p_dir := false; p_comps := [CDStar; CGlob g] |} :: ps2) (pre ++ [name]) isd = true.
Proof. exact gi_glob_pattern. Qed.
Print Assumptions C19_glob_pattern.

(** The ignore crate's own parent walk (nearest decision wins) coincides with gitignore's reading exactly when
    no negation takes part; with negations it can re-include below an ignored directory. *)
Theorem C19_nearest_agree : forall ps path d, no_neg ps = true -> gi_nearest ps path d = gi_ignored ps path d.
Proof. exact gi_nearest_agree. Qed.
Print Assumptions C19_nearest_agree.

Theorem C19_nearest_differs : exists ps path, gi_ignored ps path false = true /\ gi_nearest ps path false = false.
Proof. exact nearest_differs. Qed.
Print Assumptions C19_nearest_differs.

(** The code before the three repairs falsified the property (see known_findings.txt for the four fix: commits). *)
Theorem C19_legacy_refuted_dir_pattern :
  exists t exts lines args outs p,
    linted_legacy t exts (parse_lines lines) args = Some outs /\ In p (map snd outs) /\
    gi_ignored (parse_lines lines) p false = true.
Proof. exact legacy_refuted_dir_pattern. Qed.
Print Assumptions C19_legacy_refuted_dir_pattern.

Theorem C19_legacy_refuted_once :
  exists t exts args outs, linted_legacy t exts [] args = Some outs /\ ~ NoDup (map snd outs).
Proof. exact legacy_refuted_once. Qed.
Print Assumptions C19_legacy_refuted_once.

Theorem C19_legacy_refuted_dir_candidate :
  exists t exts args, (forall a, In a (effective_args args) -> lookup t (a_path a) <> None) /\
                      linted_legacy t exts [] args = None.
Proof. exact legacy_refuted_dir_candidate. Qed.
Print Assumptions C19_legacy_refuted_dir_candidate.

Theorem C19_legacy_refuted_ext_case :
  exists t exts args, has_ext exts n_aSQL = true /\ ends_with (hd [] exts) n_aSQL = true /\
                      linted_legacy t exts [] args = Some [] /\
                      linted t exts [] args = Some [(Rel, [n_aSQL])].
Proof. exact legacy_refuted_ext_case. Qed.
Print Assumptions C19_legacy_refuted_ext_case.

(** Path arguments as they are written ("..", ".", absolute) from a working directory nested in the tree.
    [helpers::normalize], which paths_from_path applies to every discovered file, does not change the
    location a path denotes, whatever the working directory. *)
Theorem C19_normalize_sound : forall base p, resolve base (normalize p) = resolve base p.
Proof. exact normalize_sound. Qed.
Print Assumptions C19_normalize_sound.

(** Its result is ".", or ".."s (none in an absolute path) followed by names. *)
Theorem C19_normalize_normal_form : forall p,
  r_abs (normalize p) = r_abs p /\
  (r_comps (normalize p) = [CCur] \/
   exists k ns, r_comps (normalize p) = repeat CPar k ++ map CName ns /\ (r_abs p = true -> k = 0%nat)).
Proof. exact normalize_normal_form. Qed.
Print Assumptions C19_normalize_normal_form.

(** The variant in which a second leading ".." cancels the first (seeded change C19-6) is not sound. *)
Theorem C19_normalize_cancel_refuted : exists base p, resolve base (normalize_cancel p) <> resolve base p.
Proof. exact normalize_cancel_refuted. Qed.
Print Assumptions C19_normalize_cancel_refuted.

(** Every file is reported, read and (in fix mode) written under a name that denotes the file discovered
    below the argument, and that file lies in the tree. *)
Theorem C19_nav_spelling : forall R w t exts pats args outs,
  linted_nav R w t exts pats args = Some outs ->
  forall o, In o outs -> resolve (R ++ w) (fst o) = snd o /\ exists q, snd o = R ++ q.
Proof. exact nav_spelling. Qed.
Print Assumptions C19_nav_spelling.

(** The set characterisation for written arguments from the working directory R ++ w (the ignore file lies
    in the working directory and does not match files outside it). *)
Theorem C19_nav_set : forall R w t exts pats args outs,
  linted_nav R w t exts pats args = Some outs ->
  forall q, In (R ++ q) (map snd outs) <->
    ((exists a loc, In a (effective_nav R w args) /\ under R (resolve (R ++ w) a) = Some loc /\
        ((lookup t loc = Some false /\ q = loc) \/
         (lookup t loc = Some true /\ is_prefix loc q = true /\
          In {| e_path := q; e_dir := false |} t /\ has_ext exts (last q []) = true)))
     /\ ignored_nav R w pats (R ++ q) = false).
Proof. exact nav_set. Qed.
Print Assumptions C19_nav_set.

Theorem C19_nav_once : forall R w t exts pats args outs,
  linted_nav R w t exts pats args = Some outs -> NoDup (map snd outs).
Proof. exact nav_once. Qed.
Print Assumptions C19_nav_once.

Theorem C19_nav_total : forall R w t exts pats args,
  (forall a, In a (effective_nav R w args) ->
     exists loc, under R (resolve (R ++ w) a) = Some loc /\ lookup t loc <> None) ->
  exists outs, linted_nav R w t exts pats args = Some outs.
Proof. exact nav_total. Qed.
Print Assumptions C19_nav_total.
