(** C03 — linting and fixing never crash. Pinned statements only.
    The theorems cover the crash envelope (the stages and loop around the rule crawls, and the
    arithmetic that runs on every lint result outside the rules' [catch_unwind]); what is inside
    the parser, the rules and the reflow engine is covered by the crash search, not by these. *)
From Sq Require Import Base.Bytes Crash.Model Crash.Proofs.

(** The in-file configuration scan never panics (after the repair)... *)
Theorem C03_scan_config_total : forall src, scan_config false src = Val tt.
Proof. exact scan_config_total. Qed.
Print Assumptions C03_scan_config_total.

(** ... and before the repair it panicked exactly on files with a line starting "-- sqlfluff". *)
Theorem C03_scan_config_legacy_exact : forall src,
  scan_config true src =
  if existsb (starts_with sqlfluff_prefix) (split_byte 10 src) then Crash site_inline_config else Val tt.
Proof. exact scan_config_legacy_exact. Qed.
Print Assumptions C03_scan_config_legacy_exact.

Theorem C03_scan_config_legacy_refuted : exists src, scan_config true src = Crash site_inline_config.
Proof. exact scan_config_legacy_refuted. Qed.
Print Assumptions C03_scan_config_legacy_refuted.

(** [has_template_conflicts] (run on every lint result, outside catch_unwind) returns under the
    stage invariant: positioned anchor, non-empty raw slices, and a
    [templated_slice_to_source_slice] that does not panic (C15) — in either build profile. *)
Theorem C03_has_template_conflicts_total : forall wrapping tsts raw f,
  tsts_ok tsts -> fix_inv raw f -> ok (has_template_conflicts false wrapping tsts raw f).
Proof. exact has_template_conflicts_total. Qed.
Print Assumptions C03_has_template_conflicts_total.

Theorem C03_any_conflict_total : forall wrapping tsts raw fs,
  tsts_ok tsts -> Forall (fix_inv raw) fs -> ok (any_conflict false wrapping tsts raw fs).
Proof. exact any_conflict_total. Qed.
Print Assumptions C03_any_conflict_total.

(** Before the repair the same invariant did not suffice: a replacement by nothing (CV07 on "()")
    indexed an empty vector. *)
Theorem C03_fix_slices_legacy_refuted :
  exists tsts raw f, tsts_ok tsts /\ fix_inv raw f /\
    has_template_conflicts true true tsts raw f = Crash site_source_edit_index.
Proof. exact fix_slices_legacy_refuted. Qed.
Print Assumptions C03_fix_slices_legacy_refuted.

(** ... and a [CreateAfter] whose anchor ends at templated offset 0 underflowed in builds with
    overflow checks (repaired by b64f167). *)
Theorem C03_create_after_zero_legacy_refuted :
  tsts_ok id_tsts /\ fix_inv lit_file create_after_zero /\
  has_template_conflicts true false id_tsts lit_file create_after_zero = Crash site_create_after_underflow.
Proof. exact create_after_zero_legacy_refuted. Qed.
Print Assumptions C03_create_after_zero_legacy_refuted.

(** [compute_anchor_edit_info] (run on every fix batch before [apply_fixes]) returns when no fix of
    the batch is a "just source edit"; otherwise it can reach [unimplemented!()]. *)
Theorem C03_compute_aei_total : forall fs m,
  Forall (fun f => is_jse f = false) fs -> ok (compute_aei m fs).
Proof. exact compute_aei_total. Qed.
Print Assumptions C03_compute_aei_total.

Theorem C03_compute_aei_unimplemented_reachable :
  compute_aei [] aei_witness = Crash site_anchor_info_unimplemented.
Proof. exact compute_aei_unimplemented_reachable. Qed.
Print Assumptions C03_compute_aei_unimplemented_reachable.

(** The fix loop adds no crash of its own ... *)
Theorem C03_fix_loop_total : forall Tree version crawl apply fixmode all t,
  crawl_ok Tree crawl -> apply_ok Tree apply -> ok (lint_fix Tree version crawl apply fixmode all t).
Proof. exact lint_fix_total. Qed.
Print Assumptions C03_fix_loop_total.

(** ... and terminates within 10 + 2 passes and 12 * |rules| crawls, whatever the rules return;
    accepted tree versions never repeat (cycle guard) and the final tree is one of them. *)
Theorem C03_fix_loop_bounded : forall Tree version crawl apply fixmode all t st,
  lint_fix Tree version crawl apply fixmode all t = Val st ->
  pass_ends (l_events st) <= 12 /\
  l_crawls st <= 12 * N.of_nat (length all) /\
  guard_inv Tree version st.
Proof. exact lint_fix_bounded. Qed.
Print Assumptions C03_fix_loop_bounded.

Theorem C03_lint_mode_single_pass : forall Tree version crawl apply all t st,
  lint_fix Tree version crawl apply false all t = Val st ->
  l_tree st = t /\ l_crawls st = N.of_nat (length all) /\ pass_ends (l_events st) = 1.
Proof. exact lint_mode_single_pass. Qed.
Print Assumptions C03_lint_mode_single_pass.

(** The stage pipeline of [lint_string]: stage invariants chain to a result. Partial: the stages
    other than the scan are abstract here; their own totality is C01/C02/C04/C10/C12/C15. *)
Theorem C03_envelope_partial :
  forall TF Toks Tree Patches template lex parse mask lint_loop iter_patches no_patches fix_string
         (InvSrc : str -> Prop) (InvTF : TF -> Prop) (InvToks : TF -> Toks -> Prop)
         (InvTree : TF -> Tree -> Prop) (InvPatches : TF -> Patches -> Prop),
  (forall s, InvSrc s -> exists tf, template s = Val tf /\ InvTF tf) ->
  (forall tf, InvTF tf -> exists o, lex tf = Val o /\ (forall toks, o = Some toks -> InvToks tf toks)) ->
  (forall tf toks, InvToks tf toks -> exists o, parse toks = Val o /\ (forall tree, o = Some tree -> InvTree tf tree)) ->
  (forall tf tree, InvTree tf tree -> mask tree = Val tt) ->
  (forall tf fixmode tree, InvTree tf tree -> exists tree', lint_loop fixmode tree = Val tree' /\ InvTree tf tree') ->
  (forall tf tree, InvTree tf tree -> exists p, iter_patches tf tree = Val p /\ InvPatches tf p) ->
  (forall tf, InvPatches tf no_patches) ->
  (forall tf p, InvPatches tf p -> ok (fix_string tf p)) ->
  forall fixmode src, InvSrc src ->
    ok (lint_string TF Toks Tree Patches false template lex parse mask lint_loop iter_patches
                    no_patches fix_string fixmode src).
Proof. exact lint_string_total. Qed.
Print Assumptions C03_envelope_partial.

Theorem C03_envelope_legacy_refuted :
  forall TF Toks Tree Patches template lex parse mask lint_loop iter_patches no_patches fix_string fixmode,
  exists src,
    lint_string TF Toks Tree Patches true template lex parse mask lint_loop iter_patches
                no_patches fix_string fixmode src = Crash site_inline_config.
Proof. exact lint_string_legacy_refuted. Qed.
Print Assumptions C03_envelope_legacy_refuted.

(** Assembly of the kernels: if every fix any rule returns is anchored on a positioned segment and
    is not a "just source edit" (monitored on every real batch), the file has raw slices, and
    [templated_slice_to_source_slice] (C15) and [apply_fixes] (C12) do not panic, then the fix loop
    built from [has_template_conflicts], [compute_anchor_edit_info] and the bounded driver returns —
    in either build profile, whatever the rules' [eval] does (it is inside catch_unwind). *)
Theorem C03_lint_fix_total_from_invariants :
  forall Fix Tree shape_of batch_of wrapping tsts raw eval_results apply_fixes version,
  tsts_ok tsts ->
  (forall ph pass r t res fx, In res (eval_results ph pass r t) -> In fx res ->
     fix_inv raw (shape_of fx) /\ is_jse (batch_of fx) = false) ->
  (forall t fs, ok (apply_fixes t fs)) ->
  forall fixmode all t,
  ok (lint_fix Tree version
        (crawl_c Fix Tree shape_of false wrapping tsts raw eval_results)
        (apply_c Fix Tree shape_of batch_of false wrapping tsts raw eval_results apply_fixes)
        fixmode all t).
Proof. exact lint_fix_total_from_invariants. Qed.
Print Assumptions C03_lint_fix_total_from_invariants.

(* ------------------------------------------------------------------ the parser engine *)
From Sq Require Pem.Model Pem.Proofs Pem.NoPanicCert Pem.NoPanic Pem.NoPanicEx.

(** Panic-freedom of the parser engine, on the Gallina interpreter of the whole combinator engine
    ([Pem.Model], replayed against the real parser on every run).  For every grammar graph that
    satisfies the decidable side condition [panic_safe_b] (evaluated on each dumped dialect graph by
    [coq/gen/PemNoPanic_<d>.v]) and is closed, every token array defined below [ntoks], every regex
    oracle, fuel and span [s <= e <= ntoks]: the parse of the root grammar does not end in any of the
    engine's [panic!] / [unwrap] / [unimplemented!] / index sites.  [start_ok]: parsing starts behind
    index 0, or the first token is not a meta and pruning and [next_match] agree on its raw. *)
Theorem Pem_parse_never_panics : forall g,
  Pem.NoPanicCert.panic_safe_b g = true -> Pem.Proofs.pem_closed_b g = true ->
  forall toks ntoks rx fuel s e p,
    Pem.NoPanic.toks_def toks ntoks -> (s <= e)%N -> (e <= ntoks)%N -> Pem.NoPanic.start_ok g toks s ->
    Pem.Model.parse_root g toks rx fuel s e <> Pem.Model.RPanic p.
Proof. exact Pem.NoPanic.parse_never_panics. Qed.
Print Assumptions Pem_parse_never_panics.

(** For a graph with dangling references (the recorded findings of C14) the only abort left is the
    recorded one: "Grammar refers to ... which was not found" at a node whose reference is missing. *)
Theorem Pem_parse_panics_only_dangling : forall g,
  Pem.NoPanicCert.panic_safe_b g = true ->
  forall toks ntoks rx fuel s e p,
    Pem.NoPanic.toks_def toks ntoks -> (s <= e)%N -> (e <= ntoks)%N -> Pem.NoPanic.start_ok g toks s ->
    Pem.Model.parse_root g toks rx fuel s e = Pem.Model.RPanic p ->
    exists n, p = Pem.Model.PDangling n /\ Pem.Proofs.dangling_b g n = true.
Proof. exact Pem.NoPanic.parse_panics_only_dangling_safe. Qed.
Print Assumptions Pem_parse_panics_only_dangling.

(** The same for any certificate accepted by the checker (the side condition uses the computed least one). *)
Theorem Pem_parse_panics_only_dangling_cert : forall g cx,
  Pem.NoPanicCert.cert_ok_b g cx = true ->
  forall toks ntoks rx fuel s e p,
    Pem.NoPanic.toks_def toks ntoks -> (s <= e)%N -> (e <= ntoks)%N -> Pem.NoPanic.start_ok g toks s ->
    Pem.Model.parse_root g toks rx fuel s e = Pem.Model.RPanic p ->
    exists n, p = Pem.Model.PDangling n /\ Pem.Proofs.dangling_b g n = true.
Proof. exact Pem.NoPanic.parse_panics_only_dangling. Qed.
Print Assumptions Pem_parse_panics_only_dangling_cert.

(** The premise on the first token cannot be dropped: on a panic-safe closed graph, a first token whose
    trimmed raw is a keyword terminator while its whole raw is not makes the keyword guard of
    [greedy_match] read [segments[0 - 1]]. *)
Theorem Pem_panic_first_token_refuted :
  exists g toks, Pem.NoPanicCert.panic_safe_b g = true /\ Pem.Proofs.pem_closed_b g = true
                 /\ Pem.NoPanic.toks_def toks 1 /\ ~ Pem.NoPanic.start_ok g toks 0
                 /\ Pem.Model.parse_root g toks [] 30 0 1 = Pem.Model.RPanic Pem.Model.PIndex.
Proof. exact Pem.NoPanicEx.start_ok_needed. Qed.
Print Assumptions Pem_panic_first_token_refuted.

(** Nor can the side condition: closed graphs that violate it and reach [simple().unwrap()] (a context
    terminator without first-token hint below a Greedy Sequence), [unimplemented!()] ([Bracketed]
    without gaps) and an index past the slice (a leaf entered on the empty span). *)
Theorem Pem_panic_safe_needed :
  (exists g l s e, Pem.NoPanicEx.unsafe_witness g l s e Pem.Model.PUnwrap)
  /\ (exists g l s e, Pem.NoPanicEx.unsafe_witness g l s e Pem.Model.PUnimpl)
  /\ (exists g l s e, Pem.NoPanicEx.unsafe_witness g l s e Pem.Model.PIndex).
Proof. exact Pem.NoPanicEx.panic_safe_needed. Qed.
Print Assumptions Pem_panic_safe_needed.

(** Fuel: an answer of the interpreter other than "out of fuel" is the answer for every larger fuel
    (every algorithm of the engine is monotone in the recursive matcher and in its loop fuel).  Step 1
    of termination; a fuel bound itself is not proved (notes/C03.md). *)
From Sq Require Pem.FuelMono.
Theorem Pem_fuel_monotone : forall g toks rx fuel fuel' s e r,
  (fuel <= fuel')%nat -> Pem.Model.parse_root g toks rx fuel s e = r -> r <> Pem.Model.RFuel ->
  Pem.Model.parse_root g toks rx fuel' s e = r.
Proof. exact Pem.FuelMono.parse_root_fuel_mono. Qed.
Print Assumptions Pem_fuel_monotone.

(** The same with the premises on the input as a boolean ([start_ok_b], sound for [start_ok]): the form
    that the Pem replay evaluates on every recorded real parse (blocking monitor [H_start_ok]). *)
From Sq Require Pem.NoPanicMon.
Theorem Pem_parse_never_panics_monitored : forall g,
  Pem.NoPanicCert.panic_safe_b g = true -> Pem.Proofs.pem_closed_b g = true ->
  forall l rx fuel s e p,
    (s <= e)%N -> (e <= N.of_nat (length l))%N ->
    Pem.NoPanicMon.start_ok_b g (Pem.Model.toks_of_list l) s = true ->
    Pem.Model.parse_root g (Pem.Model.toks_of_list l) rx fuel s e <> Pem.Model.RPanic p.
Proof. exact Pem.NoPanicMon.parse_never_panics_mon. Qed.
Print Assumptions Pem_parse_never_panics_monitored.

(** Termination of the parser engine (the non-termination clause of C03 for the combinator engine): for every
    graph that satisfies the decidable side condition [term_safe_b] - a set of token-consuming nodes containing
    the opening brackets and the keyword-like terminators of every trimming node, and a rank for every invocable
    node that decreases along every call the engine can make at the caller's own start index (context
    terminators included) -, every token stream and regex oracle, the interpreter answers: some fuel suffices ... *)
From Sq Require Pem.TermCert Pem.TermProgress Pem.Term Pem.TermEx.
Theorem Pem_parse_terminates : forall g,
  Pem.TermCert.term_safe_b g = true ->
  forall toks ntoks rx s e,
    Pem.NoPanic.toks_def toks ntoks -> (s <= e)%N -> (e <= ntoks)%N ->
    exists fuel, Pem.Model.parse_root g toks rx fuel s e <> Pem.Model.RFuel.
Proof. exact Pem.Term.parse_terminates. Qed.
Print Assumptions Pem_parse_terminates.

(** ... namely [fuel_bound g (e - s)] = (tokens + 1) * (number of nodes + 3) + number of nodes + 1, for any token
    map at all (measure: tokens left, then rank) ... *)
Theorem Pem_parse_terminates_bound : forall g,
  Pem.TermCert.term_safe_b g = true ->
  forall toks rx s e fuel, (s <= e)%N -> (Pem.Term.fuel_bound g (e - s) <= fuel)%nat ->
    Pem.Model.parse_root g toks rx fuel s e <> Pem.Model.RFuel.
Proof. exact Pem.Term.parse_terminates_bound. Qed.
Print Assumptions Pem_parse_terminates_bound.

(** ... and, by fuel monotonicity, the answer at the bound is the engine's answer. *)
Theorem Pem_parse_answer_stable : forall g,
  Pem.TermCert.term_safe_b g = true ->
  forall toks rx s e fuel, (s <= e)%N -> (Pem.Term.fuel_bound g (e - s) <= fuel)%nat ->
    Pem.Model.parse_root g toks rx fuel s e
    = Pem.Model.parse_root g toks rx (Pem.Term.fuel_bound g (e - s)) s e.
Proof. exact Pem.Term.parse_answer_stable. Qed.
Print Assumptions Pem_parse_answer_stable.

(** The same for any certificate (context terminators, token-consuming set, ranks) accepted by the checker. *)
Theorem Pem_parse_terminates_cert : forall g cx tc rk,
  Pem.TermCert.term_ok_b g cx tc rk = true ->
  forall toks rx s e fuel, (s <= e)%N -> (Pem.Term.fuel_bound g (e - s) <= fuel)%nat ->
    Pem.Model.parse_root g toks rx fuel s e <> Pem.Model.RFuel.
Proof. exact Pem.Term.parse_terminates_cert. Qed.
Print Assumptions Pem_parse_terminates_cert.

(** Loop progress needs no condition on the options of [AnyNumberOf] / [Delimited]: whatever the graph, a match
    returned by [longest_match] ends behind the index it was started at (the engine's own guard). *)
Theorem Pem_longest_match_advances : forall g toks rec,
  (forall n i l t m, (i <= l)%N -> rec n i l t = Pem.Model.ROk m -> Pem.Bounds.B i l m) ->
  forall len ms idx terms m o,
    Pem.Model.longest_match g toks rec len ms idx terms = Pem.Model.ROk (m, o) ->
    Apply.Model.has_match m = true -> (idx < Apply.Model.mr_end m)%N.
Proof. exact Pem.TermProgress.longest_match_adv. Qed.
Print Assumptions Pem_longest_match_advances.

(** The side condition cannot be dropped: on a left-recursive graph (a segment whose grammar refers back to the
    segment) the interpreter answers for no fuel. *)
Theorem Pem_term_safe_needed :
  exists g toks, Pem.TermCert.term_safe_b g = false
                 /\ forall rx fuel, Pem.Model.parse_root g toks rx fuel 0 1 = Pem.Model.RFuel.
Proof. exact Pem.TermEx.term_safe_needed. Qed.
Print Assumptions Pem_term_safe_needed.
