(** C06 — layout fixes change only layout. Pinned statements only. *)
From Sq Require Import Base.Bytes FixTree.Model FixTree.Proofs.

Theorem C06_step_cases : forall t seen fs t' seen',
  step (t, seen) fs = Some (t', seen') ->
  (t' = t /\ seen' = seen) \/ (apply_batch t fs = Some t' /\ seen' = seg_raw t' :: seen).
Proof. exact step_cases. Qed.
Print Assumptions C06_step_cases.
