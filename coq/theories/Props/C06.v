(** C06 — layout fixes change only layout. Pinned statements only. *)
From Sq Require Import Base.Bytes FixTree.Model FixTree.Proofs FixTree.Examples FixTree.Loop.

(** [apply_fixes] (fuel, consumption of the fix map, first-match, pair reversal, recursion
    into inserted segments) computes the lookup-based rewriting [rw] of the tree: under
    unique ids, no anchored id inside an edit, and at most one use of the anchor per entry,
    for every sufficient fuel. No edit is dropped, duplicated or misplaced. *)
Theorem C06_apply_fixes_refines : forall t m fuel,
  ids_uniqueb t = true -> edits_freshb m = true -> single_anchorb m = true ->
  (height t + list_max (edit_heights m) < fuel)%nat ->
  exists m', apply_fixes fuel t m = Some (rw m t, m').
Proof. exact apply_fixes_refines. Qed.
Print Assumptions C06_apply_fixes_refines.

(** ... for one batch as the fix loop applies it *)
Theorem C06_apply_batch_spec : forall t fs m,
  compute_anchor_edit_info fs = Some m ->
  ids_uniqueb t = true -> edits_freshb m = true -> single_anchorb m = true ->
  apply_batch t fs = Some (rw m t).
Proof. exact apply_batch_spec. Qed.
Print Assumptions C06_apply_batch_spec.

(** ... and, for batches anchored on tokens, on the list of leaves: each leaf is rewritten
    in place (Delete -> nothing, Replace -> edits, CreateBefore -> edits then the leaf,
    CreateAfter -> the leaf then edits, the pair -> before, leaf, after). *)
Theorem C06_leaves_rewrite : forall m t,
  no_children t = false ->
  (forall j, In j (inner_ids t) -> lookup j m = None) ->
  leaves (rw m t) = rewrite m (leaves t).
Proof. exact leaves_rw_rewrite. Qed.
Print Assumptions C06_leaves_rewrite.

(** Tree level: if every batch the loop applies passes the monitored conditions
    (code-neutral on the rewriting specification), the final tree holds the same code
    tokens in the same order and the same multiset of comments as the parsed tree —
    for any number of batches, accepted or rejected. *)
Theorem C06_tree : forall bs st,
  run_okb st bs = true ->
  exists st', run st bs = Some st' /\ same_content (fst st) (fst st').
Proof. exact run_preserves. Qed.
Print Assumptions C06_tree.

(** The same through the loop as the code runs it (phase Main: up to 10 passes over every
    rule, phase Post: up to 2 passes, a pass applies each rule's non-empty batch in turn,
    stop when a pass accepts nothing), the rules being arbitrary functions from trees to fix
    lists: if every batch they propose passes the monitored conditions, the loop terminates
    normally and the final tree has the content of the parsed one. *)
Theorem C06_loop : forall all_rules post_rules t,
  rules_ok all_rules -> rules_ok post_rules ->
  exists st', lint_fix_loop all_rules post_rules t = Some st' /\ same_content t (fst st').
Proof. exact loop_preserves. Qed.
Print Assumptions C06_loop.

(** Text level: tree-level preservation plus re-lex stability of the final tree give the
    property as stated on texts, for any lexer. *)
Theorem C06_text : forall (lex : str -> list (N * str)) src fixed t0 bs,
  seg_raw t0 = src ->
  relex_stable lex t0 ->
  run_okb (init_state t0) bs = true ->
  exists tf seen,
    run (init_state t0) bs = Some (tf, seen) /\
    (fixed = seg_raw tf ->
     relex_stable lex tf ->
     code_toks (lex fixed) = code_toks (lex src) /\
     (forall c, count_str c (comment_toks (lex fixed)) = count_str c (comment_toks (lex src))) /\
     code_toks (lex fixed) = code_seq (leaves tf)).
Proof. exact text_preserved. Qed.
Print Assumptions C06_text.

(** Re-lex stability is a genuine extra hypothesis (this is where the known findings live):
    a tree-level code-neutral batch can fuse two tokens in the text. *)
Theorem C06_relex_not_implied :
  exists t fs tf seen, run_okb (init_state t) [fs] = true /\ run (init_state t) [fs] = Some (tf, seen) /\
                       code_toks (toy_lex (seg_raw tf)) <> code_seq (leaves tf).
Proof. exact relex_not_implied. Qed.
Print Assumptions C06_relex_not_implied.

(** The hypotheses of the refinement are needed. *)
Theorem C06_double_before_duplicates :
  exists t fs t', ids_uniqueb t = true /\ apply_batch t fs = Some t' /\ ids_uniqueb t' = false.
Proof. exact double_before_duplicates. Qed.
Print Assumptions C06_double_before_duplicates.

Theorem C06_unfresh_edit_differs :
  exists t fs m t', compute_anchor_edit_info fs = Some m /\ ids_uniqueb t = true /\
                    apply_batch t fs = Some t' /\ seg_eqb t' (rw m t) = false.
Proof. exact unfresh_edit_differs. Qed.
Print Assumptions C06_unfresh_edit_differs.

(** Non-vacuity: the hypotheses hold together on a run that changes the text. *)
Theorem C06_text_hypotheses_satisfiable :
  relex_stable toy_lex ex_t2 /\ run_okb (init_state ex_t2) [ex_fs2] = true /\
  exists tf seen, run (init_state ex_t2) [ex_fs2] = Some (tf, seen) /\ relex_stable toy_lex tf
                  /\ seg_raw tf <> seg_raw ex_t2.
Proof. exact text_hypotheses_satisfiable. Qed.
Print Assumptions C06_text_hypotheses_satisfiable.

Theorem C06_loop_rules_ok_satisfiable : rules_ok [ex_rule_a] /\
  option_map (fun st => map l_id (leaves (fst st))) (lint_fix_loop [ex_rule_a] [] ex_t2)
  = Some [1; 2; 4; 5; 20; 6; 8].
Proof. exact (conj ex_rule_a_ok loop_runs). Qed.
Print Assumptions C06_loop_rules_ok_satisfiable.
