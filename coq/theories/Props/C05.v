(** C05 — fix never turns SQL that parsed into SQL that does not. Pinned statements only.
    No mechanism in the code enforces C05; what is proved is its decomposition for
    layout + capitalisation selections. For code-rewriting rules no theorem is available. *)
From Sq Require Import Base.Bytes FixParse.Model FixParse.Proofs.

(** If the parse verdict depends only on the case-folded code tokens and the gaps (C11),
    every layout batch preserves the code tokens (C06) and every capitalisation batch
    preserves them up to letter case (C16), both within C11's gaps, then any run of such
    batches, of any length and in any order, keeps a parsable text parsable. *)
Theorem C05_decomposition :
  forall (text : Type) (lex : text -> list (N * str)) (fold : str -> str)
         (rule : Type) (step : rule -> text -> text) (parse_ok : text -> bool)
         (is_layout is_caps : rule -> bool) (gaps_ok : text -> text -> Prop),
    (forall x, gaps_ok x x) ->
    (forall x y z, gaps_ok x y -> gaps_ok y z -> gaps_ok x z) ->
    (forall x y, skeleton text lex fold x = skeleton text lex fold y -> gaps_ok x y ->
                 parse_ok x = true -> parse_ok y = true) ->
    (forall r x, is_layout r = true ->
                 code_raws text lex (step r x) = code_raws text lex x /\ gaps_ok x (step r x)) ->
    (forall r x, is_caps r = true ->
                 skeleton text lex fold (step r x) = skeleton text lex fold x /\ gaps_ok x (step r x)) ->
    forall rs x,
      Forall (fun r => is_layout r = true \/ is_caps r = true) rs ->
      parse_ok x = true -> parse_ok (run_steps text rule step rs x) = true.
Proof. exact decomposition. Qed.
Print Assumptions C05_decomposition.

(** Non-vacuity: an instance meeting every hypothesis, on a run that changes the text. *)
Theorem C05_decomposition_instance :
  ex_parse_ok (run_steps ex_text ex_rule ex_step [RLayout; RCaps; RLayout] ex_src) = true
  /\ run_steps ex_text ex_rule ex_step [RLayout; RCaps; RLayout] ex_src <> ex_src.
Proof. exact decomposition_instance. Qed.
Print Assumptions C05_decomposition_instance.
