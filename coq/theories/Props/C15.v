(** C15 — templating keeps an exact source-to-rendered map. Pinned statements only. *)
From Sq Require Import Base.Bytes Templ.Model Templ.Proofs.

(** [iter_segments] as it was before fix 7ed96a0 mapped tokens depending on the tokens before them. *)
Theorem C15_legacy_refuted_cursor :
  exists sl els gs, iter_segments_legacy false sl els = Some gs /\
    exists g, In g gs /\ map_spec sl (g_t0 g) (g_t1 g) <> Some (g_s0 g, g_s1 g).
Proof. exact legacy_refuted_cursor. Qed.
Print Assumptions C15_legacy_refuted_cursor.

Theorem C15_legacy_refuted_panic :
  exists sl els, iter_segments_legacy false sl els = None /\ iter_segments sl els <> None.
Proof. exact legacy_refuted_panic. Qed.
Print Assumptions C15_legacy_refuted_panic.

Theorem C15_legacy_refuted_underflow :
  exists sl els, iter_segments_legacy true sl els = None /\ iter_segments sl els <> None.
Proof. exact legacy_refuted_underflow. Qed.
Print Assumptions C15_legacy_refuted_underflow.

Theorem C15_legacy_refuted_whitespace :
  exists sl els, iter_segments_legacy false sl els = None /\ iter_segments sl els <> None.
Proof. exact legacy_refuted_whitespace. Qed.
Print Assumptions C15_legacy_refuted_whitespace.
