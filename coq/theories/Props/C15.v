(** C15 — templating keeps an exact source-to-rendered map. Pinned statements only. *)
From Sq Require Import Base.Bytes Templ.Model Templ.Proofs.

(** [process] under the regex contract [H_caps] (captures in order, disjoint, inside the source)
    never panics; it returns [Err] exactly when the substitution is undefined (a configured value
    that is not a string/int/bool); otherwise the rendered text is the source with every
    placeholder replaced by its configured value or its own name, the slices tile both texts
    without gaps or overlaps with literal slices covering identical text, and the raw slices
    tile the source (so the [TemplatedFile] constructor accepts them). *)
Theorem C15_render_tiling : forall src vals caps,
  caps_ok caps 0 (len src) ->
  match process src vals caps with
  | ROk r =>
      render_spec src vals caps 0 1 = Some (tf_tpl r) /\
      tiling src (tf_tpl r) (tf_sl r) 0 0 /\
      raw_tiling src (tf_rs r) 0
  | RErr => render_spec src vals caps 0 1 = None
  | RPanic => False
  end.
Proof. exact process_spec. Qed.
Print Assumptions C15_render_tiling.

Theorem C15_process_total : forall src vals caps,
  caps_ok caps 0 (len src) -> (forall n, replacement vals n <> None) ->
  exists r, process src vals caps = ROk r.
Proof. exact process_total. Qed.
Print Assumptions C15_process_total.

(** [iter_segments] (repaired code) on every slice list the constructor accepts (contiguous from 0,
    text-bearing slices literal or templated) and every list of lexed elements (non-empty,
    contiguous from 0, inside the rendered text): it does not panic; the tokens of an element are
    [tokens_of sl e], a function of the slice list and that element only (locality); they tile the
    element's range in order; each token's source range is [map_spec] of its own rendered range
    (literal: offset-translated; templated: the whole placeholder; straddling: from the start in
    the first slice to the end in the last); only whitespace is ever split. *)
Theorem C15_map : forall sl els,
  wf_slices sl -> wf_elems sl els ->
  iter_segments sl els = Some (concat (map (tokens_of sl) els)) /\
  Forall (fun e => token_ok sl e (tokens_of sl e)) els.
Proof. exact iter_segments_map. Qed.
Print Assumptions C15_map.

(** the same with the cut points of split whitespace: only at the end of a literal slice that
    holds the piece (relational form of the specification) *)
Theorem C15_map_pieces : forall sl els,
  wf_slices sl -> wf_elems sl els ->
  iter_segments sl els = Some (concat (map (tokens_of sl) els)) /\
  Forall (fun e => pieces sl e (e0 e) (tokens_of sl e)) els.
Proof. exact iter_segments_spec. Qed.
Print Assumptions C15_map_pieces.

Theorem C15_local : forall sl pre1 post1 pre2 post2 e,
  wf_slices sl -> wf_elems sl (pre1 ++ e :: post1) -> wf_elems sl (pre2 ++ e :: post2) ->
  exists a1 b1 a2 b2,
    iter_segments sl (pre1 ++ e :: post1) = Some (a1 ++ tokens_of sl e ++ b1) /\
    iter_segments sl (pre2 ++ e :: post2) = Some (a2 ++ tokens_of sl e ++ b2) /\
    length a1 = length (concat (map (tokens_of sl) pre1)) /\
    length a2 = length (concat (map (tokens_of sl) pre2)).
Proof. exact iter_segments_local. Qed.
Print Assumptions C15_local.

(** end to end: the slices [process] produces are well formed for the lexer, every token gets the
    specified source range, and that range lies inside the source (used by C08) *)
Theorem C15_process_lex : forall src vals caps r els,
  caps_ok caps 0 (len src) -> process src vals caps = ROk r ->
  echain els 0 -> echain_end els 0 <= len (tf_tpl r) ->
  iter_segments (tf_sl r) els = Some (concat (map (tokens_of (tf_sl r)) els)) /\
  Forall (fun e => token_ok (tf_sl r) e (tokens_of (tf_sl r) e) /\
                   Forall (fun g => g_s0 g <= g_s1 g /\ g_s1 g <= len src) (tokens_of (tf_sl r) e)) els.
Proof. exact process_lex_spec. Qed.
Print Assumptions C15_process_lex.

(** [is_source_slice_literal] (which decides whether a fix may touch a source range) on raw slices
    that tile the source - e.g. those [process] makes, by C15_render_tiling - answers exactly
    "every raw slice overlapping the range is literal". *)
Theorem C15_literal : forall src rs a b,
  raw_tiling src rs 0 -> a < b -> b <= len src ->
  is_source_slice_literal rs a b = lit_spec rs a b.
Proof. exact is_source_slice_literal_spec. Qed.
Print Assumptions C15_literal.

(** [iter_segments] as it was before fix 7940035: mapping depending on earlier tokens, panics. *)
Theorem C15_legacy_refuted_cursor :
  exists sl els gs, iter_segments_legacy false sl els = Some gs /\
    exists g, In g gs /\ map_spec sl (g_t0 g) (g_t1 g) <> Some (g_s0 g, g_s1 g).
Proof. exact legacy_refuted_cursor. Qed.
Print Assumptions C15_legacy_refuted_cursor.

Theorem C15_legacy_refuted_panic :
  exists sl els, iter_segments_legacy false sl els = None /\ iter_segments sl els <> None.
Proof. exact legacy_refuted_panic. Qed.
Print Assumptions C15_legacy_refuted_panic.

Theorem C15_legacy_refuted_underflow :
  exists sl els, iter_segments_legacy true sl els = None /\ iter_segments sl els <> None.
Proof. exact legacy_refuted_underflow. Qed.
Print Assumptions C15_legacy_refuted_underflow.

Theorem C15_legacy_refuted_whitespace :
  exists sl els, iter_segments_legacy false sl els = None /\ iter_segments sl els <> None.
Proof. exact legacy_refuted_whitespace. Qed.
Print Assumptions C15_legacy_refuted_whitespace.
