(** C07 — linting is pure, deterministic and independent of scheduling. Pinned statements only. *)
From Sq Require Import Base.Bytes Sched.Model Sched.Proofs Sched.DedupProofs Sched.PureModel Sched.PureProofs
  Sched.VerdictModel Sched.VerdictProofs.
From Coq Require Import Permutation.

(** Lint mode ([fix = false]) runs exactly one pass of the main phase and hands back the tree it was
    given, whatever the rules propose. *)
Theorem C07_lint_mode_applies_nothing :
  forall tree key rule key_eqb key_of rule_phase fix_compatible crawl rules (t : tree),
    lint_fix_parsed tree key rule key_eqb key_of rule_phase fix_compatible crawl rules false t
    = (t, [PassEnd Main 0 false]).
Proof. exact lint_mode_applies_nothing. Qed.
Print Assumptions C07_lint_mode_applies_nothing.

(** [fix_string] of a result without patches is the source (whatever the source-only slices). *)
Theorem C07_fix_string_no_patches : forall source_only raw, fix_string [] source_only raw = raw.
Proof. exact fix_string_no_patches. Qed.
Print Assumptions C07_fix_string_no_patches.

(** Linting without fix never changes the text: if the freshly parsed tree yields no patch
    (hypothesis [H_parse_patches], monitored on every linted file), the lint-only result carries no
    patch and its fixed output is the (newline-normalised) source. *)
Theorem C07_lint_no_change :
  forall tree key rule key_eqb key_of rule_phase fix_compatible crawl rules
         (iter_patches : tree -> list patch) t source_only raw,
    iter_patches t = [] ->
    let t' := fst (lint_fix_parsed tree key rule key_eqb key_of rule_phase fix_compatible crawl rules false t) in
    t' = t /\ iter_patches t' = [] /\ fix_string (iter_patches t') source_only raw = raw.
Proof. exact lint_no_change. Qed.
Print Assumptions C07_lint_no_change.

(** Scheduling: for any completion order of the worker threads (any permutation of the selected
    files) [lint_paths] does not panic, and two completion orders give, directory by directory, the
    same files with the same results. *)
Theorem C07_schedule_independent : forall res (lint : N -> res) ignored exps o1 o2 bs1 bs2,
  Permutation o1 (selected ignored exps) -> Permutation o2 (selected ignored exps) ->
  collect res lint exps o1 = Some bs1 -> collect res lint exps o2 = Some bs2 ->
  length bs1 = length bs2 /\ forall i, Permutation (nth i bs1 []) (nth i bs2 []).
Proof. exact schedule_independent. Qed.
Print Assumptions C07_schedule_independent.

Theorem C07_no_panic_and_buckets : forall res (lint : N -> res) ignored exps order,
  Permutation order (selected ignored exps) ->
  exists bs, collect res lint exps order = Some bs /\ length bs = length exps
    /\ forall i, nth i bs [] = map (entry res lint) (filter (dir_is exps i) order).
Proof. exact collect_buckets. Qed.
Print Assumptions C07_no_panic_and_buckets.

(** Every selected file appears exactly once in the result, no other file appears, and its entry is
    the result of linting that file — for the fan-in alone, on expansion lists that hold no path
    twice (what the expansion loop hands over: [C07_dedup_each_file_exactly_once] below). *)
Theorem C07_each_exactly_once : forall res (lint : N -> res) ignored exps order bs p,
  NoDup (expanded exps) ->
  Permutation order (selected ignored exps) -> collect res lint exps order = Some bs ->
  let es := filter (fun e : N * res => fst e =? p) (concat bs) in
  length es = (if memN p (selected ignored exps) then 1%nat else 0%nat)
  /\ Forall (fun e => e = entry res lint p) es.
Proof. exact each_exactly_once. Qed.
Print Assumptions C07_each_exactly_once.

(** The entry of a file does not depend on which other files are linted in the same invocation,
    on the ignore predicate for other files, or on the schedule. *)
Theorem C07_batch_independent : forall res lint ign1 ign2 exps1 exps2 o1 o2 bs1 bs2 p,
  NoDup (expanded exps1) -> NoDup (expanded exps2) ->
  Permutation o1 (selected ign1 exps1) -> Permutation o2 (selected ign2 exps2) ->
  collect res lint exps1 o1 = Some bs1 -> collect res lint exps2 o2 = Some bs2 ->
  memN p (selected ign1 exps1) = true -> memN p (selected ign2 exps2) = true ->
  exists e, filter (fun e : N * res => fst e =? p) (concat bs1) = [e]
         /\ filter (fun e : N * res => fst e =? p) (concat bs2) = [e] /\ e = (p, lint p).
Proof. exact batch_independent. Qed.
Print Assumptions C07_batch_independent.

(** [lint_paths] with its expansion loop ([seen_files]: a file already reached through an earlier
    argument, or earlier in the same expansion, is skipped; "the same file" = the same identity,
    however the path is spelled). For all path arguments — repeated, overlapping, the same file
    under several spellings — all ignore predicates and all completion orders: no panic, one
    directory per argument, no file twice. *)
Theorem C07_dedup_at_most_once : forall res (lint : N -> res) ident exps ignored order,
  Permutation order (selected ignored (kept ident exps)) ->
  exists bs, lint_paths res lint ident exps order = Some bs /\ length bs = length exps
    /\ forall f, (length (of_file res ident f bs) <= 1)%nat.
Proof. exact dedup_at_most_once. Qed.
Print Assumptions C07_dedup_at_most_once.

(** ... and with an ignore predicate that is a property of the file: a file has exactly one entry
    when some argument reaches it and it is not ignored, none otherwise; the entry carries a path
    of the expansion and the result of linting that path. *)
Theorem C07_dedup_each_file_exactly_once : forall res (lint : N -> res) ident exps ign order,
  Permutation order (selected (fun p => ign (ident p)) (kept ident exps)) ->
  exists bs, lint_paths res lint ident exps order = Some bs /\ length bs = length exps
    /\ forall f, length (of_file res ident f bs) =
         (if existsb (fun p => ident p =? f) (expanded exps) && negb (ign f) then 1%nat else 0%nat)
       /\ Forall (fun e => In (fst e) (expanded exps) /\ snd e = lint (fst e)) (of_file res ident f bs).
Proof. exact dedup_each_file_exactly_once. Qed.
Print Assumptions C07_dedup_each_file_exactly_once.

(** What is reported for a file is the same in two invocations with other arguments, other
    spellings, other ignored files and another schedule (given [H_pure]: linting depends on the
    file only). *)
Theorem C07_dedup_batch_independent :
  forall res (lint : N -> res) (lintf : N -> res) ident ign1 ign2 exps1 exps2 o1 o2 bs1 bs2 f,
  (forall p, lint p = lintf (ident p)) ->
  Permutation o1 (selected (fun p => ign1 (ident p)) (kept ident exps1)) ->
  Permutation o2 (selected (fun p => ign2 (ident p)) (kept ident exps2)) ->
  lint_paths res lint ident exps1 o1 = Some bs1 -> lint_paths res lint ident exps2 o2 = Some bs2 ->
  existsb (fun p => ident p =? f) (expanded exps1) = true -> ign1 f = false ->
  existsb (fun p => ident p =? f) (expanded exps2) = true -> ign2 f = false ->
  exists e1 e2, of_file res ident f bs1 = [e1] /\ of_file res ident f bs2 = [e2]
    /\ snd e1 = lintf f /\ snd e2 = lintf f.
Proof. exact dedup_batch_independent. Qed.
Print Assumptions C07_dedup_batch_independent.

(** The outcome of an invocation as the formatter accumulates it ([has_fail] = exit status of
    [sqruff lint], number of files reported): it does not depend on the order in which the worker
    threads dispatch their files; it is "some file has a failing violation", each file counted once,
    at every non-negative verbosity; a failing file makes the batch fail whatever else is in it. *)
Theorem C07_verdict_order_independent : forall v o1 o2,
  Permutation o1 o2 -> dispatch_all v o1 = dispatch_all v o2.
Proof. exact verdict_order_independent. Qed.
Print Assumptions C07_verdict_order_independent.

Theorem C07_verdict_is_any_fail : forall v order, (0 <= v)%Z ->
  dispatch_all v order = (any_fail order, N.of_nat (length order)).
Proof. exact verdict_spec. Qed.
Print Assumptions C07_verdict_is_any_fail.

Theorem C07_verdict_batch_independent : forall v o1 o2 c,
  (0 <= v)%Z -> In c o1 -> In c o2 -> 0 < fst c ->
  fst (dispatch_all v o1) = true /\ fst (dispatch_all v o2) = true.
Proof. exact verdict_batch_independent. Qed.
Print Assumptions C07_verdict_batch_independent.

Theorem C07_verdict_monotone : forall v a b,
  fst (dispatch_all v a) = true -> fst (dispatch_all v (a ++ b)) = true.
Proof. exact verdict_monotone. Qed.
Print Assumptions C07_verdict_monotone.
