(** C20 — the language server tracks documents and formats them faithfully. Pinned statements only. *)
From Sq Require Import Base.Bytes Lsp.Model Lsp.Proofs.

(** After any history of open / change / close / configuration-file writes / save notifications /
    formatting requests / other messages, for every document that is open (according to the abstract
    map uri -> latest text), the diagnostics last published for it are the lint of its latest text
    under the latest configuration (the one on disk at the last configuration save, or the initial one). *)
Theorem C20_diag : forall cfg lint fixer mk_edit (c0 : cfg) ops u t,
  a_docs (arun cfg (ainit cfg c0) ops) u = Some t ->
  last_publish u (outputs cfg lint fixer mk_edit (init cfg c0) ops) =
  Some (map to_diag (lint (a_conf (arun cfg (ainit cfg c0) ops)) t)).
Proof. exact diag_latest. Qed.
Print Assumptions C20_diag.

(** The server's state refines the abstract state: stored documents and configuration are the abstract ones. *)
Theorem C20_refines : forall cfg lint fixer mk_edit ops (s : state cfg),
  aeq cfg (abs cfg (final cfg lint fixer mk_edit s ops)) (arun cfg (abs cfg s) ops).
Proof. exact refine_run. Qed.
Print Assumptions C20_refines.

(** Published positions are zero-based: one less than the linter's one-based line and column;
    code and message are passed on unchanged. *)
Theorem C20_zero_based : forall v,
  1 <= v_line v < 4294967296 -> 1 <= v_pos v < 4294967296 ->
  d_line (to_diag v) + 1 = v_line v /\ d_char (to_diag v) + 1 = v_pos v
  /\ d_code (to_diag v) = v_code v /\ d_msg (to_diag v) = v_desc v.
Proof. exact to_diag_zero_based. Qed.
Print Assumptions C20_zero_based.

(** Applying the edits returned by a formatting request to the document's current text yields exactly
    the fix of that text under the latest configuration; the request changes no state. *)
Theorem C20_format : forall cfg lint fixer (c0 : cfg) ops u t,
  a_docs (arun cfg (ainit cfg c0) ops) u = Some t ->
  exists es,
    step cfg lint fixer format_edit (final cfg lint fixer format_edit (init cfg c0) ops) (Format u) =
      (final cfg lint fixer format_edit (init cfg c0) ops, [Edits es])
    /\ apply_edits t es = Some (fixer (a_conf (arun cfg (ainit cfg c0) ops)) t).
Proof. exact format_faithful. Qed.
Print Assumptions C20_format.

(** The kernel of it, for arbitrary texts (any line terminators, any code units): the edit replaces
    the whole document, and its end is exactly the end of the document (no reliance on clamping). *)
Theorem C20_edit_whole_document : forall old new,
  apply_edit old (format_edit old new) = new
  /\ offset_of old (p_line (doc_end old)) (p_char (doc_end old)) = N.of_nat (length old).
Proof. exact (fun old new => conj (apply_format_edit old new) (doc_end_exact old)). Qed.
Print Assumptions C20_edit_whole_document.

(** A document that is not open is not stored; a formatting request for it crashes the server (known limit). *)
Theorem C20_closed : forall cfg lint fixer mk_edit (c0 : cfg) ops u,
  a_docs (arun cfg (ainit cfg c0) ops) u = None ->
  lookup u (docs (final cfg lint fixer mk_edit (init cfg c0) ops)) = None
  /\ step cfg lint fixer mk_edit (final cfg lint fixer mk_edit (init cfg c0) ops) (Format u) =
     (final cfg lint fixer mk_edit (init cfg c0) ops, [Crash]).
Proof. exact closed_not_stored. Qed.
Print Assumptions C20_closed.

(** [format] as it was before the repair (range end derived from the new text) did not have the property. *)
Theorem C20_format_legacy_refuted :
  exists (ops : list (op unit)) u t es,
    a_docs (arun unit (ainit unit tt) ops) u = Some t
    /\ snd (step unit w_lint w_fix format_edit_legacy
              (final unit w_lint w_fix format_edit_legacy (init unit tt) ops) (Format u)) = [Edits es]
    /\ apply_edits t es <> Some (w_fix tt t).
Proof. exact format_faithful_legacy_refuted. Qed.
Print Assumptions C20_format_legacy_refuted.

(** The server as it was before the second repair kept the templater chosen at start-up: after a
    configuration save that switches the templater, the published diagnostics were not the lint under
    the latest configuration. *)
Theorem C20_legacy_templater_refuted :
  exists (lint2 : N -> N -> text -> list viol) fixer c0 (ops : list (op N)) u t,
    a_docs (arun N (ainit N c0) ops) u = Some t
    /\ last_publish u (outputs N (lint2 c0) fixer format_edit (init N c0) ops)
       <> Some (map to_diag (lint2 (a_conf (arun N (ainit N c0) ops)) (a_conf (arun N (ainit N c0) ops)) t)).
Proof. exact diag_latest_legacy_templater_refuted. Qed.
Print Assumptions C20_legacy_templater_refuted.
