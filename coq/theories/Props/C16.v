(** C16 — capitalisation fixes change only letter case and reach the policy. Pinned statements only. *)
From Sq Require Import Base.Bytes Caps.Model Caps.Proofs Caps.Converge Caps.Reach.

(** Whatever the policy (consistent included), the option list and the memory, a reported fix
    changes only ASCII letter case: same length, same text once lower-cased, and a real change. *)
Theorem C16_case_only : forall n p m raw t m' f,
  handle n p m raw t = (m', Some f) ->
  lower f = lower raw /\ length f = length raw /\ f <> raw.
Proof. exact case_only. Qed.
Print Assumptions C16_case_only.

(** Each concrete policy is idempotent on every ASCII string. *)
Theorem C16_concrete_idempotent : forall c s, apply c (apply c s) = apply c s.
Proof. exact apply_idem. Qed.
Print Assumptions C16_concrete_idempotent.

(** One crawl, under any policy, ignore list and memory, keeps the token sequence up to ASCII case. *)
Theorem C16_pass_case_only : forall n p ig ts m out k,
  pass_from n p ig m ts = (out, k) ->
  map (fun t => lower (fst t)) out = map (fun t => lower (fst t)) ts
  /\ map (fun t => length (fst t)) out = map (fun t => length (fst t)) ts
  /\ map snd out = map snd ts.
Proof. exact pass_case_only. Qed.
Print Assumptions C16_pass_case_only.

(** For upper, lower, capitalise and pascal: after one crawl over any token sequence, a second
    crawl (from any memory) reports nothing and changes nothing. *)
Theorem C16_concrete_pass_stable : forall n c ig ts m out k,
  pass_from n (Concrete c) ig m ts = (out, k) ->
  forall m2, pass_from n (Concrete c) ig m2 out = (out, 0).
Proof. exact concrete_pass_stable. Qed.
Print Assumptions C16_concrete_pass_stable.

(** consistent: once every option is refuted the verdict is frozen -- every later token is
    handled as under the concrete latest possible case (default upper). *)
Theorem C16_consistent_frozen_partial : forall n m raw t,
  is_empty raw || t = false ->
  forallb (refuted m) (opts n) = true ->
  handle n Consistent m raw t
  = handle n (Concrete (match m_latest m with Some c => c | None => Upper end)) m raw t.
Proof. exact consistent_frozen. Qed.
Print Assumptions C16_consistent_frozen_partial.

(** consistent with the extended option list (CP02, CP05): one crawl is NOT always enough --
    the crawl over the result of a first crawl can report again (witness Ab, a_, AB). *)
Theorem C16_consistent_one_pass_refuted :
  exists ts, let out := fst (pass Extended Consistent [] ts) in
             snd (pass Extended Consistent [] out) <> 0.
Proof. exact consistent_one_pass_refuted. Qed.
Print Assumptions C16_consistent_one_pass_refuted.

(** consistent: all the fixes of one crawl re-case to one and the same case -- every token of the
    result is the original or the original under that single case [L]. *)
Theorem C16_consistent_single_case : forall n ig ts m out k,
  pass_from n Consistent ig m ts = (out, k) ->
  exists L, Forall2 (recased L) ts out.
Proof. exact consistent_single_case. Qed.
Print Assumptions C16_consistent_single_case.

(** consistent with the basic option list (CP01, CP03, CP04: upper, lower, capitalise): after one
    crawl over any token sequence, under any ignore list, a second crawl reports nothing and
    changes nothing (crawls start from the empty memory). *)
Theorem C16_basic_consistent_one_pass : forall ig ts out k,
  pass Basic Consistent ig ts = (out, k) ->
  pass Basic Consistent ig out = (out, 0).
Proof. exact basic_consistent_one_pass. Qed.
Print Assumptions C16_basic_consistent_one_pass.

(** ... and the same from every memory a crawl can be in ([wf]: every option refuted, or the
    latest case is the first possible one with the flags the refutation rules force), both
    crawls starting from that memory. *)
Theorem C16_basic_consistent_one_pass_from : forall ig ts m out k,
  wf Basic m ->
  pass_from Basic Consistent ig m ts = (out, k) ->
  pass_from Basic Consistent ig m out = (out, 0).
Proof. exact basic_consistent_one_pass_from. Qed.
Print Assumptions C16_basic_consistent_one_pass_from.

(** [wf] covers the empty memory and is kept by every step of a crawl, for both option lists. *)
Theorem C16_wf_reachable : forall n ig,
  wf n mem0 /\ forall ts m, wf n m -> wf n (mem_after n Consistent ig m ts).
Proof. exact wf_invariant. Qed.
Print Assumptions C16_wf_reachable.

(** ... but not from an arbitrary memory (one no crawl produces): witness a, Cd from the memory
    "upper and lower refuted, capitalise possible, latest case upper". *)
Theorem C16_basic_one_pass_any_memory_refuted :
  exists m ts, let out := fst (pass_from Basic Consistent [] m ts) in
               snd (pass_from Basic Consistent [] m out) <> 0.
Proof. exact basic_one_pass_any_memory_refuted. Qed.
Print Assumptions C16_basic_one_pass_any_memory_refuted.

(** consistent with the extended option list (CP02, CP05): the result of the second crawl is
    stable -- a third crawl reports nothing and changes nothing (the fix loop crawls post-phase
    rules three times). *)
Theorem C16_extended_consistent_two_pass : forall ig ts,
  let o1 := fst (pass Extended Consistent ig ts) in
  let o2 := fst (pass Extended Consistent ig o1) in
  pass Extended Consistent ig o2 = (o2, 0).
Proof. exact extended_consistent_two_pass. Qed.
Print Assumptions C16_extended_consistent_two_pass.

(** ... for either option list and from every memory a crawl can be in. *)
Theorem C16_consistent_two_pass_from : forall n ig ts m o1 k1 o2 k2,
  wf n m ->
  pass_from n Consistent ig m ts = (o1, k1) ->
  pass_from n Consistent ig m o1 = (o2, k2) ->
  pass_from n Consistent ig m o2 = (o2, 0).
Proof. exact consistent_two_pass_from. Qed.
Print Assumptions C16_consistent_two_pass_from.

(** Reaching the policy: after one crawl under a concrete policy every token is in the case of the
    policy, unless its lower-cased text is on the ignore list, or it is empty or templated. *)
Theorem C16_concrete_pass_reaches : forall n c ig ts m out k,
  pass_from n (Concrete c) ig m ts = (out, k) ->
  Forall (fun t => mem (lower (fst t)) ig = true \/ is_empty (fst t) || snd t = true \/ apply c (fst t) = fst t) out.
Proof. exact concrete_pass_reaches. Qed.
Print Assumptions C16_concrete_pass_reaches.

(** A crawl is its trace (the calls of handle_segment, which the correspondence group "crawl" compares
    with the recorder) applied to the tokens; the number of reports is the number of reporting calls. *)
Theorem C16_pass_is_trace : forall n p ig ts m,
  pass_from n p ig m ts =
    (apply_trace ts (trace_from n p ig m ts),
     N.of_nat (length (filter reported (trace_from n p ig m ts)))).
Proof. exact pass_is_trace. Qed.
Print Assumptions C16_pass_is_trace.

(** The ignore list exempts exactly the words on it: any other token is handed to handle_segment. *)
Theorem C16_not_ignored_is_called : forall n p ig m t ts,
  mem (lower (fst t)) ig = false ->
  exists r m', handle n p m (fst t) (snd t) = (m', r)
    /\ trace_from n p ig m (t :: ts) = Some (fst t, r) :: trace_from n p ig m' ts.
Proof. exact not_ignored_is_called. Qed.
Print Assumptions C16_not_ignored_is_called.
