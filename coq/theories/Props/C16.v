(** C16 — capitalisation fixes change only letter case and reach the policy. Pinned statements only. *)
From Sq Require Import Base.Bytes Caps.Model Caps.Proofs.

(** Whatever the policy (consistent included), the option list and the memory, a reported fix
    changes only ASCII letter case: same length, same text once lower-cased, and a real change. *)
Theorem C16_case_only : forall n p m raw t m' f,
  handle n p m raw t = (m', Some f) ->
  lower f = lower raw /\ length f = length raw /\ f <> raw.
Proof. exact case_only. Qed.
Print Assumptions C16_case_only.

(** Each concrete policy is idempotent on every ASCII string. *)
Theorem C16_concrete_idempotent : forall c s, apply c (apply c s) = apply c s.
Proof. exact apply_idem. Qed.
Print Assumptions C16_concrete_idempotent.

(** One crawl, under any policy, ignore list and memory, keeps the token sequence up to ASCII case. *)
Theorem C16_pass_case_only : forall n p ig ts m out k,
  pass_from n p ig m ts = (out, k) ->
  map (fun t => lower (fst t)) out = map (fun t => lower (fst t)) ts
  /\ map (fun t => length (fst t)) out = map (fun t => length (fst t)) ts
  /\ map snd out = map snd ts.
Proof. exact pass_case_only. Qed.
Print Assumptions C16_pass_case_only.

(** For upper, lower, capitalise and pascal: after one crawl over any token sequence, a second
    crawl (from any memory) reports nothing and changes nothing. *)
Theorem C16_concrete_pass_stable : forall n c ig ts m out k,
  pass_from n (Concrete c) ig m ts = (out, k) ->
  forall m2, pass_from n (Concrete c) ig m2 out = (out, 0).
Proof. exact concrete_pass_stable. Qed.
Print Assumptions C16_concrete_pass_stable.

(** consistent: once every option is refuted the verdict is frozen -- every later token is
    handled as under the concrete latest possible case (default upper). *)
Theorem C16_consistent_frozen_partial : forall n m raw t,
  is_empty raw || t = false ->
  forallb (refuted m) (opts n) = true ->
  handle n Consistent m raw t
  = handle n (Concrete (match m_latest m with Some c => c | None => Upper end)) m raw t.
Proof. exact consistent_frozen. Qed.
Print Assumptions C16_consistent_frozen_partial.

(** consistent with the extended option list (CP02, CP05): one crawl is NOT always enough --
    the crawl over the result of a first crawl can report again (witness Ab, a_, AB). *)
Theorem C16_consistent_one_pass_refuted :
  exists ts, let out := fst (pass Extended Consistent [] ts) in
             snd (pass Extended Consistent [] out) <> 0.
Proof. exact consistent_one_pass_refuted. Qed.
Print Assumptions C16_consistent_one_pass_refuted.

(** consistent: all the fixes of one crawl re-case to one and the same case -- every token of the
    result is the original or the original under that single case [L]. *)
Theorem C16_consistent_single_case : forall n ig ts m out k,
  pass_from n Consistent ig m ts = (out, k) ->
  exists L, Forall2 (recased L) ts out.
Proof. exact consistent_single_case. Qed.
Print Assumptions C16_consistent_single_case.
