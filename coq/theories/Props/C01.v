(** C01 -- lexing is total and lossless in every dialect. Pinned statements only.
    [lex_of om os orx tb] is the model of [Lexer::lex(tables, StringOrTemplate::String(s))]
    (Lexer/Model.v) for the matcher tables [tb] of a dialect, with the pattern engines
    [om] = Pattern::matches, [os] = Pattern::search, [orx] = the combined anchored regex as oracles.
    [oracle_ok] are their contracts (bounds, progress, anchoring, greedy trim pattern, last
    resort takes a byte where lex_match stops); [tables_ok] are the table obligations the
    translator re-checks on the 13 dumped tables (coq/gen/LexTables.v). *)
From Sq Require Import Base.Bytes Lexer.Model Lexer.Tables Lexer.Proofs Lexer.Spec.

(** Tokenising succeeds: no panic, no error, and the loops terminate. *)
Theorem C01_total : forall om os orx tb ku,
  oracle_ok om os orx tb -> tables_ok ku tb = true ->
  forall s, exists ts, lex_of om os orx tb s = Some ts.
Proof. exact lex_total. Qed.
Print Assumptions C01_total.

(** The token texts concatenated in order reproduce the input byte for byte. *)
Theorem C01_lossless : forall om os orx tb ku,
  oracle_ok om os orx tb -> tables_ok ku tb = true ->
  forall s ts, lex_of om os orx tb s = Some ts -> concat (map t_text ts) = s.
Proof. exact lex_lossless. Qed.
Print Assumptions C01_lossless.

(** Token positions tile the input contiguously from 0 to its end; source and templated slices
    coincide and every token's text is the input at its slice. *)
Theorem C01_tiling : forall om os orx tb ku,
  oracle_ok om os orx tb -> tables_ok ku tb = true ->
  forall s ts, lex_of om os orx tb s = Some ts ->
  exists toks eof, ts = toks ++ [eof] /\ tiles 0 (len s) (map t_tpl toks) /\ Forall (tok_wf s) toks.
Proof. exact lex_tiling. Qed.
Print Assumptions C01_tiling.

(** The stream ends with exactly one end-of-file marker, placed at the end of the input. *)
Theorem C01_one_eof : forall om os orx tb ku,
  oracle_ok om os orx tb -> tables_ok ku tb = true ->
  forall s ts, lex_of om os orx tb s = Some ts ->
  exists toks eof, ts = toks ++ [eof] /\ is_eof_at (tb_eof tb) (len s) eof /\
                   Forall (fun t => t_kind t <> tb_eof tb) toks.
Proof. exact lex_one_eof. Qed.
Print Assumptions C01_one_eof.

(** Unlexable bytes are kept, never dropped: the elements the nested loops produce are exactly
    those of the flat specification [lex_spec] (Lexer/Spec.v) -- at every position the first
    matcher that yields elements, else the combined regex, and where neither matches the
    last-resort pattern's [n >= 1] bytes as one element of kind [ku] (Unlexable), after which
    lexing continues to the end of the input -- and the tokens are their positional image. *)
Theorem C01_refines_spec : forall om os orx tb ku,
  oracle_ok om os orx tb -> tables_ok ku tb = true ->
  forall s ts, lex_of om os orx tb s = Some ts ->
  exists els,
    lex_spec om os orx (tb_matchers tb) (tb_syntax tb) (tb_resort tb) 0 s els /\
    p_kind (m_pat (tb_resort tb)) = ku /\
    to_tokens (tb_eof tb) s els = Some ts.
Proof. exact lex_refines_spec. Qed.
Print Assumptions C01_refines_spec.

(** The hypotheses are satisfiable by a concrete, non-trivial lexer (and the model then keeps
    the unlexable bytes: Proofs.ex_lex). *)
Theorem C01_nonvacuous : oracle_ok ex_match ex_search ex_rx ex_tables /\ tables_ok 7 ex_tables = true.
Proof. exact (conj ex_oracle_ok ex_tables_ok). Qed.
Print Assumptions C01_nonvacuous.

(** The main loop as it was before the repair (fix: f37a434) drops everything after the first
    unlexable byte, for oracles and tables satisfying every contract. *)
Theorem C01_legacy_refuted :
  exists om os orx tb ku s ts,
    oracle_ok om os orx tb /\ tables_ok ku tb = true /\
    lex_legacy_of om os orx tb s = Some ts /\ concat (map t_text ts) <> s.
Proof. exact lex_legacy_refuted. Qed.
Print Assumptions C01_legacy_refuted.
