(** C01 -- lexing is total and lossless in every dialect. Pinned statements only. *)
From Sq Require Import Base.Bytes Lexer.Model Lexer.Tables Lexer.Proofs.
Theorem C01_placeholder : True.
Proof. exact placeholder. Qed.
Print Assumptions C01_placeholder.
