(** C10 — noqa directives mask exactly what they say. Pinned statements only. *)
From Sq Require Import Base.Bytes Noqa.Model Noqa.Proofs.

(** The mask the code computes is the documented one: a violation is hidden iff a line
    directive on its line covers it, or the last range directive at or before it that is
    relevant to its rule (names it, or is an [all] directive) is a [disable]. *)
Theorem C10_exact : forall ds v, is_masked ds v = masked_spec ds v.
Proof. exact is_masked_exact. Qed.
Print Assumptions C10_exact.

(** Reported with noqa = reported without noqa (plus directive parse errors) minus exactly
    the masked ones, order preserved. *)
Theorem C10_filter : forall cs pvs rvs,
  lint_noqa cs pvs rvs =
  filter (fun v => negb (masked_spec (fst (from_comments cs)) v))
         (pvs ++ snd (from_comments cs) ++ rvs).
Proof. exact lint_noqa_filter. Qed.
Print Assumptions C10_filter.

(** The loop as it was before the repair (fixed: 2ce4612) over-masked in two ways. *)
Theorem C10_legacy_refuted_enable_all :
  exists ds v, is_masked_legacy ds v = true /\ masked_spec ds v = false.
Proof. exact legacy_refuted_enable_all. Qed.
Print Assumptions C10_legacy_refuted_enable_all.

Theorem C10_legacy_refuted_enable_rule :
  exists ds v, is_masked_legacy ds v = true /\ masked_spec ds v = false.
Proof. exact legacy_refuted_enable_rule. Qed.
Print Assumptions C10_legacy_refuted_enable_rule.
