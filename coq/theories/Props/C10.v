(** C10 — noqa directives mask exactly what they say. Pinned statements only. *)
From Sq Require Import Base.Bytes Noqa.Model Noqa.Proofs.

(** The mask the code computes is the documented one: a violation is hidden iff a line
    directive on its line covers it, or the last range directive at or before it that is
    relevant to its rule (names it, or is an [all] directive) is a [disable]. *)
Theorem C10_exact : forall ds v, is_masked ds v = masked_spec ds v.
Proof. exact is_masked_exact. Qed.
Print Assumptions C10_exact.

(** Reported with noqa = reported without noqa (plus directive parse errors) minus exactly
    the masked ones, order preserved. *)
Theorem C10_filter : forall cs pvs rvs,
  lint_noqa cs pvs rvs =
  filter (fun v => negb (masked_spec (fst (from_comments cs)) v))
         (pvs ++ snd (from_comments cs) ++ rvs).
Proof. exact lint_noqa_filter. Qed.
Print Assumptions C10_filter.

(** The loop as it was before the repair (fixed: 2ce4612) over-masked in two ways. *)
Theorem C10_legacy_refuted_enable_all :
  exists ds v, is_masked_legacy ds v = true /\ masked_spec ds v = false.
Proof. exact legacy_refuted_enable_all. Qed.
Print Assumptions C10_legacy_refuted_enable_all.

Theorem C10_legacy_refuted_enable_rule :
  exists ds v, is_masked_legacy ds v = true /\ masked_spec ds v = false.
Proof. exact legacy_refuted_enable_rule. Qed.
Print Assumptions C10_legacy_refuted_enable_rule.

(** The README forms parse to the directive they denote, with arbitrary whitespace wherever
    the code trims ([dd] is "--", [kw a] is "disable=" / "enable="). *)
From Sq Require Import Noqa.ParseProofs.

Theorem C10_parse_bare : forall w0 w1 line pos,
  all_ws w0 = true -> all_ws w1 = true ->
  extract (dd ++ w0 ++ s_noqa ++ w1) line pos = PDir (LineAll line pos).
Proof. exact parse_bare. Qed.
Print Assumptions C10_parse_bare.

Theorem C10_parse_line : forall w0 w1 w2 w3 rs line pos,
  all_ws w0 = true -> all_ws w1 = true -> all_ws w2 = true -> all_ws w3 = true ->
  rs <> [] -> forallb is_code rs = true ->
  extract (dd ++ w0 ++ s_noqa ++ (w1 ++ s_colon ++ w2 ++ join [44] rs) ++ w3) line pos
  = PDir (LineRules line rs).
Proof. exact parse_line. Qed.
Print Assumptions C10_parse_line.

Theorem C10_parse_range_rules : forall w0 w1 w2 w3 w4 a xs line pos,
  all_ws w0 = true -> all_ws w1 = true -> all_ws w2 = true -> all_ws w3 = true -> all_ws w4 = true ->
  xs <> [] -> forallb piece_ok xs = true ->
  first_ok (join [44] (map piece xs)) = true -> last_ok (join [44] (map piece xs)) = true ->
  (forall t b, join [44] (map piece xs) = t ++ [b] -> b <> 47) ->
  extract (dd ++ w0 ++ s_noqa ++ (w1 ++ s_colon ++ w2 ++ kw a ++ w3 ++ join [44] (map piece xs)) ++ w4) line pos
  = PDir (RangeRules line pos a (map (fun x => snd (fst x)) xs)).
Proof. exact parse_range_rules. Qed.
Print Assumptions C10_parse_range_rules.

Theorem C10_parse_range_all : forall w0 w1 w2 w3 w4 a line pos,
  all_ws w0 = true -> all_ws w1 = true -> all_ws w2 = true -> all_ws w3 = true -> all_ws w4 = true ->
  extract (dd ++ w0 ++ s_noqa ++ (w1 ++ s_colon ++ w2 ++ kw a ++ w3 ++ s_all) ++ w4) line pos
  = PDir (RangeAll line pos a).
Proof. exact parse_range_all. Qed.
Print Assumptions C10_parse_range_all.
