(** Executable model of rule selection and of the crawl envelope:
    - [get_ruleset]                       crates/lib/src/rules.rs
    - [split_comma_separated_string], the [rules]/[exclude_rules] -> allowlist/denylist step of
      [FluffConfig::new]                  crates/lib/src/core/config.rs
    - [RuleSet::rule_reference_map], [expand_rule_refs], [get_rulepack]
                                          crates/lib/src/core/rules/base.rs
    - [Rule::crawl] envelope (dialect skip, stamping) and the lint-mode loop of
      [Linter::lint_fix_parsed] / [lint_parsed]   crates/lib/src/core/linter/core.rs
    Definitions only; proofs are in Proofs.v.  Hash maps are association lists with
    unique keys, hash sets are duplicate-free lists; nothing depends on iteration order. *)
From Sq Require Export Base.Bytes.

Record rule := {
  r_code : str;            (* Rule::code *)
  r_name : str;            (* Rule::name *)
  r_groups : list str;     (* Rule::groups, lower-cased names *)
  r_skip : list str;       (* Rule::dialect_skip, dialect names *)
  r_fix : bool;            (* Rule::is_fix_compatible *)
  r_post : bool            (* Rule::lint_phase = Post *)
}.

(* ------------------------------------------------------------------ get_ruleset *)
(** [IndexMap::insert]: an existing key keeps its position and gets the new value. *)
Fixpoint im_insert (r : rule) (reg : list rule) : list rule :=
  match reg with
  | [] => [r]
  | x :: reg' => if str_eqb (r_code x) (r_code r) then r :: reg' else x :: im_insert r reg'
  end.
Definition register (rs : list rule) : list rule :=
  fold_left (fun acc r => im_insert r acc) rs [].

(* ------------------------------------------------------------------ maps of sets *)
Definition amap := list (str * list str).

Fixpoint lookup (k : str) (m : amap) : option (list str) :=
  match m with
  | [] => None
  | (k', v) :: m' => if str_eqb k' k then Some v else lookup k m'
  end.
Definition has (k : str) (m : amap) : bool :=
  match lookup k m with Some _ => true | None => false end.
Definition get (k : str) (m : amap) : list str :=
  match lookup k m with Some v => v | None => [] end.

Definition set_add (c : str) (s : list str) : list str := if mem c s then s else s ++ [c].
Definition set_union (a b : list str) : list str := fold_left (fun s c => set_add c s) b a.

(** [m.entry(k).or_insert_with(AHashSet::new).insert(c)] *)
Fixpoint add_to (k c : str) (m : amap) : amap :=
  match m with
  | [] => [(k, [c])]
  | (k', v) :: m' => if str_eqb k' k then (k', set_add c v) :: m' else (k', v) :: add_to k c m'
  end.

(** [chain(a, b).collect::<AHashMap>()]: entries of [b] are inserted last and win. *)
Definition chain_collect (a b : amap) : amap := b ++ a.

(* ------------------------------------------------------------------ rule_reference_map *)
Definition code_map (reg : list rule) : amap := map (fun r => (r_code r, [r_code r])) reg.
Definition name_map (reg : list rule) : amap :=
  fold_left (fun m r => add_to (r_name r) (r_code r) m) reg [].
Definition refmap1 (reg : list rule) : amap := chain_collect (name_map reg) (code_map reg).
Definition group_step (m1 : amap) (r : rule) (m : amap) : amap :=
  fold_left (fun m g => if has g m1 then m else add_to g (r_code r) m) (r_groups r) m.
Definition group_map_with (m1 : amap) (reg : list rule) : amap :=
  fold_left (fun m r => group_step m1 r m) reg [].
Definition group_map (reg : list rule) : amap := group_map_with (refmap1 reg) reg.
Definition refmap (reg : list rule) : amap :=
  let m1 := refmap1 reg in chain_collect (group_map_with m1 reg) m1.

(* ------------------------------------------------------------------ expand_rule_refs *)
(** [None] = the [panic!("Rule {r} not found in rule reference map")]. *)
Fixpoint expand (m : amap) (refs : list str) (acc : list str) : option (list str) :=
  match refs with
  | [] => Some acc
  | x :: refs' =>
      match lookup x m with
      | Some cs => expand m refs' (set_union acc cs)
      | None => None
      end
  end.

(* ------------------------------------------------------------------ get_rulepack *)
(** [allow]/[deny] are the [rule_allowlist]/[rule_denylist] arrays when present. *)
Definition get_rulepack (reg : list rule) (allow deny : option (list str)) : option (list rule) :=
  let m := refmap reg in
  let allowlist := match allow with Some a => a | None => map r_code reg end in
  let denylist := match deny with Some d => d | None => [] end in
  match expand m allowlist [] with
  | None => None
  | Some ea =>
      match expand m denylist [] with
      | None => None
      | Some ed => Some (filter (fun r => mem (r_code r) ea && negb (mem (r_code r) ed)) reg)
      end
  end.

(* ------------------------------------------------------------------ config strings *)
(** [split_comma_separated_string]: split on ',', trim, drop empties. *)
Definition split_comma (s : str) : list str :=
  filter (fun r => negb (is_empty r)) (map trim (split_byte 44 s)).

Definition ascii_lower (b : N) : N := if (65 <=? b) && (b <=? 90) then b + 32 else b.
Definition s_none : str := [110;111;110;101].
(** The config value as the Ini reader hands it over (already trimmed). The keyword
    [none] (any case) is [Value::None] and leaves the list unset. Values that parse as
    numbers or booleans make [as_string().unwrap()] panic and are outside this model. *)
Definition cfg_list (v : option str) : option (list str) :=
  match v with
  | None => None
  | Some s => if str_eqb (map ascii_lower s) s_none then None else Some (split_comma s)
  end.

(** [rules = ...] / [exclude_rules = ...] to the selected rules. An absent [rules] key
    means the default [rules = core] of default_config.cfg, which the caller supplies. *)
Definition select (reg : list rule) (rules excl : option str) : option (list rule) :=
  get_rulepack reg (cfg_list rules) (cfg_list excl).

(* ------------------------------------------------------------------ crawl envelope, lint loop *)
Section Lint.
  Variable input : Type.
  Variable res : Type.          (* what a rule body returns for one finding, before stamping *)
  (** the rule bodies (oracle): may a priori depend on the whole rule pack *)
  Variable body : list rule -> rule -> input -> list res.
  Variable force : rule -> bool.                     (* Rule::force_enable of the configured rule *)
  Variable masked : option str * res -> bool.        (* the noqa mask *)

  Definition viol := (option str * res)%type.        (* rule code (None: parse / noqa errors) *)

  Definition skipped (dialect : str) (r : rule) : bool := mem dialect (r_skip r) && negb (force r).

  (** [Rule::crawl]: nothing for a skipped dialect; each result stamped with the rule's own code. *)
  Definition crawl (dialect : str) (pack : list rule) (r : rule) (i : input) : list viol :=
    if skipped dialect r then [] else map (fun x => (Some (r_code r), x)) (body pack r i).

  (** lint mode ([fix = false]): one pass over the pack in order; [pre] = parse and noqa errors. *)
  Definition lint (dialect : str) (pack : list rule) (pre : list viol) (i : input) : list viol :=
    filter (fun v => negb (masked v)) (pre ++ flat_map (fun r => crawl dialect pack r i) pack).
End Lint.
