(** Proofs about the rule-selection model: the reference map computed with hash maps,
    entry-insertion and chained collection equals the declarative "code, else name, else
    group" specification; selection is a filter of the registry; the lint loop over a
    selection is the corresponding filter of the lint loop over the whole registry. *)
From Sq Require Import Base.Bytes Rules.Model.

(* ------------------------------------------------------------------ strings, sets *)
Lemma str_eqb_refl s : str_eqb s s = true.
Proof. induction s as [|x s IH]; cbn; [reflexivity|]. rewrite N.eqb_refl, IH. reflexivity. Qed.

Lemma str_eqb_eq a b : str_eqb a b = true <-> a = b.
Proof.
  revert b; induction a as [|x a IH]; intros [|y b]; cbn; split; intro H; try congruence; try reflexivity.
  - apply andb_true_iff in H as [H1 H2]. apply N.eqb_eq in H1. apply IH in H2. congruence.
  - inversion H; subst. rewrite N.eqb_refl. cbn. apply IH. reflexivity.
Qed.

Lemma str_eqb_neq a b : str_eqb a b = false <-> a <> b.
Proof.
  split; intro H.
  - intro E. apply str_eqb_eq in E. congruence.
  - destruct (str_eqb a b) eqn:E; [|reflexivity]. apply str_eqb_eq in E. contradiction.
Qed.

Lemma str_eqb_sym a b : str_eqb a b = str_eqb b a.
Proof.
  destruct (str_eqb a b) eqn:E.
  - apply str_eqb_eq in E. subst. symmetry. apply str_eqb_refl.
  - symmetry. apply str_eqb_neq. apply str_eqb_neq in E. congruence.
Qed.

Ltac seq_cases a b :=
  let E := fresh "E" in
  destruct (str_eqb a b) eqn:E;
  [apply str_eqb_eq in E; try subst | ].

Lemma mem_In c l : mem c l = true <-> In c l.
Proof.
  induction l as [|x l IH]; cbn; [split; [discriminate|tauto]|].
  rewrite orb_true_iff, IH, str_eqb_eq. split; intros [H|H]; auto.
Qed.

Lemma mem_nIn c l : mem c l = false <-> ~ In c l.
Proof.
  split; intro H.
  - intro I. apply mem_In in I. congruence.
  - destruct (mem c l) eqn:E; [|reflexivity]. apply mem_In in E. contradiction.
Qed.

Lemma mem_app c l1 l2 : mem c (l1 ++ l2) = mem c l1 || mem c l2.
Proof. induction l1 as [|x l1 IH]; cbn; [reflexivity|]. rewrite IH, orb_assoc. reflexivity. Qed.

Lemma mem_set_add c' c s : mem c' (set_add c s) = str_eqb c' c || mem c' s.
Proof.
  unfold set_add. destruct (mem c s) eqn:E.
  - seq_cases c' c; cbn; [|reflexivity]. exact E.
  - rewrite mem_app. cbn. rewrite orb_false_r. apply orb_comm.
Qed.

Lemma mem_set_union c a b : mem c (set_union a b) = mem c a || mem c b.
Proof.
  unfold set_union. revert a. induction b as [|x b IH]; intro a; cbn.
  - rewrite orb_false_r. reflexivity.
  - rewrite IH, mem_set_add. destruct (str_eqb c x), (mem c a), (mem c b); reflexivity.
Qed.

Lemma existsb_ext_in {A} (f g : A -> bool) l :
  (forall x, In x l -> f x = g x) -> existsb f l = existsb g l.
Proof.
  induction l as [|x l IH]; cbn; intro H; [reflexivity|].
  rewrite H by auto. rewrite IH; [reflexivity|]. intros; apply H; auto.
Qed.

Lemma existsb_false {A} (f : A -> bool) l : (forall x, In x l -> f x = false) -> existsb f l = false.
Proof.
  induction l as [|x l IH]; cbn; intro H; [reflexivity|].
  rewrite H by auto. apply IH. intros; apply H; auto.
Qed.

Lemma forallb_ext' {A} (f g : A -> bool) l : (forall x, f x = g x) -> forallb f l = forallb g l.
Proof. intro H. induction l as [|x l IH]; cbn; [reflexivity|]. rewrite H, IH. reflexivity. Qed.

Lemma filter_ext_in' {A} (f g : A -> bool) l :
  (forall x, In x l -> f x = g x) -> filter f l = filter g l.
Proof.
  induction l as [|x l IH]; cbn; intro H; [reflexivity|].
  rewrite H by auto. rewrite IH; [reflexivity|]. intros; apply H; auto.
Qed.

(* ------------------------------------------------------------------ association maps *)
Lemma lookup_app k b a :
  lookup k (b ++ a) = match lookup k b with Some v => Some v | None => lookup k a end.
Proof.
  induction b as [|[k' v] b IH]; cbn; [reflexivity|].
  destruct (str_eqb k' k); [reflexivity|exact IH].
Qed.

Lemma has_app k b a : has k (b ++ a) = has k b || has k a.
Proof. unfold has. rewrite lookup_app. destruct (lookup k b); reflexivity. Qed.

Lemma get_app k b a : get k (b ++ a) = if has k b then get k b else get k a.
Proof. unfold get, has. rewrite lookup_app. destruct (lookup k b); reflexivity. Qed.

Lemma has_add_to k k' c m : has k (add_to k' c m) = str_eqb k' k || has k m.
Proof.
  unfold has. induction m as [|[k2 v] m IH]; cbn.
  - destruct (str_eqb k' k); reflexivity.
  - seq_cases k2 k'; cbn.
    + destruct (str_eqb k' k); reflexivity.
    + destruct (str_eqb k2 k) eqn:E2; [|exact IH].
      destruct (str_eqb k' k); reflexivity.
Qed.

Lemma get_add_to c k k' c' m :
  mem c (get k (add_to k' c' m)) = (str_eqb k' k && str_eqb c c') || mem c (get k m).
Proof.
  unfold get. induction m as [|[k2 v] m IH]; cbn.
  - destruct (str_eqb k' k); cbn; [|reflexivity]. rewrite orb_false_r. reflexivity.
  - seq_cases k2 k'; cbn.
    + destruct (str_eqb k' k); cbn; [|reflexivity]. apply mem_set_add.
    + seq_cases k2 k; [|exact IH].
      rewrite str_eqb_sym, E. reflexivity.
Qed.

(* ------------------------------------------------------------------ the three maps *)
Definition is_code (reg : list rule) (x : str) : bool := existsb (fun r => str_eqb (r_code r) x) reg.
Definition is_name (reg : list rule) (x : str) : bool := existsb (fun r => str_eqb (r_name r) x) reg.
Definition is_group (reg : list rule) (x : str) : bool := existsb (fun r => mem x (r_groups r)) reg.

(** What a reference means: a code if it is one, else a rule name, else a group. *)
Definition refers (reg : list rule) (x : str) (r : rule) : bool :=
  if is_code reg x then str_eqb (r_code r) x
  else if is_name reg x then str_eqb (r_name r) x
  else mem x (r_groups r).
Definition known (reg : list rule) (x : str) : bool := is_code reg x || is_name reg x || is_group reg x.

Lemma has_code_map reg k : has k (code_map reg) = is_code reg k.
Proof.
  unfold has, code_map, is_code. induction reg as [|r reg IH]; cbn; [reflexivity|].
  destruct (str_eqb (r_code r) k); [reflexivity|exact IH].
Qed.

Lemma get_code_map reg k c : mem c (get k (code_map reg)) = is_code reg k && str_eqb c k.
Proof.
  unfold get, code_map, is_code. induction reg as [|r reg IH]; cbn; [reflexivity|].
  seq_cases (r_code r) k; cbn; [|exact IH].
  rewrite orb_false_r. reflexivity.
Qed.

Lemma name_fold_has reg : forall m k,
  has k (fold_left (fun m r => add_to (r_name r) (r_code r) m) reg m)
  = has k m || existsb (fun r => str_eqb (r_name r) k) reg.
Proof.
  induction reg as [|r reg IH]; intros m k; cbn; [rewrite orb_false_r; reflexivity|].
  rewrite IH, has_add_to.
  destruct (str_eqb (r_name r) k), (has k m); reflexivity.
Qed.

Lemma name_fold_get reg : forall m k c,
  mem c (get k (fold_left (fun m r => add_to (r_name r) (r_code r) m) reg m))
  = mem c (get k m) || existsb (fun r => str_eqb c (r_code r) && str_eqb (r_name r) k) reg.
Proof.
  induction reg as [|r reg IH]; intros m k c; cbn; [rewrite orb_false_r; reflexivity|].
  rewrite IH, get_add_to.
  destruct (str_eqb (r_name r) k), (str_eqb c (r_code r)), (mem c (get k m)); reflexivity.
Qed.

Lemma group_step_has m1 r : forall m k,
  has k (group_step m1 r m) = has k m || (negb (has k m1) && mem k (r_groups r)).
Proof.
  unfold group_step. induction (r_groups r) as [|g gs IH]; intros m k; cbn.
  - rewrite andb_false_r, orb_false_r. reflexivity.
  - rewrite IH. seq_cases k g.
    + destruct (has g m1) eqn:H1; cbn; [rewrite orb_false_r; reflexivity|].
      rewrite has_add_to, str_eqb_refl. cbn. rewrite orb_true_r. reflexivity.
    + cbn. destruct (has g m1); [reflexivity|].
      rewrite has_add_to, str_eqb_sym, E. reflexivity.
Qed.

Lemma group_step_get m1 r : forall m k c,
  mem c (get k (group_step m1 r m))
  = mem c (get k m) || (negb (has k m1) && (str_eqb c (r_code r) && mem k (r_groups r))).
Proof.
  unfold group_step. induction (r_groups r) as [|g gs IH]; intros m k c; cbn.
  - rewrite !andb_false_r, orb_false_r. reflexivity.
  - rewrite IH. seq_cases k g.
    + destruct (has g m1) eqn:H1; cbn; [rewrite orb_false_r; reflexivity|].
      rewrite get_add_to, str_eqb_refl. cbn.
      destruct (str_eqb c (r_code r)), (mem c (get g m)), (mem g gs); reflexivity.
    + cbn. destruct (has g m1); [reflexivity|].
      rewrite get_add_to, str_eqb_sym, E. reflexivity.
Qed.

Lemma group_fold_has m1 reg : forall m k,
  has k (fold_left (fun m r => group_step m1 r m) reg m)
  = has k m || (negb (has k m1) && existsb (fun r => mem k (r_groups r)) reg).
Proof.
  induction reg as [|r reg IH]; intros m k; cbn.
  - rewrite andb_false_r, orb_false_r. reflexivity.
  - rewrite IH, group_step_has.
    destruct (has k m), (has k m1), (mem k (r_groups r)); reflexivity.
Qed.

Lemma group_fold_get m1 reg : forall m k c,
  mem c (get k (fold_left (fun m r => group_step m1 r m) reg m))
  = mem c (get k m)
    || (negb (has k m1) && existsb (fun r => str_eqb c (r_code r) && mem k (r_groups r)) reg).
Proof.
  induction reg as [|r reg IH]; intros m k c; cbn.
  - rewrite andb_false_r, orb_false_r. reflexivity.
  - rewrite IH, group_step_get.
    destruct (mem c (get k m)), (has k m1), (str_eqb c (r_code r)), (mem k (r_groups r)); reflexivity.
Qed.

Lemma has_refmap1 reg k : has k (refmap1 reg) = is_code reg k || is_name reg k.
Proof.
  unfold refmap1, chain_collect, name_map. rewrite has_app, has_code_map, name_fold_has. reflexivity.
Qed.

(** Membership of the reference map = the specification [known]. *)
Lemma refmap_has reg x : has x (refmap reg) = known reg x.
Proof.
  unfold refmap, chain_collect, group_map_with, known. cbv zeta. rewrite has_app, group_fold_has, has_refmap1.
  cbn. fold (is_group reg x).
  destruct (is_code reg x), (is_name reg x), (is_group reg x); reflexivity.
Qed.

Lemma code_exists reg x c :
  existsb (fun r => str_eqb c (r_code r) && str_eqb (r_code r) x) reg = is_code reg x && str_eqb c x.
Proof.
  unfold is_code. induction reg as [|r reg IH]; cbn; [reflexivity|].
  rewrite IH. destruct (str_eqb (r_code r) x) eqn:E; cbn.
  - apply str_eqb_eq in E. rewrite E. destruct (str_eqb c x); cbn; rewrite ?andb_false_r; reflexivity.
  - rewrite andb_false_r. reflexivity.
Qed.

(** Content of the reference map = the specification [refers]. *)
Lemma refmap_get reg x c :
  mem c (get x (refmap reg)) = existsb (fun r => str_eqb c (r_code r) && refers reg x r) reg.
Proof.
  unfold refmap, chain_collect. cbv zeta. rewrite get_app, has_refmap1.
  unfold refers.
  destruct (is_code reg x) eqn:EC; cbn.
  - unfold refmap1, chain_collect. rewrite get_app, has_code_map, EC, get_code_map, EC.
    rewrite code_exists, EC. reflexivity.
  - destruct (is_name reg x) eqn:EN.
    + unfold refmap1, chain_collect. rewrite get_app, has_code_map, EC.
      unfold name_map. rewrite name_fold_get. reflexivity.
    + unfold group_map_with. rewrite group_fold_get, has_refmap1, EC, EN. reflexivity.
Qed.

(* ------------------------------------------------------------------ expand *)
Lemma expand_none m refs : forall acc,
  expand m refs acc = None <-> forallb (fun x => has x m) refs = false.
Proof.
  induction refs as [|x refs IH]; intro acc; cbn; [split; discriminate|].
  unfold has at 1. destruct (lookup x m); cbn; [apply IH|]. split; reflexivity.
Qed.

Lemma expand_some m refs : forall acc cs,
  expand m refs acc = Some cs ->
  forall c, mem c cs = mem c acc || existsb (fun x => mem c (get x m)) refs.
Proof.
  induction refs as [|x refs IH]; intros acc cs H c; cbn in *.
  - inversion H; subst. rewrite orb_false_r. reflexivity.
  - unfold get at 1. destruct (lookup x m) as [v|]; [|discriminate].
    rewrite (IH _ _ H c), mem_set_union, orb_assoc. reflexivity.
Qed.

(* ------------------------------------------------------------------ selection *)
Definition selects (reg : list rule) (refs : list str) (r : rule) : bool :=
  existsb (fun x => refers reg x r) refs.
Definition all_known (reg : list rule) (refs : list str) : bool := forallb (known reg) refs.
Definition allowlist_of (reg : list rule) (allow : option (list str)) : list str :=
  match allow with Some a => a | None => map r_code reg end.
Definition denylist_of (deny : option (list str)) : list str :=
  match deny with Some d => d | None => [] end.
Definition codes (l : list rule) : list str := map r_code l.

Lemma unique_code reg (f : rule -> bool) r :
  NoDup (codes reg) -> In r reg ->
  existsb (fun r' => str_eqb (r_code r) (r_code r') && f r') reg = f r.
Proof.
  unfold codes. induction reg as [|x reg IH]; cbn; intros ND I; [contradiction|].
  inversion ND as [|c l Hn ND']; subst.
  destruct I as [->|I].
  - rewrite str_eqb_refl. cbn.
    destruct (f r) eqn:F; [reflexivity|]. cbn.
    apply existsb_false. intros r' I'. seq_cases (r_code r) (r_code r'); [|reflexivity].
    exfalso. apply Hn. rewrite E. apply in_map. exact I'.
  - seq_cases (r_code r) (r_code x).
    + exfalso. apply Hn. rewrite <- E. apply in_map. exact I.
    + cbn. apply IH; assumption.
Qed.

Lemma expand_selects reg refs cs r :
  NoDup (codes reg) -> In r reg ->
  expand (refmap reg) refs [] = Some cs -> mem (r_code r) cs = selects reg refs r.
Proof.
  intros ND I H. rewrite (expand_some _ _ _ _ H). cbn. unfold selects.
  apply existsb_ext_in. intros x _. rewrite refmap_get. apply unique_code; assumption.
Qed.

(** [get_rulepack] = the registry filtered by "referred to by the allowlist and not by the
    denylist" (registry order, hence no duplicates), and it panics exactly when some
    reference is unknown. *)
Theorem select_spec reg allow deny sel :
  NoDup (codes reg) ->
  get_rulepack reg allow deny = Some sel ->
  sel = filter (fun r => selects reg (allowlist_of reg allow) r
                         && negb (selects reg (denylist_of deny) r)) reg.
Proof.
  intros ND H. unfold get_rulepack in H.
  fold (allowlist_of reg allow) in H. fold (denylist_of deny) in H.
  destruct (expand (refmap reg) (allowlist_of reg allow) []) as [ea|] eqn:EA; [|discriminate].
  destruct (expand (refmap reg) (denylist_of deny) []) as [ed|] eqn:ED; [|discriminate].
  inversion H; subst. apply filter_ext_in'. intros r I.
  rewrite (expand_selects _ _ _ _ ND I EA), (expand_selects _ _ _ _ ND I ED). reflexivity.
Qed.

Theorem select_panics reg allow deny :
  get_rulepack reg allow deny = None <->
  all_known reg (allowlist_of reg allow) && all_known reg (denylist_of deny) = false.
Proof.
  unfold get_rulepack. fold (allowlist_of reg allow). fold (denylist_of deny).
  unfold all_known.
  assert (K : forall l, forallb (known reg) l = forallb (fun x => has x (refmap reg)) l).
  { intro l. apply forallb_ext'. intro. symmetry. apply refmap_has. }
  rewrite !K.
  destruct (expand (refmap reg) (allowlist_of reg allow) []) as [ea|] eqn:EA.
  - assert (forallb (fun x => has x (refmap reg)) (allowlist_of reg allow) = true) as ->.
    { destruct (forallb _ (allowlist_of reg allow)) eqn:F; [reflexivity|].
      apply expand_none with (acc := []) in F. congruence. }
    cbn. destruct (expand (refmap reg) (denylist_of deny) []) as [ed|] eqn:ED.
    + split; [discriminate|]. intro F. apply expand_none with (acc := []) in F. congruence.
    + split; [|reflexivity]. intros _. apply (expand_none _ _ []). exact ED.
  - apply expand_none in EA. rewrite EA. cbn. split; reflexivity.
Qed.

Corollary select_In reg allow deny sel r :
  NoDup (codes reg) -> get_rulepack reg allow deny = Some sel ->
  (In r sel <-> In r reg /\ selects reg (allowlist_of reg allow) r = true
                /\ selects reg (denylist_of deny) r = false).
Proof.
  intros ND H. rewrite (select_spec _ _ _ _ ND H), filter_In, andb_true_iff, negb_true_iff. tauto.
Qed.

Lemma NoDup_map_filter {A B} (f : A -> B) p (l : list A) : NoDup (map f l) -> NoDup (map f (filter p l)).
Proof.
  induction l as [|x l IH]; cbn; intro ND; [constructor|].
  inversion ND as [|c l' Hn ND']; subst.
  destruct (p x); cbn; [|apply IH; assumption].
  constructor; [|apply IH; assumption].
  intro I. apply Hn. apply in_map_iff in I as (y & E & I). apply filter_In in I as [I _].
  rewrite <- E. apply in_map. exact I.
Qed.

Corollary select_nodup reg allow deny sel :
  NoDup (codes reg) -> get_rulepack reg allow deny = Some sel -> NoDup (codes sel).
Proof.
  intros ND H. rewrite (select_spec _ _ _ _ ND H). apply NoDup_map_filter. exact ND.
Qed.

(** an unset allowlist selects every rule *)
Lemma selects_own_code reg r : In r reg -> selects reg (codes reg) r = true.
Proof.
  intro I. unfold selects. apply existsb_exists. exists (r_code r). split; [apply in_map; exact I|].
  unfold refers. assert (is_code reg (r_code r) = true) as ->.
  { apply existsb_exists. exists r. split; [exact I|apply str_eqb_refl]. }
  apply str_eqb_refl.
Qed.

(* ------------------------------------------------------------------ get_ruleset *)
Lemma im_insert_codes r reg :
  codes (im_insert r reg) = if mem (r_code r) (codes reg) then codes reg else codes reg ++ [r_code r].
Proof.
  unfold codes. induction reg as [|x reg IH]; cbn; [reflexivity|].
  seq_cases (r_code x) (r_code r); cbn.
  - rewrite E, str_eqb_refl. reflexivity.
  - rewrite str_eqb_sym, E. cbn. rewrite IH. destruct (mem (r_code r) (map r_code reg)); reflexivity.
Qed.

Lemma NoDup_snoc {A} (l : list A) c : NoDup l -> ~ In c l -> NoDup (l ++ [c]).
Proof.
  induction l as [|x l IH]; cbn; intros ND Hn; [constructor; [tauto|constructor]|].
  inversion ND as [|y l' Hx ND']; subst. constructor.
  - rewrite in_app_iff. cbn. intros [I|[E|[]]]; [contradiction|]. apply Hn. auto.
  - apply IH; [assumption|]. intro I. apply Hn. auto.
Qed.

Lemma register_nodup_aux rs : forall acc, NoDup (codes acc) ->
  NoDup (codes (fold_left (fun acc r => im_insert r acc) rs acc)).
Proof.
  induction rs as [|r rs IH]; intros acc ND; cbn; [exact ND|].
  apply IH. rewrite im_insert_codes. destruct (mem (r_code r) (codes acc)) eqn:E; [exact ND|].
  apply NoDup_snoc; [exact ND|]. apply mem_nIn. exact E.
Qed.

(** The registry built by [get_ruleset] never holds two rules with one code. *)
Theorem register_nodup rs : NoDup (codes (register rs)).
Proof. apply register_nodup_aux. constructor. Qed.

Lemma im_insert_fresh r reg : mem (r_code r) (codes reg) = false -> im_insert r reg = reg ++ [r].
Proof.
  unfold codes. induction reg as [|x reg IH]; cbn; intro H; [reflexivity|].
  apply orb_false_iff in H as [H1 H2]. rewrite str_eqb_sym, H1. rewrite IH by exact H2. reflexivity.
Qed.

Lemma register_id_aux rs : forall acc, NoDup (codes (acc ++ rs)) ->
  fold_left (fun acc r => im_insert r acc) rs acc = acc ++ rs.
Proof.
  induction rs as [|r rs IH]; intros acc ND; cbn; [rewrite app_nil_r; reflexivity|].
  assert (mem (r_code r) (codes acc) = false) as Hf.
  { apply mem_nIn. intro I. unfold codes in *. rewrite map_app in ND. cbn in ND.
    apply NoDup_remove_2 in ND. apply ND. rewrite in_app_iff. auto. }
  rewrite im_insert_fresh by exact Hf.
  rewrite IH; rewrite <- app_assoc; [reflexivity|exact ND].
Qed.

(** With unique codes [get_ruleset] keeps the list as it is. *)
Theorem register_id rs : NoDup (codes rs) -> register rs = rs.
Proof. intro ND. apply (register_id_aux rs []). exact ND. Qed.

(* ------------------------------------------------------------------ decidable registry facts *)
Fixpoint nodupb (l : list str) : bool :=
  match l with [] => true | x :: l' => negb (mem x l') && nodupb l' end.
Lemma nodupb_NoDup l : nodupb l = true -> NoDup l.
Proof.
  induction l as [|x l IH]; cbn; intro H; [constructor|].
  apply andb_true_iff in H as [H1 H2]. apply negb_true_iff in H1.
  constructor; [apply mem_nIn; exact H1|apply IH; exact H2].
Qed.

(* ------------------------------------------------------------------ lint loop *)
Section Lint.
  Variable input : Type.
  Variable res : Type.
  Variable body : list rule -> rule -> input -> list res.
  Variable force : rule -> bool.
  Variable masked : option str * res -> bool.

  Notation crawl := (crawl input res body force).
  Notation lint := (lint input res body force masked).
  Notation skipped := (skipped force).

  (** Independence: what a rule's body returns does not depend on which other rules are loaded. *)
  Definition H_indep : Prop :=
    forall pack pack' r i, In r pack -> In r pack' -> body pack r i = body pack' r i.

  Definition pre_ok (pre : list (viol res)) : Prop := forall v, In v pre -> fst v = None.

  Lemma crawl_In d pack r i v :
    In v (crawl d pack r i) -> fst v = Some (r_code r) /\ skipped d r = false.
  Proof.
    unfold Model.crawl. destruct (skipped d r); [contradiction|].
    intro I. apply in_map_iff in I as (x & <- & _). auto.
  Qed.

  (** every reported violation is a parse/noqa error or carries the code of a loaded rule
      that is not skipped for the dialect *)
  Theorem reported_in_selection d pack pre i v :
    In v (lint d pack pre i) ->
    In v pre \/ exists r, In r pack /\ fst v = Some (r_code r) /\ skipped d r = false.
  Proof.
    unfold Model.lint. intro I. apply filter_In in I as [I _]. apply in_app_iff in I as [I|I]; [auto|].
    right. apply in_flat_map in I as (r & Ir & Iv). exists r. split; [exact Ir|].
    eapply crawl_In. exact Iv.
  Qed.

  Theorem skipped_never_reports d pack pre i r :
    NoDup (codes pack) -> pre_ok pre -> In r pack -> skipped d r = true ->
    forall v, In v (lint d pack pre i) -> fst v <> Some (r_code r).
  Proof.
    intros ND Hpre Ir Hs v Iv E.
    apply reported_in_selection in Iv as [Iv|(r' & Ir' & E' & Hs')].
    - apply Hpre in Iv. congruence.
    - assert (r' = r) as ->; [|congruence].
      rewrite E in E'. inversion E' as [Ec].
      clear - ND Ir Ir' Ec. unfold codes in ND. induction pack as [|x l IH]; [contradiction|].
      cbn in ND. inversion ND as [|c l' Hn ND']; subst.
      destruct Ir as [->|Ir], Ir' as [->|Ir']; auto.
      + exfalso. apply Hn. rewrite Ec. apply in_map. exact Ir'.
      + exfalso. apply Hn. rewrite <- Ec. apply in_map. exact Ir.
  Qed.

  Definition keep (sel : list rule) (v : viol res) : bool :=
    match fst v with None => true | Some c => mem c (codes sel) end.

  Lemma mem_codes_filter reg p r :
    NoDup (codes reg) -> In r reg -> mem (r_code r) (codes (filter p reg)) = p r.
  Proof.
    unfold codes. induction reg as [|x reg IH]; cbn; intros ND I; [contradiction|].
    inversion ND as [|c l Hn ND']; subst. destruct I as [->|I].
    - destruct (p r) eqn:P; cbn; [rewrite str_eqb_refl; reflexivity|].
      apply mem_nIn. intro J. apply Hn. apply in_map_iff in J as (y & E & J).
      apply filter_In in J as [J _]. rewrite <- E. apply in_map. exact J.
    - destruct (p x); cbn; [|apply IH; assumption].
      seq_cases (r_code r) (r_code x); [|apply IH; assumption].
      exfalso. apply Hn. rewrite <- E. apply in_map. exact I.
  Qed.

  Lemma filter_keep_crawl reg p d r i :
    NoDup (codes reg) -> In r reg ->
    filter (keep (filter p reg)) (crawl d reg r i) = if p r then crawl d reg r i else [].
  Proof.
    intros ND I. unfold Model.crawl. destruct (skipped d r); [destruct (p r); reflexivity|].
    assert (K : forall x : res, keep (filter p reg) (Some (r_code r), x) = p r).
    { intro x. unfold keep. cbn. apply mem_codes_filter; assumption. }
    induction (body reg r i) as [|x l IH]; cbn [map filter]; [destruct (p r); reflexivity|].
    rewrite K, IH. destruct (p r); reflexivity.
  Qed.

  Lemma subset_flat reg p d i :
    H_indep -> NoDup (codes reg) -> forall l, incl l reg ->
    filter (keep (filter p reg)) (flat_map (fun r => crawl d reg r i) l)
    = flat_map (fun r => crawl d (filter p reg) r i) (filter p l).
  Proof.
    intros HI ND. induction l as [|r l IH]; intro Hin; cbn; [reflexivity|].
    rewrite filter_app, IH by (intros y Iy; apply Hin; right; exact Iy).
    rewrite filter_keep_crawl by (auto; apply Hin; left; reflexivity).
    destruct (p r) eqn:P; cbn; [|reflexivity].
    f_equal. unfold Model.crawl. destruct (skipped d r); [reflexivity|].
    rewrite (HI reg (filter p reg) r i); [reflexivity| apply Hin; left; reflexivity|].
    apply filter_In. split; [apply Hin; left; reflexivity|exact P].
  Qed.

  Lemma filter_comm {A} (f g : A -> bool) l : filter f (filter g l) = filter g (filter f l).
  Proof.
    induction l as [|x l IH]; cbn; [reflexivity|].
    destruct (f x) eqn:F, (g x) eqn:G; cbn; rewrite ?F, ?G, IH; reflexivity.
  Qed.

  Lemma filter_all {A} (f : A -> bool) l : (forall x, In x l -> f x = true) -> filter f l = l.
  Proof.
    induction l as [|x l IH]; cbn; intro H; [reflexivity|].
    rewrite H by auto. rewrite IH; [reflexivity|]. intros; apply H; auto.
  Qed.

  (** Linting with a sub-registry reports exactly the corresponding subset, in order. *)
  Theorem lint_subset reg p d pre i :
    H_indep -> NoDup (codes reg) -> pre_ok pre ->
    lint d (filter p reg) pre i = filter (keep (filter p reg)) (lint d reg pre i).
  Proof.
    intros HI ND Hpre. unfold Model.lint.
    rewrite (filter_comm (keep (filter p reg))). f_equal.
    rewrite filter_app. f_equal.
    - symmetry. apply filter_all. intros v Iv. unfold keep. rewrite (Hpre v Iv). reflexivity.
    - symmetry. apply (subset_flat reg p d i HI ND reg (incl_refl reg)).
  Qed.

  (** The same for a selection made by [get_rulepack]. *)
  Theorem select_lint_subset reg allow deny sel d pre i :
    H_indep -> NoDup (codes reg) -> pre_ok pre ->
    get_rulepack reg allow deny = Some sel ->
    lint d sel pre i = filter (keep sel) (lint d reg pre i).
  Proof.
    intros HI ND Hpre H. rewrite (select_spec _ _ _ _ ND H). apply lint_subset; assumption.
  Qed.
End Lint.

(** [rules = all] loads the whole registry when every rule is in group [all] and no code
    or name is spelled "all" (registry facts, checked on the dumped registry). *)
Definition s_all : str := [97;108;108].
Lemma select_all reg :
  reg <> [] -> NoDup (codes reg) -> is_code reg s_all = false -> is_name reg s_all = false ->
  forallb (fun r => mem s_all (r_groups r)) reg = true ->
  get_rulepack reg (Some [s_all]) None = Some reg.
Proof.
  intros NE ND HC HN HG.
  destruct (get_rulepack reg (Some [s_all]) None) as [sel|] eqn:H.
  - rewrite (select_spec _ _ _ _ ND H). f_equal. cbn.
    apply filter_all. intros r I. unfold selects. cbn. unfold refers. rewrite HC, HN.
    rewrite forallb_forall in HG. rewrite (HG r I). reflexivity.
  - exfalso. apply select_panics in H. cbn in H. unfold known in H. rewrite HC, HN in H. cbn in H.
    rewrite ?andb_true_r in H.
    destruct reg as [|r reg]; [congruence|]. cbn in HG. apply andb_true_iff in HG as [G _].
    unfold is_group in H. cbn in H. rewrite G in H. discriminate.
Qed.
