(** The README forms of the noqa directive parse to the directive they denote, for
    arbitrary whitespace in the places where the code trims. *)
From Sq Require Import Base.Bytes Noqa.Model.
From Coq Require Import ZifyBool ZifyN.

Local Arguments N.eqb : simpl never.
Local Arguments N.leb : simpl never.
Local Arguments N.ltb : simpl never.

(* ------------------------------------------------------------------ vocabulary *)
Definition all_ws (w : str) : bool := forallb is_ws w.
(** rule codes as the README writes them: upper-case letters and digits *)
Definition code_char (b : N) : bool := ((65 <=? b) && (b <=? 90)) || ((48 <=? b) && (b <=? 57)).
Definition is_code (r : str) : bool := negb (is_empty r) && forallb code_char r.
Definition no_byte (c : N) (s : str) : bool := forallb (fun b => negb (b =? c)) s.

Fixpoint join (sep : str) (l : list str) : str :=
  match l with
  | [] => []
  | x :: l' => match l' with [] => x | _ => x ++ sep ++ join sep l' end
  end.

Definition first_ok (s : str) : bool := match s with b :: _ => negb (is_ws b) | [] => false end.
Definition last_ok (s : str) : bool := first_ok (rev s).

Definition dd : str := [45; 45].
Definition kw (a : action) : str := match a with Disable => s_disable | Enable => s_enable end.

(* ------------------------------------------------------------------ trimming *)
Lemma trim_start_ws w s : all_ws w = true -> trim_start (w ++ s) = trim_start s.
Proof.
  induction w as [|b w IH]; intro H; [reflexivity|]. cbn in H. apply andb_true_iff in H as [Hb Hw].
  cbn. rewrite Hb. apply IH. exact Hw.
Qed.

Lemma trim_start_first_ok s : first_ok s = true -> trim_start s = s.
Proof. destruct s as [|b s]; cbn; [discriminate|]. intro H. apply negb_true_iff in H. rewrite H. reflexivity. Qed.

Lemma trim_start_all_ws w : all_ws w = true -> trim_start w = [].
Proof. intro H. rewrite <- (app_nil_r w). rewrite trim_start_ws by exact H. reflexivity. Qed.

Lemma all_ws_rev w : all_ws (rev w) = all_ws w.
Proof.
  unfold all_ws. induction w as [|b w IH]; [reflexivity|]. cbn. rewrite forallb_app, IH. cbn.
  rewrite andb_true_r. apply andb_comm.
Qed.

Lemma trim_end_ws s w : all_ws w = true -> trim_end (s ++ w) = trim_end s.
Proof.
  intro H. unfold trim_end. rewrite rev_app_distr. rewrite trim_start_ws; [reflexivity|].
  rewrite all_ws_rev. exact H.
Qed.

Lemma trim_end_last_ok s : last_ok s = true -> trim_end s = s.
Proof. intro H. unfold trim_end. rewrite trim_start_first_ok by exact H. apply rev_involutive. Qed.

Lemma trim_sandwich w s w' :
  all_ws w = true -> all_ws w' = true -> first_ok s = true -> last_ok s = true ->
  trim (w ++ s ++ w') = s.
Proof.
  intros Hw Hw' Hf Hl. unfold trim. rewrite trim_start_ws by exact Hw.
  rewrite trim_start_first_ok.
  - rewrite trim_end_ws by exact Hw'. apply trim_end_last_ok. exact Hl.
  - destruct s; [discriminate|]. exact Hf.
Qed.

Lemma trim_sandwich_l w s :
  all_ws w = true -> first_ok s = true -> last_ok s = true -> trim (w ++ s) = s.
Proof. intros. rewrite <- (app_nil_r s) at 1. apply trim_sandwich; auto. Qed.

Lemma trim_tight s : first_ok s = true -> last_ok s = true -> trim s = s.
Proof. intros. apply (trim_sandwich_l [] s); auto. Qed.

Lemma trim_all_ws w : all_ws w = true -> trim w = [].
Proof. intro H. unfold trim. rewrite trim_start_all_ws by exact H. reflexivity. Qed.

Lemma first_ok_app a b : first_ok a = true -> first_ok (a ++ b) = true.
Proof. destruct a; [discriminate|]. cbn. auto. Qed.
Lemma last_ok_app a b : last_ok b = true -> last_ok (a ++ b) = true.
Proof. unfold last_ok. rewrite rev_app_distr. apply first_ok_app. Qed.

(* ------------------------------------------------------------------ prefixes *)
Lemma strip_prefix_app p s : strip_prefix p (p ++ s) = Some s.
Proof. induction p as [|x p IH]; [destruct s; reflexivity|]. cbn. rewrite N.eqb_refl. exact IH. Qed.

Lemma starts_with_false p s x y : p = x :: tl p -> s = y :: tl s -> x <> y -> starts_with p s = false.
Proof.
  intros Hp Hs Hne. unfold starts_with. rewrite Hp, Hs. cbn.
  destruct (N.eqb_spec x y); [contradiction|reflexivity].
Qed.

Lemma strip_prefix_head_ne p s x y : p = x :: tl p -> s = y :: tl s -> x <> y -> strip_prefix p s = None.
Proof.
  intros Hp Hs Hne. rewrite Hp, Hs. cbn. destruct (N.eqb_spec x y); [contradiction|reflexivity].
Qed.

Lemma ends_with_close_false x b : b <> 47 -> ends_with s_close (x ++ [b]) = false.
Proof.
  intro H. unfold ends_with, starts_with. rewrite rev_app_distr. cbn.
  destruct (N.eqb_spec 47 b); [congruence|reflexivity].
Qed.

(* ------------------------------------------------------------------ "--" *)
Lemma after_last_dd_aux_no45 s : forall cur, no_byte 45 s = true -> after_last_dd_aux s cur = rev cur ++ s.
Proof.
  induction s as [|b s IH]; intros cur H; cbn.
  - rewrite app_nil_r. reflexivity.
  - cbn in H. apply andb_true_iff in H as [Hb Hs].
    destruct s as [|b2 s'].
    + cbn. reflexivity.
    + apply negb_true_iff in Hb. rewrite Hb. cbn [andb].
      rewrite IH by exact Hs. cbn. rewrite <- app_assoc. reflexivity.
Qed.

Lemma after_last_dd_dd s : no_byte 45 s = true -> after_last_dd (dd ++ s) = s.
Proof.
  intro H. unfold after_last_dd, dd. cbn [app after_last_dd_aux].
  cbn. destruct s as [|b s']; [reflexivity|].
  change (after_last_dd_aux (b :: s') [] = b :: s').
  rewrite after_last_dd_aux_no45 by exact H. reflexivity.
Qed.

(* ------------------------------------------------------------------ commas *)
Lemma split_byte_aux_no c s : forall cur, no_byte c s = true -> split_byte_aux c s cur = [rev cur ++ s].
Proof.
  induction s as [|b s IH]; intros cur H; cbn.
  - rewrite app_nil_r. reflexivity.
  - cbn in H. apply andb_true_iff in H as [Hb Hs]. apply negb_true_iff in Hb. rewrite Hb.
    rewrite IH by exact Hs. cbn. rewrite <- app_assoc. reflexivity.
Qed.

Lemma split_byte_aux_app c x s : forall cur,
  no_byte c x = true -> split_byte_aux c (x ++ c :: s) cur = (rev cur ++ x) :: split_byte_aux c s [].
Proof.
  induction x as [|b x IH]; intros cur H; cbn.
  - rewrite N.eqb_refl, app_nil_r. reflexivity.
  - cbn in H. apply andb_true_iff in H as [Hb Hx]. apply negb_true_iff in Hb. rewrite Hb.
    rewrite IH by exact Hx. cbn. rewrite <- app_assoc. reflexivity.
Qed.

Lemma split_join ps : ps <> [] -> forallb (no_byte 44) ps = true -> split_byte 44 (join [44] ps) = ps.
Proof.
  unfold split_byte. induction ps as [|p ps IH]; intros Hne H; [congruence|].
  cbn in H. apply andb_true_iff in H as [Hp Hps].
  destruct ps as [|q ps'].
  - cbn. rewrite split_byte_aux_no by exact Hp. reflexivity.
  - change (join [44] (p :: q :: ps')) with (p ++ [44] ++ join [44] (q :: ps')).
    cbn [app]. rewrite split_byte_aux_app by exact Hp. cbn [rev app].
    rewrite IH; [reflexivity|congruence|exact Hps].
Qed.

(* ------------------------------------------------------------------ byte classes *)
Lemma code_char_not_ws b : code_char b = true -> is_ws b = false.
Proof. unfold code_char, is_ws. lia. Qed.
Lemma code_char_ne b c : code_char b = true -> (c < 48 \/ (57 < c /\ c < 65) \/ 90 < c) -> b <> c.
Proof. unfold code_char. lia. Qed.
Lemma ws_ne b c : is_ws b = true -> (13 < c /\ c <> 32) -> b <> c.
Proof. unfold is_ws. lia. Qed.

Lemma code_no_byte r c : forallb code_char r = true -> (c < 48 \/ (57 < c /\ c < 65) \/ 90 < c) -> no_byte c r = true.
Proof.
  intros H Hc. unfold no_byte. apply forallb_forall. intros b Hb.
  apply negb_true_iff, N.eqb_neq. apply code_char_ne; [|exact Hc].
  revert b Hb. apply forallb_forall. exact H.
Qed.
Lemma ws_no_byte w c : all_ws w = true -> (13 < c /\ c <> 32) -> no_byte c w = true.
Proof.
  intros H Hc. unfold no_byte. apply forallb_forall. intros b Hb.
  apply negb_true_iff, N.eqb_neq. apply ws_ne; [|exact Hc].
  revert b Hb. apply forallb_forall. exact H.
Qed.
Lemma no_byte_app c a b : no_byte c (a ++ b) = no_byte c a && no_byte c b.
Proof. apply forallb_app. Qed.

Lemma is_code_first r : is_code r = true -> exists b t, r = b :: t /\ code_char b = true /\ forallb code_char t = true.
Proof.
  unfold is_code. destruct r as [|b t]; cbn; [discriminate|]. intro H.
  apply andb_true_iff in H as [Hb Ht]. eauto.
Qed.
Lemma is_code_last r : is_code r = true -> exists t b, r = t ++ [b] /\ code_char b = true.
Proof.
  intro H. destruct (is_code_first r H) as (b0 & t0 & -> & Hb0 & Ht0).
  destruct (exists_last (l := b0 :: t0)) as (t & b & E); [discriminate|].
  exists t, b. split; [exact E|].
  assert (Hall : forallb code_char (b0 :: t0) = true) by (cbn; rewrite Hb0, Ht0; reflexivity).
  rewrite E, forallb_app in Hall. apply andb_true_iff in Hall as [_ Hb]. cbn in Hb.
  rewrite andb_true_r in Hb. exact Hb.
Qed.
Lemma is_code_first_ok r : is_code r = true -> first_ok r = true.
Proof. intro H. destruct (is_code_first r H) as (b & t & -> & Hb & _). cbn. rewrite code_char_not_ws by exact Hb. reflexivity. Qed.
Lemma is_code_last_ok r : is_code r = true -> last_ok r = true.
Proof.
  intro H. destruct (is_code_last r H) as (t & b & -> & Hb). unfold last_ok. rewrite rev_app_distr. cbn.
  rewrite code_char_not_ws by exact Hb. reflexivity.
Qed.

(* ------------------------------------------------------------------ joined rule lists *)
Lemma join_codes_first rs : rs <> [] -> forallb is_code rs = true ->
  exists b t, join [44] rs = b :: t /\ code_char b = true.
Proof.
  destruct rs as [|r rs]; [congruence|]. intros _ H. cbn in H. apply andb_true_iff in H as [Hr _].
  destruct (is_code_first r Hr) as (b & t & -> & Hb & _).
  destruct rs; cbn; eauto.
Qed.
Lemma join_codes_last rs : rs <> [] -> forallb is_code rs = true ->
  exists t b, join [44] rs = t ++ [b] /\ code_char b = true.
Proof.
  induction rs as [|r rs IH]; [congruence|]. intros _ H. cbn in H. apply andb_true_iff in H as [Hr Hrs].
  destruct rs as [|q rs'].
  - cbn. apply is_code_last. exact Hr.
  - destruct IH as (t & b & E & Hb); [congruence|exact Hrs|].
    exists (r ++ [44] ++ t), b. split; [|exact Hb].
    change (join [44] (r :: q :: rs')) with (r ++ [44] ++ join [44] (q :: rs')).
    rewrite E. rewrite <- !app_assoc. reflexivity.
Qed.
Lemma join_codes_no_byte rs c : forallb is_code rs = true ->
  (c < 44 \/ (44 < c /\ c < 48) \/ (57 < c /\ c < 65) \/ 90 < c) -> no_byte c (join [44] rs) = true.
Proof.
  intros H Hc. induction rs as [|r rs IH]; [reflexivity|].
  cbn in H. apply andb_true_iff in H as [Hr Hrs]. unfold is_code in Hr. apply andb_true_iff in Hr as [_ Hr].
  assert (Hrc : no_byte c r = true) by (apply code_no_byte; [exact Hr|lia]).
  destruct rs as [|q rs']; [exact Hrc|].
  change (join [44] (r :: q :: rs')) with (r ++ [44] ++ join [44] (q :: rs')).
  rewrite !no_byte_app, Hrc, IH by exact Hrs. cbn.
  destruct (N.eqb_spec 44 c); [lia|reflexivity].
Qed.
Lemma codes_no_comma rs : forallb is_code rs = true -> forallb (no_byte 44) rs = true.
Proof.
  intro H. apply forallb_forall. intros r Hr.
  assert (Hc : is_code r = true) by (revert r Hr; apply forallb_forall; exact H).
  unfold is_code in Hc. apply andb_true_iff in Hc as [_ Hc]. apply code_no_byte; [exact Hc|lia].
Qed.

(* ------------------------------------------------------------------ the common front part *)
(** [extract] on "--" w0 "noqa" rest, where rest (already right-trimmed) has no '-' and
    does not end in '/', reaches the point after the "noqa" prefix with [trim rest]. *)
Lemma extract_front w0 rest line pos wtail x b :
  all_ws w0 = true -> all_ws wtail = true ->
  s_noqa ++ rest = x ++ [b] -> is_ws b = false -> b <> 47 ->
  no_byte 45 rest = true ->
  extract (dd ++ w0 ++ s_noqa ++ rest ++ wtail) line pos =
  let c := trim rest in
  if is_empty c then PDir (LineAll line pos)
  else match strip_prefix s_colon c with
       | None => PErr
       | Some c =>
           let c := trim c in
           match strip_prefix s_disable c with
           | Some c => parse_range Disable c line pos
           | None =>
               match strip_prefix s_enable c with
               | Some c => parse_range Enable c line pos
               | None => if is_empty c then PErr else PDir (LineRules line (split_byte 44 c))
               end
           end
       end.
Proof.
  intros Hw0 Hwt Hlast Hb Hb47 H45.
  unfold extract.
  assert (Hcore_last : last_ok (dd ++ w0 ++ s_noqa ++ rest) = true).
  { apply last_ok_app. apply last_ok_app. rewrite Hlast.
    unfold last_ok. rewrite rev_app_distr. cbn. rewrite Hb. reflexivity. }
  assert (Htrim : trim (dd ++ w0 ++ s_noqa ++ rest ++ wtail) = dd ++ w0 ++ s_noqa ++ rest).
  { replace (dd ++ w0 ++ s_noqa ++ rest ++ wtail) with ([] ++ (dd ++ w0 ++ s_noqa ++ rest) ++ wtail)
      by (cbn; rewrite <- !app_assoc; reflexivity).
    apply trim_sandwich; auto. }
  rewrite Htrim.
  assert (Hend : ends_with s_close (dd ++ w0 ++ s_noqa ++ rest) = false).
  { replace (dd ++ w0 ++ s_noqa ++ rest) with ((dd ++ w0 ++ x) ++ [b]).
    - apply ends_with_close_false. exact Hb47.
    - rewrite <- !app_assoc. rewrite <- Hlast. reflexivity. }
  rewrite Hend.
  assert (Hst : starts_with s_open (dd ++ w0 ++ s_noqa ++ rest) = false) by reflexivity.
  rewrite Hst.
  unfold parse_comment.
  rewrite after_last_dd_dd.
  2:{ rewrite !no_byte_app. rewrite (ws_no_byte w0 45) by (auto; lia). rewrite H45. reflexivity. }
  assert (Hcore_last' : last_ok (s_noqa ++ rest) = true).
  { rewrite Hlast. unfold last_ok. rewrite rev_app_distr. cbn. rewrite Hb. reflexivity. }
  rewrite trim_sandwich_l; [|exact Hw0|reflexivity|exact Hcore_last'].
  rewrite strip_prefix_app. reflexivity.
Qed.

(* ------------------------------------------------------------------ the four README forms *)
(** [-- noqa] *)
Theorem parse_bare w0 w1 line pos :
  all_ws w0 = true -> all_ws w1 = true ->
  extract (dd ++ w0 ++ s_noqa ++ w1) line pos = PDir (LineAll line pos).
Proof.
  intros H0 H1.
  replace (dd ++ w0 ++ s_noqa ++ w1) with (dd ++ w0 ++ s_noqa ++ [] ++ w1) by reflexivity.
  rewrite (extract_front w0 [] line pos w1 [110;111;113] 97); auto; try reflexivity; try discriminate.
Qed.

(** [-- noqa: A,B] *)
Theorem parse_line w0 w1 w2 w3 rs line pos :
  all_ws w0 = true -> all_ws w1 = true -> all_ws w2 = true -> all_ws w3 = true ->
  rs <> [] -> forallb is_code rs = true ->
  extract (dd ++ w0 ++ s_noqa ++ (w1 ++ s_colon ++ w2 ++ join [44] rs) ++ w3) line pos
  = PDir (LineRules line rs).
Proof.
  intros H0 H1 H2 H3 Hne Hrs.
  destruct (join_codes_last rs Hne Hrs) as (t & b & Ej & Hb).
  destruct (join_codes_first rs Hne Hrs) as (b0 & t0 & Ej0 & Hb0).
  rewrite (extract_front w0 _ line pos w3 (s_noqa ++ w1 ++ s_colon ++ w2 ++ t) b); auto.
  2:{ rewrite Ej. rewrite <- !app_assoc. reflexivity. }
  2:{ apply code_char_not_ws. exact Hb. }
  2:{ apply code_char_ne; [exact Hb|lia]. }
  2:{ rewrite !no_byte_app. rewrite (ws_no_byte w1 45), (ws_no_byte w2 45) by (auto; lia).
      rewrite join_codes_no_byte by (auto; lia). reflexivity. }
  cbv zeta.
  assert (Hlast_j : last_ok (join [44] rs) = true).
  { rewrite Ej. unfold last_ok. rewrite rev_app_distr. cbn. rewrite code_char_not_ws by exact Hb. reflexivity. }
  assert (Hfirst_j : first_ok (join [44] rs) = true).
  { rewrite Ej0. cbn. rewrite code_char_not_ws by exact Hb0. reflexivity. }
  rewrite (trim_sandwich_l w1 (s_colon ++ w2 ++ join [44] rs)); auto.
  2:{ apply last_ok_app. apply last_ok_app. exact Hlast_j. }
  change (is_empty (s_colon ++ w2 ++ join [44] rs)) with false. cbv iota.
  rewrite strip_prefix_app.
  rewrite (trim_sandwich_l w2 (join [44] rs)); auto.
  rewrite (strip_prefix_head_ne s_disable (join [44] rs) 100 b0); try reflexivity.
  2:{ rewrite Ej0. reflexivity. }
  2:{ intro E. symmetry in E. revert E. apply code_char_ne; [exact Hb0|lia]. }
  rewrite (strip_prefix_head_ne s_enable (join [44] rs) 101 b0); try reflexivity.
  2:{ rewrite Ej0. reflexivity. }
  2:{ intro E. symmetry in E. revert E. apply code_char_ne; [exact Hb0|lia]. }
  rewrite Ej0 at 1. cbn [is_empty].
  rewrite split_join; auto. apply codes_no_comma. exact Hrs.
Qed.

(** range bodies: pieces [wl ++ r ++ wr] joined by commas; the first piece has no leading and
    the last no trailing whitespace (those are absorbed by the surrounding whitespace). *)
Definition piece (x : str * str * str) : str := fst (fst x) ++ snd (fst x) ++ snd x.
Definition piece_ok (x : str * str * str) : bool :=
  all_ws (fst (fst x)) && is_code (snd (fst x)) && all_ws (snd x).

Lemma piece_trim x : piece_ok x = true -> trim (piece x) = snd (fst x).
Proof.
  destruct x as [[wl r] wr]. unfold piece_ok, piece. cbn [fst snd]. intro H.
  apply andb_true_iff in H as [H Hwr]. apply andb_true_iff in H as [Hwl Hr].
  apply trim_sandwich; auto using is_code_first_ok, is_code_last_ok.
Qed.
Lemma piece_no_comma x : piece_ok x = true -> no_byte 44 (piece x) = true.
Proof.
  destruct x as [[wl r] wr]. unfold piece_ok, piece. cbn [fst snd]. intro H.
  apply andb_true_iff in H as [H Hwr]. apply andb_true_iff in H as [Hwl Hr].
  rewrite !no_byte_app. rewrite (ws_no_byte wl 44), (ws_no_byte wr 44) by (auto; lia).
  unfold is_code in Hr. apply andb_true_iff in Hr as [_ Hr]. rewrite code_no_byte by (auto; lia). reflexivity.
Qed.
Lemma piece_no_dash x : piece_ok x = true -> no_byte 45 (piece x) = true.
Proof.
  destruct x as [[wl r] wr]. unfold piece_ok, piece. cbn [fst snd]. intro H.
  apply andb_true_iff in H as [H Hwr]. apply andb_true_iff in H as [Hwl Hr].
  rewrite !no_byte_app. rewrite (ws_no_byte wl 45), (ws_no_byte wr 45) by (auto; lia).
  unfold is_code in Hr. apply andb_true_iff in Hr as [_ Hr]. rewrite code_no_byte by (auto; lia). reflexivity.
Qed.
Lemma join_no_dash ps : forallb (no_byte 45) ps = true -> no_byte 45 (join [44] ps) = true.
Proof.
  induction ps as [|p ps IH]; [reflexivity|]. cbn [forallb]. intro H. apply andb_true_iff in H as [Hp Hps].
  destruct ps as [|q ps']; [exact Hp|].
  change (join [44] (p :: q :: ps')) with (p ++ [44] ++ join [44] (q :: ps')).
  rewrite !no_byte_app, Hp, IH by exact Hps. reflexivity.
Qed.

Lemma range_rules_pieces xs :
  xs <> [] -> forallb piece_ok xs = true ->
  range_rules (join [44] (map piece xs)) = map (fun x => snd (fst x)) xs.
Proof.
  intros Hne H. unfold range_rules. rewrite split_join.
  - induction xs as [|x xs IH]; [congruence|]. cbn in H. apply andb_true_iff in H as [Hx Hxs].
    cbn [map]. rewrite piece_trim by exact Hx.
    assert (Hc : is_code (snd (fst x)) = true).
    { unfold piece_ok in Hx. apply andb_true_iff in Hx as [Hx _]. apply andb_true_iff in Hx as [_ Hx]. exact Hx. }
    cbn [filter]. destruct (is_code_first _ Hc) as (b & t & E & _). rewrite E at 1. cbn [is_empty negb].
    f_equal. destruct xs as [|y ys]; [reflexivity|]. apply IH; [congruence|exact Hxs].
  - destruct xs; [congruence|discriminate].
  - rewrite forallb_forall. intros p Hp. apply in_map_iff in Hp as (x & <- & Hx).
    apply piece_no_comma. revert x Hx. apply forallb_forall. exact H.
Qed.

(** [-- noqa: disable=A, B] / [enable=…] *)
Theorem parse_range_rules w0 w1 w2 w3 w4 a xs line pos :
  all_ws w0 = true -> all_ws w1 = true -> all_ws w2 = true -> all_ws w3 = true -> all_ws w4 = true ->
  xs <> [] -> forallb piece_ok xs = true ->
  first_ok (join [44] (map piece xs)) = true -> last_ok (join [44] (map piece xs)) = true ->
  (forall t b, join [44] (map piece xs) = t ++ [b] -> b <> 47) ->
  extract (dd ++ w0 ++ s_noqa ++ (w1 ++ s_colon ++ w2 ++ kw a ++ w3 ++ join [44] (map piece xs)) ++ w4) line pos
  = PDir (RangeRules line pos a (map (fun x => snd (fst x)) xs)).
Proof.
  intros H0 H1 H2 H3 H4 Hne Hxs Hfirst Hlast H47.
  set (body := join [44] (map piece xs)) in *.
  destruct (exists_last (l := body)) as (t & b & Eb).
  { destruct body; [discriminate|discriminate]. }
  assert (Hbws : is_ws b = false).
  { unfold last_ok in Hlast. rewrite Eb, rev_app_distr in Hlast. cbn in Hlast. apply negb_true_iff in Hlast. exact Hlast. }
  assert (Hnd : no_byte 45 body = true).
  { apply join_no_dash. rewrite forallb_forall. intros p Hp. apply in_map_iff in Hp as (x & <- & Hx).
    apply piece_no_dash. revert x Hx. apply forallb_forall. exact Hxs. }
  rewrite (extract_front w0 _ line pos w4 (s_noqa ++ w1 ++ s_colon ++ w2 ++ kw a ++ w3 ++ t) b); auto.
  2:{ rewrite Eb. rewrite <- !app_assoc. reflexivity. }
  2:{ apply (H47 t). exact Eb. }
  2:{ rewrite !no_byte_app. rewrite (ws_no_byte w1 45), (ws_no_byte w2 45), (ws_no_byte w3 45) by (auto; lia).
      rewrite Hnd. destruct a; reflexivity. }
  cbv zeta.
  rewrite (trim_sandwich_l w1 (s_colon ++ w2 ++ kw a ++ w3 ++ body)); auto.
  2:{ do 4 apply last_ok_app. exact Hlast. }
  change (is_empty (s_colon ++ w2 ++ kw a ++ w3 ++ body)) with false. cbv iota.
  rewrite strip_prefix_app.
  rewrite (trim_sandwich_l w2 (kw a ++ w3 ++ body)); auto.
  2:{ destruct a; reflexivity. }
  2:{ do 2 apply last_ok_app. exact Hlast. }
  assert (Hpr : forall a', parse_range a' (w3 ++ body) line pos =
                           PDir (RangeRules line pos a' (map (fun x => snd (fst x)) xs))).
  { intro a'. unfold parse_range. rewrite trim_sandwich_l; auto.
    assert (Hnall : str_eqb body s_all = false).
    { (* the first byte of body is a code char, never 'a' *)
      destruct xs as [|x xs']; [congruence|].
      cbn in Hxs. apply andb_true_iff in Hxs as [Hx _].
      destruct x as [[wl r] wr]. unfold piece_ok in Hx. cbn in Hx.
      apply andb_true_iff in Hx as [Hx _]. apply andb_true_iff in Hx as [Hwl Hr].
      destruct (is_code_first r Hr) as (c & tr & -> & Hc & _).
      (* body starts with wl ++ c :: ...; first_ok forces wl = [] *)
      assert (Hwl0 : wl = []).
      { destruct wl as [|z wl']; [reflexivity|]. exfalso.
        subst body. cbn in Hwl. apply andb_true_iff in Hwl as [Hz _].
        destruct xs'; cbn in Hfirst; rewrite Hz in Hfirst; discriminate. }
      subst wl. subst body.
      assert (Ehd : exists rest, join [44] (map piece (([], c :: tr, wr) :: xs')) = c :: rest).
      { destruct xs'; cbn; eauto. }
      destruct Ehd as (rest & E).
      assert (Hgen : forall s, s = c :: rest -> str_eqb s s_all = false).
      { intros s ->. cbn. destruct (N.eqb_spec c 97) as [e|]; [|reflexivity].
        exfalso. revert e. apply code_char_ne; [exact Hc|lia]. }
      apply Hgen. exact E. }
    rewrite Hnall. unfold body. rewrite range_rules_pieces by assumption.
    destruct xs; [congruence|reflexivity]. }
  destruct a; cbn [kw].
  - rewrite strip_prefix_app. apply Hpr.
  - change (strip_prefix s_disable (s_enable ++ w3 ++ body)) with (@None str).
    rewrite strip_prefix_app. apply Hpr.
Qed.

(** [-- noqa: disable=all] / [enable=all] *)
Theorem parse_range_all w0 w1 w2 w3 w4 a line pos :
  all_ws w0 = true -> all_ws w1 = true -> all_ws w2 = true -> all_ws w3 = true -> all_ws w4 = true ->
  extract (dd ++ w0 ++ s_noqa ++ (w1 ++ s_colon ++ w2 ++ kw a ++ w3 ++ s_all) ++ w4) line pos
  = PDir (RangeAll line pos a).
Proof.
  intros H0 H1 H2 H3 H4.
  rewrite (extract_front w0 _ line pos w4 (s_noqa ++ w1 ++ s_colon ++ w2 ++ kw a ++ w3 ++ [97;108]) 108); auto;
    try discriminate.
  2:{ rewrite <- !app_assoc. reflexivity. }
  2:{ rewrite !no_byte_app. rewrite (ws_no_byte w1 45), (ws_no_byte w2 45), (ws_no_byte w3 45) by (auto; lia).
      destruct a; reflexivity. }
  cbv zeta.
  rewrite (trim_sandwich_l w1 (s_colon ++ w2 ++ kw a ++ w3 ++ s_all)); auto.
  2:{ do 4 apply last_ok_app. reflexivity. }
  change (is_empty (s_colon ++ w2 ++ kw a ++ w3 ++ s_all)) with false. cbv iota.
  rewrite strip_prefix_app.
  rewrite (trim_sandwich_l w2 (kw a ++ w3 ++ s_all)); auto.
  2:{ destruct a; reflexivity. }
  2:{ do 2 apply last_ok_app. reflexivity. }
  assert (Hpr : forall a', parse_range a' (w3 ++ s_all) line pos = PDir (RangeAll line pos a')).
  { intro a'. unfold parse_range. rewrite trim_sandwich_l; auto. }
  destruct a; cbn [kw].
  - rewrite strip_prefix_app. apply Hpr.
  - change (strip_prefix s_disable (s_enable ++ w3 ++ s_all)) with (@None str).
    rewrite strip_prefix_app. apply Hpr.
Qed.

(* non-vacuity: "--  noqa: disable=CP01 , LT01" and friends *)
Example parse_examples :
  let cp01 := [67;80;48;49] in let lt01 := [76;84;48;49] in
  extract (dd ++ [32] ++ s_noqa ++ ([] ++ s_colon ++ [32] ++ kw Disable ++ [] ++
            join [44] (map piece [([], cp01, [32]); ([32], lt01, [])])) ++ [32;32]) 3 7
  = PDir (RangeRules 3 7 Disable [cp01; lt01])
  /\ forallb piece_ok [([], cp01, [32]); ([32], lt01, [])] = true
  /\ extract (dd ++ s_noqa ++ (s_colon ++ join [44] [cp01; lt01])) 3 7 = PDir (LineRules 3 [cp01; lt01]).
Proof. vm_compute. repeat split; reflexivity. Qed.
