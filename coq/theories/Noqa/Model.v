(** Executable model of crates/lib/src/core/rules/noqa.rs
    ([IgnoreMask::extract_ignore_from_comment], [NoQADirective::parse_from_comment],
    [IgnoreMask::is_masked]) and of the way [Linter::lint_parsed] applies the mask.
    Definitions only; proofs are in Proofs.v. *)
From Sq Require Export Base.Bytes.

Inductive action := Enable | Disable.

Inductive directive :=
| LineAll (line pos : N)
| LineRules (line : N) (rules : list str)       (* the code stores line_pos := 0 *)
| RangeAll (line pos : N) (a : action)
| RangeRules (line pos : N) (a : action) (rules : list str).

Inductive parsed := PNone | PErr | PDir (d : directive).

(* "noqa" ":" "disable=" "enable=" "all" "*/" "/*" *)
Definition s_noqa : str := [110;111;113;97].
Definition s_colon : str := [58].
Definition s_disable : str := [100;105;115;97;98;108;101;61].
Definition s_enable : str := [101;110;97;98;108;101;61].
Definition s_all : str := [97;108;108].
Definition s_close : str := [42;47].
Definition s_open : str := [47;42].

(** rule list of the range forms: split on ',', trim each, drop empties *)
Definition range_rules (c : str) : list str :=
  filter (fun r => negb (is_empty r)) (map trim (split_byte 44 c)).

Definition parse_range (a : action) (c : str) (line pos : N) : parsed :=
  let c := trim c in
  if str_eqb c s_all then PDir (RangeAll line pos a)
  else match range_rules c with
       | [] => PErr
       | rs => PDir (RangeRules line pos a rs)
       end.

(** [NoQADirective::parse_from_comment] *)
Definition parse_comment (original : str) (line pos : N) : parsed :=
  let c := trim (after_last_dd original) in
  match strip_prefix s_noqa c with
  | None => PNone
  | Some c =>
      let c := trim c in
      if is_empty c then PDir (LineAll line pos)
      else match strip_prefix s_colon c with
           | None => PErr
           | Some c =>
               let c := trim c in
               match strip_prefix s_disable c with
               | Some c => parse_range Disable c line pos
               | None =>
                   match strip_prefix s_enable c with
                   | Some c => parse_range Enable c line pos
                   | None =>
                       if is_empty c then PErr
                       else PDir (LineRules line (split_byte 44 c))   (* no trimming, no filtering *)
                   end
               end
           end
  end.

(** [IgnoreMask::extract_ignore_from_comment] (position lookup done by the caller) *)
Definition extract (raw : str) (line pos : N) : parsed :=
  let c := trim raw in
  let c := if ends_with s_close c then trim_end (drop_last 2 c) else c in
  let c := if starts_with s_open c then trim_start (skipn 2 c) else c in
  parse_comment c line pos.

Record violation := { v_line : N; v_pos : N; v_rule : option str }.

(** [is_masked_by_line_rules] *)
Definition by_line (ds : list directive) (v : violation) : bool :=
  existsb (fun d =>
    match d with
    | LineAll l _ => l =? v_line v
    | LineRules l rs =>
        (l =? v_line v) && match v_rule v with Some r => mem r rs | None => false end
    | _ => false
    end) ds.

Definition is_range (d : directive) : bool :=
  match d with RangeAll _ _ _ | RangeRules _ _ _ _ => true | _ => false end.
Definition d_key (d : directive) : N * N :=
  match d with
  | LineAll l p => (l, p) | LineRules l _ => (l, 0)
  | RangeAll l p _ => (l, p) | RangeRules l p _ _ => (l, p)
  end.
Definition key_le (a b : N * N) : bool :=
  (fst a <? fst b) || ((fst a =? fst b) && (snd a <=? snd b)).

(** stable insertion sort by (line, pos) -- [Vec::sort_by] is stable *)
Fixpoint insert (d : directive) (l : list directive) : list directive :=
  match l with
  | [] => [d]
  | x :: l' => if key_le (d_key x) (d_key d) then x :: insert d l' else d :: l
  end.
Definition sort_ds (l : list directive) : list directive :=
  fold_left (fun acc d => insert d acc) l [].

(** position cut-off of the loop: directive at or before the violation *)
Definition at_or_before (v : violation) (d : directive) : bool :=
  key_le (d_key d) (v_line v, v_pos v).

Fixpoint take_while {A} (f : A -> bool) (l : list A) : list A :=
  match l with [] => [] | x :: l' => if f x then x :: take_while f l' else [] end.

(** state of the range loop: all_rules_disabled, disabled_rules, enabled_rules *)
Definition rstate := (bool * list str * list str)%type.
Definition remove_all (rs l : list str) : list str := filter (fun c => negb (mem c rs)) l.

(** the repaired loop body (fix: noqa range state follows the last relevant directive) *)
Definition step (st : rstate) (d : directive) : rstate :=
  let '(a, dis, en) := st in
  match d with
  | RangeAll _ _ Disable => (true, [], [])
  | RangeAll _ _ Enable => (false, [], [])
  | RangeRules _ _ Disable rs => (a, rs ++ dis, remove_all rs en)
  | RangeRules _ _ Enable rs => (a, remove_all rs dis, rs ++ en)
  | _ => st
  end.

(** the loop body before the repair: enable=all left [disabled_rules] alone and there was
    no way to re-enable one rule under disable=all *)
Definition step_legacy (st : rstate) (d : directive) : rstate :=
  let '(a, dis, en) := st in
  match d with
  | RangeAll _ _ Disable => (true, dis, en)
  | RangeAll _ _ Enable => (false, dis, en)
  | RangeRules _ _ Disable rs => (a, rs ++ dis, en)
  | RangeRules _ _ Enable rs => (a, remove_all rs dis, en)
  | _ => st
  end.

Definition masked_state (r : option str) (st : rstate) : bool :=
  let '(a, dis, en) := st in
  match r with
  | Some c => if mem c dis then true else if mem c en then false else a
  | None => a
  end.
Definition masked_state_legacy (r : option str) (st : rstate) : bool :=
  let '(a, dis, _) := st in
  a || match r with Some c => mem c dis | None => false end.

Definition by_range_gen (stp : rstate -> directive -> rstate) (fin : option str -> rstate -> bool)
  (ds : list directive) (v : violation) : bool :=
  let rs := sort_ds (filter is_range ds) in
  let pre := take_while (at_or_before v) rs in
  fin (v_rule v) (fold_left stp pre (false, [], [])).

Definition by_range := by_range_gen step masked_state.
Definition by_range_legacy := by_range_gen step_legacy masked_state_legacy.

Definition is_masked (ds : list directive) (v : violation) : bool := by_line ds v || by_range ds v.
Definition is_masked_legacy (ds : list directive) (v : violation) : bool :=
  by_line ds v || by_range_legacy ds v.

(** -------- specification: the last relevant range directive at or before the violation wins *)
Definition relevant (r : option str) (d : directive) : bool :=
  match d with
  | RangeAll _ _ _ => true
  | RangeRules _ _ _ rs => match r with Some c => mem c rs | None => false end
  | _ => false
  end.
Definition is_disable (d : directive) : bool :=
  match d with RangeAll _ _ Disable | RangeRules _ _ Disable _ => true | _ => false end.
Definition last_opt {A} (l : list A) : option A :=
  match rev l with [] => None | x :: _ => Some x end.
Definition range_spec (ds : list directive) (v : violation) : bool :=
  let cands := filter (relevant (v_rule v))
                 (filter (at_or_before v) (sort_ds (filter is_range ds))) in
  match last_opt cands with Some d => is_disable d | None => false end.
Definition masked_spec (ds : list directive) (v : violation) : bool :=
  by_line ds v || range_spec ds v.

(** -------- how the linter uses it ([IgnoreMask::from_tree] + filter in [lint_parsed]) *)
Record comment := { c_raw : str; c_line : N; c_pos : N }.

Definition from_comments (cs : list comment) : list directive * list violation :=
  fold_right (fun c acc =>
    match extract (c_raw c) (c_line c) (c_pos c) with
    | PNone => acc
    | PErr => (fst acc, {| v_line := c_line c; v_pos := c_pos c; v_rule := None |} :: snd acc)
    | PDir d => (d :: fst acc, snd acc)
    end) ([], []) cs.

(** violations reported with noqa on, given the comments of the file, the parse
    violations and the rule violations reported with noqa off *)
Definition lint_noqa (cs : list comment) (parse_vs rule_vs : list violation) : list violation :=
  let '(ds, errs) := from_comments cs in
  filter (fun v => negb (is_masked ds v)) (parse_vs ++ errs ++ rule_vs).
