(** Proofs about the noqa model: the range state machine computes
    "the last relevant directive at or before the violation decides". *)
From Sq Require Import Base.Bytes Noqa.Model.
From Coq Require Import Sorting.Sorted Permutation.

(* ------------------------------------------------------------------ strings *)
Lemma str_eqb_refl s : str_eqb s s = true.
Proof. induction s as [|x s IH]; cbn; [reflexivity|]. rewrite N.eqb_refl, IH. reflexivity. Qed.

Lemma str_eqb_eq a b : str_eqb a b = true <-> a = b.
Proof.
  revert b; induction a as [|x a IH]; intros [|y b]; cbn; split; intro H; try congruence; try reflexivity.
  - apply andb_true_iff in H as [H1 H2]. apply N.eqb_eq in H1. apply IH in H2. congruence.
  - inversion H; subst. rewrite N.eqb_refl. cbn. apply IH. reflexivity.
Qed.

Lemma mem_app c l1 l2 : mem c (l1 ++ l2) = mem c l1 || mem c l2.
Proof. induction l1 as [|x l1 IH]; cbn; [reflexivity|]. rewrite IH, orb_assoc. reflexivity. Qed.

Lemma mem_remove_all_in c rs l : mem c rs = true -> mem c (remove_all rs l) = false.
Proof.
  intro Hc. unfold remove_all. induction l as [|x l IH]; cbn; [reflexivity|].
  destruct (mem x rs) eqn:Hx; cbn; [exact IH|].
  destruct (str_eqb c x) eqn:Hcx; cbn; [|exact IH].
  apply str_eqb_eq in Hcx. subst. congruence.
Qed.

Lemma mem_remove_all_notin c rs l : mem c rs = false -> mem c (remove_all rs l) = mem c l.
Proof.
  intro Hc. unfold remove_all. induction l as [|x l IH]; cbn; [reflexivity|].
  destruct (mem x rs) eqn:Hx; cbn.
  - destruct (str_eqb c x) eqn:Hcx; cbn; [|exact IH].
    apply str_eqb_eq in Hcx. subst. congruence.
  - rewrite IH. reflexivity.
Qed.

(* ------------------------------------------------------------------ one step *)
Lemma step_relevant r st d :
  is_range d = true -> relevant r d = true -> masked_state r (step st d) = is_disable d.
Proof.
  destruct st as [[a dis] en]. destruct d as [l p|l rs|l p [|]|l p [|] rs]; cbn; intros _ Hr; try discriminate.
  - destruct r; reflexivity.
  - destruct r; reflexivity.
  - destruct r as [c|]; [|discriminate].
    rewrite mem_remove_all_in by exact Hr. rewrite mem_app, Hr. reflexivity.
  - destruct r as [c|]; [|discriminate].
    rewrite mem_app, Hr. reflexivity.
Qed.

Lemma step_irrelevant r st d :
  relevant r d = false -> masked_state r (step st d) = masked_state r st.
Proof.
  destruct st as [[a dis] en]. destruct d as [l p|l rs|l p [|]|l p [|] rs]; cbn; intros Hr; try discriminate; try reflexivity.
  - destruct r as [c|]; [|reflexivity].
    rewrite mem_remove_all_notin by exact Hr. rewrite mem_app, Hr. reflexivity.
  - destruct r as [c|]; [|reflexivity].
    rewrite mem_app, Hr. cbn. rewrite mem_remove_all_notin by exact Hr. reflexivity.
Qed.

(* ------------------------------------------------------------------ the fold *)
Lemma last_opt_cons {A} (x : A) l :
  last_opt (x :: l) = match last_opt l with Some y => Some y | None => Some x end.
Proof.
  unfold last_opt. cbn [rev]. destruct (rev l) as [|y t]; reflexivity.
Qed.

Lemma fold_step_spec r pre : forall st,
  Forall (fun d => is_range d = true) pre ->
  masked_state r (fold_left step pre st) =
  match last_opt (filter (relevant r) pre) with
  | Some d => is_disable d
  | None => masked_state r st
  end.
Proof.
  induction pre as [|d pre IH]; intros st Hall; [reflexivity|].
  inversion Hall as [|? ? Hd Hall']; subst.
  cbn [fold_left filter]. rewrite IH by exact Hall'.
  destruct (relevant r d) eqn:Hr.
  - rewrite last_opt_cons. destruct (last_opt (filter (relevant r) pre)); [reflexivity|].
    apply step_relevant; assumption.
  - destruct (last_opt (filter (relevant r) pre)); [reflexivity|].
    apply step_irrelevant; assumption.
Qed.

(* ------------------------------------------------------------------ sorting *)
Definition dle (a b : directive) : Prop := key_le (d_key a) (d_key b) = true.

Lemma key_le_total a b : key_le a b = false -> key_le b a = true.
Proof.
  unfold key_le. destruct a as [a1 a2], b as [b1 b2]; cbn. intro H.
  apply orb_false_iff in H as [H1 H2]. apply N.ltb_ge in H1.
  destruct (N.eqb_spec a1 b1) as [->|Hne].
  - cbn in H2. apply N.leb_gt in H2. rewrite N.eqb_refl. cbn.
    apply orb_true_iff. right. apply N.leb_le. lia.
  - apply orb_true_iff. left. apply N.ltb_lt. lia.
Qed.

Lemma key_le_trans a b c : key_le a b = true -> key_le b c = true -> key_le a c = true.
Proof.
  unfold key_le. destruct a as [a1 a2], b as [b1 b2], c as [c1 c2]; cbn.
  rewrite !orb_true_iff, !andb_true_iff, !N.ltb_lt, !N.eqb_eq, !N.leb_le. lia.
Qed.

Lemma insert_sorted d l : Sorted dle l -> Sorted dle (insert d l).
Proof.
  induction l as [|x l IH]; intro Hs; cbn.
  - repeat constructor.
  - destruct (key_le (d_key x) (d_key d)) eqn:Hle.
    + inversion Hs as [|? ? Hs' Hhd]; subst. constructor; [apply IH; exact Hs'|].
      destruct l as [|y l]; cbn.
      * constructor. exact Hle.
      * destruct (key_le (d_key y) (d_key d)); constructor; [|exact Hle].
        inversion Hhd; assumption.
    + constructor; [exact Hs|]. constructor. apply key_le_total. exact Hle.
Qed.

Lemma sort_ds_sorted_aux l : forall acc, Sorted dle acc -> Sorted dle (fold_left (fun acc d => insert d acc) l acc).
Proof.
  induction l as [|d l IH]; intros acc Hacc; cbn; [exact Hacc|]. apply IH. apply insert_sorted. exact Hacc.
Qed.
Lemma sort_ds_sorted l : Sorted dle (sort_ds l).
Proof. apply sort_ds_sorted_aux. constructor. Qed.

Lemma insert_perm d l : Permutation (d :: l) (insert d l).
Proof.
  induction l as [|x l IH]; cbn; [reflexivity|].
  destruct (key_le (d_key x) (d_key d)); [|reflexivity].
  rewrite perm_swap. constructor. exact IH.
Qed.
Lemma sort_ds_perm_aux l : forall acc, Permutation (rev l ++ acc) (fold_left (fun acc d => insert d acc) l acc).
Proof.
  induction l as [|d l IH]; intros acc; cbn; [reflexivity|].
  rewrite <- IH. rewrite <- app_assoc. cbn.
  apply Permutation_app_head. apply insert_perm.
Qed.
Lemma sort_ds_perm l : Permutation l (sort_ds l).
Proof.
  unfold sort_ds. rewrite <- sort_ds_perm_aux. rewrite app_nil_r. apply Permutation_rev.
Qed.

Lemma sort_ds_all_range ds : Forall (fun d => is_range d = true) (sort_ds (filter is_range ds)).
Proof.
  apply Forall_forall. intros d Hd.
  apply (Permutation_in _ (Permutation_sym (sort_ds_perm _))) in Hd.
  apply filter_In in Hd. tauto.
Qed.

(** on a sorted list, [take_while] of a downward-closed predicate is [filter] *)
Lemma filter_after_false v x l :
  Forall (dle x) l -> at_or_before v x = false -> filter (at_or_before v) l = [].
Proof.
  intros Hall Hx. induction Hall as [|y l Hxy _ IH]; [reflexivity|]. cbn.
  assert (Hy : at_or_before v y = false).
  { unfold at_or_before in *. destruct (key_le (d_key y) (v_line v, v_pos v)) eqn:E; [|reflexivity].
    rewrite (key_le_trans _ _ _ Hxy E) in Hx. discriminate. }
  rewrite Hy. exact IH.
Qed.

Lemma take_while_filter_ss v l :
  StronglySorted dle l -> take_while (at_or_before v) l = filter (at_or_before v) l.
Proof.
  intro Hs. induction Hs as [|x l _ IH Hall]; [reflexivity|]. cbn.
  destruct (at_or_before v x) eqn:Hx; [rewrite IH; reflexivity|].
  symmetry. apply filter_after_false with (x := x); assumption.
Qed.

Lemma take_while_filter_sorted v l :
  Sorted dle l -> take_while (at_or_before v) l = filter (at_or_before v) l.
Proof.
  intro Hs. apply take_while_filter_ss. apply Sorted_StronglySorted; [|exact Hs].
  intros a b c. unfold dle. apply key_le_trans.
Qed.

(* ------------------------------------------------------------------ main results *)
Lemma filter_Forall {A} (P : A -> Prop) f (l : list A) : Forall P l -> Forall P (filter f l).
Proof.
  intro H. apply Forall_forall. intros x Hx. apply filter_In in Hx as [Hx _].
  revert x Hx. apply Forall_forall. exact H.
Qed.

Lemma by_range_spec ds v : by_range ds v = range_spec ds v.
Proof.
  unfold by_range, by_range_gen, range_spec.
  rewrite take_while_filter_sorted by apply sort_ds_sorted.
  rewrite fold_step_spec.
  - destruct (last_opt _); [reflexivity|]. destruct (v_rule v); reflexivity.
  - apply filter_Forall. apply sort_ds_all_range.
Qed.

Theorem is_masked_exact ds v : is_masked ds v = masked_spec ds v.
Proof. unfold is_masked, masked_spec. rewrite by_range_spec. reflexivity. Qed.

(** the linter reports exactly the unmasked ones, in order *)
Theorem lint_noqa_filter cs pvs rvs :
  lint_noqa cs pvs rvs =
  filter (fun v => negb (masked_spec (fst (from_comments cs)) v))
         (pvs ++ snd (from_comments cs) ++ rvs).
Proof.
  unfold lint_noqa. destruct (from_comments cs) as [ds errs]. cbn [fst snd].
  apply filter_ext. intro v. rewrite is_masked_exact. reflexivity.
Qed.

(* ------------------------------------------------------------------ the code before the repair *)
Definition cp01 : str := [67;80;48;49].
Definition al02 : str := [65;76;48;50].

(** disable=CP01 ... enable=all : CP01 stayed masked afterwards *)
Lemma legacy_refuted_enable_all :
  exists ds v, is_masked_legacy ds v = true /\ masked_spec ds v = false.
Proof.
  exists [RangeRules 1 10 Disable [cp01]; RangeAll 3 10 Enable],
         {| v_line := 5; v_pos := 1; v_rule := Some cp01 |}.
  vm_compute. split; reflexivity.
Qed.

(** disable=all ... enable=AL02 : AL02 stayed masked afterwards *)
Lemma legacy_refuted_enable_rule :
  exists ds v, is_masked_legacy ds v = true /\ masked_spec ds v = false.
Proof.
  exists [RangeAll 1 10 Disable; RangeRules 3 10 Enable [al02]],
         {| v_line := 5; v_pos := 1; v_rule := Some al02 |}.
  vm_compute. split; reflexivity.
Qed.

(* non-vacuity: five interleaved directives, both orders of (all, rule) *)
Example nonvacuous_mask :
  let ds := [RangeRules 2 5 Disable [cp01; al02]; LineRules 3 [al02]; RangeAll 4 1 Disable;
             RangeRules 6 1 Enable [cp01]; RangeAll 8 1 Enable] in
  map (is_masked ds)
    [ {| v_line := 1; v_pos := 1; v_rule := Some cp01 |};
      {| v_line := 2; v_pos := 4; v_rule := Some cp01 |};
      {| v_line := 2; v_pos := 5; v_rule := Some cp01 |};
      {| v_line := 5; v_pos := 1; v_rule := None |};
      {| v_line := 7; v_pos := 1; v_rule := Some cp01 |};
      {| v_line := 7; v_pos := 1; v_rule := Some al02 |};
      {| v_line := 9; v_pos := 1; v_rule := Some al02 |} ]
  = [false; false; true; true; false; true; false].
Proof. vm_compute. reflexivity. Qed.
