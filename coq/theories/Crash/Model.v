(** C03 — the crash envelope of [Linter::lint_string] / [lint_fix_parsed].

    Executable definitions only.  A Rust panic (explicit [panic!], [unwrap] on [None],
    index out of bounds, checked subtraction underflow) is the value [Crash site]; every
    function mirrors the control flow of the Rust function named in its comment.

    Modelled line by line:
      - [scan_config]        config.rs  [process_raw_file_for_config] / [process_inline_config]
      - [spanning]           templaters/base.rs [raw_slices_spanning_source_slice]
      - [fix_slices], [has_template_conflicts]   lint_fix.rs 91-205 (run on every lint result,
                             outside the rule's [catch_unwind])
      - [lint_fix]           core.rs 242-382: phases, bounded passes, rule skipping,
                             [previous_versions] cycle guard
      - [lint_string]        core.rs: the stage pipeline
    Oracles (Section variables or recorded data): [templated_slice_to_source_slice]
    (property C15), rule crawls, [apply_fixes], templater, lexer, parser, patch
    generation. *)
From Sq Require Import Base.Bytes.

(** * Outcomes *)
Inductive outcome (A : Type) : Type :=
| Val : A -> outcome A
| Crash : N -> outcome A.          (* the number names the panic site, see [site_*] *)
Arguments Val {A} _.
Arguments Crash {A} _.

Definition bind {A B} (x : outcome A) (f : A -> outcome B) : outcome B :=
  match x with Val a => f a | Crash s => Crash s end.

Definition crashed {A} (x : outcome A) : bool := match x with Crash _ => true | Val _ => false end.

Definition site_inline_config : N := 1.    (* config.rs process_inline_config: panic!("Not implemented") *)
Definition site_anchor_marker : N := 2.    (* lint_fix.rs: anchor.get_position_marker().unwrap() *)
Definition site_create_after_underflow : N := 3. (* lint_fix.rs: anchor_slice.end - adjust_boundary *)
Definition site_source_edit_index : N := 4. (* lint_fix.rs: source_edit_slices[0] *)
Definition site_raw_sliced_last : N := 5.   (* base.rs: raw_sliced.last().unwrap() *)
Definition site_tsts : N := 6.              (* templated_slice_to_source_slice panicked (C15) *)
Definition site_anchor_info_unimplemented : N := 7. (* segments.rs AnchorEditInfo::add: unimplemented!() *)
Definition site_oracle_missing : N := 99.   (* correspondence only: the recorded table lacks the query *)

(** * 1. In-file configuration scan (config.rs 211-224) *)
Definition sqlfluff_prefix : str := [45; 45; 32; 115; 113; 108; 102; 108; 117; 102; 102]. (* "-- sqlfluff" *)

(** [legacy = true] is the code before the repair: [process_inline_config] panics. *)
Definition process_inline_config (legacy : bool) (line : str) : outcome unit :=
  if legacy then Crash site_inline_config else Val tt.

Fixpoint scan_lines (legacy : bool) (ls : list str) : outcome unit :=
  match ls with
  | [] => Val tt
  | l :: ls' =>
      if starts_with sqlfluff_prefix l
      then bind (process_inline_config legacy l) (fun _ => scan_lines legacy ls')
      else scan_lines legacy ls'
  end.

(** [str::lines] splits at '\n' (a trailing '\r' and a final empty piece do not affect
    [starts_with]). *)
Definition scan_config (legacy : bool) (src : str) : outcome unit :=
  scan_lines legacy (split_byte 10 src).

(** * 2. [LintFix::fix_slices] and [has_template_conflicts] (lint_fix.rs 91-205) *)
Inductive edit_type := CreateBefore | CreateAfter | Replace | Delete.

Record marker := { src_start : N; src_stop : N; tpl_start : N; tpl_stop : N }.

(** What [fix_slices] reads of one edit segment. *)
Record edit_shape := {
  e_leaf : bool;               (* segments().is_empty() *)
  e_srcfix : list (N * N);     (* source_slice of each of its source fixes *)
  e_same_raw : bool            (* raw() == anchor.raw() *)
}.

Record lintfix := {
  f_type : edit_type;
  f_anchor : option marker;    (* None: the anchor carries no position marker *)
  f_edits : list edit_shape;
  f_has_source : bool
}.

(** A raw file slice: only [slice_type == "templated"], [source_idx] and [raw.len()] are read. *)
Record raw_slice := { rs_templated : bool; rs_idx : N; rs_len : N }.

(** first loop of [raw_slices_spanning_source_slice]: advance while the next slice starts at or
    before [start]; returns the suffix beginning at [raw_slice_idx]. *)
Fixpoint advance (l : list raw_slice) (start : N) : list raw_slice :=
  match l with
  | a :: tl =>
      match tl with
      | b :: _ => if rs_idx b <=? start then advance tl start else l
      | [] => l
      end
  | [] => []
  end.

(** second loop: extend the span while the next slice starts before [stop]. *)
Fixpoint span (l : list raw_slice) (stop : N) : list raw_slice :=
  match l with
  | b :: tl => if rs_idx b <? stop then b :: span tl stop else []
  | [] => []
  end.

Definition spanning (raw : list raw_slice) (s : N * N) : outcome (list raw_slice) :=
  match rev raw with
  | [] => Crash site_raw_sliced_last
  | last :: _ =>
      if rs_idx last + rs_len last <=? fst s then Val []
      else match advance raw (fst s) with
           | a :: tl => Val (a :: span tl (snd s))
           | [] => Val []
           end
  end.

Definition two64 : N := 18446744073709551616.

(** [usize] subtraction: panics with overflow checks (dev/test profile), wraps without
    (release profile). *)
Definition usize_sub (wrapping : bool) (site : N) (a b : N) : outcome N :=
  if b <=? a then Val (a - b)
  else if wrapping then Val (a + two64 - b) else Crash site.

(** Answer of [templated_slice_to_source_slice]: [Val (Some s)] = [Ok(s)], [Val None] = [Err(_)]. *)
Definition tsts_t := N * N -> outcome (option (N * N)).

Definition all_source_edits (es : list edit_shape) : bool :=
  forallb (fun e => e_leaf e && negb (is_empty (e_srcfix e))) es.

Definition flags (l : list raw_slice) : list bool := map rs_templated l.

(** [raw_slices_from_templated_slices] for the single slice [fix_slices] passes, with the
    literal file-end slice as fallback. Only the [templated] flags of the set are returned
    (the callers only fold [any]/[all] over them, which a set's deduplication does not change). *)
Definition raw_from_templated (tsts : tsts_t) (raw : list raw_slice) (r : N * N) : outcome (list bool) :=
  bind (tsts r) (fun a =>
    match a with
    | Some s => bind (spanning raw s) (fun l => Val (flags l))
    | None => Val [false]
    end).

(** [legacy = true]: the code before the two repairs — the empty edit list took the source-edit
    branch (2e9d8ea) and the [CreateAfter] lower bound was an unchecked subtraction (b64f167),
    whose behaviour depends on the build ([wrapping]). *)
Definition fix_slices (legacy wrapping within_only : bool) (tsts : tsts_t) (raw : list raw_slice)
           (f : lintfix) : outcome (list bool) :=
  match f_anchor f with
  | None => Crash site_anchor_marker
  | Some m =>
      let adj := if within_only then 0 else 1 in
      match f_type f with
      | CreateBefore => raw_from_templated tsts raw (tpl_start m - 1, tpl_start m + adj)
      | CreateAfter =>
          (* repaired (b64f167): [end.saturating_sub(adjust_boundary)]; before: [end - adjust_boundary] *)
          bind (if legacy then usize_sub wrapping site_create_after_underflow (tpl_stop m) adj
                else Val (tpl_stop m - adj)) (fun lo =>
          raw_from_templated tsts raw (lo, tpl_stop m + 1))
      | Replace =>
          if src_start m =? src_stop m then Val []
          else if (legacy || negb (is_empty (f_edits f))) && all_source_edits (f_edits f) then
            match flat_map e_srcfix (f_edits f) with
            | [] => Crash site_source_edit_index
            | s :: _ => bind (spanning raw s) (fun l => Val (flags l))
            end
          else raw_from_templated tsts raw (tpl_start m, tpl_stop m)
      | Delete => raw_from_templated tsts raw (tpl_start m, tpl_stop m)
      end
  end.

Definition is_create (t : edit_type) : bool :=
  match t with CreateBefore | CreateAfter => true | _ => false end.

Definition has_template_conflicts (legacy wrapping : bool) (tsts : tsts_t) (raw : list raw_slice)
           (f : lintfix) : outcome bool :=
  let early :=
    match f_type f, f_edits f with
    | Replace, [e] => e_same_raw e && negb (is_empty (e_srcfix e))
    | _, _ => false
    end in
  if early then Val false
  else
    bind (fix_slices legacy wrapping false tsts raw f) (fun fs =>
      let result := if is_create (f_type f) then forallb (fun b => b) fs else existsb (fun b => b) fs in
      (* [if result || source.is_empty() { return result }]; the remaining branch iterates over
         an empty list of slices and so returns [false], which is [result] there too *)
      Val result).

(** [Rule::process_lint_result]: any fix with a conflict drops the result (base.rs 204-221). *)
Fixpoint any_conflict (legacy wrapping : bool) (tsts : tsts_t) (raw : list raw_slice)
         (fs : list lintfix) : outcome bool :=
  match fs with
  | [] => Val false
  | f :: fs' =>
      bind (has_template_conflicts legacy wrapping tsts raw f) (fun b =>
        if b then Val true else any_conflict legacy wrapping tsts raw fs')
  end.

(** * 2b. [compute_anchor_edit_info] / [AnchorEditInfo::add] (lib-core linter.rs, segments.rs) —
    run on every fix batch, outside any catch_unwind *)
Record bfix := { b_type : edit_type; b_anchor : N; b_anchor_raw : str; b_edits : list str }.

Definition edit_type_eqb (a b : edit_type) : bool :=
  match a, b with
  | CreateBefore, CreateBefore | CreateAfter, CreateAfter | Replace, Replace | Delete, Delete => true
  | _, _ => false
  end.

(** [impl PartialEq for LintFix]: edit type, anchor (type and) id, raws of the edits *)
Definition bfix_eqb (a b : bfix) : bool :=
  edit_type_eqb (b_type a) (b_type b) && (b_anchor a =? b_anchor b) && list_eqb str_eqb (b_edits a) (b_edits b).

(** [LintFix::is_just_source_edit] *)
Definition is_jse (f : bfix) : bool :=
  match b_type f, b_edits f with
  | Replace, [r] => str_eqb r (b_anchor_raw f)
  | _, _ => false
  end.

Record ainfo := {
  a_delete : N; a_replace : N; a_create_before : N; a_create_after : N;
  a_fixes : list bfix; a_first_replace : option N
}.
Definition ainfo_empty : ainfo :=
  {| a_delete := 0; a_replace := 0; a_create_before := 0; a_create_after := 0; a_fixes := []; a_first_replace := None |}.

Definition is_some {A} (o : option A) : bool := match o with Some _ => true | None => false end.

Definition ainfo_add (i : ainfo) (f : bfix) : outcome ainfo :=
  if existsb (fun g => bfix_eqb g f) (a_fixes i) then Val i
  else if is_jse f && is_some (a_first_replace i) then Crash site_anchor_info_unimplemented
  else
    let fr := if edit_type_eqb (b_type f) Replace && negb (is_some (a_first_replace i))
              then Some (N.of_nat (length (a_fixes i))) else a_first_replace i in
    Val {| a_delete := a_delete i + (if edit_type_eqb (b_type f) Delete then 1 else 0);
           a_replace := a_replace i + (if edit_type_eqb (b_type f) Replace then 1 else 0);
           a_create_before := a_create_before i + (if edit_type_eqb (b_type f) CreateBefore then 1 else 0);
           a_create_after := a_create_after i + (if edit_type_eqb (b_type f) CreateAfter then 1 else 0);
           a_fixes := a_fixes i ++ [f]; a_first_replace := fr |}.

(** the map keyed by anchor id, as an association list *)
Fixpoint amap_update (m : list (N * ainfo)) (k : N) (f : bfix) : outcome (list (N * ainfo)) :=
  match m with
  | [] => bind (ainfo_add ainfo_empty f) (fun i => Val [(k, i)])
  | (k', i) :: m' =>
      if k' =? k then bind (ainfo_add i f) (fun i' => Val ((k', i') :: m'))
      else bind (amap_update m' k f) (fun m'' => Val ((k', i) :: m''))
  end.

Fixpoint compute_aei (m : list (N * ainfo)) (fs : list bfix) : outcome (list (N * ainfo)) :=
  match fs with
  | [] => Val m
  | f :: fs' => bind (amap_update m (b_anchor f) f) (fun m' => compute_aei m' fs')
  end.

(** * 3. The fix loop of [lint_fix_parsed] (core.rs 242-382) *)
Inductive phase := Main | Post.
Definition phase_eqb (a b : phase) : bool :=
  match a, b with Main, Main | Post, Post => true | _, _ => false end.

Record rule := { r_id : N; r_phase : phase; r_fixcompat : bool }.

Inductive event :=
| EBatch (ph : phase) (pass : N) (rule_id : N) (accepted : bool)
| EPassEnd (ph : phase) (pass : N) (changed : bool).

Fixpoint memN (x : N) (l : list N) : bool :=
  match l with [] => false | y :: l' => (x =? y) || memN x l' end.

Section FixLoop.
  Variable Tree : Type.
  Variable version : Tree -> N.           (* the loop_check_tuple (raw, source fixes) *)
  (** [crawl ph pass rule tree]: the rule's crawl including [process_lint_result];
      [Val b]: [b] = the collected fix list is non-empty. [Crash]: a panic outside the rule's
      [catch_unwind] (crawler traversal, [has_template_conflicts], [to_linting_error]). *)
  Variable crawl : phase -> N -> rule -> Tree -> outcome bool.
  (** [compute_anchor_edit_info] + [apply_fixes] *)
  Variable apply : phase -> N -> rule -> Tree -> outcome Tree.

  Record lstate := {
    l_tree : Tree;
    l_seen : list N;        (* previous_versions *)
    l_changed : bool;
    l_crawls : N;           (* number of rule crawls so far *)
    l_events : list event   (* newest first *)
  }.

  Fixpoint run_rules (fixmode : bool) (ph : phase) (pass : N) (first : bool) (rs : list rule)
           (st : lstate) : outcome lstate :=
    match rs with
    | [] => Val st
    | r :: rs' =>
        if fixmode && negb first && negb (r_fixcompat r) then run_rules fixmode ph pass first rs' st
        else
          bind (crawl ph pass r (l_tree st)) (fun has_fixes =>
            let st1 := {| l_tree := l_tree st; l_seen := l_seen st; l_changed := l_changed st;
                          l_crawls := l_crawls st + 1; l_events := l_events st |} in
            if fixmode && has_fixes then
              bind (apply ph pass r (l_tree st)) (fun t' =>
                let v := version t' in
                if memN v (l_seen st) then
                  run_rules fixmode ph pass first rs'
                    {| l_tree := l_tree st1; l_seen := l_seen st1; l_changed := l_changed st1;
                       l_crawls := l_crawls st1;
                       l_events := EBatch ph pass (r_id r) false :: l_events st1 |}
                else
                  run_rules fixmode ph pass first rs'
                    {| l_tree := t'; l_seen := v :: l_seen st1; l_changed := true;
                       l_crawls := l_crawls st1;
                       l_events := EBatch ph pass (r_id r) true :: l_events st1 |})
            else run_rules fixmode ph pass first rs' st1)
    end.

  (** [n] passes remain; [rs] is [rules_this_phase], which the first pass of the whole run
      replaces by all rules — and the replacement persists for the rest of the phase. *)
  Fixpoint run_passes (fixmode : bool) (all : list rule) (ph : phase) (n : nat) (pass : N)
           (rs : list rule) (st : lstate) : outcome lstate :=
    match n with
    | O => Val st
    | S n' =>
        let first := phase_eqb ph Main && (pass =? 0) in
        let rs1 := if first then all else rs in
        let st0 := {| l_tree := l_tree st; l_seen := l_seen st; l_changed := false;
                      l_crawls := l_crawls st; l_events := l_events st |} in
        bind (run_rules fixmode ph pass first rs1 st0) (fun st1 =>
          let st2 := {| l_tree := l_tree st1; l_seen := l_seen st1; l_changed := l_changed st1;
                        l_crawls := l_crawls st1;
                        l_events := EPassEnd ph pass (l_changed st1) :: l_events st1 |} in
          if fixmode && negb (l_changed st1) then Val st2
          else run_passes fixmode all ph n' (pass + 1) rs1 st2)
    end.

  Definition main_limit (fixmode : bool) : nat := if fixmode then 10 else 1.
  Definition post_limit : nat := 2.

  Definition rules_of_phase (all : list rule) (ph : phase) : list rule :=
    filter (fun r => phase_eqb (r_phase r) ph) all.

  Definition lint_fix (fixmode : bool) (all : list rule) (t : Tree) : outcome lstate :=
    let st := {| l_tree := t; l_seen := [version t]; l_changed := false; l_crawls := 0; l_events := [] |} in
    if fixmode then
      bind (run_passes true all Main (main_limit true) 0 (rules_of_phase all Main) st) (fun st1 =>
        run_passes true all Post post_limit 0 (rules_of_phase all Post) st1)
    else run_passes false all Main (main_limit false) 0 all st.
End FixLoop.

Arguments l_tree {Tree} _.
Arguments l_seen {Tree} _.
Arguments l_changed {Tree} _.
Arguments l_crawls {Tree} _.
Arguments l_events {Tree} _.

(** * 4. The stage pipeline of [lint_string] + [fix_string] (core.rs 158-165, 220-270) *)
Section Envelope.
  Variables TF Toks Tree Patches : Type.
  Variable legacy : bool.
  Variable template : str -> outcome TF.                 (* render_string(..).unwrap() *)
  Variable lex : TF -> outcome (option Toks).            (* lex_templated_file; None: no tokens *)
  Variable parse : Toks -> outcome (option Tree).        (* parse_tokens; errors become violations *)
  Variable mask : Tree -> outcome unit.                  (* IgnoreMask::from_tree *)
  Variable lint_loop : bool -> Tree -> outcome Tree.     (* section 3 *)
  Variable iter_patches : TF -> Tree -> outcome Patches.
  Variable no_patches : Patches.
  Variable fix_string : TF -> Patches -> outcome str.

  Definition lint_string (fixmode : bool) (src : str) : outcome (option str) :=
    bind (scan_config legacy src) (fun _ =>
    bind (template src) (fun tf =>
    bind (lex tf) (fun otoks =>
    bind (match otoks with
          | None => Val None
          | Some toks => parse toks
          end) (fun otree =>
    bind (match otree with
          | None => Val no_patches
          | Some tree =>
              bind (mask tree) (fun _ =>
              bind (lint_loop fixmode tree) (fun tree' =>
              iter_patches tf tree'))
          end) (fun patches =>
    if fixmode then bind (fix_string tf patches) (fun s => Val (Some s)) else Val None))))).
End Envelope.

(** * 5. A rule crawl and a fix batch, assembled from the kernels above
    [Rule::crawl] (base.rs 175-218): [eval] is inside [catch_unwind] (total: a panic becomes the
    "Unexpected exception" result with no fixes); [process_lint_result] runs
    [has_template_conflicts] on every fix of every result outside it. The loop then feeds the
    collected fixes to [compute_anchor_edit_info] and [apply_fixes]. *)
Section Assembly.
  Variable Fix Tree : Type.
  Variable shape_of : Fix -> lintfix.       (* what fix_slices reads *)
  Variable batch_of : Fix -> bfix.          (* what AnchorEditInfo::add reads *)
  Variable legacy wrapping : bool.
  Variable tsts : tsts_t.
  Variable raw : list raw_slice.
  (** the lint results of one crawl: one fix list per result ([eval] made total by catch_unwind) *)
  Variable eval_results : phase -> N -> rule -> Tree -> list (list Fix).
  Variable apply_fixes : Tree -> list Fix -> outcome Tree.

  (** results whose fixes have no template conflict are kept *)
  Fixpoint keep_results (rs : list (list Fix)) : outcome (list (list Fix)) :=
    match rs with
    | [] => Val []
    | r :: rs' =>
        bind (any_conflict legacy wrapping tsts raw (map shape_of r)) (fun c =>
        bind (keep_results rs') (fun k => Val (if c then k else r :: k)))
    end.

  Definition crawl_fixes (ph : phase) (pass : N) (r : rule) (t : Tree) : outcome (list Fix) :=
    bind (keep_results (eval_results ph pass r t)) (fun k => Val (concat k)).

  Definition crawl_c (ph : phase) (pass : N) (r : rule) (t : Tree) : outcome bool :=
    bind (crawl_fixes ph pass r t) (fun fs => Val (negb (is_empty fs))).

  Definition apply_c (ph : phase) (pass : N) (r : rule) (t : Tree) : outcome Tree :=
    bind (crawl_fixes ph pass r t) (fun fs =>
    bind (compute_aei [] (map batch_of fs)) (fun _ => apply_fixes t fs)).
End Assembly.
