(** C03 — proofs about the crash envelope model ([Crash/Model.v]). *)
From Sq Require Import Base.Bytes Crash.Model.
From Coq Require Import Lia.

Arguments N.add : simpl never.
Arguments N.sub : simpl never.
Arguments N.mul : simpl never.
Arguments N.leb : simpl never.
Arguments N.ltb : simpl never.
Arguments N.eqb : simpl never.

Definition ok {A} (x : outcome A) : Prop := exists a, x = Val a.

Lemma ok_not_crash {A} (x : outcome A) : ok x <-> crashed x = false.
Proof. split; [intros [a ->]; reflexivity | destruct x; [eexists; reflexivity | discriminate]]. Qed.

Lemma bind_ok {A B} (x : outcome A) (f : A -> outcome B) :
  ok x -> (forall a, x = Val a -> ok (f a)) -> ok (bind x f).
Proof. intros [a ->] H; cbn; apply H; reflexivity. Qed.

(** * 1. In-file configuration scan *)
Lemma scan_lines_total ls : scan_lines false ls = Val tt.
Proof.
  induction ls as [|l ls IH]; cbn [scan_lines]; [reflexivity|].
  destruct (starts_with sqlfluff_prefix l); cbn; exact IH.
Qed.

Theorem scan_config_total src : scan_config false src = Val tt.
Proof. unfold scan_config; apply scan_lines_total. Qed.

Lemma scan_lines_legacy ls :
  scan_lines true ls = if existsb (starts_with sqlfluff_prefix) ls then Crash site_inline_config else Val tt.
Proof.
  induction ls as [|l ls IH]; cbn [scan_lines existsb]; [reflexivity|].
  destruct (starts_with sqlfluff_prefix l); cbn; [reflexivity | exact IH].
Qed.

(** Before the repair: the scan panics exactly when some line starts with "-- sqlfluff". *)
Theorem scan_config_legacy_exact src :
  scan_config true src =
  if existsb (starts_with sqlfluff_prefix) (split_byte 10 src) then Crash site_inline_config else Val tt.
Proof. unfold scan_config; apply scan_lines_legacy. Qed.

(* "SELECT 1\n-- sqlfluff:dialect:ansi\n" *)
Definition cfg_witness : str :=
  [83;69;76;69;67;84;32;49;10] ++ sqlfluff_prefix ++ [58;100;105;97;108;101;99;116;58;97;110;115;105;10].

Theorem scan_config_legacy_refuted : exists src, scan_config true src = Crash site_inline_config.
Proof. exists cfg_witness; vm_compute; reflexivity. Qed.

Example scan_config_fixed_on_witness : scan_config false cfg_witness = Val tt.
Proof. vm_compute; reflexivity. Qed.

(** * 2. fix_slices / has_template_conflicts *)
Lemma spanning_total raw s : raw <> [] -> ok (spanning raw s).
Proof.
  intros Hne; unfold spanning.
  destruct (rev raw) as [|last tl] eqn:Hr.
  - exfalso; apply Hne. rewrite <- (rev_involutive raw), Hr; reflexivity.
  - destruct (rs_idx last + rs_len last <=? fst s); [eexists; reflexivity|].
    destruct (advance raw (fst s)); eexists; reflexivity.
Qed.

Lemma advance_suffix l start : exists pre, l = pre ++ advance l start.
Proof.
  induction l as [|a tl IH]; [exists []; reflexivity|].
  cbn [advance]. destruct tl as [|b tl']; [exists []; reflexivity|].
  destruct (rs_idx b <=? start); [|exists []; reflexivity].
  destruct IH as [pre Hpre]. exists (a :: pre). cbn [app]. f_equal. exact Hpre.
Qed.

Lemma span_incl l stop : incl (span l stop) l.
Proof.
  induction l as [|b tl IH]; cbn [span]; [apply incl_refl|].
  destruct (rs_idx b <? stop); [|apply incl_nil_l].
  apply incl_cons; [left; reflexivity | apply incl_tl; exact IH].
Qed.

(** the slices returned are slices of the file (no out-of-range slicing is possible) *)
Lemma spanning_incl raw s l : spanning raw s = Val l -> incl l raw.
Proof.
  unfold spanning. destruct (rev raw) as [|last tl]; [discriminate|].
  destruct (rs_idx last + rs_len last <=? fst s); [intros [= <-]; apply incl_nil_l|].
  destruct (advance_suffix raw (fst s)) as [pre Hpre].
  destruct (advance raw (fst s)) as [|a tl'] eqn:Ha; intros [= <-]; [apply incl_nil_l|].
  rewrite Hpre. apply incl_appr. apply incl_cons; [left; reflexivity|].
  apply incl_tl. apply span_incl.
Qed.

Definition tsts_ok (tsts : tsts_t) : Prop := forall r, ok (tsts r).

(** Stage invariant of [fix_slices]: the anchor is positioned and the file has raw slices. *)
Definition fix_inv (raw : list raw_slice) (f : lintfix) : Prop :=
  raw <> [] /\ exists m, f_anchor f = Some m.

Lemma raw_from_templated_total tsts raw r : tsts_ok tsts -> raw <> [] -> ok (raw_from_templated tsts raw r).
Proof.
  intros Ht Hr; unfold raw_from_templated. apply bind_ok; [apply Ht|].
  intros [s|] _; [|eexists; reflexivity].
  apply bind_ok; [apply spanning_total; exact Hr | intros; eexists; reflexivity].
Qed.

Theorem fix_slices_total wrapping within_only tsts raw f :
  tsts_ok tsts -> fix_inv raw f -> ok (fix_slices false wrapping within_only tsts raw f).
Proof.
  intros Ht [Hr [m Hm]]. unfold fix_slices. rewrite Hm.
  destruct (f_type f) eqn:Ety.
  - apply raw_from_templated_total; assumption.
  - apply bind_ok; [eexists; reflexivity|].
    intros; apply raw_from_templated_total; assumption.
  - destruct (src_start m =? src_stop m); [eexists; reflexivity|].
    cbn [orb]. destruct (f_edits f) as [|e es] eqn:Hes.
    + cbn. apply raw_from_templated_total; assumption.
    + cbn [is_empty negb andb].
      destruct (all_source_edits (e :: es)) eqn:Hall; [|apply raw_from_templated_total; assumption].
      cbn [flat_map]. unfold all_source_edits in Hall. cbn [forallb] in Hall.
      apply andb_true_iff in Hall. destruct Hall as [He _]. apply andb_true_iff in He. destruct He as [_ He].
      destruct (e_srcfix e) as [|s ss]; [discriminate|]. cbn [app].
      apply bind_ok; [apply spanning_total; exact Hr | intros; eexists; reflexivity].
  - apply raw_from_templated_total; assumption.
Qed.

Theorem has_template_conflicts_total wrapping tsts raw f :
  tsts_ok tsts -> fix_inv raw f -> ok (has_template_conflicts false wrapping tsts raw f).
Proof.
  intros Ht Hi. unfold has_template_conflicts.
  match goal with |- ok (if ?c then _ else _) => destruct c end; [eexists; reflexivity|].
  apply bind_ok; [apply fix_slices_total; assumption | intros; eexists; reflexivity].
Qed.

Theorem any_conflict_total wrapping tsts raw fs :
  tsts_ok tsts -> Forall (fix_inv raw) fs -> ok (any_conflict false wrapping tsts raw fs).
Proof.
  intros Ht H. induction H as [|f fs Hf _ IH]; cbn [any_conflict]; [eexists; reflexivity|].
  apply bind_ok; [apply has_template_conflicts_total; assumption|].
  intros [|] _; [eexists; reflexivity | exact IH].
Qed.

(** The two places where the invariant is needed, as witnesses. *)
Definition lit_file : list raw_slice := [{| rs_templated := false; rs_idx := 0; rs_len := 2 |}].
Definition id_tsts : tsts_t := fun r => Val (Some r).
(* CV07 on the text "()": Replace(bracketed 0..2, []) *)
Definition cv07_fix : lintfix :=
  {| f_type := Replace; f_anchor := Some {| src_start := 0; src_stop := 2; tpl_start := 0; tpl_stop := 2 |};
     f_edits := []; f_has_source := false |}.

(** Before the repair: an empty edit list indexes [source_edit_slices[0]] — under the very
    invariant that makes the repaired function total. *)
Theorem fix_slices_legacy_refuted :
  exists tsts raw f, tsts_ok tsts /\ fix_inv raw f /\
    has_template_conflicts true true tsts raw f = Crash site_source_edit_index.
Proof.
  exists id_tsts, lit_file, cv07_fix. split; [intros r; eexists; reflexivity|].
  split; [split; [discriminate | eexists; reflexivity] | vm_compute; reflexivity].
Qed.

Example fix_slices_fixed_on_witness :
  fix_inv lit_file cv07_fix /\ has_template_conflicts false true id_tsts lit_file cv07_fix = Val false.
Proof. split; [split; [discriminate | eexists; reflexivity] | vm_compute; reflexivity]. Qed.

(** Before the second repair: with checked arithmetic (debug/test profile) a [CreateAfter] whose
    anchor ends at templated offset 0 underflowed [anchor_slice.end - 1] — again under the invariant
    that makes the repaired function total. Real witness: ansi, rules CV06+CV07, fix, "(\nSELECT 1\n);\n". *)
Definition create_after_zero : lintfix :=
  {| f_type := CreateAfter; f_anchor := Some {| src_start := 0; src_stop := 0; tpl_start := 0; tpl_stop := 0 |};
     f_edits := [{| e_leaf := true; e_srcfix := []; e_same_raw := false |}]; f_has_source := false |}.

Theorem create_after_zero_legacy_refuted :
  tsts_ok id_tsts /\ fix_inv lit_file create_after_zero /\
  has_template_conflicts true false id_tsts lit_file create_after_zero = Crash site_create_after_underflow.
Proof.
  split; [intros r; eexists; reflexivity|].
  split; [split; [discriminate | eexists; reflexivity] | vm_compute; reflexivity].
Qed.

Example create_after_zero_fixed :
  has_template_conflicts false false id_tsts lit_file create_after_zero = Val false /\
  has_template_conflicts false true id_tsts lit_file create_after_zero = Val false.
Proof. vm_compute. split; reflexivity. Qed.

Theorem anchor_without_marker_crashes wrapping tsts raw t es src :
  t <> Replace \/ (exists e1 e2 es', es = e1 :: e2 :: es') \/ es = [] ->
  has_template_conflicts false wrapping tsts raw {| f_type := t; f_anchor := None; f_edits := es; f_has_source := src |}
  = Crash site_anchor_marker.
Proof.
  intros H. unfold has_template_conflicts, fix_slices; cbn [f_type f_edits f_anchor].
  destruct t; try reflexivity.
  destruct H as [H | [[e1 [e2 [es' ->]]] | ->]]; [congruence | reflexivity | reflexivity].
Qed.

(** * 2b. compute_anchor_edit_info *)
Lemma ainfo_add_total i f : is_jse f = false -> ok (ainfo_add i f).
Proof.
  intros H. unfold ainfo_add. destruct (existsb _ _); [eexists; reflexivity|].
  rewrite H. cbn [andb]. eexists; reflexivity.
Qed.

Lemma amap_update_total m k f : is_jse f = false -> ok (amap_update m k f).
Proof.
  intros H. induction m as [|[k' i] m IH]; cbn [amap_update].
  - apply bind_ok; [apply ainfo_add_total; exact H | intros; eexists; reflexivity].
  - destruct (k' =? k).
    + apply bind_ok; [apply ainfo_add_total; exact H | intros; eexists; reflexivity].
    + apply bind_ok; [exact IH | intros; eexists; reflexivity].
Qed.

(** No fix of a batch is a "just source edit" (what every observed batch satisfies: no segment
    carries source fixes and no rule replaces a segment by one with the same raw) ⇒ it returns. *)
Theorem compute_aei_total fs : forall m,
  Forall (fun f => is_jse f = false) fs -> ok (compute_aei m fs).
Proof.
  induction fs as [|f fs IH]; intros m H; cbn [compute_aei]; [eexists; reflexivity|].
  inversion H as [|? ? Hf Hfs]; subst.
  apply bind_ok; [apply amap_update_total; exact Hf | intros; apply IH; exact Hfs].
Qed.

(** The hypothesis is needed: Replace(a -> "x") then Replace(a -> raw of a) hits [unimplemented!()]. *)
Definition aei_witness : list bfix :=
  [{| b_type := Replace; b_anchor := 1; b_anchor_raw := [97]; b_edits := [[120]] |};
   {| b_type := Replace; b_anchor := 1; b_anchor_raw := [97]; b_edits := [[97]] |}].

Theorem compute_aei_unimplemented_reachable :
  compute_aei [] aei_witness = Crash site_anchor_info_unimplemented.
Proof. vm_compute; reflexivity. Qed.

Example compute_aei_example :
  Forall (fun f => is_jse f = false) (firstn 1 aei_witness) /\ ok (compute_aei [] (firstn 1 aei_witness)).
Proof. split; [repeat constructor | eexists; vm_compute; reflexivity]. Qed.

(** * 3. The fix loop *)
Lemma memN_In x l : memN x l = true <-> In x l.
Proof.
  induction l as [|y l IH]; cbn [memN In]; [split; [discriminate | tauto]|].
  rewrite orb_true_iff, IH, N.eqb_eq. split; intros [H|H]; auto.
Qed.

Fixpoint pass_ends (evs : list event) : N :=
  match evs with
  | [] => 0
  | EPassEnd _ _ _ :: evs' => 1 + pass_ends evs'
  | EBatch _ _ _ _ :: evs' => pass_ends evs'
  end.

Section FixLoopProofs.
  Variable Tree : Type.
  Variable version : Tree -> N.
  Variable crawl : phase -> N -> rule -> Tree -> outcome bool.
  Variable apply : phase -> N -> rule -> Tree -> outcome Tree.

  Notation run_rules := (run_rules Tree version crawl apply).
  Notation run_passes := (run_passes Tree version crawl apply).
  Notation lint_fix := (lint_fix Tree version crawl apply).
  Notation lstate := (lstate Tree).

  Definition crawl_ok : Prop := forall ph pass r t, ok (crawl ph pass r t).
  Definition apply_ok : Prop := forall ph pass r t, ok (apply ph pass r t).

  (** the cycle-guard invariant *)
  Definition guard_inv (st : lstate) : Prop :=
    NoDup (l_seen st) /\ In (version (l_tree st)) (l_seen st).

  Lemma run_rules_total fixmode ph pass first rs st :
    crawl_ok -> apply_ok -> ok (run_rules fixmode ph pass first rs st).
  Proof.
    intros Hc Ha. revert st. induction rs as [|r rs IH]; intros st; cbn [Model.run_rules]; [eexists; reflexivity|].
    destruct (fixmode && negb first && negb (r_fixcompat r)); [apply IH|].
    apply bind_ok; [apply Hc|]. intros b _.
    destruct (fixmode && b); [|apply IH].
    apply bind_ok; [apply Ha|]. intros t' _.
    destruct (memN (version t') (l_seen st)); apply IH.
  Qed.

  Lemma run_rules_spec fixmode ph pass first rs : forall st st',
    run_rules fixmode ph pass first rs st = Val st' ->
    l_crawls st' <= l_crawls st + N.of_nat (length rs) /\
    (guard_inv st -> guard_inv st') /\
    pass_ends (l_events st') = pass_ends (l_events st) /\
    (fixmode = false -> l_tree st' = l_tree st /\ l_seen st' = l_seen st /\
                        l_crawls st' = l_crawls st + N.of_nat (length rs)).
  Proof.
    induction rs as [|r rs IH]; intros st st'; cbn [Model.run_rules length].
    - intros [= <-]. split; [lia|]. split; [auto|]. split; [reflexivity|]. intros _. split; [reflexivity|]. split; [reflexivity|lia].
    - destruct (fixmode && negb first && negb (r_fixcompat r)) eqn:Hskip.
      + intros H. apply IH in H. destruct H as [H1 [H2 [H3 H4]]].
        split; [lia|]. split; [exact H2|]. split; [exact H3|].
        intros ->; cbn in Hskip; discriminate.
      + destruct (crawl ph pass r (l_tree st)) as [b|s]; cbn [bind]; [|discriminate].
        destruct (fixmode && b) eqn:Hfb.
        * assert (Hfm : fixmode = false -> False) by (intros ->; cbn in Hfb; discriminate).
          destruct (apply ph pass r (l_tree st)) as [t'|s]; cbn [bind]; [|discriminate].
          destruct (memN (version t') (l_seen st)) eqn:Hm; intros H; apply IH in H;
            cbn [l_tree l_seen l_changed l_crawls l_events pass_ends] in H;
            destruct H as [H1 [H2 [H3 H4]]].
          -- split; [lia|]. split; [exact H2|]. split; [exact H3|]. intros Hf; destruct (Hfm Hf).
          -- split; [lia|]. split; [|split; [exact H3 | intros Hf; destruct (Hfm Hf)]].
             intros [Hnd Hin]. apply H2. split; cbn [l_seen l_tree].
             ++ constructor; [|exact Hnd]. intros Hc. apply memN_In in Hc. congruence.
             ++ left; reflexivity.
        * intros H; apply IH in H; cbn [l_tree l_seen l_changed l_crawls l_events] in H.
          destruct H as [H1 [H2 [H3 H4]]].
          split; [lia|]. split; [exact H2|]. split; [exact H3|].
          intros Hf; destruct (H4 Hf) as [? [? ?]]. split; [assumption|]. split; [assumption|lia].
  Qed.

  Lemma run_passes_total fixmode all ph n : forall pass rs st,
    crawl_ok -> apply_ok -> ok (run_passes fixmode all ph n pass rs st).
  Proof.
    induction n as [|n IH]; intros pass rs st Hc Ha; cbn [Model.run_passes]; [eexists; reflexivity|].
    apply bind_ok; [apply run_rules_total; assumption|]. intros st1 _.
    destruct (fixmode && negb (l_changed st1)); [eexists; reflexivity | apply IH; assumption].
  Qed.

  (** every pass crawls at most [max (length all) (length rs)] rules *)
  Lemma run_passes_spec fixmode all ph n : forall pass rs st st' k,
    (length rs <= k)%nat -> (length all <= k)%nat ->
    run_passes fixmode all ph n pass rs st = Val st' ->
    l_crawls st' <= l_crawls st + N.of_nat n * N.of_nat k /\
    (guard_inv st -> guard_inv st') /\
    pass_ends (l_events st') <= pass_ends (l_events st) + N.of_nat n.
  Proof.
    induction n as [|n IH]; intros pass rs st st' k Hrs Hall; cbn [Model.run_passes].
    - intros [= <-]. split; [lia|]. split; [auto|lia].
    - set (rs1 := if phase_eqb ph Main && (pass =? 0) then all else rs).
      assert (Hrs1 : (length rs1 <= k)%nat) by (unfold rs1; destruct (phase_eqb ph Main && (pass =? 0)); assumption).
      destruct (Model.run_rules Tree version crawl apply fixmode ph pass _ rs1 _) as [st1|s] eqn:Hrr; cbn [bind]; [|discriminate].
      apply run_rules_spec in Hrr. cbn [l_tree l_seen l_changed l_crawls l_events] in Hrr.
      destruct Hrr as [H1 [H2 [H3 _]]].
      assert (Hg : guard_inv st -> guard_inv st1).
      { intros Hg. apply H2. destruct Hg as [? ?]. split; assumption. }
      destruct (fixmode && negb (l_changed st1)).
      + intros [= <-]. cbn [l_tree l_seen l_changed l_crawls l_events pass_ends].
        split; [lia|]. split; [|lia].
        intros Hg0. destruct (Hg Hg0) as [? ?]. split; assumption.
      + intros H. apply (IH _ _ _ _ k Hrs1 Hall) in H.
        cbn [l_tree l_seen l_changed l_crawls l_events pass_ends] in H.
        destruct H as [H4 [H5 H6]]. split; [lia|]. split; [|lia].
        intros Hg0. apply H5. destruct (Hg Hg0) as [? ?]. split; assumption.
  Qed.

  Lemma rules_of_phase_length all ph : (length (rules_of_phase all ph) <= length all)%nat.
  Proof.
    unfold rules_of_phase. induction all as [|r l IH]; cbn [filter length]; [lia|].
    destruct (phase_eqb (r_phase r) ph); cbn [length]; lia.
  Qed.

  (** The loop cannot crash by itself: it crashes only if a crawl (outside its catch_unwind)
      or apply_fixes does. *)
  Theorem lint_fix_total fixmode all t : crawl_ok -> apply_ok -> ok (lint_fix fixmode all t).
  Proof.
    intros Hc Ha. unfold Model.lint_fix. destruct fixmode.
    - apply bind_ok; [apply run_passes_total; assumption|]. intros; apply run_passes_total; assumption.
    - apply run_passes_total; assumption.
  Qed.

  (** Termination bound: at most 10 + 2 passes, hence at most 12 * |rules| crawls; the
      accepted tree versions are pairwise distinct and the final tree is one of them. *)
  Theorem lint_fix_bounded fixmode all t st :
    lint_fix fixmode all t = Val st ->
    pass_ends (l_events st) <= 12 /\
    l_crawls st <= 12 * N.of_nat (length all) /\
    guard_inv st.
  Proof.
    unfold Model.lint_fix.
    set (st0 := {| l_tree := t; l_seen := [version t]; l_changed := false; l_crawls := 0; l_events := [] |}).
    assert (Hg0 : guard_inv st0).
    { split; cbn; [constructor; [intros []|constructor] | left; reflexivity]. }
    destruct fixmode.
    - destruct (Model.run_passes Tree version crawl apply true all Main _ 0 _ st0) as [st1|s] eqn:H1; cbn [bind]; [|discriminate].
      intros H2.
      apply (run_passes_spec _ _ _ _ _ _ _ _ (length all) (rules_of_phase_length all Main) (le_n _)) in H1.
      apply (run_passes_spec _ _ _ _ _ _ _ _ (length all) (rules_of_phase_length all Post) (le_n _)) in H2.
      cbn [l_crawls l_events pass_ends st0 main_limit post_limit] in *.
      destruct H1 as [A1 [A2 A3]]. destruct H2 as [B1 [B2 B3]].
      unfold post_limit in *. split; [lia|]. split; [lia|]. apply B2, A2, Hg0.
    - intros H1.
      apply (run_passes_spec _ _ _ _ _ _ _ _ (length all) (le_n _) (le_n _)) in H1.
      cbn [l_crawls l_events pass_ends st0 main_limit] in *.
      destruct H1 as [A1 [A2 A3]]. split; [lia|]. split; [lia|]. apply A2, Hg0.
  Qed.

  (** Lint mode: one pass, every rule crawled once, the tree is not touched. *)
  Theorem lint_mode_single_pass all t st :
    lint_fix false all t = Val st ->
    l_tree st = t /\ l_crawls st = N.of_nat (length all) /\ pass_ends (l_events st) = 1.
  Proof.
    unfold Model.lint_fix, main_limit. cbn [Model.run_passes phase_eqb andb].
    rewrite N.eqb_refl.
    destruct (Model.run_rules Tree version crawl apply false Main 0 true all _) as [st1|s] eqn:Hrr; cbn [bind]; [|discriminate].
    cbn [andb]. intros [= <-]. apply run_rules_spec in Hrr.
    cbn [l_tree l_seen l_changed l_crawls l_events pass_ends] in *.
    destruct Hrr as [_ [_ [H3 H4]]]. destruct (H4 eq_refl) as [Ht [_ Hc]].
    repeat split; [exact Ht | lia | lia].
  Qed.
End FixLoopProofs.

(** Non-vacuity: a concrete loop that oscillates between two versions is stopped by the guard. *)
Definition osc_rules : list rule :=
  [{| r_id := 1; r_phase := Main; r_fixcompat := true |}; {| r_id := 2; r_phase := Post; r_fixcompat := true |};
   {| r_id := 3; r_phase := Main; r_fixcompat := false |}].
Definition osc_crawl (_ : phase) (_ : N) (r : rule) (_ : N) : outcome bool := Val (r_fixcompat r).
Definition osc_apply (_ : phase) (_ : N) (_ : rule) (t : N) : outcome N := Val (1 - t).

Example osc_terminates :
  crawl_ok N osc_crawl /\ apply_ok N osc_apply /\
  exists st, lint_fix N (fun t => t) osc_crawl osc_apply true osc_rules 0 = Val st /\
             l_tree st = 1 /\ l_seen st = [1; 0] /\ l_crawls st = 6 /\ pass_ends (l_events st) = 3.
Proof.
  split; [intros ? ? ? ?; eexists; reflexivity|].
  split; [intros ? ? ? ?; eexists; reflexivity|].
  eexists; split; [vm_compute; reflexivity|]. repeat split.
Qed.

(** * 4. The stage pipeline *)
Section EnvelopeProofs.
  Variables TF Toks Tree Patches : Type.
  Variable template : str -> outcome TF.
  Variable lex : TF -> outcome (option Toks).
  Variable parse : Toks -> outcome (option Tree).
  Variable mask : Tree -> outcome unit.
  Variable lint_loop : bool -> Tree -> outcome Tree.
  Variable iter_patches : TF -> Tree -> outcome Patches.
  Variable no_patches : Patches.
  Variable fix_string : TF -> Patches -> outcome str.

  (** stage invariants *)
  Variable InvSrc : str -> Prop.
  Variable InvTF : TF -> Prop.
  Variable InvToks : TF -> Toks -> Prop.
  Variable InvTree : TF -> Tree -> Prop.
  Variable InvPatches : TF -> Patches -> Prop.

  Hypothesis template_ok : forall s, InvSrc s -> exists tf, template s = Val tf /\ InvTF tf.
  Hypothesis lex_ok : forall tf, InvTF tf ->
    exists o, lex tf = Val o /\ (forall toks, o = Some toks -> InvToks tf toks).
  Hypothesis parse_ok : forall tf toks, InvToks tf toks ->
    exists o, parse toks = Val o /\ (forall tree, o = Some tree -> InvTree tf tree).
  Hypothesis mask_ok : forall tf tree, InvTree tf tree -> mask tree = Val tt.
  Hypothesis loop_ok : forall tf fixmode tree, InvTree tf tree ->
    exists tree', lint_loop fixmode tree = Val tree' /\ InvTree tf tree'.
  Hypothesis patches_ok : forall tf tree, InvTree tf tree ->
    exists p, iter_patches tf tree = Val p /\ InvPatches tf p.
  Hypothesis no_patches_ok : forall tf, InvPatches tf no_patches.
  Hypothesis fix_string_ok : forall tf p, InvPatches tf p -> ok (fix_string tf p).

  Theorem lint_string_total fixmode src :
    InvSrc src ->
    ok (lint_string TF Toks Tree Patches false template lex parse mask lint_loop iter_patches
                    no_patches fix_string fixmode src).
  Proof.
    intros Hs. unfold lint_string. rewrite scan_config_total; cbn [bind].
    destruct (template_ok _ Hs) as [tf [-> Htf]]; cbn [bind].
    destruct (lex_ok _ Htf) as [otoks [-> Hto]]; cbn [bind].
    assert (Hp : exists otree, (match otoks with None => Val None | Some toks => parse toks end) = Val otree /\
                               (forall tree, otree = Some tree -> InvTree tf tree)).
    { destruct otoks as [toks|]; [apply (parse_ok tf); apply Hto; reflexivity|].
      exists None; split; [reflexivity | discriminate]. }
    destruct Hp as [otree [-> Htr]]; cbn [bind].
    assert (Hq : exists p, (match otree with
                            | None => Val no_patches
                            | Some tree => bind (mask tree) (fun _ => bind (lint_loop fixmode tree) (fun tree' => iter_patches tf tree'))
                            end) = Val p /\ InvPatches tf p).
    { destruct otree as [tree|]; [|exists no_patches; split; [reflexivity | apply no_patches_ok]].
      rewrite (mask_ok tf tree (Htr _ eq_refl)); cbn [bind].
      destruct (loop_ok tf fixmode tree (Htr _ eq_refl)) as [tree' [-> Ht']]; cbn [bind].
      apply patches_ok; exact Ht'. }
    destruct Hq as [p [-> Hpp]]; cbn [bind].
    destruct fixmode; [|eexists; reflexivity].
    destruct (fix_string_ok tf p Hpp) as [s ->]; cbn [bind]. eexists; reflexivity.
  Qed.
End EnvelopeProofs.

(** The same pipeline before the repair crashes in its first stage whatever the other stages do. *)
Theorem lint_string_legacy_refuted :
  forall TF Toks Tree Patches template lex parse mask lint_loop iter_patches no_patches fix_string fixmode,
  exists src,
    lint_string TF Toks Tree Patches true template lex parse mask lint_loop iter_patches
                no_patches fix_string fixmode src = Crash site_inline_config.
Proof.
  intros. exists cfg_witness. unfold lint_string.
  replace (scan_config true cfg_witness) with (@Crash unit site_inline_config) by (vm_compute; reflexivity).
  reflexivity.
Qed.

(** Non-vacuity of the pipeline theorem: trivial concrete stages satisfy every hypothesis. *)
Example lint_string_instance :
  ok (lint_string str str str (list N) false (fun s => Val s) (fun tf => Val (Some tf)) (fun t => Val (Some t))
                  (fun _ => Val tt) (fun _ t => Val t) (fun _ _ => Val []) [] (fun tf _ => Val tf) true cfg_witness).
Proof.
  apply (lint_string_total str str str (list N) _ _ _ _ _ _ _ _
           (fun _ => True) (fun _ => True) (fun _ _ => True) (fun _ _ => True) (fun _ _ => True)); auto.
  - intros s _; eexists; split; [reflexivity | exact I].
  - intros tf _; eexists; split; [reflexivity | intros; exact I].
  - intros tf toks _; eexists; split; [reflexivity | intros; exact I].
  - intros tf fm tree _; eexists; split; [reflexivity | exact I].
  - intros tf tree _; eexists; split; [reflexivity | exact I].
  - intros tf p _; eexists; reflexivity.
Qed.

(** * 5. Assembly: from the stage invariants of the fixes to a loop that returns *)
Section AssemblyProofs.
  Variable Fix Tree : Type.
  Variable shape_of : Fix -> lintfix.
  Variable batch_of : Fix -> bfix.
  Variable wrapping : bool.
  Variable tsts : tsts_t.
  Variable raw : list raw_slice.
  Variable eval_results : phase -> N -> rule -> Tree -> list (list Fix).
  Variable apply_fixes : Tree -> list Fix -> outcome Tree.
  Variable version : Tree -> N.

  (** every fix any rule returns is anchored on a positioned segment and is not a "just source
      edit" (both monitored on every real batch), the file has raw slices,
      [templated_slice_to_source_slice] and [apply_fixes] do not panic *)
  Hypothesis H_tsts : tsts_ok tsts.
  Hypothesis H_fix : forall ph pass r t res fx,
    In res (eval_results ph pass r t) -> In fx res -> fix_inv raw (shape_of fx) /\ is_jse (batch_of fx) = false.
  Hypothesis H_apply : forall t fs, ok (apply_fixes t fs).

  Lemma keep_results_spec rs :
    (forall res fx, In res rs -> In fx res -> fix_inv raw (shape_of fx)) ->
    exists k, keep_results Fix shape_of false wrapping tsts raw rs = Val k /\ incl k rs.
  Proof.
    induction rs as [|r rs IH]; intros H; cbn [keep_results]; [exists []; split; [reflexivity | apply incl_refl]|].
    assert (Hr : Forall (fix_inv raw) (map shape_of r)).
    { apply Forall_forall. intros x Hx. apply in_map_iff in Hx. destruct Hx as [fx [<- Hfx]].
      apply (H r fx); [left; reflexivity | exact Hfx]. }
    destruct (any_conflict_total wrapping tsts raw _ H_tsts Hr) as [c ->]; cbn [bind].
    destruct IH as [k [-> Hk]]; [intros res fx Hres; apply H; right; exact Hres|]. cbn [bind].
    destruct c; eexists; split; try reflexivity.
    - apply incl_tl; exact Hk.
    - apply incl_cons; [left; reflexivity | apply incl_tl; exact Hk].
  Qed.

  Lemma crawl_fixes_spec ph pass r t :
    exists fs, crawl_fixes Fix Tree shape_of false wrapping tsts raw eval_results ph pass r t = Val fs /\
               Forall (fun fx => is_jse (batch_of fx) = false) fs.
  Proof.
    unfold crawl_fixes.
    destruct (keep_results_spec (eval_results ph pass r t)) as [k [-> Hk]].
    { intros res fx Hres Hfx. apply (H_fix ph pass r t res fx Hres Hfx). }
    cbn [bind]. eexists; split; [reflexivity|].
    apply Forall_forall. intros fx Hfx. apply in_concat in Hfx. destruct Hfx as [res [Hres Hin]].
    apply (H_fix ph pass r t res fx); [apply Hk; exact Hres | exact Hin].
  Qed.

  Theorem crawl_c_ok : crawl_ok Tree (crawl_c Fix Tree shape_of false wrapping tsts raw eval_results).
  Proof.
    intros ph pass r t. unfold crawl_c. destruct (crawl_fixes_spec ph pass r t) as [fs [-> _]].
    eexists; reflexivity.
  Qed.

  Theorem apply_c_ok : apply_ok Tree (apply_c Fix Tree shape_of batch_of false wrapping tsts raw eval_results apply_fixes).
  Proof.
    intros ph pass r t. unfold apply_c. destruct (crawl_fixes_spec ph pass r t) as [fs [-> Hj]]. cbn [bind].
    apply bind_ok; [|intros; apply H_apply].
    apply compute_aei_total. apply Forall_forall. intros b Hb. apply in_map_iff in Hb.
    destruct Hb as [fx [<- Hfx]]. rewrite Forall_forall in Hj. apply Hj; exact Hfx.
  Qed.

  (** rule results with positioned anchors and no just-source-edit ⇒ lint and fix return *)
  Theorem lint_fix_total_from_invariants fixmode all t :
    ok (lint_fix Tree version
          (crawl_c Fix Tree shape_of false wrapping tsts raw eval_results)
          (apply_c Fix Tree shape_of batch_of false wrapping tsts raw eval_results apply_fixes)
          fixmode all t).
  Proof. apply lint_fix_total; [apply crawl_c_ok | apply apply_c_ok]. Qed.
End AssemblyProofs.
