(** Disc/NavProofs.v — C19: [helpers::normalize] does not change what a written path denotes, and discovery
    from any working directory with arguments written with "..", "." or absolutely lints exactly the
    specified files, each once, under names that denote them. *)
From Sq Require Import Base.Bytes Disc.Model Disc.Proofs Disc.Nav.

(* ------------------------------------------------------------------ normalize *)

(** what a stack denotes, starting from [start] *)
Definition den (start : list str) (st : list scomp) : list str :=
  fold_left sem_step (map comp_of (rev st)) start.

Lemma den_push : forall start st c, den start (c :: st) = sem_step (den start st) (comp_of c).
Proof. intros. unfold den. cbn [rev]. now rewrite map_app, fold_left_app. Qed.

Lemma den_step : forall abs start st c,
  (abs = true -> start = []) -> den start (norm_step abs st c) = sem_step (den start st) c.
Proof.
  intros abs start st c Habs. destruct c as [| |s]; cbn [norm_step].
  - reflexivity.
  - destruct st as [|[|u] st'].
    + destruct abs; [rewrite (Habs eq_refl); reflexivity | reflexivity].
    + now rewrite den_push.
    + now rewrite den_push.
  - now rewrite den_push.
Qed.

Lemma den_fold : forall abs start cs st,
  (abs = true -> start = []) ->
  den start (fold_left (norm_step abs) cs st) = fold_left sem_step cs (den start st).
Proof.
  intros abs start cs. induction cs as [|c cs IH]; intros st Habs; cbn [fold_left]; [reflexivity|].
  rewrite IH by exact Habs. now rewrite den_step.
Qed.

Definition start_of (base : list str) (abs : bool) : list str := if abs then [] else rev base.

Lemma normalize_comps_den : forall p start,
  fold_left sem_step (r_comps (normalize p)) start = den start (norm_stack p).
Proof.
  intros p start. unfold normalize, den. cbn [r_comps].
  destruct (map comp_of (rev (norm_stack p))) as [|c cs]; cbn [is_empty andb]; [|reflexivity].
  destruct (r_abs p); reflexivity.
Qed.

(** [normalize] is sound: the normalised path denotes the same location, from every working directory. *)
Theorem normalize_sound : forall base p, resolve base (normalize p) = resolve base p.
Proof.
  intros base p. unfold resolve. f_equal. rewrite normalize_comps_den.
  replace (r_abs (normalize p)) with (r_abs p) by reflexivity.
  unfold norm_stack. rewrite (den_fold (r_abs p)); [reflexivity|].
  intro H. now rewrite H.
Qed.

(** the stack is: names on top of ".."s, and no ".." at all in an absolute path *)
Definition wf_stack (abs : bool) (st : list scomp) : Prop :=
  exists ns k, st = map SName ns ++ repeat SPar k /\ (abs = true -> k = 0%nat).

Lemma wf_step : forall abs st c, wf_stack abs st -> wf_stack abs (norm_step abs st c).
Proof.
  intros abs st c [ns [k [-> Hk]]]. destruct c as [| |s]; cbn [norm_step].
  - now exists ns, k.
  - destruct ns as [|n ns]; cbn [map app].
    + destruct k as [|k]; cbn [repeat].
      * destruct abs; [exists [], 0%nat; auto | exists [], 1%nat; split; [reflexivity | discriminate]].
      * exists [], (S (S k)). split; [reflexivity|]. intro H. specialize (Hk H). discriminate.
    + now exists ns, k.
  - exists (s :: ns), k. auto.
Qed.

Lemma wf_fold : forall abs cs st, wf_stack abs st -> wf_stack abs (fold_left (norm_step abs) cs st).
Proof. intros abs cs. induction cs as [|c cs IH]; intros st H; cbn; [exact H | apply IH, wf_step, H]. Qed.

(** The normal form: "."; or only names if the path is absolute; or some ".."s followed by names. *)
Theorem normalize_normal_form : forall p,
  r_abs (normalize p) = r_abs p /\
  (r_comps (normalize p) = [CCur] \/
   exists k ns, r_comps (normalize p) = repeat CPar k ++ map CName ns /\ (r_abs p = true -> k = 0%nat)).
Proof.
  intro p. split; [reflexivity|].
  destruct (wf_fold (r_abs p) (r_comps p) []) as [ns [k [E Hk]]]; [exists [], 0%nat; auto|].
  unfold normalize, norm_stack. cbn [r_comps]. rewrite E.
  destruct (is_empty _ && negb (r_abs p)); [now left|]. right. exists k, (rev ns). split; [|exact Hk].
  rewrite rev_app_distr, map_app, <- map_rev, map_map. cbn [comp_of]. f_equal.
  clear. induction k as [|k IH]; [reflexivity|]. cbn [repeat rev]. rewrite map_app, IH. cbn.
  clear. induction k as [|k IH]; [reflexivity|]. cbn. now rewrite IH.
Qed.

Lemma fold_names : forall abs l st, fold_left (norm_step abs) (map CName l) st = rev (map SName l) ++ st.
Proof.
  intros abs l. induction l as [|x l IH]; intro st; cbn; [reflexivity|].
  rewrite IH. now rewrite <- app_assoc.
Qed.

(** Joining names below a path and normalising = normalising the path and joining the names. *)
Theorem normalize_join : forall p l, l <> [] ->
  normalize (rp_join p l) =
  {| r_abs := r_abs p; r_comps := map comp_of (rev (norm_stack p)) ++ map CName l |}.
Proof.
  intros p l Hl. unfold normalize, norm_stack, rp_join. cbn [r_abs r_comps].
  rewrite fold_left_app, fold_names, rev_app_distr, rev_involutive, map_app, map_map. cbn [comp_of].
  destruct l as [|x l]; [congruence|].
  destruct (map comp_of (rev (fold_left (norm_step (r_abs p)) (r_comps p) []))); reflexivity.
Qed.

Lemma sem_names : forall l loc, fold_left sem_step (map CName l) loc = rev l ++ loc.
Proof.
  induction l as [|x l IH]; intro loc; cbn; [reflexivity|]. rewrite IH. now rewrite <- app_assoc.
Qed.

Lemma resolve_join : forall base p l, resolve base (rp_join p l) = resolve base p ++ l.
Proof.
  intros. unfold resolve, rp_join. cbn [r_abs r_comps].
  now rewrite fold_left_app, sem_names, rev_app_distr, rev_involutive.
Qed.

(** The seeded variant (a ".." on the stack is popped by the next "..") is not sound:
    "../../models/a.sql" from "/proj/jobs/nightly" becomes "models/a.sql". *)
Lemma normalize_cancel_refuted :
  exists base p, resolve base (normalize_cancel p) <> resolve base p.
Proof.
  exists [[112]; [106]; [110]], {| r_abs := false; r_comps := [CPar; CPar; CName [109]; CName [97]] |}.
  vm_compute. discriminate.
Qed.

Example normalize_example :
  normalize {| r_abs := false; r_comps := [CCur; CPar; CName [110]; CPar; CPar; CName [109]; CCur; CName [97]] |}
  = {| r_abs := false; r_comps := [CPar; CPar; CName [109]; CName [97]] |}
  /\ normalize {| r_abs := true; r_comps := [CPar; CName [110]; CPar] |} = {| r_abs := true; r_comps := [] |}
  /\ normalize {| r_abs := false; r_comps := [CName [110]; CPar] |} = {| r_abs := false; r_comps := [CCur] |}.
Proof. vm_compute. auto. Qed.

(* ------------------------------------------------------------------ discovery from a nested working directory *)

Lemma under_app : forall r x, under r (r ++ x) = Some x.
Proof.
  induction r as [|c r IH]; intro x; cbn; [reflexivity|].
  assert (E : str_eqb c c = true) by now apply str_eqb_eq. now rewrite E.
Qed.

Lemma under_Some : forall r loc q, under r loc = Some q -> loc = r ++ q.
Proof.
  induction r as [|c r IH]; intros loc q H; cbn in *; [now inversion H|].
  destruct loc as [|y loc]; [discriminate|]. destruct (str_eqb c y) eqn:E; [|discriminate].
  apply str_eqb_eq in E. subst. f_equal. now apply IH.
Qed.

Lemma is_prefix_skipn : forall a p, is_prefix a p = true -> p = a ++ skipn (length a) p.
Proof.
  induction a as [|x a IH]; intros p H; cbn in *; [reflexivity|].
  destruct p as [|y p]; [discriminate|]. apply andb_true_iff in H as [E H]. apply str_eqb_eq in E. subst.
  f_equal. now apply IH.
Qed.

Lemma is_prefix_app : forall a s, is_prefix a (a ++ s) = true.
Proof.
  induction a as [|x a IH]; intro s; cbn; [reflexivity|]. rewrite IH.
  assert (E : str_eqb x x = true) by now apply str_eqb_eq. now rewrite E.
Qed.

(** how one written argument [p] contributes the reported file [o] *)
Definition from_nav (R w : list str) (t : tree) (exts : list str) (p : rpath) (o : rout) : Prop :=
  exists loc, under R (resolve (R ++ w) p) = Some loc /\
    ((lookup t loc = Some false /\ o = (p, R ++ loc)) \/
     (lookup t loc = Some true /\
      exists q, In {| e_path := q; e_dir := false |} t /\ is_prefix loc q = true /\
                has_ext exts (last q []) = true /\
                o = (normalize (rp_join p (skipn (length loc) q)), R ++ q))).

Lemma resolve_hit : forall R w p loc q,
  under R (resolve (R ++ w) p) = Some loc -> is_prefix loc q = true ->
  resolve (R ++ w) (normalize (rp_join p (skipn (length loc) q))) = R ++ q.
Proof.
  intros R w p loc q Hu Hp. rewrite normalize_sound, resolve_join.
  apply under_Some in Hu. rewrite Hu, <- app_assoc. f_equal. symmetry. now apply is_prefix_skipn.
Qed.

Lemma expand_nav_In : forall R w t exts p l,
  expand_nav R w t exts p = Some l -> forall o, In o l <-> from_nav R w t exts p o.
Proof.
  intros R w t exts p l H o. unfold expand_nav in H. unfold from_nav.
  destruct (under R (resolve (R ++ w) p)) as [loc|] eqn:Hu; [|discriminate].
  destruct (lookup t loc) as [[|]|] eqn:Hl; inversion H; subst; clear H.
  - split.
    + intro Hin. apply in_map_iff in Hin as [x [<- Hx]].
      apply paths_from_dir_In in Hx as [q [-> [Hq [Hp Hx]]]]. cbn [snd].
      exists loc. split; [reflexivity|]. right. split; [exact Hl|]. exists q. repeat split; auto.
      f_equal. now apply resolve_hit.
    + intros [loc' [E [[Hl' _]|[_ [q [Hq [Hp [Hx ->]]]]]]]]; inversion E; subst; [congruence|].
      apply in_map_iff. exists (Rel, q). split.
      * cbn [snd]. f_equal. now apply resolve_hit.
      * apply paths_from_dir_In. exists q. auto.
  - split.
    + intros [<-|[]]. exists loc. split; [reflexivity|]. now left.
    + intros [loc' [E [[_ ->]|[Hl' _]]]]; inversion E; subst; [now left | congruence].
Qed.

Lemma expand_all_nav_In : forall R w t exts args l,
  expand_all_nav R w t exts args = Some l ->
  forall o, In o l <-> exists a, In a args /\ from_nav R w t exts a o.
Proof.
  intros R w t exts. induction args as [|a args IH]; cbn; intros l H o.
  - inversion H; subst. split; [easy | intros [a [[] _]]].
  - destruct (expand_nav R w t exts a) as [la|] eqn:Ea; [|discriminate].
    destruct (expand_all_nav R w t exts args) as [lr|] eqn:Er; [|discriminate].
    inversion H; subst. rewrite in_app_iff, (IH lr eq_refl), (expand_nav_In _ _ _ _ _ _ Ea). split.
    + intros [Hl|[b [Hb Hf]]]; [exists a; split; [now left | exact Hl] | exists b; split; [now right | exact Hf]].
    + intros [b [[<-|Hb] Hf]]; [now left | right; now exists b].
Qed.

Lemma loc_eqb_eq : forall a b : rout, loc_eqb a b = true <-> snd a = snd b.
Proof. intros a b. unfold loc_eqb. apply path_eqb_eq. Qed.

Lemma from_nav_denotes : forall R w t exts p o,
  from_nav R w t exts p o -> resolve (R ++ w) (fst o) = snd o /\ exists q, snd o = R ++ q.
Proof.
  intros R w t exts p o [loc [Hu [[_ ->]|[_ [q [_ [Hp [_ ->]]]]]]]]; cbn [fst snd].
  - split; [|now exists loc]. now apply under_Some in Hu.
  - split; [|now exists q]. now apply resolve_hit.
Qed.

(** Every reported name denotes the file that was discovered under it (and that file lies in the tree):
    what is read, reported and written in fix mode is the file found below the argument, not a namesake. *)
Theorem nav_spelling : forall R w t exts pats args outs,
  linted_nav R w t exts pats args = Some outs ->
  forall o, In o outs -> resolve (R ++ w) (fst o) = snd o /\ exists q, snd o = R ++ q.
Proof.
  intros R w t exts pats args outs H o Ho. unfold linted_nav in H.
  destruct (expand_all_nav R w t exts (effective_nav R w args)) as [l|] eqn:E; [|discriminate].
  inversion H; subst; clear H. apply filter_In in Ho as [Ho _]. apply (nub_incl loc_eqb) in Ho.
  apply (expand_all_nav_In _ _ _ _ _ _ E) in Ho as [a [_ Hf]]. eapply from_nav_denotes, Hf.
Qed.

(** The specified set, for written arguments from the working directory [R ++ w]. *)
Definition in_spec_nav (R w : list str) (t : tree) (exts : list str) (pats : list pat) (args : list rpath) (q : list str) : Prop :=
  (exists a loc, In a (effective_nav R w args) /\ under R (resolve (R ++ w) a) = Some loc /\
     ((lookup t loc = Some false /\ q = loc) \/
      (lookup t loc = Some true /\ is_prefix loc q = true /\
       In {| e_path := q; e_dir := false |} t /\ has_ext exts (last q []) = true)))
  /\ ignored_nav R w pats (R ++ q) = false.

Theorem nav_set : forall R w t exts pats args outs,
  linted_nav R w t exts pats args = Some outs ->
  forall q, In (R ++ q) (map snd outs) <-> in_spec_nav R w t exts pats args q.
Proof.
  intros R w t exts pats args outs H q. unfold linted_nav in H.
  destruct (expand_all_nav R w t exts (effective_nav R w args)) as [l|] eqn:E; [|discriminate].
  inversion H; subst; clear H. unfold in_spec_nav.
  pose proof (expand_all_nav_In _ _ _ _ _ _ E) as HI. split.
  - intro Hin. apply in_map_iff in Hin as [o [Hq Ho]]. apply filter_In in Ho as [Ho Hg].
    apply negb_true_iff in Hg. rewrite Hq in Hg. split; [|exact Hg].
    apply (nub_incl loc_eqb) in Ho. apply HI in Ho as [a [Ha [loc [Hu Hc]]]].
    exists a, loc. split; [exact Ha|]. split; [exact Hu|].
    destruct Hc as [[Hl ->]|[Hl [q' [Hq' [Hp [Hx ->]]]]]]; cbn [snd] in Hq; apply app_inv_head in Hq; subst.
    + now left.
    + right. auto.
  - intros [[a [loc [Ha [Hu Hc]]]] Hg].
    assert (Hex : exists o, In o l /\ snd o = R ++ q).
    { destruct Hc as [[Hl ->]|[Hl [Hp [Hq Hx]]]].
      - exists (a, R ++ loc). split; [|reflexivity]. apply HI. exists a. split; [exact Ha|].
        exists loc. split; [exact Hu|]. now left.
      - exists (normalize (rp_join a (skipn (length loc) q)), R ++ q). split; [|reflexivity].
        apply HI. exists a. split; [exact Ha|]. exists loc. split; [exact Hu|]. right. split; [exact Hl|].
        exists q. auto. }
    destruct Hex as [o [Ho Hs]].
    destruct (nub_complete (@snd rpath (list str)) loc_eqb loc_eqb_eq l o Ho) as [y [Hy Hk]].
    apply in_map_iff. exists y. split; [congruence|]. apply filter_In. split; [exact Hy|].
    apply negb_true_iff. now rewrite Hk, Hs.
Qed.

(** Each file once, however the arguments are written, repeat or overlap. *)
Theorem nav_once : forall R w t exts pats args outs,
  linted_nav R w t exts pats args = Some outs -> NoDup (map snd outs).
Proof.
  intros R w t exts pats args outs H. unfold linted_nav in H.
  destruct (expand_all_nav R w t exts (effective_nav R w args)) as [l|]; [|discriminate].
  inversion H; subst. apply (NoDup_map_filter (@snd rpath (list str))).
  apply (nub_NoDup (@snd rpath (list str)) loc_eqb loc_eqb_eq).
Qed.

(** No abort when every argument denotes an existing entry of the tree. *)
Theorem nav_total : forall R w t exts pats args,
  (forall a, In a (effective_nav R w args) ->
     exists loc, under R (resolve (R ++ w) a) = Some loc /\ lookup t loc <> None) ->
  exists outs, linted_nav R w t exts pats args = Some outs.
Proof.
  intros R w t exts pats args H. unfold linted_nav.
  assert (Hx : exists l, expand_all_nav R w t exts (effective_nav R w args) = Some l).
  { revert H. generalize (effective_nav R w args). induction l as [|a l IH]; cbn; intro H; [now eexists|].
    destruct IH as [lr ->]; [intros b Hb; apply H; now right|].
    destruct (H a (or_introl eq_refl)) as [loc [Hu Hl]]. unfold expand_nav. rewrite Hu.
    destruct (lookup t loc) as [[|]|]; [now eexists | now eexists | congruence]. }
  destruct Hx as [l ->]. now eexists.
Qed.

(** Non-vacuity: /p with jobs/nightly/models/a.sql, models/a.sql, models/staging/b.sql, other/o.txt; from
    /p/jobs/nightly the arguments "../../models" and "./../nightly/../../models/a.sql" (the same file again). *)
Definition n_p : str := [112].
Definition n_jobs : str := [106].
Definition n_nightly : str := [110].
Definition n_models : str := [109].
Definition n_staging : str := [115].
Definition n_a : str := [97;46;115;113;108].
Definition n_b : str := [98;46;115;113;108].
Definition nav_tree : tree :=
  [ {| e_path := [n_jobs]; e_dir := true |}; {| e_path := [n_jobs; n_nightly]; e_dir := true |};
    {| e_path := [n_jobs; n_nightly; n_models]; e_dir := true |};
    {| e_path := [n_jobs; n_nightly; n_models; n_a]; e_dir := false |};
    {| e_path := [n_models]; e_dir := true |}; {| e_path := [n_models; n_a]; e_dir := false |};
    {| e_path := [n_models; n_staging]; e_dir := true |}; {| e_path := [n_models; n_staging; n_b]; e_dir := false |} ].

Example nav_example :
  linted_nav [n_p] [n_jobs; n_nightly] nav_tree [[46;115;113;108]] []
    [ {| r_abs := false; r_comps := [CPar; CPar; CName n_models] |};
      {| r_abs := false; r_comps := [CCur; CPar; CName n_nightly; CPar; CPar; CName n_models; CName n_a] |} ]
  = Some [ ({| r_abs := false; r_comps := [CPar; CPar; CName n_models; CName n_a] |}, [n_p; n_models; n_a]);
           ({| r_abs := false; r_comps := [CPar; CPar; CName n_models; CName n_staging; CName n_b] |}, [n_p; n_models; n_staging; n_b]) ].
Proof. vm_compute. reflexivity. Qed.

Example nav_total_example :
  exists outs, linted_nav [n_p] [n_jobs; n_nightly] nav_tree [[46;115;113;108]] [] [] = Some outs /\ outs <> [].
Proof. eexists. split; [vm_compute; reflexivity | discriminate]. Qed.
