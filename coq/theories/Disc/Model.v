(** Disc/Model.v — C19: file discovery and the ignore file.

    Part 1: a specification of gitignore matching for the pattern forms the README documents
            (blank, # comment, ! negation, trailing /, leading or inner / anchoring, *, ?, **, literals).
    Part 2: the discovery pipeline of the CLI over abstract directory trees:
            [Linter::paths_from_path] (crates/lib/src/core/linter/core.rs), the expansion loop and the
            ignore filter of [Linter::lint_paths], [IgnoreFile::is_ignored] (crates/cli/src/ignore.rs),
            the write loop of [run_fix] (crates/cli/src/commands_fix.rs).
    Executable definitions only. *)
From Sq Require Import Base.Bytes.

(* ------------------------------------------------------------------ 1. gitignore *)

(** One path component pattern: [**] or a glob without separator. *)
Inductive gch := GLit (c : N) | GStar | GQuest.
Inductive cpat := CDStar | CGlob (g : list gch).
Record pat := { p_neg : bool; p_dir : bool; p_comps : list cpat }.

(** [*] = any run of bytes of the component, [?] = one byte (components never contain '/'). *)
Fixpoint cmatch (g : list gch) (s : str) {struct g} : bool :=
  match g with
  | [] => is_empty s
  | GLit c :: g' => match s with x :: s' => (x =? c) && cmatch g' s' | [] => false end
  | GQuest :: g' => match s with _ :: s' => cmatch g' s' | [] => false end
  | GStar :: g' =>
      (fix star (s : str) : bool :=
         cmatch g' s || match s with [] => false | _ :: s' => star s' end) s
  end.

(** A whole-path match; [**] as a component = zero or more components. *)
Fixpoint pmatch (ps : list cpat) (path : list str) {struct ps} : bool :=
  match ps with
  | [] => is_empty path
  | CGlob g :: ps' => match path with c :: path' => cmatch g c && pmatch ps' path' | [] => false end
  | CDStar :: ps' =>
      (fix skip (path : list str) : bool :=
         pmatch ps' path || match path with [] => false | _ :: path' => skip path' end) path
  end.

Definition parse_gch (c : N) : gch := if c =? 42 then GStar else if c =? 63 then GQuest else GLit c.
Definition parse_comp (s : str) : cpat := if str_eqb s [42; 42] then CDStar else CGlob (map parse_gch s).

Fixpoint has_byte (c : N) (s : str) : bool :=
  match s with [] => false | x :: s' => (x =? c) || has_byte c s' end.

Definition is_dstar (c : cpat) : bool := match c with CDStar => true | _ => false end.

(** One line of the ignore file (gitignore(5); same steps as the [ignore] crate's [add_line]):
    comment / blank -> nothing; leading [!] negates; a leading [/] or an inner [/] anchors the pattern at
    the root, otherwise it may match at any depth ([**/] prefix); a trailing [/] restricts it to directories;
    a trailing [/**] matches everything inside, not the directory itself. *)
Definition parse_line (l0 : str) : option pat :=
  if starts_with [35] l0 then None else
  let l1 := trim_end l0 in
  if is_empty l1 then None else
  let '(neg, l2) := match l1 with c :: r => if c =? 33 then (true, r) else (false, l1) | [] => (false, l1) end in
  let '(anch, l3) := match l2 with c :: r => if c =? 47 then (true, r) else (false, l2) | [] => (false, l2) end in
  let '(dir, l4) := if ends_with [47] l3 then (true, drop_last 1 l3) else (false, l3) in
  let cs := map parse_comp (split_byte 47 l4) in
  let cs1 := if anch || has_byte 47 l4 then cs
             else match cs with CDStar :: _ => cs | _ => CDStar :: cs end in
  let cs2 := match cs1 with
             | _ :: _ :: _ => if is_dstar (last cs1 (CGlob [])) then cs1 ++ [CGlob [GStar]] else cs1
             | _ => cs1
             end in
  Some {| p_neg := neg; p_dir := dir; p_comps := cs2 |}.

Fixpoint parse_lines (ls : list str) : list pat :=
  match ls with
  | [] => []
  | l :: ls' => match parse_line l with Some p => p :: parse_lines ls' | None => parse_lines ls' end
  end.

Inductive dec := DNone | DIgnore | DWhite.

Definition pat_matches (p : pat) (path : list str) (is_dir : bool) : bool :=
  (negb (p_dir p) || is_dir) && pmatch (p_comps p) path.

(** The decision for one path on its own: the last matching pattern wins. *)
Fixpoint decide (ps : list pat) (path : list str) (is_dir : bool) : dec :=
  match ps with
  | [] => DNone
  | p :: ps' =>
      match decide ps' path is_dir with
      | DNone => if pat_matches p path is_dir then (if p_neg p then DWhite else DIgnore) else DNone
      | d => d
      end
  end.

(** gitignore: a path is ignored if it or any parent directory is decided "ignore" (a negation cannot
    re-include a file below an excluded directory). [rp] is the path leaf first; parents are directories.
    This is what [IgnoreFile::is_ignored] computes after the repair. *)
Fixpoint git_up (ps : list pat) (rp : list str) (is_dir : bool) : bool :=
  match rp with
  | [] => false
  | _ :: parent =>
      (match decide ps (rev rp) is_dir with DIgnore => true | _ => false end) || git_up ps parent true
  end.
Definition gi_ignored (ps : list pat) (path : list str) (is_dir : bool) : bool := git_up ps (rev path) is_dir.

(** The walk of the [ignore] crate's [Gitignore::matched_path_or_any_parents]: going up from the path, the
    first level with a decision decides. Equal to [gi_ignored] when no negation takes part
    (Proofs.gi_nearest_agree); otherwise it lets "!temp/keep.sql" re-include below an ignored "temp/". *)
Fixpoint ig_up (ps : list pat) (rp : list str) (is_dir : bool) : bool :=
  match rp with
  | [] => false
  | _ :: parent =>
      match decide ps (rev rp) is_dir with
      | DIgnore => true
      | DWhite => false
      | DNone => ig_up ps parent true
      end
  end.
Definition gi_nearest (ps : list pat) (path : list str) (is_dir : bool) : bool := ig_up ps (rev path) is_dir.

Definition no_neg (ps : list pat) : bool := forallb (fun p => negb (p_neg p)) ps.

(** The ignorer before the repair: [Gitignore::matched] on the candidate file only. *)
Definition ignored_legacy (ps : list pat) (path : list str) (is_dir : bool) : bool :=
  match decide ps path is_dir with DIgnore => true | _ => false end.

(* ------------------------------------------------------------------ 2. discovery *)

(** A directory tree below the working directory: entries are paths relative to it (components)
    with an is-directory flag. The working directory itself is [[]]. *)
Record entry := { e_path : list str; e_dir : bool }.
Definition tree := list entry.

(** How a path argument / reported path is spelled: [sub/a.sql], [./sub/a.sql], [<cwd>/sub/a.sql]. *)
Inductive pfx := Rel | Dot | Abs.
Record parg := { a_pfx : pfx; a_path : list str }.
Definition out := (pfx * list str)%type.

Definition path_eqb : list str -> list str -> bool := list_eqb str_eqb.
Definition pfx_eqb (a b : pfx) : bool :=
  match a, b with Rel, Rel | Dot, Dot | Abs, Abs => true | _, _ => false end.
Definition out_eqb (a b : out) : bool := pfx_eqb (fst a) (fst b) && path_eqb (snd a) (snd b).
Definition file_eqb (a b : out) : bool := path_eqb (snd a) (snd b).

(** [std::fs::metadata(path)] : [None] = does not exist. *)
Definition lookup (t : tree) (p : list str) : option bool :=
  if is_empty p then Some true
  else match find (fun e => path_eqb (e_path e) p) t with
       | Some e => Some (e_dir e)
       | None => None
       end.

Fixpoint is_prefix (a p : list str) : bool :=
  match a, p with
  | [], _ => true
  | x :: a', y :: p' => str_eqb x y && is_prefix a' p'
  | _ :: _, [] => false
  end.

Definition to_lower (b : N) : N := if (65 <=? b) && (b <=? 90) then b + 32 else b.
(** the name ends in a configured extension, letter case aside *)
Definition has_ext (exts : list str) (name : str) : bool :=
  existsb (fun e => ends_with (map to_lower e) (map to_lower name)) exts.

(** "for ext in sql_file_exts { if fname.to_lowercase().ends_with(&ext.to_lowercase()) { buffer.push(fpath) } }";
    [lower_ext = false]: the extension was compared as written (before the repair). *)
Definition ext_pushes (lower_ext : bool) (exts : list str) (o : out) (name : str) : list out :=
  flat_map (fun e => if ends_with (if lower_ext then map to_lower e else e) (map to_lower name) then [o] else []) exts.

(** WalkDir below [a] (the root included). *)
Definition walk (t : tree) (a : list str) : list entry := filter (fun e => is_prefix a (e_path e)) t.

(** keep the first occurrence (a hash set in the code) *)
Fixpoint nub {A} (eqb : A -> A -> bool) (l : list A) : list A :=
  match l with
  | [] => []
  | x :: l' => x :: filter (fun y => negb (eqb x y)) (nub eqb l')
  end.

Fixpoint join_path (p : list str) : str :=
  match p with
  | [] => []
  | [c] => c
  | c :: p' => c ++ 47 :: join_path p'
  end.

Fixpoint str_leb (a b : str) : bool :=
  match a, b with
  | [], _ => true
  | _ :: _, [] => false
  | x :: a', y :: b' => if x <? y then true else if y <? x then false else str_leb a' b'
  end.

(** [files.sort()] on the path strings (all outputs of one call share the prefix spelling) *)
Fixpoint insert_out (o : out) (l : list out) : list out :=
  match l with
  | [] => [o]
  | h :: l' => if str_leb (join_path (snd o)) (join_path (snd h)) then o :: l else h :: insert_out o l'
  end.
Definition sort_outs (l : list out) : list out := fold_right insert_out [] l.

(** [helpers::normalize] drops the "./" of the spelling. *)
Definition norm_pfx (p : pfx) : pfx := match p with Dot => Rel | x => x end.

(** [paths_from_path] on a directory. [files_only = true] is the code after the repairs (directory entries
    are skipped, extensions compared in lower case); [false] is the code before them. *)
Definition paths_from_dir_gen (files_only : bool) (t : tree) (exts : list str) (pf : pfx) (a : list str) : list out :=
  let buffer :=
    flat_map (fun e => if files_only && e_dir e then []
                       else ext_pushes files_only exts (norm_pfx pf, e_path e) (last (e_path e) []))
             (walk t a) in
  sort_outs (nub out_eqb buffer).
Definition paths_from_dir := paths_from_dir_gen true.

(** One iteration of the expansion loop of [lint_paths]. [None] = panic (path does not exist). *)
Definition expand_arg_gen (files_only : bool) (t : tree) (exts : list str) (a : parg) : option (list out) :=
  match lookup t (a_path a) with
  | None => None
  | Some false => Some [(a_pfx a, a_path a)]
  | Some true => Some (paths_from_dir_gen files_only t exts (a_pfx a) (a_path a))
  end.

Fixpoint expand_all_gen (files_only : bool) (t : tree) (exts : list str) (args : list parg) : option (list out) :=
  match args with
  | [] => Some []
  | a :: args' =>
      match expand_arg_gen files_only t exts a, expand_all_gen files_only t exts args' with
      | Some l, Some r => Some (l ++ r)
      | _, _ => None
      end
  end.

(** "if paths.is_empty() { paths.push(current_dir()) }" *)
Definition effective_args (args : list parg) : list parg :=
  match args with [] => [{| a_pfx := Abs; a_path := [] |}] | _ => args end.

(** The set of files handed to the linter (and, in fix mode, to the write loop), in order. *)
Definition linted (t : tree) (exts : list str) (pats : list pat) (args : list parg) : option (list out) :=
  match expand_all_gen true t exts (effective_args args) with
  | None => None
  | Some l => Some (filter (fun o => negb (gi_ignored pats (snd o) false)) (nub file_eqb l))
  end.

(** Before the three repairs: directories are candidates, no de-duplication across arguments, the ignore
    patterns are matched against the file only. A candidate that is a directory makes [render_file] panic. *)
Definition is_dir_out (t : tree) (o : out) : bool :=
  match lookup t (snd o) with Some true => true | _ => false end.
Definition linted_legacy (t : tree) (exts : list str) (pats : list pat) (args : list parg) : option (list out) :=
  match expand_all_gen false t exts (effective_args args) with
  | None => None
  | Some l =>
      let l' := filter (fun o => negb (ignored_legacy pats (snd o) (is_dir_out t o))) l in
      if existsb (is_dir_out t) l' then None else Some l'
  end.

(** [run_fix]: nothing is written when no linted file has a violation, otherwise every linted file is. *)
Definition written (has_viol : out -> bool) (outs : list out) : list out :=
  if forallb (fun o => negb (has_viol o)) outs then [] else outs.
