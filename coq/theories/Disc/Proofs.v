(** Disc/Proofs.v — C19: what the discovery pipeline lints, and laws of the gitignore specification. *)
From Sq Require Import Base.Bytes Disc.Model.
From Coq Require Import Permutation.

(* ------------------------------------------------------------------ equality tests *)

Lemma str_eqb_eq : forall a b : str, str_eqb a b = true <-> a = b.
Proof.
  induction a as [|x a IH]; destruct b as [|y b]; cbn; split; intro H; try easy.
  - apply andb_true_iff in H as [H1 H2]. apply N.eqb_eq in H1. apply IH in H2. now subst.
  - inversion H; subst. apply andb_true_iff. split; [apply N.eqb_refl | now apply IH].
Qed.

Lemma path_eqb_eq : forall a b : list str, path_eqb a b = true <-> a = b.
Proof.
  unfold path_eqb.
  induction a as [|x a IH]; destruct b as [|y b]; cbn; split; intro H; try easy.
  - apply andb_true_iff in H as [H1 H2]. apply str_eqb_eq in H1. apply IH in H2. now subst.
  - inversion H; subst. apply andb_true_iff. split; [now apply str_eqb_eq | now apply IH].
Qed.

Lemma pfx_eqb_eq : forall a b, pfx_eqb a b = true <-> a = b.
Proof. destruct a, b; cbn; split; intro H; try easy. Qed.

Lemma out_eqb_eq : forall a b : out, out_eqb a b = true <-> a = b.
Proof.
  intros [p1 c1] [p2 c2]. unfold out_eqb; cbn. rewrite andb_true_iff, pfx_eqb_eq, path_eqb_eq.
  split; [intros [-> ->]; reflexivity | intro H; inversion H; auto].
Qed.

Lemma file_eqb_eq : forall a b : out, file_eqb a b = true <-> snd a = snd b.
Proof. intros a b. unfold file_eqb. apply path_eqb_eq. Qed.

(* ------------------------------------------------------------------ nub, sort *)

Section Nub.
  Context {A K : Type} (k : A -> K) (eqb : A -> A -> bool).
  Hypothesis eqb_spec : forall x y, eqb x y = true <-> k x = k y.

  Lemma nub_incl : forall l y, In y (nub eqb l) -> In y l.
  Proof.
    induction l as [|x l IH]; cbn; intros y H; [easy|].
    destruct H as [H|H]; [now left|]. apply filter_In in H as [H _]. right. now apply IH.
  Qed.

  Lemma nub_complete : forall l x, In x l -> exists y, In y (nub eqb l) /\ k y = k x.
  Proof.
    induction l as [|h l IH]; cbn; intros x H; [easy|].
    destruct H as [->|H].
    - exists x. split; [now left | reflexivity].
    - destruct (IH x H) as [y [Hy Hk]].
      destruct (eqb h y) eqn:E.
      + exists h. split; [now left|]. apply eqb_spec in E. congruence.
      + exists y. split; [|exact Hk]. right. apply filter_In. split; [exact Hy|]. now rewrite E.
  Qed.

  Lemma map_filter_notin : forall (f : A -> bool) l v,
    (forall y, In y l -> f y = true -> k y <> v) -> ~ In v (map k (filter f l)).
  Proof.
    intros f l v H Hin. apply in_map_iff in Hin as [y [Hy Hin]]. apply filter_In in Hin as [Hin Hf].
    exact (H y Hin Hf Hy).
  Qed.

  Lemma NoDup_map_filter : forall (f : A -> bool) l, NoDup (map k l) -> NoDup (map k (filter f l)).
  Proof.
    intros f. induction l as [|x l IH]; cbn; intro H; [constructor|].
    inversion H as [|? ? Hn Hd]; subst. destruct (f x); cbn.
    - constructor; [|now apply IH]. intro Hin. apply Hn.
      apply in_map_iff in Hin as [y [Hy Hin]]. apply filter_In in Hin as [Hin _].
      apply in_map_iff. now exists y.
    - now apply IH.
  Qed.

  Lemma nub_NoDup : forall l, NoDup (map k (nub eqb l)).
  Proof.
    induction l as [|x l IH]; cbn; [constructor|].
    constructor.
    - apply map_filter_notin. intros y _ Hf Hk.
      assert (E : eqb x y = true) by (apply eqb_spec; congruence). rewrite E in Hf. discriminate.
    - now apply NoDup_map_filter.
  Qed.
End Nub.

Lemma insert_out_In : forall o l x, In x (insert_out o l) <-> x = o \/ In x l.
Proof.
  induction l as [|h l IH]; cbn; intro x.
  - split; [intros [H|[]]; now left | intros [H|[]]; now left].
  - destruct (str_leb _ _); cbn.
    + split; [intros [H|H]; [now left | now right] | intros [H|H]; [now left | now right]].
    + rewrite IH. split; [intros [H|[H|H]] | intros [H|[H|H]]]; auto.
Qed.

Lemma sort_outs_In : forall l x, In x (sort_outs l) <-> In x l.
Proof.
  induction l as [|h l IH]; cbn; intro x; [tauto|].
  rewrite insert_out_In, IH. split; [intros [H|H] | intros [H|H]]; auto.
Qed.

(* ------------------------------------------------------------------ paths_from_path *)

Lemma ext_pushes_In : forall exts o name x, In x (ext_pushes true exts o name) <-> x = o /\ has_ext exts name = true.
Proof.
  intros exts o name x. unfold ext_pushes, has_ext. rewrite in_flat_map, existsb_exists. split.
  - intros [e [He Hin]]. destruct (ends_with (map to_lower e) (map to_lower name)) eqn:E; [|easy].
    destruct Hin as [<-|[]]. split; [reflexivity | now exists e].
  - intros [-> [e [He E]]]. exists e. split; [exact He|]. rewrite E. now left.
Qed.

Lemma entry_eta : forall e, e = {| e_path := e_path e; e_dir := e_dir e |}.
Proof. now destruct e. Qed.

(** A directory argument yields exactly the non-directory entries below it whose lower-cased name ends in a
    configured extension, each once, spelled without "./". *)
Lemma paths_from_dir_In : forall t exts pf a o,
  In o (paths_from_dir t exts pf a) <->
  exists p, o = (norm_pfx pf, p) /\ In {| e_path := p; e_dir := false |} t /\
            is_prefix a p = true /\ has_ext exts (last p []) = true.
Proof.
  intros t exts pf a o. unfold paths_from_dir, paths_from_dir_gen. rewrite sort_outs_In. split.
  - intro H. apply (nub_incl out_eqb) in H.
    apply in_flat_map in H as [e [He Hin]]. unfold walk in He. apply filter_In in He as [He Hp].
    cbn [andb] in Hin. destruct (e_dir e) eqn:Ed; [easy|].
    apply ext_pushes_In in Hin as [-> Hx]. exists (e_path e). repeat split; auto.
    rewrite (entry_eta e) in He. now rewrite Ed in He.
  - intros [p [-> [Hin [Hp Hx]]]].
    destruct (nub_complete (fun x : out => x) out_eqb out_eqb_eq
                (flat_map (fun e => if true && e_dir e then [] else ext_pushes true exts (norm_pfx pf, e_path e) (last (e_path e) [])) (walk t a))
                (norm_pfx pf, p)) as [y [Hy ->]]; [|exact Hy].
    apply in_flat_map. exists {| e_path := p; e_dir := false |}. split.
    + unfold walk. apply filter_In. now split.
    + cbn. apply ext_pushes_In. now split.
Qed.

Lemma paths_from_dir_NoDup : forall t exts pf a, NoDup (map snd (paths_from_dir t exts pf a)).
Proof.
  intros. unfold paths_from_dir, paths_from_dir_gen.
  set (buf := flat_map _ _).
  assert (Hn : NoDup (map snd (nub out_eqb buf))).
  { assert (Hfst : forall o, In o buf -> fst o = norm_pfx pf).
    { intros o Ho. unfold buf in Ho. apply in_flat_map in Ho as [e [_ Ho]].
      destruct (true && e_dir e); [easy|]. apply ext_pushes_In in Ho as [-> _]. reflexivity. }
    pose proof (nub_NoDup (fun x : out => x) out_eqb out_eqb_eq buf) as Hd. rewrite map_id in Hd.
    assert (Hsub : forall o, In o (nub out_eqb buf) -> fst o = norm_pfx pf).
    { intros o Ho. apply Hfst. now apply (nub_incl out_eqb) in Ho. }
    revert Hd Hsub. generalize (nub out_eqb buf). induction l as [|x l IH]; cbn; intros Hd Hsub; [constructor|].
    inversion Hd as [|? ? Hx Hl]; subst. constructor.
    - intro Hin. apply in_map_iff in Hin as [y [Hy Hin]]. apply Hx.
      assert (y = x); [|now subst].
      destruct x as [x1 x2], y as [y1 y2]. cbn in Hy. subst.
      pose proof (Hsub (y1, x2) (or_intror Hin)) as E1. pose proof (Hsub (x1, x2) (or_introl eq_refl)) as E2.
      cbn in E1, E2. congruence.
    - apply IH; auto. }
  (* sorting permutes *)
  assert (Hperm : forall l : list out, Permutation (sort_outs l) l).
  { induction l as [|h l IH]; cbn; [constructor|].
    assert (Hi : forall o m, Permutation (insert_out o m) (o :: m)).
    { induction m as [|g m IHm]; cbn; [apply Permutation_refl|].
      destruct (str_leb _ _); [apply Permutation_refl|].
      eapply perm_trans; [apply perm_skip, IHm | apply perm_swap]. }
    eapply perm_trans; [apply Hi | now apply perm_skip]. }
  eapply Permutation_NoDup; [|exact Hn]. apply Permutation_map, Permutation_sym, Hperm.
Qed.

(* ------------------------------------------------------------------ lint_paths *)

Definition from_arg (t : tree) (exts : list str) (a : parg) (o : out) : Prop :=
  (lookup t (a_path a) = Some false /\ o = (a_pfx a, a_path a)) \/
  (lookup t (a_path a) = Some true /\ In o (paths_from_dir t exts (a_pfx a) (a_path a))).

Lemma expand_all_In : forall t exts args l,
  expand_all_gen true t exts args = Some l ->
  forall o, In o l <-> exists a, In a args /\ from_arg t exts a o.
Proof.
  intros t exts. induction args as [|a args IH]; cbn; intros l H o.
  - inversion H; subst. split; [easy | intros [a [[] _]]].
  - destruct (expand_arg_gen true t exts a) as [la|] eqn:Ea; [|discriminate].
    destruct (expand_all_gen true t exts args) as [lr|] eqn:Er; [|discriminate].
    inversion H; subst. rewrite in_app_iff, (IH lr eq_refl).
    assert (Ha : In o la <-> from_arg t exts a o).
    { unfold expand_arg_gen in Ea. unfold from_arg. destruct (lookup t (a_path a)) as [[|]|]; inversion Ea; subst.
      - split; [intro; right; auto | intros [[? _]|[_ ?]]; [discriminate | assumption]].
      - split; [intros [<-|[]]; left; auto | intros [[_ ->]|[? _]]; [now left | discriminate]]. }
    rewrite Ha. split.
    + intros [Hl|[b [Hb Hf]]]; [exists a; split; [now left | exact Hl] | exists b; split; [now right | exact Hf]].
    + intros [b [[<-|Hb] Hf]]; [now left | right; now exists b].
Qed.

Lemma expand_all_total : forall t exts args,
  (forall a, In a args -> lookup t (a_path a) <> None) -> exists l, expand_all_gen true t exts args = Some l.
Proof.
  intros t exts. induction args as [|a args IH]; cbn; intro H; [now eexists|].
  destruct IH as [lr ->]; [intros b Hb; apply H; now right|].
  unfold expand_arg_gen. specialize (H a (or_introl eq_refl)).
  destruct (lookup t (a_path a)) as [[|]|]; [now eexists | now eexists | congruence].
Qed.

(** The specified set (the statement of C19): files under an argument with a configured extension, plus
    explicitly named files, minus everything the ignore patterns match (the file or a parent directory). *)
Definition in_spec (t : tree) (exts : list str) (pats : list pat) (args : list parg) (p : list str) : Prop :=
  (exists a, In a (effective_args args) /\
     ((lookup t (a_path a) = Some false /\ p = a_path a) \/
      (lookup t (a_path a) = Some true /\ is_prefix (a_path a) p = true /\
       In {| e_path := p; e_dir := false |} t /\ has_ext exts (last p []) = true)))
  /\ gi_ignored pats p false = false.

Theorem linted_set : forall t exts pats args outs,
  linted t exts pats args = Some outs ->
  forall p, In p (map snd outs) <-> in_spec t exts pats args p.
Proof.
  intros t exts pats args outs H p. unfold linted in H.
  destruct (expand_all_gen true t exts (effective_args args)) as [l|] eqn:E; [|discriminate].
  inversion H; subst; clear H. unfold in_spec.
  pose proof (expand_all_In _ _ _ _ E) as HI.
  split.
  - intro Hin. apply in_map_iff in Hin as [o [<- Ho]]. apply filter_In in Ho as [Ho Hg].
    apply negb_true_iff in Hg. split; [|exact Hg].
    apply (nub_incl file_eqb) in Ho. apply HI in Ho as [a [Ha Hf]].
    exists a. split; [exact Ha|]. destruct Hf as [[Hl ->]|[Hl Hp]]; [left; auto|].
    right. apply paths_from_dir_In in Hp as [q [-> [Hq [Hpre Hx]]]]. cbn. auto.
  - intros [[a [Ha Hc]] Hg].
    assert (Hex : exists o, In o l /\ snd o = p).
    { destruct Hc as [[Hl ->]|[Hl [Hpre [Hq Hx]]]].
      - exists (a_pfx a, a_path a). split; [|reflexivity]. apply HI. exists a. split; [exact Ha|]. left. auto.
      - exists (norm_pfx (a_pfx a), p). split; [|reflexivity]. apply HI. exists a. split; [exact Ha|]. right.
        split; [exact Hl|]. apply paths_from_dir_In. exists p. auto. }
    destruct Hex as [o [Ho Hs]].
    destruct (nub_complete (@snd pfx (list str)) file_eqb file_eqb_eq l o Ho) as [y [Hy Hk]].
    apply in_map_iff. exists y. split; [congruence|]. apply filter_In. split; [exact Hy|].
    apply negb_true_iff. now rewrite Hk, Hs.
Qed.

Theorem linted_once : forall t exts pats args outs,
  linted t exts pats args = Some outs -> NoDup (map snd outs).
Proof.
  intros t exts pats args outs H. unfold linted in H.
  destruct (expand_all_gen true t exts (effective_args args)) as [l|]; [|discriminate].
  inversion H; subst. apply (NoDup_map_filter (@snd pfx (list str))).
  apply (nub_NoDup (@snd pfx (list str)) file_eqb file_eqb_eq).
Qed.

(** No panic when every argument exists. *)
Theorem linted_total : forall t exts pats args,
  (forall a, In a (effective_args args) -> lookup t (a_path a) <> None) ->
  exists outs, linted t exts pats args = Some outs.
Proof.
  intros t exts pats args H. unfold linted.
  destruct (expand_all_total t exts (effective_args args) H) as [l ->]. now eexists.
Qed.

(** fix mode writes linted files only, and nothing when nothing is reported. *)
Theorem written_spec : forall hv outs,
  (forall o, In o (written hv outs) -> In o outs) /\
  ((forall o, In o outs -> hv o = false) -> written hv outs = []) /\
  ((exists o, In o outs /\ hv o = true) -> written hv outs = outs).
Proof.
  intros hv outs. unfold written. destruct (forallb (fun o => negb (hv o)) outs) eqn:E.
  - split; [easy|]. split; [reflexivity|]. intros [o [Ho Hv]].
    rewrite forallb_forall in E. specialize (E o Ho). rewrite Hv in E. discriminate.
  - split; [auto|]. split; [|reflexivity]. intro H.
    assert (forallb (fun o => negb (hv o)) outs = true); [|congruence].
    apply forallb_forall. intros o Ho. now rewrite (H o Ho).
Qed.

(* ------------------------------------------------------------------ gitignore laws *)

Lemma decide_no_neg : forall ps path d, no_neg ps = true -> decide ps path d <> DWhite.
Proof.
  induction ps as [|p ps IH]; cbn; intros path d H; [easy|].
  apply andb_true_iff in H as [Hp Hps]. specialize (IH path d Hps).
  destruct (decide ps path d); try easy.
  destruct (pat_matches p path d); [|easy]. apply negb_true_iff in Hp. now rewrite Hp.
Qed.

Lemma decide_match_no_neg : forall ps path d p,
  no_neg ps = true -> In p ps -> pat_matches p path d = true -> decide ps path d = DIgnore.
Proof.
  induction ps as [|q ps IH]; cbn; intros path d p H Hin Hm; [easy|].
  apply andb_true_iff in H as [Hq Hps]. apply negb_true_iff in Hq.
  pose proof (decide_no_neg ps path d Hps) as Hw.
  destruct Hin as [->|Hin].
  - destruct (decide ps path d); try easy. now rewrite Hm, Hq.
  - now rewrite (IH path d p Hps Hin Hm).
Qed.

(** Without negations the [ignore] crate's walk (nearest decision wins) is gitignore's reading. *)
Theorem gi_nearest_agree : forall ps path d, no_neg ps = true -> gi_nearest ps path d = gi_ignored ps path d.
Proof.
  intros ps path d H. unfold gi_ignored, gi_nearest. generalize (rev path) as rp. intro rp. revert d.
  induction rp as [|c rp IH]; intro d; [reflexivity|].
  cbn [ig_up git_up]. pose proof (decide_no_neg ps (rev (c :: rp)) d H) as Hw.
  destruct (decide ps (rev (c :: rp)) d); cbn; [apply IH | reflexivity | easy].
Qed.

Lemma cmatch_lit : forall s, cmatch (map GLit s) s = true.
Proof. induction s as [|x s IH]; cbn; [reflexivity|]. now rewrite N.eqb_refl, IH. Qed.

Lemma pmatch_dstar_last : forall g pre c, cmatch g c = true -> pmatch [CDStar; CGlob g] (pre ++ [c]) = true.
Proof.
  intros g pre c H. cbn [pmatch].
  induction pre as [|x pre IH].
  - cbn. now rewrite H.
  - cbn [app]. destruct (pre ++ [c]) eqn:E; [now destruct pre|].
    rewrite <- E. cbn. cbn in IH. rewrite IH. apply orb_true_r.
Qed.

(** the pattern a line "d/" parses to *)
Definition dir_pat (d : str) : pat := {| p_neg := false; p_dir := true; p_comps := [CDStar; CGlob (map GLit d)] |}.

Lemma git_up_app : forall ps l r d, l <> [] -> git_up ps r true = true -> git_up ps (l ++ r) d = true.
Proof.
  intros ps. induction l as [|x l IH]; intros r d Hl Hr; [easy|].
  cbn [app git_up]. destruct l as [|y l].
  - cbn [app]. rewrite Hr. apply orb_true_r.
  - rewrite (IH r true); [apply orb_true_r | easy | exact Hr].
Qed.

(** a directory decided "ignore" takes everything below it with it, negations or not *)
Theorem gi_level : forall ps pre d post isd,
  decide ps (pre ++ [d]) true = DIgnore -> post <> [] -> gi_ignored ps (pre ++ d :: post) isd = true.
Proof.
  intros ps pre d post isd Hd Hpost. unfold gi_ignored.
  rewrite rev_app_distr. cbn [rev]. rewrite <- app_assoc. cbn [app].
  apply git_up_app.
  - intro E. apply Hpost. rewrite <- (rev_involutive post), E. reflexivity.
  - cbn [git_up]. replace (rev (d :: rev pre)) with (pre ++ [d]) by (cbn; now rewrite rev_involutive).
    now rewrite Hd.
Qed.

(** a path decided "ignore" is ignored *)
Theorem gi_leaf : forall ps pre name isd,
  decide ps (pre ++ [name]) isd = DIgnore -> gi_ignored ps (pre ++ [name]) isd = true.
Proof.
  intros ps pre name isd Hd. unfold gi_ignored. rewrite rev_app_distr. change (rev [name]) with [name]. cbn [app git_up].
  replace (rev (name :: rev pre)) with (pre ++ [name]) by (cbn; now rewrite rev_involutive).
  now rewrite Hd.
Qed.

(** last match wins: a non-negated line that matches and is followed by no negation line decides "ignore" *)
Lemma decide_last : forall ps1 p ps2 path d,
  no_neg ps2 = true -> p_neg p = false -> pat_matches p path d = true -> decide (ps1 ++ p :: ps2) path d = DIgnore.
Proof.
  intros ps1 p ps2 path d Hn Hp Hm. induction ps1 as [|q ps1 IH]; cbn [app decide].
  - pose proof (decide_no_neg ps2 path d Hn) as Hw.
    destruct (decide ps2 path d); [now rewrite Hm, Hp | reflexivity | easy].
  - now rewrite IH.
Qed.

(** The README sentence: a line "d/" ignores ALL files in ANY directory named d — whatever precedes it,
    provided no negation line follows it. *)
Theorem gi_dir_pattern : forall ps1 ps2 d pre post isd,
  no_neg ps2 = true -> post <> [] ->
  gi_ignored (ps1 ++ dir_pat d :: ps2) (pre ++ d :: post) isd = true.
Proof.
  intros ps1 ps2 d pre post isd Hn Hpost. apply gi_level; [|exact Hpost].
  apply decide_last; [exact Hn | reflexivity|].
  unfold pat_matches. cbn. apply pmatch_dstar_last, cmatch_lit.
Qed.

(** An unanchored glob line such as "*.hql" ignores the matching files at any depth (no negation line after it). *)
Theorem gi_glob_pattern : forall ps1 ps2 g pre name isd,
  no_neg ps2 = true -> cmatch g name = true ->
  gi_ignored (ps1 ++ {| p_neg := false; p_dir := false; p_comps := [CDStar; CGlob g] |} :: ps2) (pre ++ [name]) isd = true.
Proof.
  intros ps1 ps2 g pre name isd Hn Hm. apply gi_leaf. apply decide_last; [exact Hn | reflexivity|].
  unfold pat_matches. cbn [p_dir p_comps negb orb andb]. now apply pmatch_dstar_last.
Qed.

(** A path nothing matches at any level is not ignored. *)
Theorem gi_unmatched : forall ps path d,
  (forall q dq, decide ps q dq = DNone) -> gi_ignored ps path d = false.
Proof.
  intros ps path d H. unfold gi_ignored. generalize (rev path). intro rp. revert d.
  induction rp as [|c rp IH]; intro d; [reflexivity|]. cbn [git_up]. rewrite H. apply IH.
Qed.

(* ------------------------------------------------------------------ the law on the text of the ignore file *)

(** a plain directory name: non-empty, no '/', '*', '?', not starting with '#' or '!' *)
Definition plain_char (c : N) : bool := negb ((c =? 47) || (c =? 42) || (c =? 63)).
Definition plain_name (d : str) : bool :=
  forallb plain_char d && match d with c :: _ => negb ((c =? 35) || (c =? 33)) | [] => false end.

Lemma split_byte_aux_none : forall c s cur, has_byte c s = false -> split_byte_aux c s cur = [rev cur ++ s].
Proof.
  intros c. induction s as [|b s IH]; cbn; intros cur H.
  - now rewrite app_nil_r.
  - apply orb_false_iff in H as [Hb Hs]. rewrite Hb. rewrite (IH (b :: cur) Hs). cbn. now rewrite <- app_assoc.
Qed.

Lemma plain_no_slash : forall d, forallb plain_char d = true -> has_byte 47 d = false.
Proof.
  induction d as [|c d IH]; cbn; intro H; [reflexivity|].
  apply andb_true_iff in H as [Hc Hd]. unfold plain_char in Hc. apply negb_true_iff in Hc.
  apply orb_false_iff in Hc as [Hc _]. apply orb_false_iff in Hc as [Hc _]. rewrite Hc. now apply IH.
Qed.

Lemma plain_glits : forall d, forallb plain_char d = true -> map parse_gch d = map GLit d.
Proof.
  induction d as [|c d IH]; cbn; intro H; [reflexivity|].
  apply andb_true_iff in H as [Hc Hd]. rewrite (IH Hd). f_equal.
  unfold plain_char in Hc. apply negb_true_iff in Hc.
  apply orb_false_iff in Hc as [Hc H63]. apply orb_false_iff in Hc as [_ H42].
  unfold parse_gch. now rewrite H42, H63.
Qed.

(** The text line "d/" denotes the directory pattern of the README law. *)
Theorem parse_dir_line : forall d, plain_name d = true -> parse_line (d ++ [47]) = Some (dir_pat d).
Proof.
  intros d H. unfold plain_name in H. apply andb_true_iff in H as [Hp Hh].
  destruct d as [|c d]; [discriminate|].
  apply negb_true_iff in Hh. apply orb_false_iff in Hh as [H35 H33].
  pose proof Hp as Hp'. cbn [forallb] in Hp'. apply andb_true_iff in Hp' as [Hc Hd].
  unfold plain_char in Hc. apply negb_true_iff in Hc.
  apply orb_false_iff in Hc as [Hc H63]. apply orb_false_iff in Hc as [H47 H42].
  unfold parse_line.
  (* not a comment *)
  assert (E1 : starts_with [35] ((c :: d) ++ [47]) = false).
  { unfold starts_with. cbn [app strip_prefix]. rewrite N.eqb_sym, H35. reflexivity. }
  rewrite E1.
  (* nothing to trim: the line ends in '/' *)
  assert (E2 : forall s : str, trim_end (s ++ [47]) = s ++ [47]).
  { intro s. unfold trim_end. rewrite rev_app_distr. change (rev [47] ++ rev s) with (47 :: rev s).
    change (trim_start (47 :: rev s)) with (47 :: rev s). change (rev (47 :: rev s)) with (rev (rev s) ++ [47]).
    now rewrite rev_involutive. }
  rewrite E2. cbn [app is_empty].
  rewrite H33, H47.
  (* trailing slash *)
  assert (E3 : forall s : str, ends_with [47] (s ++ [47]) = true).
  { intro s. unfold ends_with. rewrite rev_app_distr. reflexivity. }
  change (c :: d ++ [47]) with ((c :: d) ++ [47]).
  rewrite E3.
  assert (E4 : forall s : str, drop_last 1 (s ++ [47]) = s).
  { intro s. unfold drop_last. rewrite rev_app_distr. change (skipn 1 (rev [47] ++ rev s)) with (rev s).
    apply rev_involutive. }
  rewrite E4.
  pose proof (plain_no_slash (c :: d) Hp) as Hs.
  unfold split_byte. rewrite (split_byte_aux_none 47 (c :: d) [] Hs). cbn [rev app map].
  rewrite Hs. cbn [orb].
  assert (E5 : parse_comp (c :: d) = CGlob (map GLit (c :: d))).
  { unfold parse_comp. cbn [str_eqb]. rewrite H42. cbn [andb]. now rewrite (plain_glits (c :: d) Hp). }
  rewrite E5. reflexivity.
Qed.

Lemma parse_lines_app : forall a b, parse_lines (a ++ b) = parse_lines a ++ parse_lines b.
Proof.
  induction a as [|x a IH]; intro b; cbn; [reflexivity|]. destruct (parse_line x); cbn; now rewrite IH.
Qed.

(** README, on the file's text: a line "d/" (d a plain name) with no negation line after it ignores every path
    that has a proper ancestor directory named d. *)
Theorem gi_dir_line : forall l1 l2 d pre post isd,
  plain_name d = true -> no_neg (parse_lines l2) = true -> post <> [] ->
  gi_ignored (parse_lines (l1 ++ (d ++ [47]) :: l2)) (pre ++ d :: post) isd = true.
Proof.
  intros l1 l2 d pre post isd Hd Hn Hpost. rewrite parse_lines_app. cbn [parse_lines].
  rewrite (parse_dir_line d Hd). now apply gi_dir_pattern.
Qed.

(* ------------------------------------------------------------------ non-vacuity and the code before the repairs *)

(** names used by the examples: "temp", "sub", "b.sql", "a.sql", "x.hql", "d.sql" *)
Definition n_temp : str := [116;101;109;112].
Definition n_sub : str := [115;117;98].
Definition n_bsql : str := [98;46;115;113;108].
Definition n_asql : str := [97;46;115;113;108].
Definition n_xhql : str := [120;46;104;113;108].
Definition n_dsql : str := [100;46;115;113;108].
Definition ext_sql : str := [46;115;113;108].
Definition ext_hql : str := [46;104;113;108].
(** the README ignore file: "# ignore ALL .hql files" / "*.hql" / "" / "# ..." / "temp/" *)
Definition readme_lines : list str := [[35;32;105]; [42;46;104;113;108]; []; [35;32;105]; [116;101;109;112;47]].
Definition readme_tree : tree :=
  [ {| e_path := [n_asql]; e_dir := false |}; {| e_path := [n_temp]; e_dir := true |};
    {| e_path := [n_temp; n_bsql]; e_dir := false |}; {| e_path := [n_sub]; e_dir := true |};
    {| e_path := [n_sub; n_temp]; e_dir := true |}; {| e_path := [n_sub; n_temp; n_bsql]; e_dir := false |};
    {| e_path := [n_sub; n_xhql]; e_dir := false |} ].

Example readme_parses : parse_lines readme_lines =
  [ {| p_neg := false; p_dir := false; p_comps := [CDStar; CGlob [GStar; GLit 46; GLit 104; GLit 113; GLit 108]] |};
    dir_pat n_temp ].
Proof. vm_compute. reflexivity. Qed.

Example gi_dir_pattern_nonvacuous :
  parse_lines readme_lines = [hd (dir_pat []) (parse_lines readme_lines)] ++ dir_pat n_temp :: [] /\ no_neg [] = true /\
  gi_ignored (parse_lines readme_lines) ([n_sub] ++ n_temp :: [n_bsql]) false = true /\
  gi_ignored (parse_lines readme_lines) [n_asql] false = false.
Proof. vm_compute. repeat split; auto. Qed.

Example gi_dir_line_nonvacuous :
  readme_lines = firstn 4 readme_lines ++ (n_temp ++ [47]) :: [] /\ plain_name n_temp = true /\ no_neg (parse_lines []) = true.
Proof. vm_compute. repeat split; reflexivity. Qed.

(** where the two walks differ: "temp/" then "!b.sql" — gitignore keeps temp/b.sql ignored *)
Lemma nearest_differs :
  exists ps path, gi_ignored ps path false = true /\ gi_nearest ps path false = false.
Proof.
  exists (parse_lines [[116;101;109;112;47]; [33;98;46;115;113;108]]), [n_temp; n_bsql]. vm_compute. split; reflexivity.
Qed.

Example linted_readme :
  linted readme_tree [ext_sql; ext_hql] (parse_lines readme_lines) [ {| a_pfx := Dot; a_path := [] |} ]
  = Some [(Rel, [n_asql])].
Proof. vm_compute. reflexivity. Qed.

Example linted_overlap :
  linted readme_tree [ext_sql] [] [ {| a_pfx := Dot; a_path := [] |}; {| a_pfx := Dot; a_path := [n_asql] |};
                                   {| a_pfx := Rel; a_path := [n_sub] |}; {| a_pfx := Rel; a_path := [n_sub; n_xhql] |} ]
  = Some [(Rel, [n_asql]); (Rel, [n_sub; n_temp; n_bsql]); (Rel, [n_temp; n_bsql]); (Rel, [n_sub; n_xhql])].
Proof. vm_compute. reflexivity. Qed.

(** Before a094b5b: "temp/" did not exclude temp/b.sql (the pattern list was matched against the file only). *)
Lemma legacy_refuted_dir_pattern :
  exists t exts lines args outs p,
    linted_legacy t exts (parse_lines lines) args = Some outs /\ In p (map snd outs) /\
    gi_ignored (parse_lines lines) p false = true.
Proof.
  exists readme_tree, [ext_sql; ext_hql], readme_lines, [ {| a_pfx := Dot; a_path := [] |} ].
  eexists. exists [n_temp; n_bsql]. split; [vm_compute; reflexivity|]. split; [cbn; auto | vm_compute; reflexivity].
Qed.

(** Before cbbae86: a file reached through two arguments was processed twice. *)
Lemma legacy_refuted_once :
  exists t exts args outs, linted_legacy t exts [] args = Some outs /\ ~ NoDup (map snd outs).
Proof.
  exists [ {| e_path := [n_asql]; e_dir := false |} ], [ext_sql],
         [ {| a_pfx := Dot; a_path := [] |}; {| a_pfx := Dot; a_path := [n_asql] |} ].
  eexists. split; [vm_compute; reflexivity|]. cbn. intro H. inversion H as [|x l Hn Hd]. apply Hn. now left.
Qed.

(** Before 9fb14d1: a directory named like a sql file was a candidate and the run aborted. *)
Lemma legacy_refuted_dir_candidate :
  exists t exts args, (forall a, In a (effective_args args) -> lookup t (a_path a) <> None) /\
                      linted_legacy t exts [] args = None.
Proof.
  exists [ {| e_path := [n_dsql]; e_dir := true |}; {| e_path := [n_asql]; e_dir := false |} ], [ext_sql],
         [ {| a_pfx := Dot; a_path := [] |} ].
  split; [|vm_compute; reflexivity]. intros a [<-|[]]. cbn. discriminate.
Qed.

(** Before the fourth repair: an extension configured in upper case matched no file at all. *)
Definition n_aSQL : str := [97;46;83;81;76].
Definition ext_SQL : str := [46;83;81;76].
Lemma legacy_refuted_ext_case :
  exists t exts args, has_ext exts n_aSQL = true /\ ends_with (hd [] exts) n_aSQL = true /\
                      linted_legacy t exts [] args = Some [] /\
                      linted t exts [] args = Some [(Rel, [n_aSQL])].
Proof.
  exists [ {| e_path := [n_aSQL]; e_dir := false |} ], [ext_SQL], [ {| a_pfx := Dot; a_path := [] |} ].
  vm_compute. repeat split; reflexivity.
Qed.

(* ------------------------------------------------------------------ further non-vacuity examples *)

Example written_example :
  written (fun o => path_eqb (snd o) [n_asql]) [(Rel, [n_asql]); (Rel, [n_bsql])] = [(Rel, [n_asql]); (Rel, [n_bsql])] /\
  written (fun _ => false) [(Rel, [n_asql]); (Rel, [n_bsql])] = [].
Proof. vm_compute. split; reflexivity. Qed.

Example gi_glob_pattern_nonvacuous :
  parse_lines readme_lines = [] ++ {| p_neg := false; p_dir := false; p_comps := [CDStar; CGlob [GStar; GLit 46; GLit 104; GLit 113; GLit 108]] |} :: [dir_pat n_temp] /\
  no_neg [dir_pat n_temp] = true /\
  cmatch [GStar; GLit 46; GLit 104; GLit 113; GLit 108] n_xhql = true /\
  gi_ignored (parse_lines readme_lines) ([n_sub] ++ [n_xhql]) false = true.
Proof. vm_compute. repeat split; auto. Qed.

(** negation: last match wins at one level, so a later "!a.sql" line re-includes that file *)
Example negation_example :
  let ps := parse_lines [[42;46;115;113;108]; [33;97;46;115;113;108]] (* "*.sql", "!a.sql" *) in
  gi_ignored ps [n_asql] false = false /\ gi_ignored ps [n_bsql] false = true /\ no_neg ps = false.
Proof. vm_compute. repeat split; reflexivity. Qed.

Example total_example :
  (forall a, In a (effective_args []) -> lookup readme_tree (a_path a) <> None) /\
  lookup readme_tree [n_xhql] = None /\
  linted readme_tree [ext_sql] [] [ {| a_pfx := Rel; a_path := [n_xhql] |} ] = None.
Proof. split; [|vm_compute; split; reflexivity]. intros a [<-|[]]. cbn. discriminate. Qed.
