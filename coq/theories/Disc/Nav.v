(** Disc/Nav.v — C19: path arguments as they are *written* ("..", ".", absolute, from a working directory
    that is nested inside the tree) and the lexical normalisation [helpers::normalize]
    (crates/lib-core/src/helpers.rs) that [Linter::paths_from_path] applies to every discovered file.

    [Disc.Model] abstracts a path argument to (spelling class, location below the working directory) and the
    normalisation to [norm_pfx] ("./" is dropped). Here the argument is the list of components the user typed,
    the working directory is any directory of the tree, and [normalize] is the stack loop of the code.
    Executable definitions only. *)
From Sq Require Import Base.Bytes Disc.Model.

(* ------------------------------------------------------------------ 1. written paths *)

(** [std::path::Component] on Unix: [CurDir], [ParentDir], [Normal]; [RootDir] is the flag [r_abs]. *)
Inductive comp := CCur | CPar | CName (s : str).
Record rpath := { r_abs : bool; r_comps : list comp }.

(** What may sit on the stack of [normalize]: the loop never pushes a [CurDir] ("Drop CurDir components, do
    not even push onto the stack"), so the arm [Component::CurDir => unreachable!()] has no counterpart. *)
Inductive scomp := SPar | SName (s : str).
Definition comp_of (c : scomp) : comp := match c with SPar => CPar | SName s => CName s end.

(** One iteration of "for component in p.components()"; the stack is kept top first. [abs]: the bottom of
    the stack is the [RootDir] (it is the top exactly when nothing else is on the stack). *)
Definition norm_step (abs : bool) (st : list scomp) (c : comp) : list scomp :=
  match c with
  | CCur => st                                   (* Component::CurDir => {} *)
  | CName s => SName s :: st                     (* _ => stack.push(component) *)
  | CPar =>
      match st with
      | [] => if abs then [] else [SPar]         (* Some(RootDir) => {}  |  None => stack.push(component) *)
      | SPar :: _ => SPar :: st                  (* Some(ParentDir) => stack.push(component) *)
      | SName _ :: st' => st'                    (* Some(Normal(_)) => stack.pop() *)
      end
  end.

Definition norm_stack (p : rpath) : list scomp := fold_left (norm_step (r_abs p)) (r_comps p) [].

(** "If an empty PathBuf would be return, instead return CurDir ('.')" *)
Definition normalize (p : rpath) : rpath :=
  let cs := map comp_of (rev (norm_stack p)) in
  {| r_abs := r_abs p; r_comps := if is_empty cs && negb (r_abs p) then [CCur] else cs |}.

(** The change seeded as C19-6: a [ParentDir] on top of the stack is popped like a [Normal]. *)
Definition norm_step_cancel (abs : bool) (st : list scomp) (c : comp) : list scomp :=
  match c with
  | CCur => st
  | CName s => SName s :: st
  | CPar => match st with [] => if abs then [] else [SPar] | _ :: st' => st' end
  end.
Definition normalize_cancel (p : rpath) : rpath :=
  let cs := map comp_of (rev (fold_left (norm_step_cancel (r_abs p)) (r_comps p) [])) in
  {| r_abs := r_abs p; r_comps := if is_empty cs && negb (r_abs p) then [CCur] else cs |}.

(** What a written path denotes (no symbolic links; every directory it passes through exists): a location
    as the list of names from the filesystem root. [base] is the working directory. The location is kept
    innermost name first while walking. *)
Definition sem_step (loc : list str) (c : comp) : list str :=
  match c with CCur => loc | CPar => tl loc | CName s => s :: loc end.
Definition resolve (base : list str) (p : rpath) : list str :=
  rev (fold_left sem_step (r_comps p) (if r_abs p then [] else rev base)).

(** [Path::join] with a relative path of names *)
Definition rp_join (p : rpath) (l : list str) : rpath :=
  {| r_abs := r_abs p; r_comps := r_comps p ++ map CName l |}.

Definition comp_eqb (a b : comp) : bool :=
  match a, b with
  | CCur, CCur | CPar, CPar => true
  | CName s, CName u => str_eqb s u
  | _, _ => false
  end.
Definition rpath_eqb (a b : rpath) : bool := Bool.eqb (r_abs a) (r_abs b) && list_eqb comp_eqb (r_comps a) (r_comps b).

(* ------------------------------------------------------------------ 2. discovery from a nested working directory *)

(** [R]: where the tree of [Disc.Model] sits in the filesystem; [w]: the working directory below it.
    A reported file: the name under which it is reported and read, and the location that name denotes. *)
Definition rout := (rpath * list str)%type.

Fixpoint under (r loc : list str) : option (list str) :=
  match r, loc with
  | [], _ => Some loc
  | x :: r', y :: loc' => if str_eqb x y then under r' loc' else None
  | _ :: _, [] => None
  end.

(** One iteration of the expansion loop of [lint_paths] for a written argument. A file is taken verbatim;
    below a directory WalkDir yields "<argument as written>/<names>", the extension test and the set are those of
    [Disc.Model.paths_from_dir], and every hit is passed through [normalize]; the normalised name is what is
    reported, read and (in fix mode) written. [None]: the argument does not exist (panic) or lies outside [R]. *)
Definition expand_nav (R w : list str) (t : tree) (exts : list str) (p : rpath) : option (list rout) :=
  match under R (resolve (R ++ w) p) with
  | None => None
  | Some loc =>
      match lookup t loc with
      | None => None
      | Some false => Some [(p, R ++ loc)]
      | Some true =>
          Some (map (fun o => let sp := normalize (rp_join p (skipn (length loc) (snd o))) in
                              (sp, resolve (R ++ w) sp))
                    (paths_from_dir t exts Rel loc))
      end
  end.

Fixpoint expand_all_nav (R w : list str) (t : tree) (exts : list str) (args : list rpath) : option (list rout) :=
  match args with
  | [] => Some []
  | a :: args' =>
      match expand_nav R w t exts a, expand_all_nav R w t exts args' with
      | Some l, Some r => Some (l ++ r)
      | _, _ => None
      end
  end.

(** "if paths.is_empty() { paths.push(current_dir()) }" *)
Definition effective_nav (R w : list str) (args : list rpath) : list rpath :=
  match args with [] => [{| r_abs := true; r_comps := map CName (R ++ w) |}] | _ => args end.

Definition loc_eqb (a b : rout) : bool := path_eqb (snd a) (snd b).

(** The ignore file lies in the working directory: its patterns are relative to it, files outside it are
    not matched by it (gitignore). *)
Definition ignored_nav (R w : list str) (pats : list pat) (loc : list str) : bool :=
  match under (R ++ w) loc with Some rel => gi_ignored pats rel false | None => false end.

Definition linted_nav (R w : list str) (t : tree) (exts : list str) (pats : list pat) (args : list rpath) : option (list rout) :=
  match expand_all_nav R w t exts (effective_nav R w args) with
  | None => None
  | Some l => Some (filter (fun o => negb (ignored_nav R w pats (snd o))) (nub loc_eqb l))
  end.
