(** The two parser shortcuts of [longest_match] (C13): the parse cache and first-token pruning.

    Mirrors crates/lib-core/src/parser/match_algorithms.rs [prune_options] (64-107) and
    [longest_match] (109-190), and context.rs [check_parse_cache]/[put_parse_cache].
    What an option's [match_segments] returns, what its [simple] hint is, and whether one of the
    active terminators matches after a candidate are oracles (Section variables in the proofs,
    recorded values in the correspondence).  Only what [longest_match] itself inspects of a
    [MatchResult] is kept: its length, [has_match], its end index; the rest is an opaque tag. *)
From Sq Require Import Base.Bytes.

Record mres := { m_len : N; m_has : bool; m_end : N; m_tag : N }.
Definition mres_eqb (a b : mres) : bool :=
  (m_len a =? m_len b) && Bool.eqb (m_has a) (m_has b) && (m_end a =? m_end b) && (m_tag a =? m_tag b).
(** [MatchResult::empty_at(idx)] *)
Definition empty_at (idx : N) : mres := {| m_len := 0; m_has := false; m_end := idx; m_tag := 0 |}.

(** the parse cache: [(loc_key, matcher cache_key) -> MatchResult] *)
Definition cache := list (N * N * mres).
Fixpoint lookup (c : cache) (loc key : N) : option mres :=
  match c with
  | [] => None
  | (l, k, r) :: c' => if (l =? loc) && (k =? key) then Some r else lookup c' loc key
  end.
Definition insert (c : cache) (loc key : N) (r : mres) : cache := (loc, key, r) :: c.

(** first-token hint of an option: [None] = not simple; raws and syntax kinds otherwise *)
Definition hint := (list N * list N)%type.
Fixpoint mem_N (x : N) (l : list N) : bool := match l with [] => false | y :: l' => (x =? y) || mem_N x l' end.
Definition intersects (a b : list N) : bool := existsb (fun x => mem_N x b) a.
(** [prune_options] keeps an option iff it is not simple, or the first code token's upper-cased raw
    is among its raws, or the token's class types intersect its types.  [tok = None]: there is no
    code token after [idx], every option is kept. *)
Definition keep (tok : option (N * list N)) (h : option hint) : bool :=
  match tok with
  | None => true
  | Some (raw, types) =>
      match h with
      | None => true
      | Some (raws, tys) => mem_N raw raws || intersects types tys
      end
  end.

Section LongestMatch.
  Variable matcher : Type.
  Variable key_of : matcher -> N.                       (* [cache_key()] *)
  Variable simple_of : matcher -> option hint.          (* [simple(parse_context, None)] *)
  (** [matcher.match_segments(segments, idx, parse_context)]: it may itself call [longest_match],
      so it threads the cache *)
  Variable mfn : matcher -> cache -> mres * cache.
  (** after a strictly better candidate that is not the last option, when terminators are active:
      "next code index is the end of the segments, or one of the terminators matches there" *)
  Variable probe : mres -> cache -> bool * cache.

  Variable use_cache : bool.    (* false = hook "check_parse_cache always misses" *)
  Variable use_prune : bool.    (* false = hook "prune_options returns all options" *)

  Definition eval (loc : N) (m : matcher) (c : cache) : mres * cache :=
    match (if use_cache then lookup c loc (key_of m) else None) with
    | Some r => (r, c)
    | None => let rc := mfn m c in (fst rc, insert (snd rc) loc (key_of m) (fst rc))
    end.

  Definition best_t := (mres * option matcher)%type.

  Fixpoint lm_loop (loc max_idx : N) (has_terms : bool) (opts : list matcher) (best : best_t) (c : cache)
    : best_t * cache :=
    match opts with
    | [] => (best, c)
    | m :: rest =>
        let rc := eval loc m c in
        let r := fst rc in
        let c1 := snd rc in
        if m_has r && (m_end r =? max_idx) then ((r, Some m), c1)          (* full-length match: return *)
        else if m_len (fst best) <? m_len r then                              (* is_better_than *)
          match rest with
          | [] => ((r, Some m), c1)                                           (* last option: break *)
          | _ :: _ =>
              if has_terms then
                let pc := probe r c1 in
                if fst pc then ((r, Some m), snd pc) else lm_loop loc max_idx has_terms rest (r, Some m) (snd pc)
              else lm_loop loc max_idx has_terms rest (r, Some m) c1
          end
        else lm_loop loc max_idx has_terms rest best c1
    end.

  Definition prune (tok : option (N * list N)) (opts : list matcher) : list matcher :=
    if use_prune then filter (fun m => keep tok (simple_of m)) opts else opts.

  (** [longest_match(segments, matchers, idx, parse_context)]; [loc] is the interned [loc_key] of
      the token at [idx], [tok] the first code token at or after [idx] *)
  Definition longest_match (idx max_idx loc : N) (tok : option (N * list N)) (has_terms : bool)
             (opts : list matcher) (c : cache) : best_t * cache :=
    match opts with
    | [] => ((empty_at idx, None), c)
    | _ :: _ =>
        if idx =? max_idx then ((empty_at idx, None), c)
        else
          match prune tok opts with
          | [] => ((empty_at idx, None), c)
          | avail => lm_loop loc max_idx has_terms avail (empty_at idx, None) c
          end
    end.
End LongestMatch.

(** static side condition on a dumped grammar: among the nodes that can be options of
    [longest_match], equal cache keys imply the same behaviour class *)
Fixpoint keys_inj_b (l : list (N * N)) : bool :=
  match l with
  | [] => true
  | ck :: l' => forallb (fun ck' => negb (snd ck' =? snd ck) || (fst ck' =? fst ck)) l' && keys_inj_b l'
  end.
