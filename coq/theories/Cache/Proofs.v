(** C13: the parse cache and first-token pruning do not change what [longest_match] returns. *)
From Sq Require Import Base.Bytes Cache.Model.

Section Transparency.
  Variable matcher : Type.
  Variable key_of : matcher -> N.
  Variable simple_of : matcher -> option hint.
  (** oracles, one family member per location (= per [loc_key], i.e. per token position and slice end) *)
  Variable mfn_at : N -> matcher -> cache -> mres * cache.
  Variable probe_at : N -> mres -> cache -> bool * cache.
  (** the reference answers: what an option with a given cache key matches at a location, and
      whether the terminator probe after a candidate says stop *)
  Variable pure : N -> N -> mres.
  Variable probe_pure : N -> mres -> bool.

  (** every cache entry is the reference answer at its key *)
  Definition Inv (c : cache) : Prop := forall loc key r, lookup c loc key = Some r -> r = pure loc key.

  (** H_key_inj + H_ctx: the result of matching an option at a location is a function of
      (loc_key, cache_key) alone - not of the option's identity beyond its key (key injectivity,
      discharged statically on the dumped graphs: [keys_inj_b]) and not of the terminators active
      in the context (context determinism; monitored, diagnostic) - and the nested calls keep the
      cache consistent. *)
  Hypothesis H_mfn : forall loc m c, Inv c -> fst (mfn_at loc m c) = pure loc (key_of m) /\ Inv (snd (mfn_at loc m c)).
  Hypothesis H_probe : forall loc r c, Inv c -> fst (probe_at loc r c) = probe_pure loc r /\ Inv (snd (probe_at loc r c)).

  Lemma Inv_nil : Inv [].
  Proof. intros loc key r H. discriminate. Qed.

  Lemma Inv_insert c l k r : Inv c -> r = pure l k -> Inv (insert c l k r).
  Proof.
    intros Hc Hr loc key r' H. unfold insert in H. cbn [lookup] in H.
    destruct ((l =? loc) && (k =? key)) eqn:E.
    - apply andb_true_iff in E. destruct E as [E1 E2]. apply N.eqb_eq in E1, E2. subst. injection H as <-. reflexivity.
    - apply Hc. exact H.
  Qed.

  Lemma eval_spec uc loc m c :
    Inv c -> fst (eval matcher key_of (mfn_at loc) uc loc m c) = pure loc (key_of m)
             /\ Inv (snd (eval matcher key_of (mfn_at loc) uc loc m c)).
  Proof.
    intros Hc. unfold eval.
    destruct (if uc then lookup c loc (key_of m) else None) as [r|] eqn:E.
    - destruct uc; [|discriminate]. cbn [fst snd]. split; [apply Hc; exact E|exact Hc].
    - destruct (H_mfn loc m c Hc) as [H1 H2]. cbn [fst snd]. split; [exact H1|].
      apply Inv_insert; assumption.
  Qed.

  (** the loop of [longest_match] without any cache *)
  Fixpoint lm_pure (loc max_idx : N) (has_terms : bool) (opts : list matcher) (best : best_t matcher) : best_t matcher :=
    match opts with
    | [] => best
    | m :: rest =>
        let r := pure loc (key_of m) in
        if m_has r && (m_end r =? max_idx) then (r, Some m)
        else if m_len (fst best) <? m_len r then
          match rest with
          | [] => (r, Some m)
          | _ :: _ =>
              if has_terms then (if probe_pure loc r then (r, Some m) else lm_pure loc max_idx has_terms rest (r, Some m))
              else lm_pure loc max_idx has_terms rest (r, Some m)
          end
        else lm_pure loc max_idx has_terms rest best
    end.

  Lemma loop_refines uc loc max_idx has_terms : forall opts best c,
    Inv c ->
    fst (lm_loop matcher key_of (mfn_at loc) (probe_at loc) uc loc max_idx has_terms opts best c)
      = lm_pure loc max_idx has_terms opts best
    /\ Inv (snd (lm_loop matcher key_of (mfn_at loc) (probe_at loc) uc loc max_idx has_terms opts best c)).
  Proof.
    induction opts as [|m rest IH]; intros best c Hc; cbn [lm_loop lm_pure].
    - cbn [fst snd]. split; [reflexivity|exact Hc].
    - destruct (eval_spec uc loc m c Hc) as [He Hi].
      set (rc := eval matcher key_of (mfn_at loc) uc loc m c) in *.
      rewrite He.
      destruct (m_has (pure loc (key_of m)) && (m_end (pure loc (key_of m)) =? max_idx)).
      + cbn [fst snd]. split; [reflexivity|exact Hi].
      + destruct (m_len (fst best) <? m_len (pure loc (key_of m))).
        * destruct rest as [|m' rest'].
          -- cbn [fst snd]. split; [reflexivity|exact Hi].
          -- destruct has_terms.
             ++ destruct (H_probe loc (pure loc (key_of m)) (snd rc) Hi) as [Hp Hpi].
                rewrite Hp. destruct (probe_pure loc (pure loc (key_of m))).
                ** cbn [fst snd]. split; [reflexivity|exact Hpi].
                ** apply IH. exact Hpi.
             ++ apply IH. exact Hi.
        * apply IH. exact Hi.
  Qed.

  (** ** pruning *)
  Variable tok_at : N -> option (N * list N).
  (** H_simple_sound: an option whose hint excludes the first code token matches nothing there *)
  Hypothesis H_simple_sound : forall loc m,
    keep (tok_at loc) (simple_of m) = false ->
    m_has (pure loc (key_of m)) = false /\ m_len (pure loc (key_of m)) = 0.

  Lemma lm_pure_all_pruned loc max_idx has_terms : forall opts best,
    (forall m, In m opts -> keep (tok_at loc) (simple_of m) = false) ->
    lm_pure loc max_idx has_terms opts best = best.
  Proof.
    induction opts as [|m rest IH]; intros best H; cbn [lm_pure]; [reflexivity|].
    destruct (H_simple_sound loc m (H m (or_introl eq_refl))) as [Hh Hl].
    rewrite Hh, Hl. cbn [andb].
    assert (Hlt : (m_len (fst best) <? 0) = false) by (apply N.ltb_ge; apply N.le_0_l).
    rewrite Hlt. apply IH. intros m' Hm'. apply H. right. exact Hm'.
  Qed.

  Lemma lm_pure_filter loc max_idx has_terms : forall opts best,
    lm_pure loc max_idx has_terms (filter (fun m => keep (tok_at loc) (simple_of m)) opts) best
    = lm_pure loc max_idx has_terms opts best.
  Proof.
    induction opts as [|m rest IH]; intros best; [reflexivity|].
    cbn [filter]. destruct (keep (tok_at loc) (simple_of m)) eqn:Ek.
    - cbn [lm_pure].
      destruct (m_has (pure loc (key_of m)) && (m_end (pure loc (key_of m)) =? max_idx)); [reflexivity|].
      destruct (m_len (fst best) <? m_len (pure loc (key_of m))); [|apply IH].
      destruct (filter (fun m0 => keep (tok_at loc) (simple_of m0)) rest) as [|f fs] eqn:Ef.
      + (* everything after [m] is pruned *)
        assert (Hall : forall m', In m' rest -> keep (tok_at loc) (simple_of m') = false).
        { intros m' Hm'. destruct (keep (tok_at loc) (simple_of m')) eqn:E'; [|reflexivity].
          assert (Hin : In m' (filter (fun m0 => keep (tok_at loc) (simple_of m0)) rest)) by (apply filter_In; split; assumption).
          rewrite Ef in Hin. destruct Hin. }
        destruct rest as [|m' rest']; [reflexivity|].
        rewrite (lm_pure_all_pruned loc max_idx has_terms (m' :: rest') _ Hall).
        destruct has_terms; [destruct (probe_pure loc (pure loc (key_of m)))|]; reflexivity.
      + destruct rest as [|m' rest']; [discriminate|].
        rewrite !IH. reflexivity.
    - rewrite IH. cbn [lm_pure].
      destruct (H_simple_sound loc m Ek) as [Hh Hl]. rewrite Hh, Hl. cbn [andb].
      assert (Hlt : (m_len (fst best) <? 0) = false) by (apply N.ltb_ge; apply N.le_0_l).
      rewrite Hlt. reflexivity.
  Qed.

  (** [longest_match] with any setting of the two switches computes the cache-free, prune-free answer *)
  Definition lm_spec (idx max_idx loc : N) (has_terms : bool) (opts : list matcher) : best_t matcher :=
    match opts with
    | [] => (empty_at idx, None)
    | _ :: _ => if idx =? max_idx then (empty_at idx, None) else lm_pure loc max_idx has_terms opts (empty_at idx, None)
    end.

  Theorem longest_match_spec uc up idx max_idx loc has_terms opts c :
    Inv c ->
    fst (longest_match matcher key_of simple_of (mfn_at loc) (probe_at loc) uc up idx max_idx loc (tok_at loc) has_terms opts c)
      = lm_spec idx max_idx loc has_terms opts
    /\ Inv (snd (longest_match matcher key_of simple_of (mfn_at loc) (probe_at loc) uc up idx max_idx loc (tok_at loc) has_terms opts c)).
  Proof.
    intros Hc. unfold longest_match, lm_spec.
    destruct opts as [|m0 rest0]; [cbn [fst snd]; split; [reflexivity|exact Hc]|].
    destruct (idx =? max_idx); [cbn [fst snd]; split; [reflexivity|exact Hc]|].
    unfold prune. destruct up.
    - rewrite <- (lm_pure_filter loc max_idx has_terms (m0 :: rest0) (empty_at idx, None)).
      destruct (filter (fun m => keep (tok_at loc) (simple_of m)) (m0 :: rest0)) as [|a avail] eqn:Ef.
      + cbn [fst snd lm_pure]. split; [reflexivity|exact Hc].
      + apply loop_refines. exact Hc.
    - apply loop_refines. exact Hc.
  Qed.

  (** C13 for one call: the four switch settings agree, from any consistent caches *)
  Theorem shortcuts_transparent uc up uc' up' idx max_idx loc has_terms opts c c' :
    Inv c -> Inv c' ->
    fst (longest_match matcher key_of simple_of (mfn_at loc) (probe_at loc) uc up idx max_idx loc (tok_at loc) has_terms opts c)
    = fst (longest_match matcher key_of simple_of (mfn_at loc) (probe_at loc) uc' up' idx max_idx loc (tok_at loc) has_terms opts c').
  Proof.
    intros Hc Hc'.
    rewrite (proj1 (longest_match_spec uc up idx max_idx loc has_terms opts c Hc)).
    rewrite (proj1 (longest_match_spec uc' up' idx max_idx loc has_terms opts c' Hc')). reflexivity.
  Qed.

  (** ** any sequence of calls sharing one cache (a whole parse) *)
  Record call := { k_idx : N; k_max : N; k_loc : N; k_terms : bool; k_opts : list matcher }.
  Fixpoint run (uc up : bool) (calls : list call) (c : cache) : list (best_t matcher) :=
    match calls with
    | [] => []
    | k :: ks =>
        let rc := longest_match matcher key_of simple_of (mfn_at (k_loc k)) (probe_at (k_loc k)) uc up
                                (k_idx k) (k_max k) (k_loc k) (tok_at (k_loc k)) (k_terms k) (k_opts k) c in
        fst rc :: run uc up ks (snd rc)
    end.

  Lemma run_spec uc up : forall calls c, Inv c ->
    run uc up calls c = map (fun k => lm_spec (k_idx k) (k_max k) (k_loc k) (k_terms k) (k_opts k)) calls.
  Proof.
    induction calls as [|k ks IH]; intros c Hc; [reflexivity|].
    cbn [run map].
    destruct (longest_match_spec uc up (k_idx k) (k_max k) (k_loc k) (k_terms k) (k_opts k) c Hc) as [H1 H2].
    rewrite H1. f_equal. apply IH. exact H2.
  Qed.

  Theorem run_transparent uc up uc' up' calls : run uc up calls [] = run uc' up' calls [].
  Proof. rewrite (run_spec uc up calls [] Inv_nil), (run_spec uc' up' calls [] Inv_nil). reflexivity. Qed.
End Transparency.

(** ** the static key check *)
Lemma keys_inj_sound l : keys_inj_b l = true ->
  forall c1 c2 k, In (c1, k) l -> In (c2, k) l -> c1 = c2.
Proof.
  induction l as [|[c k0] l IH]; intros H c1 c2 k H1 H2; [destruct H1|].
  cbn [keys_inj_b] in H. apply andb_true_iff in H. destruct H as [Hhd Htl].
  rewrite forallb_forall in Hhd.
  assert (Hsame : forall c', In (c', k0) l -> c' = c).
  { intros c' Hin. specialize (Hhd _ Hin). cbn [fst snd] in Hhd.
    rewrite N.eqb_refl in Hhd. cbn [negb orb] in Hhd. apply N.eqb_eq. exact Hhd. }
  destruct H1 as [E1|H1]; destruct H2 as [E2|H2].
  - congruence.
  - inversion E1; subst. symmetry. apply Hsame. exact H2.
  - inversion E2; subst. apply Hsame. exact H1.
  - exact (IH Htl c1 c2 k H1 H2).
Qed.

(** ** Non-vacuity: a concrete instance where the hypotheses hold and the shortcuts matter *)
Definition ex_key (m : N) : N := m.
Definition ex_simple (m : N) : option hint :=
  if m =? 1 then Some ([10], []) else if m =? 2 then Some ([20], []) else None.
(** option 1 matches 3 tokens when the first token is 10, option 2 matches when it is 20,
    option 3 (not simple) matches 1 token *)
Definition ex_pure (loc key : N) : mres :=
  if (key =? 1) && (loc =? 10) then {| m_len := 3; m_has := true; m_end := 3; m_tag := 1 |}
  else if (key =? 2) && (loc =? 20) then {| m_len := 2; m_has := true; m_end := 2; m_tag := 2 |}
  else if key =? 3 then {| m_len := 1; m_has := true; m_end := 1; m_tag := 3 |}
  else empty_at 0.
Definition ex_mfn (loc m : N) (c : cache) : mres * cache := (ex_pure loc m, c).
Definition ex_probe (loc : N) (r : mres) (c : cache) : bool * cache := (false, c).
Definition ex_tok (loc : N) : option (N * list N) := Some (loc, []).

Example ex_hyps :
  (forall loc m c, Inv ex_pure c -> fst (ex_mfn loc m c) = ex_pure loc (ex_key m) /\ Inv ex_pure (snd (ex_mfn loc m c)))
  /\ (forall loc m, keep (ex_tok loc) (ex_simple m) = false ->
        m_has (ex_pure loc (ex_key m)) = false /\ m_len (ex_pure loc (ex_key m)) = 0).
Proof.
  split.
  - intros loc m c Hc. split; [reflexivity|exact Hc].
  - intros loc m. unfold keep, ex_tok, ex_simple, ex_pure, ex_key.
    destruct (m =? 1) eqn:E1; [apply N.eqb_eq in E1; subst m|].
    + cbn. destruct (loc =? 10); cbn; [discriminate|intros _; split; reflexivity].
    + destruct (m =? 2) eqn:E2; [apply N.eqb_eq in E2; subst m|discriminate].
      cbn. destruct (loc =? 20); cbn; [discriminate|intros _; split; reflexivity].
Qed.
Example ex_run :
  run N ex_key ex_simple ex_mfn ex_probe ex_tok true true
      [ {| k_idx := 0; k_max := 9; k_loc := 10; k_terms := true; k_opts := [3; 2; 1] |};
        {| k_idx := 0; k_max := 9; k_loc := 10; k_terms := true; k_opts := [1; 3] |};
        {| k_idx := 0; k_max := 9; k_loc := 20; k_terms := false; k_opts := [1; 2; 3] |} ] []
  = [ (ex_pure 10 1, Some 1); (ex_pure 10 1, Some 1); (ex_pure 20 2, Some 2) ].
Proof. vm_compute. reflexivity. Qed.
