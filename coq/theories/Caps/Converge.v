(** Convergence of the [consistent] capitalisation policy over repeated crawls.
    - basic option list (CP01, CP03, CP04): after one crawl a second crawl reports nothing and
      changes nothing ([basic_consistent_one_pass], from the empty memory and from every memory
      a crawl can be in, [wf]); false for an arbitrary (unreachable) memory
      ([basic_one_pass_any_memory_refuted]);
    - extended option list (CP02, CP05): one crawl is not enough (Proofs.consistent_one_pass_refuted)
      but the result of the second crawl is stable ([extended_consistent_two_pass]). *)
From Sq Require Import Base.Bytes Caps.Model Caps.Proofs.

(* ------------------------------------------------------------------ strings *)
Lemma is_lo_up b : is_lo (up b) = false.  Proof. bytes b. Qed.

Lemma fll_upper s : first_letter_lower (upper s) = false.
Proof.
  induction s as [|c r IH]; cbn; [reflexivity|].
  destruct (is_alpha (up c)); [apply is_lo_up|exact IH].
Qed.

(* ------------------------------------------------------------------ memories *)
(** pascal is an option of the extended list only *)
Definition pas_ok (n : pname) (m : memory) : bool :=
  match n with Basic => true | Extended => m_pas m end.

Lemma all_refuted_eq n m : all_refuted n m = m_up m && m_lo m && m_cap m && pas_ok n m.
Proof. destruct n; cbn; destruct (m_up m), (m_lo m), (m_cap m), (m_pas m); reflexivity. Qed.

(** [pre n L m]: some option is still possible in [m], [L] is the first possible one and the
    recorded latest case, and the flags have the shape the refutation rules force on them
    (a token refutes either upper+capitalise+pascal or lower). *)
Definition pre (n : pname) (L : ccase) (m : memory) : Prop :=
  match L with
  | Upper => m_up m = false
  | Lower => m_up m = true /\ m_lo m = false /\ m_cap m = true /\ pas_ok n m = true
             /\ m_latest m = Some Lower
  | Capitalise => m_up m = true /\ m_lo m = true /\ m_cap m = false /\ pas_ok n m = true
                  /\ m_latest m = Some Capitalise
  | Pascal => n = Extended /\ m_up m = true /\ m_lo m = true /\ m_pas m = false
              /\ m_latest m = Some Pascal
  end.

(** the memories a crawl can be in: every option refuted (any latest case), or [pre] for the
    latest case (default upper) *)
Definition wf (n : pname) (m : memory) : Prop :=
  all_refuted n m = true \/ pre n (latest_or_upper m) m.

Lemma wf_mem0 n : wf n mem0.
Proof. right. reflexivity. Qed.

Lemma refute_shape m raw :
  m_lo (refute m raw) = false ->
  m_up (refute m raw) = true /\ m_cap (refute m raw) = true /\ m_pas (refute m raw) = true.
Proof. unfold refute. destruct (first_letter_lower raw); cbn; intro H; [auto|discriminate]. Qed.

Lemma filter_nil_all_refuted n m :
  filter (fun c => negb (refuted m c)) (opts n) = [] -> all_refuted n m = true.
Proof.
  unfold all_refuted. induction (opts n) as [|c l IH]; cbn; [reflexivity|].
  destruct (refuted m c); cbn; [exact IH|discriminate].
Qed.

(** a visited token that leaves some option possible leaves the memory in [pre] *)
Lemma step_pre n m raw c cs :
  filter (fun c => negb (refuted (refute m raw) c)) (opts n) = c :: cs ->
  pre n c (with_latest (refute m raw) c).
Proof.
  intro Fl. pose proof (refute_shape m raw) as S.
  destruct (refute m raw) as [u l ca p la]. cbn in S.
  destruct n, u, l, ca, p; cbn in Fl; inversion Fl; subst; cbn;
    try (destruct (S eq_refl) as (? & ? & ?); discriminate); repeat split; reflexivity.
Qed.

Lemma latest_with_latest m c : latest_or_upper (with_latest m c) = c.
Proof. reflexivity. Qed.

(** [wf] is an invariant of the crawl *)
Lemma wf_step n ig m t m' r :
  wf n m -> eval_tok n Consistent ig m t = (m', r) -> wf n m'.
Proof.
  intros W E. unfold eval_tok in E. destruct (mem (lower (fst t)) ig); [inversion E; subst; exact W|].
  unfold handle in E. destruct (is_empty (fst t) || snd t); [inversion E; subst; exact W|].
  destruct (filter (fun c => negb (refuted (refute m (fst t)) c)) (opts n)) as [|c cs] eqn:Fl.
  - left. apply filter_nil_all_refuted in Fl.
    destruct (str_eqb _ _); inversion E; subst; exact Fl.
  - inversion E; subst. right. rewrite latest_with_latest. eapply step_pre. exact Fl.
Qed.

(** memory at the end of a crawl *)
Definition mem_after (n : pname) (p : policy) (ig : list str) (m : memory) (ts : list (str * bool)) : memory :=
  fold_left (fun m t => fst (eval_tok n p ig m t)) ts m.

Lemma wf_reachable n ig ts : forall m, wf n m -> wf n (mem_after n Consistent ig m ts).
Proof.
  induction ts as [|t ts IH]; intros m W; cbn; [exact W|].
  apply IH. destruct (eval_tok n Consistent ig m t) as [m' r] eqn:E. cbn. eapply wf_step; eassumption.
Qed.

(** [wf] covers the empty memory and is kept by every step of a crawl *)
Lemma wf_invariant n ig :
  wf n mem0 /\ forall ts m, wf n m -> wf n (mem_after n Consistent ig m ts).
Proof. split; [apply wf_mem0|apply wf_reachable]. Qed.

(* ------------------------------------------------------------------ tokens a crawl leaves alone *)
(** a token that a crawl whose verdict is [L] does not touch: skipped (ignored word, empty,
    templated) or already in the shape of [L] *)
Definition stable_tok (L : ccase) (ig : list str) (t : str * bool) : Prop :=
  mem (lower (fst t)) ig = true \/ is_empty (fst t) || snd t = true \/ apply L (fst t) = fst t.

(** once every option is refuted, the crawl leaves only such tokens behind *)
Lemma frozen_stable n ig ts : forall m out k,
  all_refuted n m = true ->
  pass_from n Consistent ig m ts = (out, k) ->
  Forall (stable_tok (latest_or_upper m) ig) out.
Proof.
  induction ts as [|t ts IH]; intros m out k F H; cbn in H.
  - inversion H; subst. constructor.
  - destruct (eval_tok n Consistent ig m t) as [m' r] eqn:E.
    destruct (pass_from n Consistent ig m' ts) as [out' k'] eqn:P.
    unfold eval_tok in E. destruct (mem (lower (fst t)) ig) eqn:I.
    + inversion E; subst. inversion H; subst. constructor; [left; exact I|]. eapply IH; eassumption.
    + destruct (is_empty (fst t) || snd t) eqn:G.
      * unfold handle in E. rewrite G in E. inversion E; subst. inversion H; subst.
        constructor; [right; left; exact G|]. eapply IH; eassumption.
      * rewrite (consistent_frozen n m (fst t) (snd t) G F) in E.
        fold (latest_or_upper m) in E. unfold handle in E. rewrite G in E.
        assert (F' : all_refuted n (refute m (fst t)) = true) by (apply all_refuted_refute; exact F).
        assert (L' : latest_or_upper (refute m (fst t)) = latest_or_upper m)
          by (unfold latest_or_upper; rewrite refute_latest; reflexivity).
        destruct (str_eqb (apply (latest_or_upper m) (fst t)) (fst t)) eqn:Q;
          inversion E; subst; inversion H; subst.
        -- constructor; [right; right; apply str_eqb_eq; exact Q|]. rewrite <- L'. eapply IH; eassumption.
        -- constructor; [right; right; cbn [fst]; apply apply_idem|]. rewrite <- L'. eapply IH; eassumption.
Qed.

(** the memories from which a crawl over [L]-shaped tokens stays silent: verdict frozen on [L],
    or [L] (not pascal) first possible with the forced shape *)
Definition quiet (n : pname) (L : ccase) (m : memory) : Prop :=
  (all_refuted n m = true /\ latest_or_upper m = L) \/ (L <> Pascal /\ pre n L m).

Lemma quiet_step n L m s tf :
  is_empty s || tf = false -> apply L s = s -> quiet n L m ->
  exists m', handle n Consistent m s tf = (m', None) /\ quiet n L m'.
Proof.
  intros G A [[F E]|[NP P]].
  - rewrite (consistent_frozen n m s tf G F). fold (latest_or_upper m). rewrite E.
    unfold handle. rewrite G, A, str_eqb_refl. eexists; split; [reflexivity|].
    left. split; [apply all_refuted_refute; exact F|].
    unfold latest_or_upper. rewrite refute_latest. exact E.
  - destruct m as [u l ca p la]. destruct L; [| | |congruence]; cbn in P, A.
    + (* upper: an upper-case token never refutes upper *)
      subst u. assert (FL : first_letter_lower s = false) by (rewrite <- A; apply fll_upper).
      unfold handle. rewrite G. unfold refute. rewrite FL. cbn [m_up m_lo m_cap m_pas m_latest].
      rewrite A, str_eqb_refl. cbn [negb orb].
      destruct n; cbn; (eexists; split; [reflexivity|]); right; (split; [discriminate|reflexivity]).
    + (* lower *)
      destruct P as (-> & -> & -> & Pk & ->).
      unfold handle. rewrite G. unfold refute. cbn [m_up m_lo m_cap m_pas m_latest].
      destruct (first_letter_lower s).
      * rewrite A, str_eqb_refl. cbn [negb orb].
        destruct n; cbn; (eexists; split; [reflexivity|]); right; (split; [discriminate|]); cbn; auto.
      * cbn [orb]. destruct n; cbn in Pk |- *; subst; cbn; rewrite ?A, ?str_eqb_refl;
          (eexists; split; [reflexivity|]); left; split; reflexivity.
    + (* capitalise *)
      destruct P as (-> & -> & -> & Pk & ->).
      unfold handle. rewrite G. unfold refute. cbn [m_up m_lo m_cap m_pas m_latest].
      destruct (first_letter_lower s).
      * cbn [orb]. destruct n; cbn in Pk |- *; subst; cbn; rewrite ?A, ?str_eqb_refl;
          (eexists; split; [reflexivity|]); left; split; reflexivity.
      * rewrite A, str_eqb_refl. cbn [negb orb].
        destruct n; cbn in Pk |- *; subst; cbn;
          (eexists; split; [reflexivity|]); right; (split; [discriminate|]); cbn; auto.
Qed.

(** a crawl over tokens already in the shape of [L], from a quiet memory, reports nothing *)
Lemma stable_silent n ig L out : forall m,
  Forall (stable_tok L ig) out -> quiet n L m ->
  pass_from n Consistent ig m out = (out, 0).
Proof.
  induction out as [|t out IH]; intros m S Q; [reflexivity|].
  inversion S as [|? ? St S']; subst. cbn [pass_from]. unfold eval_tok.
  destruct (mem (lower (fst t)) ig) eqn:I; [rewrite (IH _ S' Q); reflexivity|].
  destruct (is_empty (fst t) || snd t) eqn:G.
  - unfold handle. rewrite G. rewrite (IH _ S' Q). reflexivity.
  - destruct St as [St|[St|St]]; [congruence|congruence|].
    destruct (quiet_step n L m (fst t) (snd t) G St Q) as (m' & Hh & Q').
    rewrite Hh. rewrite (IH _ S' Q'). reflexivity.
Qed.

(** once every option is refuted, one crawl is enough *)
Lemma frozen_one_pass n ig ts m out k :
  all_refuted n m = true ->
  pass_from n Consistent ig m ts = (out, k) ->
  pass_from n Consistent ig m out = (out, 0).
Proof.
  intros F H. eapply stable_silent.
  - eapply frozen_stable; eassumption.
  - left. split; [exact F|reflexivity].
Qed.

(* ------------------------------------------------------------------ the shape of one crawl *)
(** What one crawl from a well-formed memory leaves behind, as an induction principle: any
    property [PX] of (memory, remaining output) that holds (a) when a further crawl from that
    memory is silent on the output, (b) when the memory has pascal as its first possible and
    latest case and the output is pascal-shaped, and (c) is inherited through a token the
    crawl leaves alone, holds of the crawl's output. *)
Lemma crawl_shape n ig (PX : memory -> list (str * bool) -> Prop) :
  (forall m xs, pass_from n Consistent ig m xs = (xs, 0) -> PX m xs) ->
  (forall m xs, pre n Pascal m -> Forall (stable_tok Pascal ig) xs -> PX m xs) ->
  (forall m m' t xs, eval_tok n Consistent ig m t = (m', None) -> PX m' xs -> PX m (t :: xs)) ->
  forall ts m out k,
    wf n m -> pass_from n Consistent ig m ts = (out, k) -> PX m out.
Proof.
  intros HS HP HC. induction ts as [|t ts IH]; intros m out k W H.
  - cbn in H. inversion H; subst. apply HS. reflexivity.
  - destruct W as [AR|PR]; [apply HS; eapply frozen_one_pass; eassumption|].
    cbn in H.
    destruct (eval_tok n Consistent ig m t) as [m' r] eqn:E.
    destruct (pass_from n Consistent ig m' ts) as [out' k'] eqn:P.
    pose proof E as E0. unfold eval_tok in E. destruct (mem (lower (fst t)) ig) eqn:I.
    { inversion E; subst. inversion H; subst. eapply HC; [exact E0|].
      eapply IH; [right; exact PR|exact P]. }
    unfold handle in E. destruct (is_empty (fst t) || snd t) eqn:G.
    { inversion E; subst. inversion H; subst. eapply HC; [exact E0|].
      eapply IH; [right; exact PR|exact P]. }
    destruct (filter (fun c => negb (refuted (refute m (fst t)) c)) (opts n)) as [|c cs] eqn:Fl.
    + (* every option refuted by this token: the rest of the output is in the shape of the latest case *)
      pose proof (filter_nil_all_refuted _ _ Fl) as F.
      fold (latest_or_upper (refute m (fst t))) in E.
      assert (L' : latest_or_upper (refute m (fst t)) = latest_or_upper m)
        by (unfold latest_or_upper; rewrite refute_latest; reflexivity).
      rewrite L' in E.
      assert (ST : Forall (stable_tok (latest_or_upper m) ig) out).
      { destruct (str_eqb (apply (latest_or_upper m) (fst t)) (fst t)) eqn:Q;
          inversion E; subst; inversion H; subst; constructor.
        - right; right. apply str_eqb_eq. exact Q.
        - rewrite <- L'. eapply frozen_stable; eassumption.
        - right; right. cbn [fst]. apply apply_idem.
        - rewrite <- L'. eapply frozen_stable; eassumption. }
      destruct (latest_or_upper m) eqn:EL.
      * apply HS. eapply stable_silent; [exact ST|]. right. split; [discriminate|exact PR].
      * apply HS. eapply stable_silent; [exact ST|]. right. split; [discriminate|exact PR].
      * apply HS. eapply stable_silent; [exact ST|]. right. split; [discriminate|exact PR].
      * apply HP; [exact PR|exact ST].
    + inversion E; subst. inversion H; subst. eapply HC; [exact E0|].
      eapply IH; [|exact P]. right. rewrite latest_with_latest. eapply step_pre. exact Fl.
Qed.

(* ------------------------------------------------------------------ basic option list *)
(** CP01/CP03/CP04 (option list upper, lower, capitalise), policy consistent: after one crawl
    over any token sequence, from any memory a crawl can be in, a second crawl from the same
    memory reports nothing and changes nothing. *)
Theorem basic_consistent_one_pass_from ig ts m out k :
  wf Basic m ->
  pass_from Basic Consistent ig m ts = (out, k) ->
  pass_from Basic Consistent ig m out = (out, 0).
Proof.
  intros W H.
  apply (crawl_shape Basic ig (fun m xs => pass_from Basic Consistent ig m xs = (xs, 0))) with (ts := ts) (k := k);
    try assumption.
  - intros ? ? Hx. exact Hx.
  - intros ? ? (Hn & _). discriminate.
  - intros m0 m1 t xs E Hx. cbn [pass_from]. rewrite E, Hx. reflexivity.
Qed.

(** ... in particular for real crawls, which start from the empty memory *)
Theorem basic_consistent_one_pass ig ts out k :
  pass Basic Consistent ig ts = (out, k) ->
  pass Basic Consistent ig out = (out, 0).
Proof. apply basic_consistent_one_pass_from. apply wf_mem0. Qed.

(** ... and after any crawled prefix *)
Theorem basic_consistent_one_pass_reachable ig ts0 ts out k :
  let m := mem_after Basic Consistent ig mem0 ts0 in
  pass_from Basic Consistent ig m ts = (out, k) ->
  pass_from Basic Consistent ig m out = (out, 0).
Proof. cbn zeta. apply basic_consistent_one_pass_from. apply wf_reachable. apply wf_mem0. Qed.

(** It does not hold from an arbitrary memory (one no crawl can produce: upper refuted and
    capitalise still possible, yet latest case upper): tokens a, Cd -- the first crawl gives
    A, CD; in the second A leaves capitalise possible and CD is rewritten to Cd. *)
Definition odd_memory : memory :=
  {| m_up := true; m_lo := true; m_cap := false; m_pas := false; m_latest := Some Upper |}.
Lemma basic_one_pass_any_memory_refuted :
  exists m ts, let out := fst (pass_from Basic Consistent [] m ts) in
               snd (pass_from Basic Consistent [] m out) <> 0.
Proof. exists odd_memory, [tok [97]; tok [67;100]]. vm_compute. discriminate. Qed.

(** Nor may the two crawls start from different memories: a first crawl continuing after the
    prefix ab, AB (verdict frozen on lower) over +, AB gives +, ab; a crawl of that from the
    empty memory sees + first (upper stays possible) and rewrites ab to AB. (Real crawls all
    start from the empty memory; this only delimits the statement above.) *)
Lemma basic_one_pass_restart_refuted :
  exists ts0 ts, let m := mem_after Basic Consistent [] mem0 ts0 in
                 let out := fst (pass_from Basic Consistent [] m ts) in
                 snd (pass Basic Consistent [] out) <> 0.
Proof. exists [tok [97;98]; tok [65;66]], [tok [43]; tok [65;66]]. vm_compute. discriminate. Qed.

(* ------------------------------------------------------------------ extended option list *)
(** with pascal already refuted the extended list behaves as the basic one *)
Lemma handle_ext_basic m raw t :
  m_pas m = true ->
  handle Extended Consistent m raw t = handle Basic Consistent m raw t
  /\ m_pas (fst (handle Basic Consistent m raw t)) = true.
Proof.
  intro Pm. unfold handle. destruct (is_empty raw || t); [split; [reflexivity|exact Pm]|].
  assert (R : m_pas (refute m raw) = true) by (apply (refute_monotone m raw Pascal); exact Pm).
  cbn [opts filter refuted]. rewrite R. cbn [negb].
  destruct (refute m raw) as [u l ca p la]. cbn in R. subst p. cbn.
  destruct u, l, ca; cbn; try (split; reflexivity);
    destruct (str_eqb _ _); split; reflexivity.
Qed.

Lemma pass_ext_basic ig ts : forall m,
  m_pas m = true ->
  pass_from Extended Consistent ig m ts = pass_from Basic Consistent ig m ts.
Proof.
  induction ts as [|t ts IH]; intros m Pm; [reflexivity|].
  cbn [pass_from]. unfold eval_tok. destruct (mem (lower (fst t)) ig).
  - rewrite (IH _ Pm). reflexivity.
  - destruct (handle_ext_basic m (fst t) (snd t) Pm) as [E Pm']. rewrite E.
    destruct (handle Basic Consistent m (fst t) (snd t)) as [m' r]. cbn in Pm'.
    rewrite (IH _ Pm'). reflexivity.
Qed.

(** the second crawl over pascal-shaped tokens, started with pascal first possible: whatever
    it produces, a third crawl leaves alone *)
Lemma pascal_second_pass ig xs : forall m ys k,
  pre Extended Pascal m -> Forall (stable_tok Pascal ig) xs ->
  pass_from Extended Consistent ig m xs = (ys, k) ->
  pass_from Extended Consistent ig m ys = (ys, 0).
Proof.
  induction xs as [|t xs IH]; intros m ys k PR S H.
  - cbn in H. inversion H; subst. reflexivity.
  - inversion S as [|? ? St S']; subst. cbn in H.
    destruct (eval_tok Extended Consistent ig m t) as [m' r] eqn:E.
    destruct (pass_from Extended Consistent ig m' xs) as [ys' k'] eqn:P.
    pose proof E as E0. unfold eval_tok in E. destruct (mem (lower (fst t)) ig) eqn:I.
    { inversion E; subst. inversion H; subst. cbn [pass_from]. rewrite E0.
      rewrite (IH _ _ _ PR S' P). reflexivity. }
    unfold handle in E. destruct (is_empty (fst t) || snd t) eqn:G.
    { inversion E; subst. inversion H; subst. cbn [pass_from]. rewrite E0.
      rewrite (IH _ _ _ PR S' P). reflexivity. }
    destruct St as [St|[St|St]]; [congruence|congruence|]. cbn in St.
    destruct m as [u l ca p la]. destruct PR as (_ & Hu & Hl & Hp & Hla). cbn in Hu, Hl, Hp, Hla. subst.
    unfold refute in E. cbn [m_up m_lo m_cap m_pas m_latest] in E.
    destruct (first_letter_lower (fst t)).
    + (* refutes upper, capitalise, pascal; lower was refuted: verdict frozen on pascal *)
      cbn in E. rewrite St, str_eqb_refl in E. inversion E; subst. inversion H; subst.
      cbn [pass_from]. rewrite E0.
      erewrite frozen_one_pass; [reflexivity| |exact P]. reflexivity.
    + cbn [orb] in E.
      destruct (negb (forallb is_alnum (fst t))) eqn:NA.
      * destruct (ca || negb (str_eqb (fst t) (capitalize (fst t)))) eqn:CA.
        -- (* pascal and capitalise both refuted: verdict frozen on pascal *)
           cbn in E. rewrite St, str_eqb_refl in E. inversion E; subst. inversion H; subst.
           cbn [pass_from]. rewrite E0.
           erewrite frozen_one_pass; [reflexivity| |exact P]. reflexivity.
        -- (* pascal refuted, capitalise possible: from here on the basic list's behaviour *)
           cbn in E. inversion E; subst. inversion H; subst.
           cbn [pass_from]. rewrite E0.
           rewrite pass_ext_basic in P |- * by reflexivity.
           erewrite basic_consistent_one_pass_from; [reflexivity| |exact P].
           right. cbn. repeat split; reflexivity.
      * (* pascal still possible *)
        cbn in E. inversion E; subst. inversion H; subst.
        cbn [pass_from]. rewrite E0.
        erewrite IH; [reflexivity| |exact S'|exact P].
        cbn. repeat split; reflexivity.
Qed.

(** CP02/CP05 (option list upper, lower, pascal, capitalise), policy consistent: the result of
    the second crawl is stable -- a third crawl reports nothing and changes nothing. *)
Theorem extended_consistent_two_pass_from ig ts m o1 k1 o2 k2 :
  wf Extended m ->
  pass_from Extended Consistent ig m ts = (o1, k1) ->
  pass_from Extended Consistent ig m o1 = (o2, k2) ->
  pass_from Extended Consistent ig m o2 = (o2, 0).
Proof.
  intros W H1. revert o2 k2.
  apply (crawl_shape Extended ig
           (fun m xs => forall o2 k2, pass_from Extended Consistent ig m xs = (o2, k2) ->
                                      pass_from Extended Consistent ig m o2 = (o2, 0)))
    with (ts := ts) (k := k1); try assumption.
  - intros m0 xs Hx o2 k2 H2. rewrite Hx in H2. inversion H2; subst. exact Hx.
  - intros m0 xs PR S o2 k2 H2. eapply pascal_second_pass; eassumption.
  - intros m0 m1 t xs E Hx o2 k2 H2. cbn [pass_from] in H2. rewrite E in H2.
    destruct (pass_from Extended Consistent ig m1 xs) as [o2' k2'] eqn:P2.
    inversion H2; subst. cbn [pass_from]. rewrite E, (Hx _ _ eq_refl). reflexivity.
Qed.

Theorem extended_consistent_two_pass ig ts :
  let o1 := fst (pass Extended Consistent ig ts) in
  let o2 := fst (pass Extended Consistent ig o1) in
  pass Extended Consistent ig o2 = (o2, 0).
Proof.
  cbn zeta. unfold pass.
  destruct (pass_from Extended Consistent ig mem0 ts) as [o1 k1] eqn:H1. cbn [fst].
  destruct (pass_from Extended Consistent ig mem0 o1) as [o2 k2] eqn:H2. cbn [fst].
  eapply extended_consistent_two_pass_from; [apply wf_mem0|exact H1|exact H2].
Qed.

(** Both statements in one, for either option list: three crawls (what the fix loop runs for
    post-phase rules) always end on a text that a further crawl leaves alone. *)
Theorem consistent_two_pass_from n ig ts m o1 k1 o2 k2 :
  wf n m ->
  pass_from n Consistent ig m ts = (o1, k1) ->
  pass_from n Consistent ig m o1 = (o2, k2) ->
  pass_from n Consistent ig m o2 = (o2, 0).
Proof.
  destruct n.
  - intros W H1 H2. pose proof (basic_consistent_one_pass_from ig ts m o1 k1 W H1) as Hs.
    rewrite Hs in H2. inversion H2; subst. exact Hs.
  - apply extended_consistent_two_pass_from.
Qed.

(* ------------------------------------------------------------------ non-vacuity *)
(** select, FROM, Where, +, and : one reporting crawl, then silence (basic list) *)
Example basic_one_pass_nonvacuous :
  let ts := [tok [115;101;108;101;99;116]; tok [70;82;79;77]; tok [87;104;101;114;101]; tok [43]; tok [97;110;100]] in
  pass Basic Consistent [] ts
  = ([tok [115;101;108;101;99;116]; tok [102;114;111;109]; tok [119;104;101;114;101]; tok [43]; tok [97;110;100]], 2)
  /\ pass Basic Consistent [] (fst (pass Basic Consistent [] ts)) = (fst (pass Basic Consistent [] ts), 0).
Proof. vm_compute. split; reflexivity. Qed.

(** a well-formed memory other than the empty one, with a reporting crawl from it:
    after Ab the memory has capitalise as latest case; then aB, _cd *)
Example basic_from_nonvacuous :
  let m := mem_after Basic Consistent [] mem0 [tok [65;98]] in
  wf Basic m /\ m <> mem0
  /\ pass_from Basic Consistent [] m [tok [97;66]; tok [95;99;100]] = ([tok [65;98]; tok [95;99;100]], 1).
Proof.
  cbn zeta. split; [apply wf_reachable; apply wf_mem0|]. split; [vm_compute; discriminate|].
  vm_compute. reflexivity.
Qed.

(** extended list: Ab, a_, AB needs its second crawl (1 report, then 1 report, then 0) *)
Example extended_two_pass_nonvacuous :
  let ts := [tok [65;98]; tok [97;95]; tok [65;66]] in
  let o1 := fst (pass Extended Consistent [] ts) in
  snd (pass Extended Consistent [] ts) = 1 /\ snd (pass Extended Consistent [] o1) = 1
  /\ pass Extended Consistent [] (fst (pass Extended Consistent [] o1)) = (fst (pass Extended Consistent [] o1), 0).
Proof. vm_compute. repeat split; reflexivity. Qed.
