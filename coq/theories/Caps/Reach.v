(** "Reaches the policy", on the model: the trace of a crawl (the calls the recorder sees) determines
    the crawl; after a crawl under a concrete policy every token that the ignore list does not
    exempt, that is not empty and not templated, is written in the case of the policy; the
    ignore list exempts exactly the words on it (compared in lower case). *)
From Sq Require Import Base.Bytes Caps.Model Caps.Proofs.
From Coq Require Import List NArith Bool Lia.
Import ListNotations.
Local Open Scope N_scope.

(** the trace has one entry per token, and the crawl is its trace applied to the tokens *)
Lemma trace_length n p ig ts : forall m, length (trace_from n p ig m ts) = length ts.
Proof.
  induction ts as [|t ts IH]; intros m; cbn [trace_from]; [reflexivity|].
  destruct (mem (lower (fst t)) ig).
  - cbn [length]. now rewrite IH.
  - destruct (handle n p m (fst t) (snd t)) as [m' r]. cbn [length]. now rewrite IH.
Qed.

Theorem pass_is_trace n p ig ts : forall m,
  pass_from n p ig m ts =
    (apply_trace ts (trace_from n p ig m ts),
     N.of_nat (length (filter reported (trace_from n p ig m ts)))).
Proof.
  induction ts as [|t ts IH]; intros m; cbn [pass_from trace_from]; [reflexivity|].
  unfold eval_tok. destruct (mem (lower (fst t)) ig).
  - rewrite IH. cbn [apply_trace apply_entry filter reported]. reflexivity.
  - destruct (handle n p m (fst t) (snd t)) as [m' r]. rewrite IH.
    destruct r as [f|]; cbn [apply_trace apply_entry filter reported length]; [|reflexivity].
    f_equal. lia.
Qed.

(** a word that is not on the ignore list (in lower case) is always submitted to [handle_segment] *)
Theorem not_ignored_is_called n p ig m t ts :
  mem (lower (fst t)) ig = false ->
  exists r m', handle n p m (fst t) (snd t) = (m', r)
    /\ trace_from n p ig m (t :: ts) = Some (fst t, r) :: trace_from n p ig m' ts.
Proof.
  intros I. cbn [trace_from]. rewrite I.
  destruct (handle n p m (fst t) (snd t)) as [m' r]. eauto.
Qed.

(** and a word on the list never is *)
Theorem ignored_is_skipped n p ig m t ts :
  mem (lower (fst t)) ig = true ->
  trace_from n p ig m (t :: ts) = None :: trace_from n p ig m ts.
Proof. intros I. cbn [trace_from]. now rewrite I. Qed.

(** the token is in the case [c] already, or the policy does not apply to it *)
Definition settled (c : ccase) (ig : list str) (t : str * bool) : Prop :=
  mem (lower (fst t)) ig = true \/ is_empty (fst t) || snd t = true \/ apply c (fst t) = fst t.

Theorem concrete_pass_reaches n c ig ts : forall m out k,
  pass_from n (Concrete c) ig m ts = (out, k) -> Forall (settled c ig) out.
Proof.
  induction ts as [|t ts IH]; intros m out k H; cbn in H.
  - inversion H; subst. constructor.
  - destruct (eval_tok n (Concrete c) ig m t) as [m' r] eqn:E.
    destruct (pass_from n (Concrete c) ig m' ts) as [out' k'] eqn:P.
    specialize (IH _ _ _ P).
    destruct t as [raw tf]. unfold eval_tok in E. cbn [fst snd] in E.
    destruct (mem (lower raw) ig) eqn:I.
    + inversion E; subst. inversion H; subst. constructor; [|exact IH]. left. exact I.
    + unfold handle in E. destruct (is_empty raw || tf) eqn:G.
      * inversion E; subst. inversion H; subst. constructor; [|exact IH]. right; left. exact G.
      * destruct (str_eqb (apply c raw) raw) eqn:Q; inversion E; subst; inversion H; subst;
          (constructor; [|exact IH]); right; right; cbn [fst].
        -- apply str_eqb_eq. exact Q.
        -- apply apply_idem.
Qed.

(** the same for the crawl a [consistent] policy has frozen to: all fixes of one crawl re-case to one
    case (Proofs.consistent_single_case); here only the concrete statement is needed. *)

(* ------------------------------------------------------------------ non-vacuity *)
Definition s (l : list N) : str := l.
(* tokens "id", "user_id", "Width" under upper with ignore list ["id"]: "id" is skipped, the two
   others are called and fixed *)
Example reach_nonvacuous :
  let ts := [(s [105;100], false); (s [117;115;101;114;95;105;100], false); (s [87;105;100;116;104], false)] in
  let ig := [s [105;100]] in
  pass Basic (Concrete Upper) ig ts
    = ([(s [105;100], false); (s [85;83;69;82;95;73;68], false); (s [87;73;68;84;72], false)], 2)
  /\ calls_of (trace Basic (Concrete Upper) ig ts)
    = [(s [117;115;101;114;95;105;100], Some (s [85;83;69;82;95;73;68])); (s [87;105;100;116;104], Some (s [87;73;68;84;72]))]
  /\ Forall (settled Upper ig) (fst (pass Basic (Concrete Upper) ig ts)).
Proof.
  cbv zeta. split; [vm_compute; reflexivity|]. split; [vm_compute; reflexivity|].
  match goal with |- Forall (settled _ ?ig) (fst (pass _ _ _ ?ts)) =>
    apply (concrete_pass_reaches Basic Upper ig ts mem0 _ (snd (pass Basic (Concrete Upper) ig ts))) end.
  unfold pass. apply surjective_pairing.
Qed.
