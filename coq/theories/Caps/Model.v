(** Executable model of [handle_segment] of crates/lib/src/rules/capitalisation/cp01.rs
    (shared by CP01..CP05) on ASCII tokens, of the [ignore_words] guard of [RuleCP01::eval],
    and of one crawl ("pass") over a token sequence with the rule memory threaded through.
    Definitions only; proofs are in Proofs.v. *)
From Sq Require Export Base.Bytes.

(* ------------------------------------------------------------------ ASCII case *)
Definition is_up (b : N) : bool := (65 <=? b) && (b <=? 90).
Definition is_lo (b : N) : bool := (97 <=? b) && (b <=? 122).
Definition is_digit (b : N) : bool := (48 <=? b) && (b <=? 57).
Definition is_alpha (b : N) : bool := is_up b || is_lo b.
Definition is_alnum (b : N) : bool := is_alpha b || is_digit b.
Definition up (b : N) : N := if is_lo b then b - 32 else b.
Definition lo (b : N) : N := if is_up b then b + 32 else b.

Definition upper (s : str) : str := map up s.                 (* str::to_uppercase *)
Definition lower (s : str) : str := map lo s.                 (* str::to_lowercase *)
(** helpers::capitalize, and the inline
    [to_uppercase().chars().next().unwrap() + raw[1..].to_lowercase()] *)
Definition capitalize (s : str) : str :=
  match s with [] => [] | c :: r => up c :: lower r end.
(** the regex rewrite of the pascal policy (non-alphanumeric run or start, one alphanumeric,
    alphanumeric run; the single alphanumeric is upper-cased) as a scan:
    upper-case every alphanumeric that starts the string or follows a non-alphanumeric *)
Fixpoint pascal_from (prev_alnum : bool) (s : str) : str :=
  match s with
  | [] => []
  | c :: r => (if is_alnum c && negb prev_alnum then up c else c) :: pascal_from (is_alnum c) r
  end.
Definition pascal (s : str) : str := pascal_from false s.

Inductive ccase := Upper | Lower | Capitalise | Pascal.
Definition apply (c : ccase) (s : str) : str :=
  match c with
  | Upper => upper s | Lower => lower s | Capitalise => capitalize s | Pascal => pascal s
  end.

(* ------------------------------------------------------------------ memory *)
(** RefutedCases (a set over the four names) and LatestPossibleCase *)
Record memory := { m_up : bool; m_lo : bool; m_cap : bool; m_pas : bool; m_latest : option ccase }.
Definition mem0 : memory := {| m_up := false; m_lo := false; m_cap := false; m_pas := false; m_latest := None |}.
Definition refuted (m : memory) (c : ccase) : bool :=
  match c with Upper => m_up m | Lower => m_lo m | Capitalise => m_cap m | Pascal => m_pas m end.

(** first cased letter of the token is lower case ([false] when there is none) *)
Fixpoint first_letter_lower (s : str) : bool :=
  match s with
  | [] => false
  | c :: r => if is_alpha c then is_lo c else first_letter_lower r
  end.

Definition refute (m : memory) (raw : str) : memory :=
  if first_letter_lower raw then
    {| m_up := true; m_cap := true; m_pas := true;
       m_lo := m_lo m || negb (str_eqb raw (lower raw)); m_latest := m_latest m |}
  else
    {| m_lo := true;
       m_up := m_up m || negb (str_eqb raw (upper raw));
       m_cap := m_cap m || negb (str_eqb raw (capitalize raw));
       m_pas := m_pas m || negb (forallb is_alnum raw);
       m_latest := m_latest m |}.

(* ------------------------------------------------------------------ handle_segment *)
Inductive policy := Consistent | Concrete (c : ccase) | OtherPolicy.
(** cap_policy_name: "capitalisation_policy" / "extended_capitalisation_policy" *)
Inductive pname := Basic | Extended.
Definition opts (n : pname) : list ccase :=
  match n with Basic => [Upper; Lower; Capitalise] | Extended => [Upper; Lower; Pascal; Capitalise] end.

Definition with_latest (m : memory) (c : ccase) : memory :=
  {| m_up := m_up m; m_lo := m_lo m; m_cap := m_cap m; m_pas := m_pas m; m_latest := Some c |}.

(** result: the new memory and [Some fixed_raw] when a violation (with its fix) is reported *)
Definition handle (n : pname) (p : policy) (m : memory) (raw : str) (templated : bool) : memory * option str :=
  if is_empty raw || templated then (m, None)
  else
    let m1 := refute m raw in
    let fix_with (c : option ccase) :=
      let fixed := match c with Some c => apply c raw | None => raw end in
      if str_eqb fixed raw then (m1, None) else (m1, Some fixed) in
    match p with
    | Consistent =>
        match filter (fun c => negb (refuted m1 c)) (opts n) with
        | c :: _ => (with_latest m1 c, None)
        | [] => fix_with (Some (match m_latest m1 with Some c => c | None => Upper end))
        end
    | Concrete c => fix_with (Some c)
    | OtherPolicy => fix_with None
    end.

(* ------------------------------------------------------------------ eval guard and one crawl *)
(** [RuleCP01::eval]: a token whose lower-cased text is in [ignore_words] is skipped
    (memory untouched). Tokens are (raw, templated). *)
Definition eval_tok (n : pname) (p : policy) (ignore : list str) (m : memory) (t : str * bool) : memory * option str :=
  if mem (lower (fst t)) ignore then (m, None) else handle n p m (fst t) (snd t).

(** one crawl: memory threaded in visiting order; every reported token is replaced by its fix
    (fixes are applied after the crawl, so later tokens are judged on the original text) *)
Fixpoint pass_from (n : pname) (p : policy) (ignore : list str) (m : memory) (ts : list (str * bool))
  : list (str * bool) * N :=
  match ts with
  | [] => ([], 0)
  | t :: ts' =>
      let '(m', r) := eval_tok n p ignore m t in
      let '(out, k) := pass_from n p ignore m' ts' in
      match r with
      | Some f => ((f, snd t) :: out, k + 1)
      | None => (t :: out, k)
      end
  end.
Definition pass (n : pname) (p : policy) (ignore : list str) (ts : list (str * bool)) :=
  pass_from n p ignore mem0 ts.

(** the same crawl as a trace: per token, [None] when the [ignore_words] guard of [RuleCP01::eval]
    skips it, otherwise the call of [handle_segment] that is made (its raw text and its result).
    This is what the recorder in cp01.rs sees of one crawl. *)
Fixpoint trace_from (n : pname) (p : policy) (ignore : list str) (m : memory) (ts : list (str * bool))
  : list (option (str * option str)) :=
  match ts with
  | [] => []
  | t :: ts' =>
      if mem (lower (fst t)) ignore then None :: trace_from n p ignore m ts'
      else
        let '(m', r) := handle n p m (fst t) (snd t) in
        Some (fst t, r) :: trace_from n p ignore m' ts'
  end.
Definition trace (n : pname) (p : policy) (ignore : list str) (ts : list (str * bool)) :=
  trace_from n p ignore mem0 ts.
(** the calls of a trace, in order *)
Fixpoint calls_of (tr : list (option (str * option str))) : list (str * option str) :=
  match tr with
  | [] => []
  | None :: r => calls_of r
  | Some c :: r => c :: calls_of r
  end.
(** a token with the verdict of its trace entry applied *)
Definition apply_entry (t : str * bool) (e : option (str * option str)) : str * bool :=
  match e with
  | Some (_, Some f) => (f, snd t)
  | _ => t
  end.
Fixpoint apply_trace (ts : list (str * bool)) (tr : list (option (str * option str))) : list (str * bool) :=
  match ts, tr with
  | t :: ts', e :: tr' => apply_entry t e :: apply_trace ts' tr'
  | _, _ => ts
  end.
Definition reported (e : option (str * option str)) : bool :=
  match e with Some (_, Some _) => true | _ => false end.
