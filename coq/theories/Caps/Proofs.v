(** Proofs about the capitalisation model: a fix changes nothing but ASCII letter case, the four
    concrete policies are idempotent (so a second crawl reports and changes nothing), a crawl
    under any policy keeps every token up to case; the one-crawl convergence of [consistent]
    is refuted for the extended option list (it needs a second crawl). *)
From Sq Require Import Base.Bytes Caps.Model.

(* ------------------------------------------------------------------ strings *)
Lemma str_eqb_refl s : str_eqb s s = true.
Proof. induction s as [|x s IH]; cbn; [reflexivity|]. rewrite N.eqb_refl, IH. reflexivity. Qed.

Lemma str_eqb_eq a b : str_eqb a b = true <-> a = b.
Proof.
  revert b; induction a as [|x a IH]; intros [|y b]; cbn; split; intro H; try congruence; try reflexivity.
  - apply andb_true_iff in H as [H1 H2]. apply N.eqb_eq in H1. apply IH in H2. congruence.
  - inversion H; subst. rewrite N.eqb_refl. cbn. apply IH. reflexivity.
Qed.

(* ------------------------------------------------------------------ bytes *)
Ltac bytes b :=
  unfold up, lo, is_alnum, is_alpha, is_digit, is_up, is_lo;
  destruct (N.leb_spec 97 b), (N.leb_spec b 122), (N.leb_spec 65 b), (N.leb_spec b 90),
           (N.leb_spec 48 b), (N.leb_spec b 57); cbn [andb orb negb]; try lia;
  repeat match goal with
         | |- context [N.leb ?x ?y] => destruct (N.leb_spec x y); cbn [andb orb negb]; try lia
         end; try reflexivity; try lia.

Lemma lo_up b : lo (up b) = lo b.      Proof. bytes b. Qed.
Lemma lo_lo b : lo (lo b) = lo b.      Proof. bytes b. Qed.
Lemma up_up b : up (up b) = up b.      Proof. bytes b. Qed.
Lemma is_alnum_up b : is_alnum (up b) = is_alnum b.  Proof. bytes b. Qed.

Lemma lower_upper s : lower (upper s) = lower s.
Proof. unfold lower, upper. rewrite map_map. apply map_ext. exact lo_up. Qed.
Lemma lower_lower s : lower (lower s) = lower s.
Proof. unfold lower. rewrite map_map. apply map_ext. exact lo_lo. Qed.
Lemma upper_upper s : upper (upper s) = upper s.
Proof. unfold upper. rewrite map_map. apply map_ext. exact up_up. Qed.

Lemma lower_pascal_from s : forall prev, lower (pascal_from prev s) = lower s.
Proof.
  induction s as [|c r IH]; intro prev; cbn; [reflexivity|].
  rewrite IH. f_equal. destruct (is_alnum c && negb prev); [apply lo_up|reflexivity].
Qed.
Lemma length_pascal_from s : forall prev, length (pascal_from prev s) = length s.
Proof. induction s as [|c r IH]; intro prev; cbn; [reflexivity|]. rewrite IH. reflexivity. Qed.

(** a re-cased token differs from the original in ASCII letter case only *)
Lemma lower_apply c s : lower (apply c s) = lower s.
Proof.
  destruct c; cbn.
  - apply lower_upper.
  - apply lower_lower.
  - destruct s as [|x r]; cbn; [reflexivity|]. rewrite lo_up. f_equal. apply lower_lower.
  - apply lower_pascal_from.
Qed.
Lemma length_apply c s : length (apply c s) = length s.
Proof.
  destruct c; cbn.
  - apply map_length.
  - apply map_length.
  - destruct s as [|x r]; cbn; [reflexivity|]. unfold lower. rewrite map_length. reflexivity.
  - apply length_pascal_from.
Qed.

Lemma pascal_from_idem s : forall prev, pascal_from prev (pascal_from prev s) = pascal_from prev s.
Proof.
  induction s as [|c r IH]; intro prev; cbn; [reflexivity|].
  destruct (is_alnum c && negb prev) eqn:E.
  - rewrite is_alnum_up. apply andb_true_iff in E as [E1 E2]. rewrite E1, E2. cbn.
    rewrite up_up, IH. reflexivity.
  - rewrite E, IH. reflexivity.
Qed.

(** each concrete policy is idempotent *)
Lemma apply_idem c s : apply c (apply c s) = apply c s.
Proof.
  destruct c; cbn.
  - apply upper_upper.
  - apply lower_lower.
  - destruct s as [|x r]; cbn; [reflexivity|]. rewrite up_up, lower_lower. reflexivity.
  - apply pascal_from_idem.
Qed.

(* ------------------------------------------------------------------ handle_segment *)
(** Whatever the policy and the memory, a reported fix changes only ASCII letter case:
    same length, same text once lower-cased, and it is a real change. *)
Theorem case_only n p m raw t m' f :
  handle n p m raw t = (m', Some f) ->
  lower f = lower raw /\ length f = length raw /\ f <> raw.
Proof.
  unfold handle. destruct (is_empty raw || t); [discriminate|].
  assert (K : forall c, (if str_eqb (apply c raw) raw then (refute m raw, None) else (refute m raw, Some (apply c raw)))
                        = (m', Some f) ->
              lower f = lower raw /\ length f = length raw /\ f <> raw).
  { intros c H. destruct (str_eqb (apply c raw) raw) eqn:E; [discriminate|].
    inversion H; subst. split; [apply lower_apply|]. split; [apply length_apply|].
    intro Q. rewrite Q, str_eqb_refl in E. discriminate. }
  destruct p as [|c|].
  - destruct (filter _ (opts n)); [|discriminate]. apply K.
  - apply K.
  - rewrite str_eqb_refl. discriminate.
Qed.

(** a token already in the shape of a concrete policy is not reported, whatever the memory *)
Lemma concrete_fixed_point n c m s t : fst (handle n (Concrete c) m (apply c s) t) = refute m (apply c s) \/ fst (handle n (Concrete c) m (apply c s) t) = m.
Proof.
  unfold handle. destruct (is_empty (apply c s) || t); [right; reflexivity|].
  left. rewrite apply_idem, str_eqb_refl. reflexivity.
Qed.

Lemma concrete_silent n c m s t : snd (handle n (Concrete c) m (apply c s) t) = None.
Proof.
  unfold handle. destruct (is_empty (apply c s) || t); [reflexivity|].
  rewrite apply_idem, str_eqb_refl. reflexivity.
Qed.

Lemma is_empty_length {A} (a b : list A) : length a = length b -> is_empty a = is_empty b.
Proof. destruct a, b; cbn; congruence. Qed.

(* ------------------------------------------------------------------ one crawl *)
(** A crawl keeps the token sequence up to ASCII case (any policy, any ignore list, any memory),
    and reports as many violations as it changes tokens. *)
Theorem pass_case_only n p ig ts : forall m out k,
  pass_from n p ig m ts = (out, k) ->
  map (fun t => lower (fst t)) out = map (fun t => lower (fst t)) ts
  /\ map (fun t => length (fst t)) out = map (fun t => length (fst t)) ts
  /\ map snd out = map snd ts.
Proof.
  induction ts as [|t ts IH]; intros m out k H; cbn in H.
  - inversion H; subst. auto.
  - destruct (eval_tok n p ig m t) as [m' r] eqn:E.
    destruct (pass_from n p ig m' ts) as [out' k'] eqn:P.
    destruct (IH _ _ _ P) as (I1 & I2 & I3).
    destruct r as [f|]; inversion H; subst; cbn [map fst snd]; rewrite I1, I2, I3.
    + unfold eval_tok in E. destruct (mem (lower (fst t)) ig); [discriminate|].
      apply case_only in E as (E1 & E2 & _). rewrite E1, E2. auto.
    + auto.
Qed.

(** For a concrete policy a second crawl over the result of a first one, from any memory,
    reports nothing and changes nothing. *)
Theorem concrete_pass_stable n c ig ts : forall m out k,
  pass_from n (Concrete c) ig m ts = (out, k) ->
  forall m2, pass_from n (Concrete c) ig m2 out = (out, 0).
Proof.
  induction ts as [|t ts IH]; intros m out k H m2; cbn in H.
  - inversion H; subst. reflexivity.
  - destruct (eval_tok n (Concrete c) ig m t) as [m' r] eqn:E.
    destruct (pass_from n (Concrete c) ig m' ts) as [out' k'] eqn:P.
    destruct t as [raw tf]. unfold eval_tok in E. cbn [fst snd] in E.
    destruct r as [f|]; inversion H; subst; clear H.
    + (* reported: the token became [apply c raw] *)
      destruct (mem (lower raw) ig) eqn:I; [discriminate|].
      unfold handle in E. destruct (is_empty raw || tf) eqn:G; [discriminate|].
      destruct (str_eqb (apply c raw) raw) eqn:Q; [discriminate|]. inversion E; subst; clear E.
      cbn [pass_from]. unfold eval_tok at 1. cbn [fst snd].
      rewrite lower_apply, I.
      unfold handle. rewrite (is_empty_length (apply c raw) raw (length_apply c raw)), G.
      rewrite apply_idem, str_eqb_refl.
      rewrite (IH _ _ _ P). reflexivity.
    + (* not reported: the same token is not reported again *)
      cbn [pass_from]. unfold eval_tok at 1. cbn [fst snd].
      destruct (mem (lower raw) ig) eqn:I.
      * inversion E; subst. rewrite (IH _ _ _ P). reflexivity.
      * unfold handle in E |- *. destruct (is_empty raw || tf) eqn:G.
        -- rewrite (IH _ _ _ P). reflexivity.
        -- destruct (str_eqb (apply c raw) raw) eqn:Q; [|discriminate].
           rewrite (IH _ _ _ P). reflexivity.
Qed.

(* ------------------------------------------------------------------ consistent *)
(** While some case is still possible nothing is reported. *)
Lemma consistent_possible_silent n m raw t c cs :
  is_empty raw || t = false ->
  filter (fun c => negb (refuted (refute m raw) c)) (opts n) = c :: cs ->
  handle n Consistent m raw t = (with_latest (refute m raw) c, None).
Proof. intros G F. unfold handle. rewrite G, F. reflexivity. Qed.

(** Refutations only accumulate. *)
Lemma refute_monotone m raw c : refuted m c = true -> refuted (refute m raw) c = true.
Proof.
  unfold refute. destruct (first_letter_lower raw), c; cbn; intro H; rewrite ?H; reflexivity.
Qed.

(** Once every option is refuted, every later token is rewritten to the frozen latest case:
    the memory no longer changes its verdict. *)
Lemma consistent_frozen n m raw t :
  is_empty raw || t = false ->
  forallb (refuted m) (opts n) = true ->
  handle n Consistent m raw t
  = handle n (Concrete (match m_latest m with Some c => c | None => Upper end)) m raw t.
Proof.
  intros G F. unfold handle. rewrite G.
  assert (filter (fun c => negb (refuted (refute m raw) c)) (opts n) = []) as ->.
  { induction (opts n) as [|c l IH]; cbn in *; [reflexivity|].
    apply andb_true_iff in F as [F1 F2]. rewrite (refute_monotone _ _ _ F1). cbn. apply IH. exact F2. }
  assert (m_latest (refute m raw) = m_latest m) as ->.
  { unfold refute. destruct (first_letter_lower raw); reflexivity. }
  reflexivity.
Qed.

Definition latest_or_upper (m : memory) : ccase := match m_latest m with Some c => c | None => Upper end.
Definition all_refuted (n : pname) (m : memory) : bool := forallb (refuted m) (opts n).

Lemma refute_latest m raw : m_latest (refute m raw) = m_latest m.
Proof. unfold refute. destruct (first_letter_lower raw); reflexivity. Qed.

Lemma all_refuted_refute n m raw : all_refuted n m = true -> all_refuted n (refute m raw) = true.
Proof.
  unfold all_refuted. induction (opts n) as [|c l IH]; cbn; [reflexivity|].
  intro F. apply andb_true_iff in F as [F1 F2]. rewrite (refute_monotone _ _ _ F1). cbn. apply IH. exact F2.
Qed.

(** what one token may become under the case [L] *)
Definition recased (L : ccase) (t o : str * bool) : Prop := o = t \/ o = (apply L (fst t), snd t).

(** after the verdict is frozen every reported token is rewritten to the frozen case *)
Lemma frozen_rest n ig ts : forall m out k,
  all_refuted n m = true ->
  pass_from n Consistent ig m ts = (out, k) ->
  Forall2 (recased (latest_or_upper m)) ts out.
Proof.
  induction ts as [|t ts IH]; intros m out k F H; cbn in H.
  - inversion H; subst. constructor.
  - destruct (eval_tok n Consistent ig m t) as [m' r] eqn:E.
    destruct (pass_from n Consistent ig m' ts) as [out' k'] eqn:P.
    unfold eval_tok in E. destruct (mem (lower (fst t)) ig).
    + inversion E; subst. inversion H; subst. constructor; [left; reflexivity|]. eapply IH; eassumption.
    + destruct (is_empty (fst t) || snd t) eqn:G.
      * unfold handle in E. rewrite G in E. inversion E; subst. inversion H; subst.
        constructor; [left; reflexivity|]. eapply IH; eassumption.
      * rewrite (consistent_frozen n m (fst t) (snd t) G F) in E.
        fold (latest_or_upper m) in E. unfold handle in E. rewrite G in E.
        assert (F' : all_refuted n (refute m (fst t)) = true) by (apply all_refuted_refute; exact F).
        assert (L' : latest_or_upper (refute m (fst t)) = latest_or_upper m)
          by (unfold latest_or_upper; rewrite refute_latest; reflexivity).
        destruct (str_eqb (apply (latest_or_upper m) (fst t)) (fst t)); inversion E; subst; inversion H; subst.
        -- constructor; [left; reflexivity|]. rewrite <- L'. eapply IH; eassumption.
        -- constructor; [right; reflexivity|]. rewrite <- L'. eapply IH; eassumption.
Qed.

(** [consistent]: all the fixes of one crawl re-case to one and the same case. *)
Theorem consistent_single_case n ig ts : forall m out k,
  pass_from n Consistent ig m ts = (out, k) ->
  exists L, Forall2 (recased L) ts out.
Proof.
  induction ts as [|t ts IH]; intros m out k H; cbn in H.
  - inversion H; subst. exists Upper. constructor.
  - destruct (eval_tok n Consistent ig m t) as [m' r] eqn:E.
    destruct (pass_from n Consistent ig m' ts) as [out' k'] eqn:P.
    destruct r as [f|].
    + (* a report: the verdict is frozen from here on *)
      unfold eval_tok in E. destruct (mem (lower (fst t)) ig); [discriminate|].
      unfold handle in E. destruct (is_empty (fst t) || snd t) eqn:G; [discriminate|].
      destruct (filter (fun c => negb (refuted (refute m (fst t)) c)) (opts n)) as [|c cs] eqn:Fl; [|discriminate].
      assert (F : all_refuted n (refute m (fst t)) = true).
      { unfold all_refuted. clear - Fl. induction (opts n) as [|c l IHl]; cbn in *; [reflexivity|].
        destruct (refuted (refute m (fst t)) c); cbn in *; [apply IHl; exact Fl|discriminate]. }
      fold (latest_or_upper (refute m (fst t))) in E.
      destruct (str_eqb (apply (latest_or_upper (refute m (fst t))) (fst t)) (fst t)); [discriminate|].
      inversion E; subst. inversion H; subst.
      exists (latest_or_upper (refute m (fst t))). constructor; [right; reflexivity|].
      eapply frozen_rest; eassumption.
    + inversion H; subst. destruct (IH _ _ _ P) as [L HL]. exists L. constructor; [left; reflexivity|exact HL].
Qed.

Definition tok (s : str) : str * bool := (s, false).

(** One crawl is NOT enough for [consistent] with the extended option list (CP02, CP05):
    identifiers  Ab, a_, AB : the first crawl rewrites a_ to A_ (latest possible case: pascal);
    in the second crawl A_ refutes pascal but not capitalise, so AB is then rewritten to Ab. *)
Lemma consistent_one_pass_refuted :
  exists ts, let out := fst (pass Extended Consistent [] ts) in
             snd (pass Extended Consistent [] out) <> 0.
Proof.
  exists [tok [65;98]; tok [97;95]; tok [65;66]]. vm_compute. discriminate.
Qed.

(** ... the second crawl's result is stable on that witness (three crawls in all are what the
    fix loop runs for post-phase rules). *)
Example consistent_witness_two_passes :
  let ts := [tok [65;98]; tok [97;95]; tok [65;66]] in
  let o1 := fst (pass Extended Consistent [] ts) in
  let o2 := fst (pass Extended Consistent [] o1) in
  pass Extended Consistent [] o2 = (o2, 0).
Proof. vm_compute. reflexivity. Qed.

(* ------------------------------------------------------------------ non-vacuity *)
(** "SeLeCt" under upper: reported, fixed to "SELECT". *)
Example case_only_nonvacuous :
  handle Basic (Concrete Upper) mem0 [83;101;76;101;67;116] false
  = (refute mem0 [83;101;76;101;67;116], Some [83;69;76;69;67;84]).
Proof. vm_compute. reflexivity. Qed.

(** select, FROM under consistent (basic list): FROM is rewritten to from. *)
Example pass_nonvacuous :
  pass Basic Consistent [] [tok [115;101;108;101;99;116]; tok [70;82;79;77]]
  = ([tok [115;101;108;101;99;116]; tok [102;114;111;109]], 1).
Proof. vm_compute. reflexivity. Qed.

Example concrete_pass_nonvacuous :
  pass Extended (Concrete Pascal) [] [tok [102;111;111;95;98;97;114]; tok [88]]
  = ([tok [70;111;111;95;66;97;114]; tok [88]], 1).
Proof. vm_compute. reflexivity. Qed.

Example frozen_nonvacuous :
  let m := fst (handle Basic Consistent mem0 [83;101;76] false) in
  forallb (refuted m) (opts Basic) = true.
Proof. vm_compute. reflexivity. Qed.
