(** C20 — the language server (crates/lsp/src/lib.rs): executable model.

    Text is a list of UTF-16 code units ([N]), the unit in which LSP counts
    [Position.character].  The state machine follows [LanguageServer]:
    [on_notification] (didOpen / didChange / didClose / didSave), [check_file],
    [recheck_files], [format] (through [on_request]).  The linter is an oracle:
    [lint : cfg -> text -> list viol] and [fixer : cfg -> text -> text] are Section
    variables (in the correspondence run they are tables filled by the real linter).
    The working directory's configuration file is part of the state ([disk]):
    [load_config()] reads it when a configuration file is saved.  Definitions only. *)
From Sq Require Export Base.Bytes.

Definition text := list N.

(** * LSP positions, ranges, edits (specification 3.17, "Position", "TextEdit") *)
Record pos := mkpos { p_line : N; p_char : N }.
Record edit := mkedit { e_start : pos; e_end : pos; e_new : text }.

Definition next_is_lf (t : text) : bool :=
  match t with c :: _ => c =? 10 | [] => false end.

(** Does the code unit [c], followed by [t'], end a line?  Line terminators are
    "\n", "\r\n" and "\r"; the '\r' of a "\r\n" pair does not end the line, its '\n' does. *)
Definition ends_line (c : N) (t' : text) : bool :=
  (c =? 10) || ((c =? 13) && negb (next_is_lf t')).
Definition is_eol_unit (c : N) : bool := (c =? 10) || (c =? 13).

(** [offset_of t line char]: the offset (in code units) of position (line, char) in [t].
    A character beyond the end of the line defaults back to the line length (the position
    before the line terminator); a line beyond the last line defaults to the end of the document. *)
Fixpoint offset_of (t : text) (line char : N) : N :=
  match t with
  | [] => 0
  | c :: t' =>
      if line =? 0 then
        if (char =? 0) || is_eol_unit c then 0 else 1 + offset_of t' 0 (char - 1)
      else if ends_line c t' then 1 + offset_of t' (line - 1) char
      else 1 + offset_of t' line char
  end.

Definition pos_offset (t : text) (p : pos) : nat := N.to_nat (offset_of t (p_line p) (p_char p)).

(** Replace the range of one edit (positions refer to [t]). *)
Definition apply_edit (t : text) (e : edit) : text :=
  firstn (pos_offset t (e_start e)) t ++ e_new e ++ skipn (pos_offset t (e_end e)) t.

(** The server only ever answers with one edit; several edits (all relative to the
    original document) are outside the modelled fragment. *)
Definition apply_edits (t : text) (es : list edit) : option text :=
  match es with
  | [] => Some t
  | [e] => Some (apply_edit t e)
  | _ => None
  end.

(** * [format]: the edit that replaces the document *)

(** End of the document as the repaired code computes it ([end_of_document]): one pass,
    a line counter and a column counter in UTF-16 units. *)
Fixpoint doc_end_aux (t : text) (line char : N) : pos :=
  match t with
  | [] => mkpos line char
  | c :: t' =>
      if ends_line c t' then doc_end_aux t' (line + 1) 0
      else if c =? 13 then doc_end_aux t' line char          (* '\r' of "\r\n" *)
      else doc_end_aux t' line (char + 1)
  end.
Definition doc_end (t : text) : pos := doc_end_aux t 0 0.

Definition format_edit (old new : text) : edit :=
  mkedit (mkpos 0 0) (doc_end old) new.

(** The code before the repair: range end derived from the NEW text, as
    (new_text.lines().count(), new_text.chars().count()). *)
Fixpoint rust_lines_aux (t : text) (cur_nonempty : bool) : N :=
  match t with
  | [] => if cur_nonempty then 1 else 0
  | c :: t' => if c =? 10 then 1 + rust_lines_aux t' false else rust_lines_aux t' true
  end.
Definition rust_lines_count (t : text) : N := rust_lines_aux t false.
Definition is_low_surrogate (c : N) : bool := (56320 <=? c) && (c <=? 57343).
Definition chars_count (t : text) : N :=
  N.of_nat (length (filter (fun c => negb (is_low_surrogate c)) t)).
Definition format_edit_legacy (old new : text) : edit :=
  mkedit (mkpos 0 0) (mkpos (rust_lines_count new) (chars_count new)) new.

(** * Diagnostics *)
Record viol := mkviol { v_line : N; v_pos : N; v_code : option str; v_desc : str }.
Record diag := mkdiag { d_line : N; d_char : N; d_code : option str; d_msg : str }.

Definition u32 (n : N) : N := n mod 4294967296.
(** [(x as u32).saturating_sub(1)]; subtraction on [N] is truncated. *)
Definition to_zero_based (n : N) : N := u32 n - 1.
Definition to_diag (v : viol) : diag :=
  mkdiag (to_zero_based (v_line v)) (to_zero_based (v_pos v)) (v_code v) (v_desc v).

(** * Documents: association list, at most one entry per uri *)
Definition docmap := list (N * text).
Fixpoint lookup (u : N) (d : docmap) : option text :=
  match d with
  | [] => None
  | (k, t) :: d' => if k =? u then Some t else lookup u d'
  end.
Definition remove_key (u : N) (d : docmap) : docmap :=
  filter (fun kt => negb (fst kt =? u)) d.
Definition insert (u : N) (t : text) (d : docmap) : docmap := (u, t) :: remove_key u d.

(** [uri.ends_with(".sqlfluff") || uri.ends_with(".sqruff")] *)
Definition dot_sqlfluff : str := [46;115;113;108;102;108;117;102;102].
Definition dot_sqruff : str := [46;115;113;114;117;102;102].
Definition is_config_uri (name : str) : bool :=
  ends_with dot_sqlfluff name || ends_with dot_sqruff name.

Inductive op {cfg : Type} :=
| Open (u : N) (t : text)          (* textDocument/didOpen *)
| Change (u : N) (t : text)        (* textDocument/didChange, full sync: content_changes[0] *)
| Close (u : N)                    (* textDocument/didClose *)
| WriteDisk (c : cfg)              (* environment: the configuration file in the working directory is rewritten *)
| Save (name : str)                (* textDocument/didSave of the document with this uri *)
| Format (u : N)                   (* textDocument/formatting request *)
| Other.                           (* any other notification / request method *)
Arguments op : clear implicits.

Inductive out :=
| Publish (u : N) (ds : list diag)  (* textDocument/publishDiagnostics *)
| Edits (es : list edit)            (* response to the formatting request *)
| Crash.                            (* [self.documents[&uri]] panics: no such document *)

Section Lsp.
  Variable cfg : Type.
  Variable lint : cfg -> text -> list viol.
  Variable fixer : cfg -> text -> text.
  (** which edit [format] builds from (current text, fixed text) *)
  Variable mk_edit : text -> text -> edit.

  Record state := mkstate { docs : docmap; conf : cfg; disk : cfg }.

  (** [LanguageServer::new]: the configuration is loaded from the working directory. *)
  Definition init (c0 : cfg) : state := mkstate [] c0 c0.

  Definition check_file (c : cfg) (u : N) (t : text) : out :=
    Publish u (map to_diag (lint c t)).

  Definition recheck_files (c : cfg) (d : docmap) : list out :=
    map (fun kt => check_file c (fst kt) (snd kt)) d.

  Definition step (s : state) (o : op cfg) : state * list out :=
    match o with
    | Open u t | Change u t =>
        (mkstate (insert u t (docs s)) (conf s) (disk s), [check_file (conf s) u t])
    | Close u => (mkstate (remove_key u (docs s)) (conf s) (disk s), [])
    | WriteDisk c => (mkstate (docs s) (conf s) c, [])
    | Save name =>
        if is_config_uri name then
          (mkstate (docs s) (disk s) (disk s), recheck_files (disk s) (docs s))
        else (s, [])
    | Format u =>
        match lookup u (docs s) with
        | Some t => (s, [Edits [mk_edit t (fixer (conf s) t)]])
        | None => (s, [Crash])
        end
    | Other => (s, [])
    end.

  (** Run a history; the outputs are kept per operation (the order inside the batch of a
      configuration save is the hash map's, i.e. unspecified). *)
  Fixpoint run (s : state) (ops : list (op cfg)) : state * list (list out) :=
    match ops with
    | [] => (s, [])
    | o :: ops' =>
        let '(s1, b) := step s o in
        let '(s2, bs) := run s1 ops' in
        (s2, b :: bs)
    end.

  Definition final (s : state) (ops : list (op cfg)) : state := fst (run s ops).
  Definition outputs (s : state) (ops : list (op cfg)) : list out := concat (snd (run s ops)).

  (** the diagnostics most recently published for [u] *)
  Fixpoint last_publish_aux (u : N) (os : list out) (acc : option (list diag)) : option (list diag) :=
    match os with
    | [] => acc
    | Publish k ds :: os' => last_publish_aux u os' (if k =? u then Some ds else acc)
    | _ :: os' => last_publish_aux u os' acc
    end.
  Definition last_publish (u : N) (os : list out) : option (list diag) := last_publish_aux u os None.

  (** * The abstract specification: a map uri -> latest text, and the latest configuration *)
  Record aspec := mkaspec { a_docs : N -> option text; a_conf : cfg; a_disk : cfg }.
  Definition ainit (c0 : cfg) : aspec := mkaspec (fun _ => None) c0 c0.
  Definition astep (a : aspec) (o : op cfg) : aspec :=
    match o with
    | Open u t | Change u t =>
        mkaspec (fun k => if k =? u then Some t else a_docs a k) (a_conf a) (a_disk a)
    | Close u => mkaspec (fun k => if k =? u then None else a_docs a k) (a_conf a) (a_disk a)
    | WriteDisk c => mkaspec (a_docs a) (a_conf a) c
    | Save name => if is_config_uri name then mkaspec (a_docs a) (a_disk a) (a_disk a) else a
    | Format _ | Other => a
    end.
  Definition arun (a : aspec) (ops : list (op cfg)) : aspec := fold_left astep ops a.
End Lsp.

Arguments mkstate {cfg}.
Arguments docs {cfg}.
Arguments conf {cfg}.
Arguments disk {cfg}.
Arguments a_docs {cfg}.
Arguments a_conf {cfg}.
Arguments a_disk {cfg}.
