(** C20 — proofs about the language-server model (stdlib style). *)
From Sq Require Import Base.Bytes Lsp.Model.
From Coq Require Import Lia.

Arguments N.add : simpl never.
Arguments N.sub : simpl never.
Arguments N.eqb : simpl never.
Arguments N.modulo : simpl never.

(** * Part 1: the edit built by [format] replaces the whole document *)

(** number of line terminators, and length (in units) of the text after the last one *)
Fixpoint eols (t : text) : N :=
  match t with
  | [] => 0
  | c :: t' => if ends_line c t' then 1 + eols t' else eols t'
  end.
Fixpoint lastlen (t : text) (ch : N) : N :=
  match t with
  | [] => ch
  | c :: t' =>
      if ends_line c t' then lastlen t' 0
      else if c =? 13 then lastlen t' ch
      else lastlen t' (ch + 1)
  end.

Lemma doc_end_aux_spec : forall t l ch, doc_end_aux t l ch = mkpos (l + eols t) (lastlen t ch).
Proof.
  induction t as [|c t IH]; intros l ch; cbn [doc_end_aux eols lastlen].
  - f_equal; lia.
  - destruct (ends_line c t) eqn:E.
    + rewrite IH. f_equal; lia.
    + destruct (c =? 13) eqn:E13; rewrite IH; reflexivity.
Qed.

Lemma doc_end_spec : forall t, doc_end t = mkpos (eols t) (lastlen t 0).
Proof. intros t. unfold doc_end. rewrite doc_end_aux_spec. f_equal. Qed.

Lemma lastlen_shift : forall t ch,
  lastlen t ch = if eols t =? 0 then ch + lastlen t 0 else lastlen t 0.
Proof.
  induction t as [|c t IH]; intros ch; cbn [lastlen eols].
  - rewrite N.eqb_refl. lia.
  - destruct (ends_line c t) eqn:E.
    + destruct (1 + eols t =? 0) eqn:Z; [apply N.eqb_eq in Z; lia | reflexivity].
    + destruct (c =? 13) eqn:E13.
      * apply IH.
      * rewrite (IH (ch + 1)), (IH (0 + 1)). destruct (eols t =? 0); lia.
Qed.

Lemma cr_before_lf_has_eol : forall c t,
  ends_line c t = false -> (c =? 13) = true -> eols t <> 0.
Proof.
  intros c t E E13. unfold ends_line in E. rewrite E13 in E.
  destruct t as [|d t']; cbn [next_is_lf] in E.
  - rewrite orb_true_r in E. discriminate.
  - destruct (d =? 10) eqn:D; cbn in E.
    + cbn [eols]. unfold ends_line. rewrite D. cbn. lia.
    + rewrite orb_true_r in E. discriminate.
Qed.

Lemma offset_of_doc_end : forall t,
  offset_of t (eols t) (lastlen t 0) = N.of_nat (length t).
Proof.
  induction t as [|c t IH]; [reflexivity|].
  cbn [offset_of eols lastlen length].
  destruct (ends_line c t) eqn:E.
  - destruct (1 + eols t =? 0) eqn:Z; [apply N.eqb_eq in Z; lia|].
    replace (1 + eols t - 1) with (eols t) by lia. rewrite IH. lia.
  - destruct (c =? 13) eqn:E13.
    + pose proof (cr_before_lf_has_eol c t E E13) as Hne.
      destruct (eols t =? 0) eqn:Z; [apply N.eqb_eq in Z; contradiction|].
      rewrite IH. lia.
    + rewrite (lastlen_shift t (0 + 1)).
      assert (Heol : is_eol_unit c = false).
      { unfold is_eol_unit. rewrite E13, orb_false_r.
        unfold ends_line in E. apply orb_false_elim in E. exact (proj1 E). }
      destruct (eols t =? 0) eqn:Z.
      * rewrite Heol, orb_false_r.
        destruct (0 + 1 + lastlen t 0 =? 0) eqn:Z2; [apply N.eqb_eq in Z2; lia|].
        replace (0 + 1 + lastlen t 0 - 1) with (lastlen t 0) by lia.
        apply N.eqb_eq in Z. rewrite Z in IH. rewrite IH. lia.
      * rewrite IH. lia.
Qed.

Lemma pos_offset_start : forall t, pos_offset t (mkpos 0 0) = 0%nat.
Proof. intros [|c t]; reflexivity. Qed.

Lemma pos_offset_doc_end : forall t, pos_offset t (doc_end t) = length t.
Proof.
  intros t. rewrite doc_end_spec. unfold pos_offset. cbn [p_line p_char].
  rewrite offset_of_doc_end. apply Nat2N.id.
Qed.

(** The repaired [format]: applying the edit to the current text gives the new text, whatever both are. *)
Theorem apply_format_edit : forall old new, apply_edit old (format_edit old new) = new.
Proof.
  intros old new. unfold apply_edit, format_edit. cbn [e_start e_end e_new].
  rewrite pos_offset_start, pos_offset_doc_end, skipn_all. cbn [firstn app].
  apply app_nil_r.
Qed.

(** The edit is exact, not merely large enough: its end is the position just past the last unit,
    so no clamping rule of the client is relied upon. *)
Theorem doc_end_exact : forall t,
  offset_of t (p_line (doc_end t)) (p_char (doc_end t)) = N.of_nat (length t).
Proof. intros t. rewrite doc_end_spec. apply offset_of_doc_end. Qed.

(** The code before the repair: a fixer with fewer lines than the document leaves the old tail behind. *)
Definition legacy_old : text := [97;10;98;10;99;10].   (* "a\nb\nc\n" *)
Definition legacy_new : text := [97;10].                (* "a\n" *)
Lemma format_legacy_refuted :
  exists old new, apply_edit old (format_edit_legacy old new) <> new.
Proof. exists legacy_old, legacy_new. vm_compute. discriminate. Qed.

Example format_legacy_leaves_tail :
  apply_edit legacy_old (format_edit_legacy legacy_old legacy_new) = [97;10;10;99;10].
Proof. vm_compute. reflexivity. Qed.

Example format_repaired_on_witness :
  apply_edit legacy_old (format_edit legacy_old legacy_new) = legacy_new
  /\ doc_end [97;13;10;98;13;99] = mkpos 2 1.      (* "a\r\nb\rc": three lines, the last one "c" *)
Proof. split; vm_compute; reflexivity. Qed.

(** * Part 2: zero-based positions *)
Lemma to_zero_based_spec : forall n, 1 <= n -> n < 4294967296 -> to_zero_based n + 1 = n.
Proof.
  intros n H1 H2. unfold to_zero_based, u32. rewrite N.mod_small by exact H2. lia.
Qed.

Theorem to_diag_zero_based : forall v,
  1 <= v_line v < 4294967296 -> 1 <= v_pos v < 4294967296 ->
  d_line (to_diag v) + 1 = v_line v /\ d_char (to_diag v) + 1 = v_pos v
  /\ d_code (to_diag v) = v_code v /\ d_msg (to_diag v) = v_desc v.
Proof.
  intros v [L1 L2] [P1 P2]. unfold to_diag. cbn [d_line d_char d_code d_msg].
  repeat split; apply to_zero_based_spec; assumption.
Qed.

(** * Part 3: the document map *)
Definition keys_nodup (d : docmap) : Prop := NoDup (map fst d).

Lemma lookup_remove_key : forall u k d,
  lookup k (remove_key u d) = if k =? u then None else lookup k d.
Proof.
  intros u k d. induction d as [|[j t] d IH]; cbn [remove_key filter lookup fst].
  - destruct (k =? u); reflexivity.
  - fold (remove_key u d). destruct (j =? u) eqn:Eju; cbn [negb].
    + rewrite IH. destruct (k =? u) eqn:Eku.
      * destruct (j =? k) eqn:Ejk; [|reflexivity].
        reflexivity.
      * destruct (j =? k) eqn:Ejk; [|reflexivity].
        apply N.eqb_eq in Eju, Ejk. subst. rewrite N.eqb_refl in Eku. discriminate.
    + cbn [lookup]. rewrite IH. destruct (j =? k) eqn:Ejk; [|reflexivity].
      apply N.eqb_eq in Ejk. subst. rewrite Eju. reflexivity.
Qed.

Lemma lookup_insert : forall u t k d,
  lookup k (insert u t d) = if k =? u then Some t else lookup k d.
Proof.
  intros u t k d. unfold insert. cbn [lookup]. rewrite N.eqb_sym.
  destruct (k =? u) eqn:E; [reflexivity|]. rewrite lookup_remove_key, E. reflexivity.
Qed.

Lemma in_keys_remove : forall u k d, In k (map fst (remove_key u d)) -> In k (map fst d) /\ k <> u.
Proof.
  intros u k d. induction d as [|[j t] d IH]; cbn [remove_key filter map fst]; [tauto|].
  fold (remove_key u d). destruct (j =? u) eqn:E; cbn [negb map fst In].
  - intros H. destruct (IH H). split; [right|]; assumption.
  - intros [H|H].
    + subst. split; [left; reflexivity|]. intros ->. rewrite N.eqb_refl in E. discriminate.
    + destruct (IH H). split; [right|]; assumption.
Qed.

Lemma nodup_remove_key : forall u d, keys_nodup d -> keys_nodup (remove_key u d).
Proof.
  intros u d. unfold keys_nodup. induction d as [|[j t] d IH]; cbn [remove_key filter map fst]; [auto|].
  fold (remove_key u d). intros H. inversion H as [|x l Hni Hnd]; subst.
  destruct (j =? u); cbn [negb map fst]; [auto|].
  constructor; [|auto]. intros Hin. apply in_keys_remove in Hin. tauto.
Qed.

Lemma nodup_insert : forall u t d, keys_nodup d -> keys_nodup (insert u t d).
Proof.
  intros u t d H. unfold keys_nodup, insert. cbn [map fst]. constructor.
  - intros Hin. apply in_keys_remove in Hin. destruct Hin as [_ Hne]. apply Hne. reflexivity.
  - apply nodup_remove_key. exact H.
Qed.

Lemma lookup_not_in : forall u d, ~ In u (map fst d) -> lookup u d = None.
Proof.
  intros u d. induction d as [|[j t] d IH]; cbn [lookup map fst In]; [reflexivity|].
  intros H. destruct (j =? u) eqn:E.
  - apply N.eqb_eq in E. exfalso. apply H. left. exact E.
  - apply IH. intros Hin. apply H. right. exact Hin.
Qed.

(** * Part 4: histories *)
Section Hist.
  Variable cfg : Type.
  Variable lint : cfg -> text -> list viol.
  Variable fixer : cfg -> text -> text.
  Variable mk_edit : text -> text -> edit.

  Notation state := (state cfg).
  Notation step := (step cfg lint fixer mk_edit).
  Notation run := (run cfg lint fixer mk_edit).
  Notation final := (final cfg lint fixer mk_edit).
  Notation outputs := (outputs cfg lint fixer mk_edit).
  Notation diags c t := (map to_diag (lint c t)).

  Lemma last_publish_aux_app : forall u os1 os2 acc,
    last_publish_aux u (os1 ++ os2) acc = last_publish_aux u os2 (last_publish_aux u os1 acc).
  Proof.
    intros u os1. induction os1 as [|o os1 IH]; intros os2 acc; [reflexivity|].
    destruct o; cbn [app last_publish_aux]; apply IH.
  Qed.

  Lemma last_publish_recheck : forall u c d acc,
    keys_nodup d ->
    last_publish_aux u (recheck_files cfg lint c d) acc =
    match lookup u d with Some t => Some (diags c t) | None => acc end.
  Proof.
    intros u c d. induction d as [|[k t] d IH]; intros acc Hnd; [reflexivity|].
    unfold keys_nodup in Hnd. cbn [map fst] in Hnd. inversion Hnd as [|x l Hni Hnd']; subst.
    cbn [recheck_files map check_file fst snd last_publish_aux lookup].
    fold (recheck_files cfg lint c d). rewrite IH by exact Hnd'.
    destruct (k =? u) eqn:E.
    - apply N.eqb_eq in E. subst. rewrite lookup_not_in by exact Hni. reflexivity.
    - reflexivity.
  Qed.

  (** The invariant: the map has one entry per uri, and for every open document the last
      diagnostics published so far are those of its stored text under the active configuration. *)
  Definition Inv (s : state) (os : list out) : Prop :=
    keys_nodup (docs s) /\
    forall u t, lookup u (docs s) = Some t -> last_publish u os = Some (diags (conf s) t).

  Lemma Inv_init : forall c0, Inv (init cfg c0) [].
  Proof. intros c0. split; [constructor|]. cbn. discriminate. Qed.

  Lemma Inv_step : forall s os o, Inv s os -> Inv (fst (step s o)) (os ++ snd (step s o)).
  Proof.
    intros s os o [Hnd Hlast].
    assert (Hsame : Inv s (os ++ [])) by (rewrite app_nil_r; split; assumption).
    destruct o as [u t|u t|u|c|name|u|]; cbn [step fst snd].
    - (* Open *) split; cbn [docs conf]; [apply nodup_insert; exact Hnd|].
      intros k tk. rewrite lookup_insert. unfold last_publish.
      rewrite last_publish_aux_app. cbn [check_file last_publish_aux].
      rewrite (N.eqb_sym u k). destruct (k =? u) eqn:E.
      + intros [= <-]. reflexivity.
      + intros Hk. apply Hlast. exact Hk.
    - (* Change *) split; cbn [docs conf]; [apply nodup_insert; exact Hnd|].
      intros k tk. rewrite lookup_insert. unfold last_publish.
      rewrite last_publish_aux_app. cbn [check_file last_publish_aux].
      rewrite (N.eqb_sym u k). destruct (k =? u) eqn:E.
      + intros [= <-]. reflexivity.
      + intros Hk. apply Hlast. exact Hk.
    - (* Close *) split; cbn [docs conf]; [apply nodup_remove_key; exact Hnd|].
      intros k tk. rewrite lookup_remove_key, app_nil_r. destruct (k =? u); [discriminate|].
      apply Hlast.
    - (* WriteDisk *) exact Hsame.
    - (* Save *) destruct (is_config_uri name); cbn [fst snd]; [|exact Hsame].
      split; cbn [docs conf]; [exact Hnd|].
      intros k tk Hk. unfold last_publish. rewrite last_publish_aux_app.
      rewrite last_publish_recheck by exact Hnd. rewrite Hk. reflexivity.
    - (* Format *) destruct (lookup u (docs s)); cbn [fst snd]; split; try exact Hnd;
        intros k tk Hk; unfold last_publish; rewrite last_publish_aux_app;
        cbn [last_publish_aux]; apply Hlast; exact Hk.
    - (* Other *) exact Hsame.
  Qed.

  Lemma run_cons : forall s o ops,
    run s (o :: ops) =
    (fst (run (fst (step s o)) ops), snd (step s o) :: snd (run (fst (step s o)) ops)).
  Proof.
    intros s o ops. cbn [Model.run]. destruct (step s o) as [s1 b]. cbn [fst snd].
    destruct (run s1 ops) as [s2 bs]. reflexivity.
  Qed.

  Lemma final_cons : forall s o ops, final s (o :: ops) = final (fst (step s o)) ops.
  Proof. intros. unfold Model.final. rewrite run_cons. reflexivity. Qed.

  Lemma outputs_cons : forall s o ops,
    outputs s (o :: ops) = snd (step s o) ++ outputs (fst (step s o)) ops.
  Proof. intros. unfold Model.outputs. rewrite run_cons. reflexivity. Qed.

  Lemma Inv_run : forall ops s os, Inv s os -> Inv (final s ops) (os ++ outputs s ops).
  Proof.
    induction ops as [|o ops IH]; intros s os H.
    - unfold Model.final, Model.outputs. cbn. rewrite app_nil_r. exact H.
    - rewrite final_cons, outputs_cons, app_assoc. apply IH. apply Inv_step. exact H.
  Qed.

  (** Refinement: the server's state is the abstract state. *)
  Definition abs (s : state) : aspec cfg := mkaspec cfg (fun u => lookup u (docs s)) (conf s) (disk s).
  Definition aeq (a b : aspec cfg) : Prop :=
    (forall u, a_docs a u = a_docs b u) /\ a_conf a = a_conf b /\ a_disk a = a_disk b.

  Lemma aeq_refl : forall a, aeq a a.
  Proof. intros a. repeat split. Qed.

  Lemma astep_aeq : forall a b o, aeq a b -> aeq (astep cfg a o) (astep cfg b o).
  Proof.
    intros a b o (Hd & Hc & Hk).
    destruct o as [u t|u t|u|c|name|u|]; cbn [astep]; try (repeat split; assumption).
    - repeat split; cbn [a_docs a_conf a_disk]; try assumption. intros k. destruct (k =? u); [reflexivity|apply Hd].
    - repeat split; cbn [a_docs a_conf a_disk]; try assumption. intros k. destruct (k =? u); [reflexivity|apply Hd].
    - repeat split; cbn [a_docs a_conf a_disk]; try assumption. intros k. destruct (k =? u); [reflexivity|apply Hd].
    - destruct (is_config_uri name); repeat split; cbn [a_docs a_conf a_disk]; assumption.
  Qed.

  Lemma refine_step : forall s o, aeq (abs (fst (step s o))) (astep cfg (abs s) o).
  Proof.
    intros s o. destruct o as [u t|u t|u|c|name|u|]; cbn [step astep fst abs].
    - repeat split; cbn [a_docs a_conf a_disk docs conf disk]. intros k. apply lookup_insert.
    - repeat split; cbn [a_docs a_conf a_disk docs conf disk]. intros k. apply lookup_insert.
    - repeat split; cbn [a_docs a_conf a_disk docs conf disk]. intros k. apply lookup_remove_key.
    - repeat split.
    - destruct (is_config_uri name); repeat split.
    - destruct (lookup u (docs s)); repeat split.
    - repeat split.
  Qed.

  Lemma arun_aeq : forall ops a b, aeq a b -> aeq (arun cfg a ops) (arun cfg b ops).
  Proof.
    induction ops as [|o ops IH]; intros a b H; [exact H|].
    cbn [arun fold_left]. apply IH. apply astep_aeq. exact H.
  Qed.

  Lemma aeq_trans : forall a b c, aeq a b -> aeq b c -> aeq a c.
  Proof.
    intros a b c (H1 & H2 & H3) (K1 & K2 & K3). split; [|split; congruence].
    intros u. rewrite H1. apply K1.
  Qed.

  Theorem refine_run : forall ops s, aeq (abs (final s ops)) (arun cfg (abs s) ops).
  Proof.
    induction ops as [|o ops IH]; intros s.
    - apply aeq_refl.
    - rewrite final_cons. cbn [arun fold_left].
      eapply aeq_trans; [apply IH|]. apply arun_aeq. apply refine_step.
  Qed.

  Lemma abs_init : forall c0, aeq (abs (init cfg c0)) (ainit cfg c0).
  Proof. intros c0. repeat split. Qed.

  (** After any history, for every document that is open according to the abstract map, the
      diagnostics last published for it are the lint of its latest text under the latest configuration. *)
  Theorem diag_latest : forall c0 ops u t,
    a_docs (arun cfg (ainit cfg c0) ops) u = Some t ->
    last_publish u (outputs (init cfg c0) ops) =
    Some (diags (a_conf (arun cfg (ainit cfg c0) ops)) t).
  Proof.
    intros c0 ops u t Hopen.
    pose proof (refine_run ops (init cfg c0)) as R1.
    pose proof (arun_aeq ops _ _ (abs_init c0)) as R2.
    destruct (aeq_trans _ _ _ R1 R2) as (Hd & Hc & _).
    cbn [abs a_docs a_conf] in Hd, Hc.
    destruct (Inv_run ops (init cfg c0) [] (Inv_init c0)) as [_ Hlast].
    cbn [app] in Hlast. rewrite <- Hc. apply Hlast. rewrite Hd. exact Hopen.
  Qed.

  (** A closed (or never opened) document: nothing is stored, and a formatting request for it crashes. *)
  Theorem closed_not_stored : forall c0 ops u,
    a_docs (arun cfg (ainit cfg c0) ops) u = None ->
    lookup u (docs (final (init cfg c0) ops)) = None
    /\ step (final (init cfg c0) ops) (Format u) = (final (init cfg c0) ops, [Crash]).
  Proof.
    intros c0 ops u Hclosed.
    pose proof (refine_run ops (init cfg c0)) as R1.
    pose proof (arun_aeq ops _ _ (abs_init c0)) as R2.
    destruct (aeq_trans _ _ _ R1 R2) as (Hd & _ & _). cbn [abs a_docs] in Hd.
    assert (H : lookup u (docs (final (init cfg c0) ops)) = None) by (rewrite Hd; exact Hclosed).
    split; [exact H|]. cbn [Model.step]. rewrite H. reflexivity.
  Qed.

  (** Formatting answers from the latest text and configuration and changes nothing. *)
  Lemma format_answer : forall c0 ops u t,
    a_docs (arun cfg (ainit cfg c0) ops) u = Some t ->
    step (final (init cfg c0) ops) (Format u) =
    (final (init cfg c0) ops,
     [Edits [mk_edit t (fixer (a_conf (arun cfg (ainit cfg c0) ops)) t)]]).
  Proof.
    intros c0 ops u t Hopen.
    pose proof (refine_run ops (init cfg c0)) as R1.
    pose proof (arun_aeq ops _ _ (abs_init c0)) as R2.
    destruct (aeq_trans _ _ _ R1 R2) as (Hd & Hc & _). cbn [abs a_docs a_conf] in Hd, Hc.
    cbn [Model.step]. rewrite Hd, Hopen, Hc. reflexivity.
  Qed.
End Hist.

(** Formatting is faithful for the repaired [format] ... *)
Theorem format_faithful : forall cfg lint fixer c0 ops u t,
  a_docs (arun cfg (ainit cfg c0) ops) u = Some t ->
  exists es,
    step cfg lint fixer format_edit (final cfg lint fixer format_edit (init cfg c0) ops) (Format u) =
      (final cfg lint fixer format_edit (init cfg c0) ops, [Edits es])
    /\ apply_edits t es = Some (fixer (a_conf (arun cfg (ainit cfg c0) ops)) t).
Proof.
  intros cfg lint fixer c0 ops u t Hopen.
  eexists. split.
  - apply format_answer. exact Hopen.
  - cbn [apply_edits]. rewrite apply_format_edit. reflexivity.
Qed.

(** ... and was not for the code before the repair: a history (open a three-line document whose
    fixer has one line, then format) after which applying the returned edit does not give the fixer. *)
Definition w_fix (c : unit) (t : text) : text := legacy_new.
Definition w_lint (c : unit) (t : text) : list viol := [].
Definition w_ops : list (op unit) := [Open 0 legacy_old; Format 0].

Theorem format_faithful_legacy_refuted :
  exists (ops : list (op unit)) u t es,
    a_docs (arun unit (ainit unit tt) ops) u = Some t
    /\ snd (step unit w_lint w_fix format_edit_legacy
              (final unit w_lint w_fix format_edit_legacy (init unit tt) ops) (Format u)) = [Edits es]
    /\ apply_edits t es <> Some (w_fix tt t).
Proof.
  exists [Open 0 legacy_old], 0, legacy_old.
  eexists. split; [reflexivity|]. split; [vm_compute; reflexivity|].
  vm_compute. discriminate.
Qed.

(** * Non-vacuity *)
Definition ex_lint (c : N) (t : text) : list viol :=
  if c =? 0 then [] else [mkviol 1 (1 + N.of_nat (length t)) (Some [76;84]) [120]].
Definition ex_fix (c : N) (t : text) : text := if c =? 0 then t else [97;10].
Definition ex_ops : list (op N) :=
  [Open 0 [97;10;98;10]; Open 1 [99]; WriteDisk 1; Change 0 [100;10;10]; Close 1;
   Save [47;46;115;113;114;117;102;102]; Format 0].

(** The premise of [diag_latest] / [format_faithful] is met by a history in which a document is
    open, was changed, another was closed and the configuration was replaced; the published
    diagnostics are not empty. *)
Example ex_history_open :
  a_docs (arun N (ainit N 0) ex_ops) 0 = Some [100;10;10]
  /\ a_docs (arun N (ainit N 0) ex_ops) 1 = None
  /\ a_conf (arun N (ainit N 0) ex_ops) = 1
  /\ last_publish 0 (outputs N ex_lint ex_fix format_edit (init N 0) ex_ops)
     = Some [mkdiag 0 3 (Some [76;84]) [120]].
Proof. repeat split; vm_compute; reflexivity. Qed.

Example ex_zero_based_premise :
  let v := mkviol 3 7 None [] in 1 <= v_line v < 4294967296 /\ 1 <= v_pos v < 4294967296.
Proof. cbn. lia. Qed.

(** * The server before the second repair: templater frozen at start-up
    [Linter::new] chooses the templater from the configuration; the legacy server replaced only the
    configuration on a configuration save. With [lint2 tc c t] = "lint [t] with the templater named by
    configuration [tc] and everything else from [c]", the legacy server is the same state machine run
    with the oracle [lint2 c0] (the start-up configuration's templater), whereas the lint of a text under
    configuration [c] is [lint2 c c t]. Diagnostics after a templater switch are then not those of the
    latest configuration. *)
Definition w_lint2 (tc c : N) (t : text) : list viol := [mkviol (1 + tc) (1 + c) None []].
Definition w_ops2 : list (op N) := [WriteDisk 1; Save dot_sqruff; Open 0 [97]].

Theorem diag_latest_legacy_templater_refuted :
  exists (lint2 : N -> N -> text -> list viol) fixer c0 (ops : list (op N)) u t,
    a_docs (arun N (ainit N c0) ops) u = Some t
    /\ last_publish u (outputs N (lint2 c0) fixer format_edit (init N c0) ops)
       <> Some (map to_diag (lint2 (a_conf (arun N (ainit N c0) ops)) (a_conf (arun N (ainit N c0) ops)) t)).
Proof.
  exists w_lint2, (fun _ t => t), 0, w_ops2, 0, [97].
  split; [reflexivity|]. vm_compute. discriminate.
Qed.
