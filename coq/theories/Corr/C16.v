(** Correspondence glue for C16: every recorded call of [handle_segment] (hook in cp01.rs)
    replayed on the Gallina [handle]. No kernel logic lives here. *)
From Sq Require Export Base.Corr Caps.Model.

Definition mkm (u l c p : bool) (lt : option ccase) : memory :=
  {| m_up := u; m_lo := l; m_cap := c; m_pas := p; m_latest := lt |}.

Definition ccase_eqb (a b : ccase) : bool :=
  match a, b with
  | Upper, Upper | Lower, Lower | Capitalise, Capitalise | Pascal, Pascal => true
  | _, _ => false
  end.
Definition memory_eqb (a b : memory) : bool :=
  Bool.eqb (m_up a) (m_up b) && Bool.eqb (m_lo a) (m_lo b) && Bool.eqb (m_cap a) (m_cap b)
  && Bool.eqb (m_pas a) (m_pas b) && opt_eqb ccase_eqb (m_latest a) (m_latest b).

Definition call_args : Type := (pname * policy * memory * str * bool)%type.
Definition call_res : Type := (memory * option str)%type.
Definition model (a : call_args) : call_res :=
  let '(n, p, m, raw, t) := a in handle n p m raw t.
Definition check_call (a : call_args) (exp : call_res) : bool :=
  let r := model a in memory_eqb (fst r) (fst exp) && opt_eqb str_eqb (snd r) (snd exp).
Definition case_t_call : Type := (N * call_args * call_res)%type.

(** Group [crawl]: one whole crawl of one rule. Arguments: option list, policy, the rule's
    [ignore_words] (lower case) and the tokens the rule applies to (harness: the independent
    scope walk over the parse tree, ignored words included); expected: the calls of
    [handle_segment] the recorder saw during that crawl, in order (raw text, reported fix). *)
Definition crawl_args : Type := (pname * policy * list str * list (str * bool))%type.
Definition crawl_res : Type := list (str * option str).
Definition model_crawl (a : crawl_args) : crawl_res :=
  let '(n, p, ig, ts) := a in calls_of (trace n p ig ts).
Definition call_eqb (a b : str * option str) : bool :=
  str_eqb (fst a) (fst b) && opt_eqb str_eqb (snd a) (snd b).
Definition check_crawl (a : crawl_args) (exp : crawl_res) : bool := list_eqb call_eqb (model_crawl a) exp.
Definition case_t_crawl : Type := (N * crawl_args * crawl_res)%type.
