(** Correspondence glue for C10: run the noqa model on what the harness recorded and
    compare with what the implementation reported. No logic of the kernel lives here. *)
From Sq Require Import Base.Corr Noqa.Model.

Definition rviol := (N * N * option str)%type.
Definition to_v (x : rviol) : violation :=
  {| v_line := fst (fst x); v_pos := snd (fst x); v_rule := snd x |}.
Definition of_v (v : violation) : rviol := (v_line v, v_pos v, v_rule v).
Definition to_c (x : str * N * N) : comment :=
  {| c_raw := fst (fst x); c_line := snd (fst x); c_pos := snd x |}.

Definition rviol_eqb (a b : rviol) : bool :=
  (fst (fst a) =? fst (fst b)) && (snd (fst a) =? snd (fst b)) && opt_eqb str_eqb (snd a) (snd b).

Definition model (a : list (str * N * N) * list rviol * list rviol) : list rviol :=
  let '(cs, pvs, rvs) := a in
  map of_v (lint_noqa (map to_c cs) (map to_v pvs) (map to_v rvs)).

Definition check (a : list (str * N * N) * list rviol * list rviol) (exp : list rviol) : bool :=
  list_eqb rviol_eqb (model a) exp.

Definition args_t : Type := (list (str * N * N) * list rviol * list rviol)%type.
Definition case_t_readme : Type := (N * args_t * list rviol)%type.
Definition case_t_odd : Type := case_t_readme.

(* both groups use the same check *)
Definition check_readme := check.
Definition check_odd := check.
