(** Correspondence glue for C03: run the crash-envelope kernels of [Crash/Model.v] on what the
    harness recorded and compare with what the implementation did. No kernel logic lives here. *)
From Sq Require Import Base.Corr Crash.Model.

(** ** group scan: [process_raw_file_for_config] panicked? *)
Definition case_t_scan : Type := (N * str * bool)%type.
Definition model_scan (src : str) : bool := crashed (scan_config false src).
Definition check_scan (src : str) (exp : bool) : bool := Bool.eqb (model_scan src) exp.

(** ** group htc: [LintFix::has_template_conflicts] *)
Definition nn_eqb (a b : N * N) : bool := (fst a =? fst b) && (snd a =? snd b).

(** recorded answers of [templated_slice_to_source_slice]: [None] = it panicked *)
Definition tsts_table := list ((N * N) * option (option (N * N))).
Fixpoint tsts_lookup (t : tsts_table) (r : N * N) : outcome (option (N * N)) :=
  match t with
  | [] => Crash site_oracle_missing
  | (k, v) :: t' =>
      if nn_eqb k r then match v with Some a => Val a | None => Crash site_tsts end
      else tsts_lookup t' r
  end.

Definition etype_of (n : N) : edit_type :=
  match n with 0 => CreateBefore | 1 => CreateAfter | 2 => Replace | _ => Delete end.

(** the harness cannot build edits with source fixes (no segment carries any in this code base):
    [n] source fixes are rendered as [n] dummy slices; only their number matters to the kernel
    unless all edits are source edits, which then never happens *)
Definition eshape_of (x : bool * N * bool) : edit_shape :=
  {| e_leaf := fst (fst x); e_srcfix := repeat (0, 0) (N.to_nat (snd (fst x))); e_same_raw := snd x |}.

Definition marker_of (x : N * N * N * N) : marker :=
  let '(a, b, c, d) := x in {| src_start := a; src_stop := b; tpl_start := c; tpl_stop := d |}.

Definition raw_of (x : bool * N * N) : raw_slice :=
  {| rs_templated := fst (fst x); rs_idx := snd (fst x); rs_len := snd x |}.

Definition htc_args : Type :=
  (bool * N * option (N * N * N * N) * list (bool * N * bool) * bool * list (bool * N * N) * tsts_table)%type.
Definition case_t_htc : Type := (N * htc_args * option bool)%type.

Definition model_htc (a : htc_args) : outcome bool :=
  let '(wrapping, ty, mk, edits, has_source, raw, table) := a in
  has_template_conflicts false wrapping (tsts_lookup table) (map raw_of raw)
    {| f_type := etype_of ty; f_anchor := option_map marker_of mk; f_edits := map eshape_of edits;
       f_has_source := has_source |}.

Definition check_htc (a : htc_args) (exp : option bool) : bool :=
  match model_htc a, exp with
  | Val b, Some b' => Bool.eqb b b'
  | Crash s, None => negb (s =? site_oracle_missing)
  | _, _ => false
  end.

(** ** group loop: the fix loop against the recorded batches *)
Definition batch_table := list (bool * N * N * N * N).   (* is_main, pass, rule, version before, after *)
Definition ph_of (main : bool) : phase := if main then Main else Post.
Definition ph_is_main (p : phase) : bool := match p with Main => true | Post => false end.

Fixpoint batch_lookup (t : batch_table) (ph : phase) (pass : N) (r : N) (v : N) : option N :=
  match t with
  | [] => None
  | (m, p, r', b, a) :: t' =>
      if Bool.eqb m (ph_is_main ph) && (p =? pass) && (r' =? r) && (b =? v) then Some a
      else batch_lookup t' ph pass r v
  end.

Definition rule_of (x : N * bool * bool) : rule :=
  {| r_id := fst (fst x); r_phase := ph_of (snd (fst x)); r_fixcompat := snd x |}.

Definition revent := (bool * N * N * bool + bool * N * bool)%type.
Definition of_event (e : event) : revent :=
  match e with
  | EBatch ph pass r acc => inl (ph_is_main ph, pass, r, acc)
  | EPassEnd ph pass ch => inr (ph_is_main ph, pass, ch)
  end.

Definition loop_args : Type := (bool * list (N * bool * bool) * N * batch_table)%type.
Definition case_t_loop : Type := (N * loop_args * (list revent * N))%type.

Definition model_loop (a : loop_args) : option (list revent * N * N) :=
  let '(fixmode, rules, start, table) := a in
  match lint_fix N (fun v => v)
          (fun ph pass r t => Val (match batch_lookup table ph pass (r_id r) t with Some _ => true | None => false end))
          (fun ph pass r t => match batch_lookup table ph pass (r_id r) t with Some v' => Val v' | None => Crash site_oracle_missing end)
          fixmode (map rule_of rules) start with
  | Val st => Some (map of_event (rev (l_events st)), l_tree st, l_crawls st)
  | Crash _ => None
  end.

Definition revent_eqb (a b : revent) : bool :=
  match a, b with
  | inl (m, p, r, c), inl (m', p', r', c') => Bool.eqb m m' && (p =? p') && (r =? r') && Bool.eqb c c'
  | inr (m, p, c), inr (m', p', c') => Bool.eqb m m' && (p =? p') && Bool.eqb c c'
  | _, _ => false
  end.

Definition check_loop (a : loop_args) (exp : list revent * N) : bool :=
  match model_loop a with
  | Some (evs, final, _) => list_eqb revent_eqb evs (fst exp) && (final =? snd exp)
  | None => false
  end.

(** ** group aei: [compute_anchor_edit_info] on generated batches *)
Definition aei_fix : Type := (N * N * str * list str)%type.   (* type, anchor id, anchor raw, edit raws *)
Definition bfix_of (x : aei_fix) : bfix :=
  let '(ty, a, raw, es) := x in {| b_type := etype_of ty; b_anchor := a; b_anchor_raw := raw; b_edits := es |}.
(* per anchor id (sorted by the harness): delete, replace, create_before, create_after, #fixes, first_replace *)
Definition aei_row : Type := (N * (N * N * N * N * N * option N))%type.
Definition case_t_aei : Type := (N * list aei_fix * option (list aei_row))%type.

Fixpoint insert_row (r : aei_row) (l : list aei_row) : list aei_row :=
  match l with
  | [] => [r]
  | x :: l' => if fst r <=? fst x then r :: l else x :: insert_row r l'
  end.
Definition sort_rows (l : list aei_row) : list aei_row := fold_right insert_row [] l.

Definition model_aei (fs : list aei_fix) : option (list aei_row) :=
  match compute_aei [] (map bfix_of fs) with
  | Crash _ => None
  | Val m => Some (sort_rows (map (fun ki =>
      (fst ki, (a_delete (snd ki), a_replace (snd ki), a_create_before (snd ki), a_create_after (snd ki),
                N.of_nat (length (a_fixes (snd ki))), a_first_replace (snd ki)))) m))
  end.

Definition row_eqb (a b : aei_row) : bool :=
  let '(k, (d, r, cb, ca, n, fr)) := a in
  let '(k', (d', r', cb', ca', n', fr')) := b in
  (k =? k') && (d =? d') && (r =? r') && (cb =? cb') && (ca =? ca') && (n =? n') && opt_eqb N.eqb fr fr'.

Definition check_aei (fs : list aei_fix) (exp : option (list aei_row)) : bool :=
  opt_eqb (list_eqb row_eqb) (model_aei fs) exp.
