(** Correspondence glue for C13: one recorded call of [longest_match] is replayed on the model.
    Options are identified by their cache key; what each option's [match_segments] returned, the
    entries that were already in the parse cache, and the answers of the terminator probes are the
    recorded oracle data.  No logic of the kernel lives here. *)
From Sq Require Import Base.Corr Cache.Model.

Definition rres := (N * bool * N)%type.                 (* len, has_match, span end *)
Definition to_mres (k : N) (r : rres) : mres :=
  {| m_len := fst (fst r); m_has := snd (fst r); m_end := snd r; m_tag := k |}.
Definition of_mres (m : mres) : rres := (m_len m, m_has m, m_end m).

Definition args_t : Type :=
  (N * N * N * bool * bool * bool           (* idx, max_idx, loc_key, terminators active, use_cache, use_prune *)
   * option (N * list N)                    (* first code token: interned raw, class types *)
   * list (N * option (list N * list N))    (* options in order: cache key, first-token hint *)
   * list (N * rres)                        (* recorded match result per evaluated key *)
   * list N                                 (* keys that were in the cache at this loc before the call *)
   * list (N * bool))%type.                 (* answer of the terminator probe after candidate key *)
Definition exp_t : Type := (option N * rres * list N)%type.   (* chosen key, result, keys matched afresh in order *)

Fixpoint assoc {A} (k : N) (l : list (N * A)) : option A :=
  match l with [] => None | (k', v) :: l' => if k' =? k then Some v else assoc k l' end.

Definition model (a : args_t) : exp_t :=
  let '(idx, max_idx, loc, has_terms, uc, up, tok, options, results, cached, probes) := a in
  let res_of k := match assoc k results with Some r => to_mres k r | None => empty_at idx end in
  let simple_of k := match assoc k options with Some h => h | None => None end in
  let mfn k (c : cache) := (res_of k, c) in
  let probe (r : mres) (c : cache) := (match assoc (m_tag r) probes with Some b => b | None => false end, c) in
  let c0 : cache := map (fun k => (loc, k, res_of k)) cached in
  let out := longest_match N (fun k => k) simple_of mfn probe uc up idx max_idx loc tok has_terms (map fst options) c0 in
  let fresh := firstn (length (snd out) - length c0) (snd out) in
  (snd (fst out), of_mres (fst (fst out)), rev (map (fun e => snd (fst e)) fresh)).

Definition rres_eqb (a b : rres) : bool :=
  (fst (fst a) =? fst (fst b)) && Bool.eqb (snd (fst a)) (snd (fst b)) && (snd a =? snd b).
Definition check (a : args_t) (e : exp_t) : bool :=
  let m := model a in
  opt_eqb N.eqb (fst (fst m)) (fst (fst e)) && rres_eqb (snd (fst m)) (snd (fst e)) && list_eqb N.eqb (snd m) (snd e).

Definition case_t_lm : Type := (N * args_t * exp_t)%type.
Definition check_lm := check.

(** Group [prune]: the pruning decision itself.  One token (the first code token at the start index:
    interned upper-cased raw and class types; [None]: no code token stands there), a table of real
    options (cache key, recorded first-token hint) and several option lists given by positions in
    the table; expected: for every list the positions of the options the real [prune_options]
    returned, in the order returned.  The model is [Cache.Model.prune] (= [filter] by [keep]). *)
Definition pargs_t : Type :=
  (option (N * list N) * list (N * option (list N * list N)) * list (list N))%type.
Definition pexp_t : Type := list (list N).
Definition model_prune (a : pargs_t) : pexp_t :=
  let '(tok, table, lists) := a in
  let hint_of (i : N) := match nth_error table (N.to_nat i) with Some (_, h) => h | None => None end in
  map (fun l => prune N hint_of true tok l) lists.
Definition check_prune_args (a : pargs_t) (e : pexp_t) : bool :=
  list_eqb (list_eqb N.eqb) (model_prune a) e.
Definition case_t_prune : Type := (N * pargs_t * pexp_t)%type.
Definition check_prune := check_prune_args.
