(** Correspondence glue for C17: replay the loop model on the oracle answers recorded from one real
    fix run and compare the control decisions (batches accepted/rejected, pass ends, final tree). *)
From Sq Require Import Base.Corr Fix.Model Fix.MaskModel.

(* trees, keys, rules and fix batches are numbers assigned by the harness:
   crawl table: ((rule, tree), resulting tree); key table: (tree, key) *)
Fixpoint lookup2 (tb : list (N * N * N)) (a b : N) : option N :=
  match tb with
  | [] => None
  | (x, y, v) :: tb' => if (x =? a) && (y =? b) then Some v else lookup2 tb' a b
  end.
Fixpoint lookup1 (tb : list (N * N)) (a : N) : N :=
  match tb with
  | [] => 1000000 + a
  | (x, v) :: tb' => if x =? a then v else lookup1 tb' a
  end.

(* args: rules as (is_post, fix_compatible) in registry order, crawl table, key table, initial tree *)
Definition args_t : Type := (list (bool * bool) * list (N * N * N) * list (N * N) * N)%type.
(* observed: batches (is_post, pass, rule, accepted), pass ends (is_post, pass, changed), final tree *)
Definition obs_t : Type := (list (bool * N * N * bool) * list (bool * N * bool) * N)%type.

Definition is_post (ph : phase) : bool := match ph with Post => true | Main => false end.
Fixpoint index_list {A} (i : N) (l : list A) : list N :=
  match l with [] => [] | _ :: l' => i :: index_list (i + 1) l' end.

Definition model (a : args_t) : obs_t :=
  let '(rs, ctab, ktab, t0) := a in
  let nth_rule (r : N) := nth (N.to_nat r) rs (false, false) in
  let '(s, _, _) := run N N N N (lookup1 ktab) N.eqb (fun r t => lookup2 ctab r t) (fun _ f => f)
                        (fun r => if fst (nth_rule r) then Post else Main)
                        (fun r => snd (nth_rule r)) (index_list 0 rs) t0 in
  let evs := log N N N s in
  (flat_map (fun e => match e with Batch _ ph p r acc => [(is_post ph, p, r, acc)] | _ => [] end) evs,
   flat_map (fun e => match e with PassEnd _ ph p c => [(is_post ph, p, c)] | _ => [] end) evs,
   tree N N N s).

Definition b4_eqb (x y : bool * N * N * bool) : bool :=
  let '(a1, a2, a3, a4) := x in let '(b1, b2, b3, b4) := y in
  Bool.eqb a1 b1 && (a2 =? b2) && (a3 =? b3) && Bool.eqb a4 b4.
Definition b3_eqb (x y : bool * N * bool) : bool :=
  let '(a1, a2, a3) := x in let '(b1, b2, b3) := y in Bool.eqb a1 b1 && (a2 =? b2) && Bool.eqb a3 b3.

Definition check_loop (a : args_t) (e : obs_t) : bool :=
  let '(mb, mp, mt) := model a in
  let '(eb, ep, et) := e in
  list_eqb b4_eqb mb eb && list_eqb b3_eqb mp ep && (mt =? et).
Definition case_t_loop : Type := (N * args_t * obs_t)%type.

(** Group [mask]: the mask step of the loop on the initial tree. args: per rule (registry order) the raw results of
    [Rule::crawl] as (silenced by the file's IgnoreMask, carries fixes). observed: the number of violations of each
    rule that lint reports, and the rule of the first batch of the fix run (if any). *)
Definition margs_t : Type := list (list (bool * bool)).
Definition mobs_t : Type := (list N * option N)%type.
Definition mask_model (tab : margs_t) : mobs_t :=
  let rs := index_list 0 tab in
  let raw (r : N) (_ : unit) := nth (N.to_nat r) tab [] in
  let fixes (e : bool * bool) : list unit := if snd e then [tt] else [] in
  (map (fun r => N.of_nat (length (kept unit N (bool * bool) raw fst r tt))) rs,
   first_fixing unit N (bool * bool) unit raw fst fixes rs tt).
Definition check_mask (a : margs_t) (e : mobs_t) : bool :=
  let '(mc, mf) := mask_model a in
  let '(ec, ef) := e in
  list_eqb N.eqb mc ec && opt_eqb N.eqb mf ef.
Definition case_t_mask : Type := (N * margs_t * mobs_t)%type.
