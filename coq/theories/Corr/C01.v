(** Correspondence glue for C01: the model of [Lexer::lex] is run on the recorded input with
    oracles that answer from the table of (query, answer) pairs the harness recorded from the
    real pattern objects. No logic of the kernel lives here. *)
From Sq Require Export Base.Corr Lexer.Model Lexer.Tables.

Definition mtbl := list (N * N * list (N * option N)).      (* offset, length, [(pattern, Pattern::matches)] *)
Definition stbl := list (N * N * N * option (N * N)).       (* pattern, offset, length, Pattern::search *)
Definition rtbl := list (N * N * option (N * N * N)).       (* offset, length, combined regex *)

(** A query the real code did not make has no recorded answer: the oracle then answers out of
    bounds, which the model turns into [None] ("panic"), i.e. a mismatch -- never a silent pass. *)
Fixpoint look_p (qs : list (N * option N)) (p l : N) : option N :=
  match qs with
  | [] => Some (l + 1)
  | (p', a) :: qs' => if p' =? p then a else look_p qs' p l
  end.
Fixpoint look_m (t : mtbl) (p off l : N) : option N :=
  match t with
  | [] => Some (l + 1)
  | (off', l', qs) :: t' => if (off' =? off) && (l' =? l) then look_p qs p l else look_m t' p off l
  end.
Fixpoint look_s (t : stbl) (p off l : N) : option (N * N) :=
  match t with
  | [] => Some (0, l + 1)
  | (p', off', l', a) :: t' => if (off' =? off) && (p' =? p) && (l' =? l) then a else look_s t' p off l
  end.
Fixpoint look_r (t : rtbl) (off l : N) : option (N * N * N) :=
  match t with
  | [] => Some (0, 0, l + 1)
  | (off', l', a) :: t' => if (off' =? off) && (l' =? l) then a else look_r t' off l
  end.

Definition args_t : Type := (tables * str * mtbl * stbl * rtbl)%type.
Definition rtok := (N * str * N * N * N * N)%type.           (* kind, raw, source slice, templated slice *)
Definition of_tok (t : token) : rtok :=
  (t_kind t, t_text t, fst (t_src t), snd (t_src t), fst (t_tpl t), snd (t_tpl t)).

Definition run (legacy : bool) (a : args_t) : option (list rtok) :=
  let '(tb, s, mt, st, rt) := a in
  let om := fun p off x => look_m mt p off (len x) in
  let os := fun p off x => look_s st p off (len x) in
  let orx := fun off x => look_r rt off (len x) in
  option_map (map of_tok)
    ((if legacy then lex_legacy else lex) om os orx (tb_matchers tb) (tb_syntax tb) (tb_resort tb) (tb_eof tb) s).

Definition model : args_t -> option (list rtok) := run false.
Definition model_legacy : args_t -> option (list rtok) := run true.

Definition rtok_eqb (a b : rtok) : bool :=
  let '(k, r, s0, s1, t0, t1) := a in
  let '(k', r', s0', s1', t0', t1') := b in
  (k =? k') && str_eqb r r' && (s0 =? s0') && (s1 =? s1') && (t0 =? t0') && (t1 =? t1').

Definition check_lex (a : args_t) (exp : option (list rtok)) : bool :=
  opt_eqb (list_eqb rtok_eqb) (model a) exp.

Definition case_t_lex : Type := (N * args_t * option (list rtok))%type.

(** group [lextpl]: the lexer's other entry, [Lexer::lex(Template(file))].  The model is the
    composition of this area's model of the lexing loop (run on the templated text, which is what
    the real code lexes) with C15's model of [iter_segments] / the end-of-file marker
    ([Templ.Model.lex_segments]) on the file's slice list: the elements are the tokens the string
    model yields (end-of-file marker dropped), an element may be split iff its kind is the
    whitespace kind.  Every token is compared by kind, text, source slice and templated slice. *)
From Sq Require Templ.Model.

Definition tsl (lit : bool) (s0 s1 t0 t1 : N) : Templ.Model.tslice :=
  Templ.Model.mk_ts (if lit then Templ.Model.SLit else Templ.Model.STempl) s0 s1 t0 t1.

Definition args_lextpl : Type := (args_t * N * list Templ.Model.tslice)%type.

Definition el_of (kws : N) (t : rtok) : Templ.Model.elem :=
  let '(k, _, _, _, t0, t1) := t in Templ.Model.mk_el t0 t1 (k =? kws).
Fixpoint kind_at (body : list rtok) (dflt p : N) : N :=
  match body with
  | [] => dflt
  | (k, _, _, _, t0, t1) :: r => if (t0 <=? p) && (p <? t1) then k else kind_at r dflt p
  end.
Definition input_of (a : args_t) : str := let '(_, s, _, _, _) := a in s.
Definition eof_kind_of (a : args_t) : N := let '(tb, _, _, _, _) := a in tb_eof tb.

Definition model_lextpl (a : args_lextpl) : option (list rtok) :=
  let '(la, kws, sl) := a in
  match model la with
  | None => None
  | Some toks =>
      let body := removelast toks in
      match Templ.Model.lex_segments sl (map (el_of kws) body) with
      | None => None
      | Some gs =>
          Some (map (fun g =>
                       let t0 := Templ.Model.g_t0 g in
                       let t1 := Templ.Model.g_t1 g in
                       (kind_at body (eof_kind_of la) t0, slice t0 t1 (input_of la),
                        Templ.Model.g_s0 g, Templ.Model.g_s1 g, t0, t1)) gs)
      end
  end.

Definition check_lextpl (a : args_lextpl) (exp : option (list rtok)) : bool :=
  opt_eqb (list_eqb rtok_eqb) (model_lextpl a) exp.

Definition case_t_lextpl : Type := (N * args_lextpl * option (list rtok))%type.
