(** Correspondence glue for the parser-engine interpreter: run [parse_root] on the recorded
    tokens and compare with the root [MatchResult] the real parser produced. *)
From Sq Require Import Base.Corr Pem.Model.

Definition matched_eqb (a b : option matched) : bool :=
  match a, b with
  | None, None => true
  | Some (MKind x), Some (MKind y) => x =? y
  | Some (MNewtype x), Some (MNewtype y) => x =? y
  | _, _ => false
  end.

Fixpoint mr_eqb (a b : mr) {struct a} : bool :=
  match a, b with
  | MR s e m i c, MR s' e' m' i' c' =>
      (s =? s') && (e =? e') && matched_eqb m m'
      && list_eqb (fun x y => (fst x =? fst y) && (snd x =? snd y)) i i'
      && (fix go (l l' : list mr) {struct l} : bool :=
            match l, l' with
            | [], [] => true
            | x :: t, y :: t' => mr_eqb x y && go t t'
            | _, _ => false
            end) c c'
  end.

Definition is_dangling (p : panic) : bool :=
  match p with PDangling _ | PDanglingBracket => true | _ => false end.

Definition res_eqb (a b : res mr) : bool :=
  match a, b with
  | ROk x, ROk y => mr_eqb x y
  | RErr, RErr => true
  | RPanic p, RPanic q => Bool.eqb (is_dangling p) (is_dangling q)   (* same class of abort *)
  | _, _ => false
  end.

Definition args_t : Type := (list ptok * list (N * N) * N * N)%type.
Definition case_t : Type := (N * args_t * res mr)%type.

Definition pem_fuel : nat := N.to_nat 600.

Definition run (g : grammar) (a : args_t) : res mr :=
  let '(toks, rx, s, e) := a in parse_root g (toks_of_list toks) rx pem_fuel s e.

Definition check_with (g : grammar) (a : args_t) (exp : res mr) : bool := res_eqb (run g a) exp.
