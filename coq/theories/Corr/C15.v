(** Correspondence glue for C15: run the templater / constructor / iter_segments model on
    what the harness recorded and compare with what the implementation returned.
    No logic of the kernels lives here. *)
From Sq Require Export Base.Corr Templ.Model.

Definition ts_eqb (a b : tslice) : bool :=
  stype_eqb (ty a) (ty b) && (s0 a =? s0 b) && (s1 a =? s1 b) && (t0 a =? t0 b) && (t1 a =? t1 b).
Definition rs_eqb (a b : rslice) : bool :=
  str_eqb (r_raw a) (r_raw b) && stype_eqb (r_ty a) (r_ty b) && (r_idx a =? r_idx b).
Definition tf_eqb (a b : tfile) : bool :=
  str_eqb (tf_tpl a) (tf_tpl b) && list_eqb ts_eqb (tf_sl a) (tf_sl b) && list_eqb rs_eqb (tf_rs a) (tf_rs b).
Definition res_eqb {A} (eqb : A -> A -> bool) (a b : res A) : bool :=
  match a, b with
  | ROk x, ROk y => eqb x y
  | RErr, RErr => true
  | RPanic, RPanic => true
  | _, _ => false
  end.

(** group [process]: (source, config map of the placeholder section, captures of the real regex) *)
Definition args_process : Type := (str * list (str * cval) * list cap)%type.
Definition model_process (a : args_process) : res tfile :=
  let '(src, vals, caps) := a in process src vals caps.
Definition check_process (a : args_process) (exp : res tfile) : bool := res_eqb tf_eqb (model_process a) exp.
Definition case_t_process : Type := (N * args_process * res tfile)%type.

(** groups [lex] (templated files made by the real templater) and [lexsyn] (synthetic slice
    lists): (slices, lexed elements) -> position markers of the tokens incl. end-of-file.
    The harness reports a token as [mk_seg s0 s1 t0 t1 0 raw_len]. *)
Definition seg_view (g : seg) : seg := mk_seg (g_s0 g) (g_s1 g) (g_t0 g) (g_t1 g) 0 (g_r1 g - g_r0 g).
Definition seg_eqb (a b : seg) : bool :=
  (g_s0 a =? g_s0 b) && (g_s1 a =? g_s1 b) && (g_t0 a =? g_t0 b) && (g_t1 a =? g_t1 b)
  && (g_r0 a =? g_r0 b) && (g_r1 a =? g_r1 b).
Definition args_lex : Type := (list tslice * list elem)%type.
Definition model_lex (a : args_lex) : option (list seg) :=
  match lex_segments (fst a) (snd a) with
  | Some gs => Some (map seg_view gs)
  | None => None
  end.
Definition check_lex (a : args_lex) (exp : option (list seg)) : bool :=
  opt_eqb (list_eqb seg_eqb) (model_lex a) exp.
Definition case_t_lex : Type := (N * args_lex * option (list seg))%type.
Definition check_lexsyn := check_lex.
Definition case_t_lexsyn : Type := case_t_lex.

(** group [lit]: [is_source_slice_literal] on the raw slices of a real templated file *)
Definition args_lit : Type := (list rslice * N * N)%type.
Definition model_lit (a : args_lit) : bool := let '(rs, x, y) := a in is_source_slice_literal rs x y.
Definition check_lit (a : args_lit) (exp : bool) : bool := Bool.eqb (model_lit a) exp.
Definition case_t_lit : Type := (N * args_lit * bool)%type.

(** group [lexlegacy] (one-off validation of the pre-repair model, see bin/c15_legacy_tie): the
    harness built against the tree with fix 7940035 reverted vs [iter_segments_legacy] (wrapping build) *)
Definition model_lexlegacy (a : args_lex) : option (list seg) :=
  match iter_segments_legacy false (fst a) (snd a) with
  | Some gs => Some (map seg_view (gs ++ [eof_seg gs]))
  | None => None
  end.
Definition check_lexlegacy (a : args_lex) (exp : option (list seg)) : bool :=
  opt_eqb (list_eqb seg_eqb) (model_lexlegacy a) exp.
Definition case_t_lexlegacy : Type := case_t_lex.
