(** Correspondence glue for C04: run the patch model on what the harness recorded (final tree and
    TemplatedFile of a fix run, or a raw patch list) and compare with the implementation's patch
    list and fixed text. No logic of the kernel lives here. *)
From Coq Require Export String Ascii.
From Sq Require Import Base.Corr Patch.Model Patch.SpanModel Patch.TemplatedModel.

(* compact text literals in generated cases: (S "...") *)
Definition S (s : string) : str := List.map N_of_ascii (list_ascii_of_string s).

Definition rpatch := (N * N * str)%type.
Definition to_p (x : rpatch) : patch := mkPatch (fst (fst x)) (snd (fst x)) (snd x).
Definition of_p (p : patch) : rpatch := (p_s p, p_e p, p_raw p).
Definition rpatch_eqb (a b : rpatch) : bool :=
  (fst (fst a) =? fst (fst b)) && (snd (fst a) =? snd (fst b)) && str_eqb (snd a) (snd b).

(* trees as recorded: L strip raw s0 s1 t0 t1 | Nd strip s0 s1 t0 t1 children *)
Definition L (b : bool) (r : str) (a1 a2 a3 a4 : N) : seg := Leaf b r (mkPos a1 a2 a3 a4).
Definition Nd (b : bool) (a1 a2 a3 a4 : N) (cs : list seg) : seg := Node b (mkPos a1 a2 a3 a4) [] cs.

(* group tree: (src, tpl or None when equal to src, raw slices, tree) -> (patches, fixed text) *)
Definition tree_args : Type := (str * option str * list (N * bool) * seg)%type.
Definition mk_tf (a : tree_args) : tfile :=
  let '(s, ot, rs, _) := a in mkTf s (match ot with Some t => t | None => s end) rs.
Definition model (a : tree_args) : list rpatch * str :=
  let tf := mk_tf a in
  let t := snd a in
  (map of_p (iter_patches tf t), fixed_text tf t).
Definition check_tree (a : tree_args) (e : list rpatch * str) : bool :=
  let m := model a in list_eqb rpatch_eqb (fst m) (fst e) && str_eqb (snd m) (snd e).
Definition case_t_tree : Type := (N * tree_args * (list rpatch * str))%type.

(* group patches: (src, source-only slices, patches) -> fixed text *)
Definition patches_args : Type := (str * list (N * N) * list rpatch)%type.
Definition model_patches (a : patches_args) : str :=
  let '(s, so, ps) := a in fix_string_so s so (map to_p ps).
Definition check_patches (a : patches_args) (e : str) : bool := str_eqb (model_patches a) e.
Definition case_t_patches : Type := (N * patches_args * str)%type.

(* group span: (raw slices, queried source ranges) -> per range the returned slices as (source_idx, length),
   None = the implementation panicked *)
Definition span_args : Type := (list rsl * list (N * N))%type.
Definition span_out : Type := list (option (list (N * N))).
Definition model_span (a : span_args) : span_out :=
  map (fun q => option_map (map (fun x => (r_idx x, r_len x))) (spanning (fst a) (fst q) (snd q))) (snd a).
Definition check_span (a : span_args) (e : span_out) : bool :=
  list_eqb (opt_eqb (list_eqb (pair_eqb N.eqb N.eqb))) (model_span a) e.
Definition case_t_span : Type := (N * span_args * span_out)%type.

(* group tok (monitor of the premise of C04_templated): (src, tpl or None when equal to src, sliced file as
   (type: 0 literal / 1 templated / 2 other, source range, templated range), raw slices, final tree) ->
   outcome the harness observed on the implementation: 0 = placeholders kept and re-rendered fixed source ==
   tree raw, 1 / 2 / 3 = failed in the recorded class fused-with-neighbour / empty value / patches out of order,
   4 = failed otherwise, 5 = not observed.
   [tok_stat]: 1 = slices tile both texts and [tree_ok] holds; 0 = tiling fails; 2 = the ghost walk fails
   (templated side not in reading order / a changed non-literal leaf / text in a dropped meta); 3 = the root's
   templated slice is not the whole templated text; 4 = patches not sorted / disjoint / duplicate-free;
   5 = some patch is not aligned with a literal slice.
   The check: when the premise holds the observation may only be "fine" or the regex-side class (1: the fixed
   text is right but the templater's regex reads it differently), never 2 / 3 / 4. *)
Definition tslice_t := (N * N * N * N * N)%type.
Definition to_ts (x : tslice_t) : TM.tslice :=
  let '(ty, a, b, c, d) := x in
  TM.mk_ts (match ty with 0 => TM.SLit | 1 => TM.STempl | _ => TM.SOther end) a b c d.
Definition tok_args : Type := (str * option str * list tslice_t * list (N * bool) * seg)%type.
Definition tok_tf (a : tok_args) : tfile :=
  let '(s, ot, _, rs, _) := a in mkTf s (match ot with Some t => t | None => s end) rs.
Definition tok_sl (a : tok_args) : list TM.tslice := let '(_, _, sl, _, _) := a in map to_ts sl.
Definition tok_stat (a : tok_args) : N :=
  let tf := tok_tf a in
  let sl := tok_sl a in
  let t := snd a in
  if negb (tilingb (src tf) (tpl tf) sl 0 0) then 0
  else match dpatches tf t with
       | None => 2
       | Some ds =>
           if negb ((t0 (seg_pos t) =? 0) && (t1 (seg_pos t) =? len (tpl tf))) then 3
           else if negb (sdb 0 (map spatch ds)) then 4
           else if negb (forallb (aligned 0 0 sl) ds) then 5
           else 1
       end.
Definition model_tok (a : tok_args) : N * option (list (N * N * N * N * str)) :=
  (tok_stat a, option_map (map (fun d => (da d, db d, du d, dv d, dr d))) (dpatches (tok_tf a) (snd a))).
Definition check_tok (a : tok_args) (e : N) : bool :=
  negb (tok_stat a =? 1) || (e =? 0) || (e =? 1) || (e =? 5).
Definition case_t_tok : Type := (N * tok_args * N)%type.

(* [tok_stat a = 1] is exactly the premise of [C04_templated] (decidable form) *)
Lemma tok_stat_premise : forall a, tok_stat a = 1 ->
  tilingb (src (tok_tf a)) (tpl (tok_tf a)) (tok_sl a) 0 0 = true /\ tree_ok (tok_tf a) (tok_sl a) (snd a) = true.
Proof.
  intros a H. unfold tok_stat in H. unfold tree_ok.
  destruct (tilingb (src (tok_tf a)) (tpl (tok_tf a)) (tok_sl a) 0 0); cbn [negb] in H; [|discriminate].
  split; [reflexivity|].
  destruct (dpatches (tok_tf a) (snd a)) as [ds|]; [|discriminate].
  destruct ((t0 (seg_pos (snd a)) =? 0) && (t1 (seg_pos (snd a)) =? len (tpl (tok_tf a)))); cbn [negb] in H; [|discriminate].
  destruct (sdb 0 (map spatch ds)); cbn [negb] in H; [|discriminate].
  destruct (forallb (aligned 0 0 (tok_sl a)) ds); cbn [negb] in H; [reflexivity|discriminate].
Qed.
