(** Correspondence glue for C04: run the patch model on what the harness recorded (final tree and
    TemplatedFile of a fix run, or a raw patch list) and compare with the implementation's patch
    list and fixed text. No logic of the kernel lives here. *)
From Coq Require Export String Ascii.
From Sq Require Import Base.Corr Patch.Model Patch.SpanModel.

(* compact text literals in generated cases: (S "...") *)
Definition S (s : string) : str := List.map N_of_ascii (list_ascii_of_string s).

Definition rpatch := (N * N * str)%type.
Definition to_p (x : rpatch) : patch := mkPatch (fst (fst x)) (snd (fst x)) (snd x).
Definition of_p (p : patch) : rpatch := (p_s p, p_e p, p_raw p).
Definition rpatch_eqb (a b : rpatch) : bool :=
  (fst (fst a) =? fst (fst b)) && (snd (fst a) =? snd (fst b)) && str_eqb (snd a) (snd b).

(* trees as recorded: L strip raw s0 s1 t0 t1 | Nd strip s0 s1 t0 t1 children *)
Definition L (b : bool) (r : str) (a1 a2 a3 a4 : N) : seg := Leaf b r (mkPos a1 a2 a3 a4).
Definition Nd (b : bool) (a1 a2 a3 a4 : N) (cs : list seg) : seg := Node b (mkPos a1 a2 a3 a4) [] cs.

(* group tree: (src, tpl or None when equal to src, raw slices, tree) -> (patches, fixed text) *)
Definition tree_args : Type := (str * option str * list (N * bool) * seg)%type.
Definition mk_tf (a : tree_args) : tfile :=
  let '(s, ot, rs, _) := a in mkTf s (match ot with Some t => t | None => s end) rs.
Definition model (a : tree_args) : list rpatch * str :=
  let tf := mk_tf a in
  let t := snd a in
  (map of_p (iter_patches tf t), fixed_text tf t).
Definition check_tree (a : tree_args) (e : list rpatch * str) : bool :=
  let m := model a in list_eqb rpatch_eqb (fst m) (fst e) && str_eqb (snd m) (snd e).
Definition case_t_tree : Type := (N * tree_args * (list rpatch * str))%type.

(* group patches: (src, source-only slices, patches) -> fixed text *)
Definition patches_args : Type := (str * list (N * N) * list rpatch)%type.
Definition model_patches (a : patches_args) : str :=
  let '(s, so, ps) := a in fix_string_so s so (map to_p ps).
Definition check_patches (a : patches_args) (e : str) : bool := str_eqb (model_patches a) e.
Definition case_t_patches : Type := (N * patches_args * str)%type.

(* group span: (raw slices, queried source ranges) -> per range the returned slices as (source_idx, length),
   None = the implementation panicked *)
Definition span_args : Type := (list rsl * list (N * N))%type.
Definition span_out : Type := list (option (list (N * N))).
Definition model_span (a : span_args) : span_out :=
  map (fun q => option_map (map (fun x => (r_idx x, r_len x))) (spanning (fst a) (fst q) (snd q))) (snd a).
Definition check_span (a : span_args) (e : span_out) : bool :=
  list_eqb (opt_eqb (list_eqb (pair_eqb N.eqb N.eqb))) (model_span a) e.
Definition case_t_span : Type := (N * span_args * span_out)%type.
