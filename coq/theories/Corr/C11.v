(** Correspondence glue for C11: the kernels of [Layout/Model.v] against recorded calls of the
    real functions. No kernel logic lives here. *)
From Sq Require Import Base.Corr Layout.Model.

Definition optN_eqb := opt_eqb N.eqb.

(** ** group skip *)
Definition tok_of_flag (b : bool) : token :=
  {| t_kind := if b then KCode else KWhitespace; t_raw := [] |}.
Definition skip_args : Type := (list bool * N * N)%type.
Definition case_t_skip : Type := (N * skip_args * (option N * option N))%type.
Definition model_skip (a : skip_args) : option N * option N :=
  let '(flags, x, y) := a in
  let toks := map tok_of_flag flags in
  (skip_forward toks x y, skip_backward toks x y).
Definition check_skip (a : skip_args) (exp : option N * option N) : bool :=
  let m := model_skip a in optN_eqb (fst m) (fst exp) && optN_eqb (snd m) (snd exp).

(** ** group strmatch *)
Definition str_args : Type := (str * list str * bool * str)%type.
Definition case_t_strmatch : Type := (N * str_args * (bool * bool))%type.
Definition model_strmatch (a : str_args) : bool * bool :=
  let '(tpl, tpls, code, raw) := a in
  let t := {| t_kind := if code then KCode else KComment; t_raw := raw |} in
  (string_match tpl t, multi_match (map upper tpls) t).
Definition check_strmatch (a : str_args) (exp : bool * bool) : bool :=
  let m := model_strmatch a in Bool.eqb (fst m) (fst exp) && Bool.eqb (snd m) (snd exp).

(** ** group subdiv *)
Definition kind_code (k : tkind) : N :=
  match k with KComment => 0 | KNewline => 1 | KWhitespace => 2 | _ => 9 end.
Definition case_t_subdiv : Type := (N * str * list (N * str))%type.
Definition model_subdiv (s : str) : list (N * str) :=
  map (fun e => (kind_code (fst e), snd e)) (block_comment_elems s).
Definition check_subdiv (s : str) (exp : list (N * str)) : bool :=
  list_eqb (pair_eqb N.eqb str_eqb) (model_subdiv s) exp.

(** ** group bcmatch: the native block comment matcher on a text (comment + what follows);
    expected = byte length of the match ([Pattern::matches] through [Cursor::lexed]) *)
Definition case_t_bcmatch : Type := (N * str * option N)%type.
Definition model_bcmatch (s : str) : option N := block_comment_match s.
Definition check_bcmatch (s : str) (exp : option N) : bool := optN_eqb (model_bcmatch s) exp.
