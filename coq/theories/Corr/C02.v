(** Correspondence glue for C02: run the model of [root_parse] / [append] / [wrap] on what the
    harness recorded and compare with what the implementation produced.  No kernel logic here. *)
From Sq Require Import Base.Corr.
From Sq Require Export Apply.Model.

(** trees are compared up to the token index of metas (the real tree does not carry it;
    meta *positions* are compared under C12) *)
Fixpoint tree_eqb (a b : tree) : bool :=
  match a, b with
  | Tok i k, Tok j l => (i =? j) && (k =? l)
  | Meta k _, Meta l _ => k =? l
  | Node k ca, Node l cb =>
      (k =? l) &&
      (fix go (xs ys : list tree) : bool :=
         match xs, ys with
         | [], [] => true
         | x :: xs', y :: ys' => tree_eqb x y && go xs' ys'
         | _, _ => false
         end) ca cb
  | _, _ => false
  end.

Definition matched_eqb (a b : matched) : bool :=
  match a, b with
  | MKind k, MKind l => k =? l
  | MNewtype k, MNewtype l => k =? l
  | _, _ => false
  end.

Fixpoint mr_eqb (a b : mr) : bool :=
  match a, b with
  | MR s e m ins ch, MR s' e' m' ins' ch' =>
      (s =? s') && (e =? e') && opt_eqb matched_eqb m m'
      && list_eqb (pair_eqb N.eqb N.eqb) ins ins'
      && (fix go (xs ys : list mr) : bool :=
            match xs, ys with
            | [], [] => true
            | x :: xs', y :: ys' => mr_eqb x y && go xs' ys'
            | _, _ => false
            end) ch ch'
  end.

Definition presult_eqb (a b : parse_result) : bool :=
  match a, b with
  | PErr, PErr => true
  | POk t, POk u => tree_eqb t u
  | _, _ => false
  end.

(** group root: (tokens, recorded grammar result) -> Some tree / Some PErr / None (panic) *)
Definition args_root : Type := (list tok * gm_result)%type.
Definition case_t_root : Type := (N * args_root * (bool * option parse_result))%type.
Definition model_wf (a : args_root) : bool :=
  match snd a with GErr => true | GOk m => wf_root (fst a) m end.
Definition model_root (a : args_root) : bool * option parse_result :=
  (model_wf a, root_parse (fst a) (snd a)).
(** expected = (the harness' own WF verdict on the recorded match, the real result) *)
Definition check_root (a : args_root) (exp : bool * option parse_result) : bool :=
  Bool.eqb (model_wf a) (fst exp) && opt_eqb presult_eqb (root_parse (fst a) (snd a)) (snd exp).

(** group append: (a, b) -> a.append(b) *)
Definition case_t_append : Type := (N * (mr * mr) * mr)%type.
Definition model_append (a : mr * mr) : mr := append (fst a) (snd a).
Definition check_append (a : mr * mr) (exp : mr) : bool := mr_eqb (model_append a) exp.

(** group wrap: (a, kind) -> a.wrap(Matched::SyntaxKind(kind)) *)
Definition case_t_wrap : Type := (N * (mr * N) * mr)%type.
Definition model_wrap (a : mr * N) : mr := wrap (fst a) (MKind (snd a)).
Definition check_wrap (a : mr * N) (exp : mr) : bool := mr_eqb (model_wrap a) exp.

