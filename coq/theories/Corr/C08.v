(** Correspondence glue for C08: run the position model on what the harness recorded and
    compare with what the implementation reported. No logic of the kernel lives here. *)
From Sq Require Import Base.Corr Pos.Model.

Definition pair_N_eqb (a b : N * N) : bool := (fst a =? fst b) && (snd a =? snd b).

(** group linepos: [(source, templated, [(offset, source?)])] vs [[(line, col)]] *)
Definition args_linepos : Type := (str * str * list (N * bool))%type.
Definition model_linepos (a : args_linepos) : list (N * N) :=
  let '(src, tpl, qs) := a in
  let tf := {| tf_source := src; tf_templated := tpl |} in
  map (fun q => get_line_pos_of_char_pos tf (fst q) (snd q)) qs.
Definition check_linepos (a : args_linepos) (exp : list (N * N)) : bool :=
  list_eqb pair_N_eqb (model_linepos a) exp.
Definition case_t_linepos : Type := (N * args_linepos * list (N * N))%type.

(** group viol: [(source, templated, [source range of each reported violation])] vs
    [[(line_no, line_pos, source_slice)]].  The model recomputes the violation record from
    the source text and the source range alone; the templated range of the underlying
    marker is not observable on a [LintedFile] and the repaired [source_position] does not
    read it (the model is given the source range there as well). *)
Definition rviol := (N * N * (N * N))%type.
Definition of_viol (v : viol) : rviol := (v_line v, v_col v, v_src v).
Definition rviol_eqb (a b : rviol) : bool :=
  pair_N_eqb (fst a) (fst b) && pair_N_eqb (snd a) (snd b).
Definition args_viol : Type := (str * str * list (N * N))%type.
Definition model_viol (a : args_viol) : list rviol :=
  let '(src, tpl, rs) := a in
  let tf := {| tf_source := src; tf_templated := tpl |} in
  map (fun r => of_viol (set_position_marker tf {| m_src := r; m_tpl := r |})) rs.
Definition check_viol (a : args_viol) (exp : list rviol) : bool :=
  list_eqb rviol_eqb (model_viol a) exp.
Definition case_t_viol : Type := (N * args_viol * list rviol)%type.

(** group marker: every marker of the parse tree: [(source, templated, [(source range,
    templated range)])] vs [[(source line, source col, templated line, templated col)]] *)
Definition args_marker : Type := (str * str * list ((N * N) * (N * N)))%type.
Definition model_marker (a : args_marker) : list (N * N * N * N) :=
  let '(src, tpl, ms) := a in
  let tf := {| tf_source := src; tf_templated := tpl |} in
  map (fun x => let m := {| m_src := fst x; m_tpl := snd x |} in
                (line_no tf m, line_pos tf m, fst (templated_position tf m), snd (templated_position tf m))) ms.
Definition quad_eqb (a b : N * N * N * N) : bool :=
  let '(a1, a2, a3, a4) := a in let '(b1, b2, b3, b4) := b in
  (a1 =? b1) && (a2 =? b2) && (a3 =? b3) && (a4 =? b4).
Definition check_marker (a : args_marker) (exp : list (N * N * N * N)) : bool :=
  list_eqb quad_eqb (model_marker a) exp.
Definition case_t_marker : Type := (N * args_marker * list (N * N * N * N))%type.

(** group parent: for non-leaf segments, [[children's (source, templated) ranges]] vs the
    parents' [(source range, templated range)] *)
Definition rmarker := ((N * N) * (N * N))%type.
Definition to_marker (x : rmarker) : marker := {| m_src := fst x; m_tpl := snd x |}.
Definition model_parent (a : list (list rmarker)) : list rmarker :=
  map (fun kids => let m := from_child_markers (map to_marker kids) in (m_src m, m_tpl m)) a.
Definition rmarker_eqb (a b : rmarker) : bool := pair_N_eqb (fst a) (fst b) && pair_N_eqb (snd a) (snd b).
Definition check_parent (a : list (list rmarker)) (exp : list rmarker) : bool :=
  list_eqb rmarker_eqb (model_parent a) exp.
Definition case_t_parent : Type := (N * list (list rmarker) * list rmarker)%type.
