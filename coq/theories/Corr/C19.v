(** Correspondence glue for C19. No logic of the kernel lives here: the generated cases are fed to
    [Disc.Model] and compared with what the [ignore] crate / the real [sqruff] binary answered. *)
From Sq Require Export Base.Corr Disc.Model Disc.Nav.

(** group gi: pattern lines, [(path, is_dir)] list  |->  per path: the decision for the path on its own
    (0 none, 1 ignore, 2 whitelist = [Gitignore::matched]), "ignored, itself or a parent directory" (gitignore),
    and the nearest-decision walk ([Gitignore::matched_path_or_any_parents] without its empty-path step) *)
Definition gi_args : Type := (list str * list (list str * bool))%type.
Definition dec_code (d : dec) : N := match d with DNone => 0 | DIgnore => 1 | DWhite => 2 end.
Definition gi_res : Type := (N * bool * bool)%type.
Definition model_gi (a : gi_args) : list gi_res :=
  let ps := parse_lines (fst a) in
  map (fun q => (dec_code (decide ps (fst q) (snd q)), gi_ignored ps (fst q) (snd q), gi_nearest ps (fst q) (snd q))) (snd a).
Definition case_t_gi : Type := (N * gi_args * list gi_res)%type.
Definition check_gi (a : gi_args) (exp : list gi_res) : bool :=
  list_eqb (pair_eqb (pair_eqb N.eqb Bool.eqb) Bool.eqb) (model_gi a) exp.

(** group git: the same arguments  |->  what [git check-ignore --no-index] answers for each path *)
Definition model_git (a : gi_args) : list bool :=
  let ps := parse_lines (fst a) in map (fun q => gi_ignored ps (fst q) (snd q)) (snd a).
Definition case_t_git : Type := (N * gi_args * list bool)%type.
Definition check_git (a : gi_args) (exp : list bool) : bool := list_eqb Bool.eqb (model_git a) exp.

(** group pipe: tree, extension list, ignore-file lines, path arguments
    |->  the multiset of reported files (sorted by spelling, path) and the files rewritten by fix (sorted) *)
Definition pipe_args : Type := (tree * list str * list str * list parg)%type.
Definition pfx_rank (p : pfx) : N := match p with Rel => 0 | Dot => 1 | Abs => 2 end.
Definition okey (o : out) : str := pfx_rank (fst o) :: join_path (snd o).
Fixpoint ins {A} (key : A -> str) (x : A) (l : list A) : list A :=
  match l with [] => [x] | h :: l' => if str_leb (key x) (key h) then x :: l else h :: ins key x l' end.
Definition sort_by {A} (key : A -> str) (l : list A) : list A := fold_right (ins key) [] l.

Definition model_pipe (a : pipe_args) : option (list out * list (list str)) :=
  let '(t, exts, lines, args) := a in
  match linted t exts (parse_lines lines) args with
  | None => None
  | Some outs =>
      (* every generated file has exactly one violation, so [has_viol] is constantly true *)
      Some (sort_by okey outs, sort_by join_path (map snd (written (fun _ => true) outs)))
  end.
Definition case_t_pipe : Type := (N * pipe_args * option (list out * list (list str)))%type.
Definition res_eqb (a b : list out * list (list str)) : bool :=
  list_eqb out_eqb (fst a) (fst b) && list_eqb path_eqb (snd a) (snd b).
Definition check_pipe (a : pipe_args) (exp : option (list out * list (list str))) : bool :=
  opt_eqb res_eqb (model_pipe a) exp.

(** group lib: the same arguments (the extension list exactly as the caller of the library supplies it, whatever
    the route by which it reaches the configuration; all path arguments absolute)
    |->  the multiset of files in the result of [Linter::lint_paths] with [fix = false], and again of a second
    call on the same linter with [fix = true] (both sorted by spelling, path) *)
Definition model_lib (a : pipe_args) : option (list out * list out) :=
  let '(t, exts, lines, args) := a in
  match linted t exts (parse_lines lines) args with
  | None => None
  | Some outs => Some (sort_by okey outs, sort_by okey outs)
  end.
Definition case_t_lib : Type := (N * pipe_args * option (list out * list out))%type.
Definition lib_eqb (a b : list out * list out) : bool :=
  list_eqb out_eqb (fst a) (fst b) && list_eqb out_eqb (snd a) (snd b).
Definition check_lib (a : pipe_args) (exp : option (list out * list out)) : bool :=
  opt_eqb lib_eqb (model_lib a) exp.

(** group norm: written paths  |->  what [helpers::normalize] returns for each (kernel correspondence) *)
Definition model_norm (a : list rpath) : list rpath := map normalize a.
Definition case_t_norm : Type := (N * list rpath * list rpath)%type.
Definition check_norm (a : list rpath) (exp : list rpath) : bool := list_eqb rpath_eqb (model_norm a) exp.

(** group nav: where the tree lies, the working directory below it, tree, extension list, lines of the ignore file
    in the working directory, the arguments as written
    |->  the multiset of (reported name, location that name denotes for the operating system) sorted by
         location, and the locations of the files rewritten by fix (sorted) *)
Definition nav_args : Type := (list str * list str * tree * list str * list str * list rpath)%type.
Definition rkey (o : rout) : str := join_path (snd o).
Definition rout_eqb (a b : rout) : bool := rpath_eqb (fst a) (fst b) && path_eqb (snd a) (snd b).
Definition model_nav (a : nav_args) : option (list rout * list (list str)) :=
  let '(R, w, t, exts, lines, args) := a in
  match linted_nav R w t exts (parse_lines lines) args with
  | None => None
  (* every generated file has exactly one violation: fix rewrites every linted file *)
  | Some outs => Some (sort_by rkey outs, sort_by join_path (map snd outs))
  end.
Definition case_t_nav : Type := (N * nav_args * option (list rout * list (list str)))%type.
Definition nav_eqb (a b : list rout * list (list str)) : bool :=
  list_eqb rout_eqb (fst a) (fst b) && list_eqb path_eqb (snd a) (snd b).
Definition check_nav (a : nav_args) (exp : option (list rout * list (list str))) : bool :=
  opt_eqb nav_eqb (model_nav a) exp.

(** group navlib: the same arguments given to [Linter::lint_paths] in a process whose working directory is
    R ++ w  |->  the files of the result with [fix = false] and of a second call with [fix = true] *)
Definition model_navlib (a : nav_args) : option (list rout * list rout) :=
  let '(R, w, t, exts, lines, args) := a in
  match linted_nav R w t exts (parse_lines lines) args with
  | None => None
  | Some outs => Some (sort_by rkey outs, sort_by rkey outs)
  end.
Definition case_t_navlib : Type := (N * nav_args * option (list rout * list rout))%type.
Definition navlib_eqb (a b : list rout * list rout) : bool :=
  list_eqb rout_eqb (fst a) (fst b) && list_eqb rout_eqb (snd a) (snd b).
Definition check_navlib (a : nav_args) (exp : option (list rout * list rout)) : bool :=
  opt_eqb navlib_eqb (model_navlib a) exp.
