(** Correspondence glue for C07. No logic of the kernels lives here. *)
From Sq Require Import Base.Corr Sched.Model Sched.PureModel Sched.VerdictModel.

(** group [sched]: one [lint_paths] call.
    args = (expansion of each argument as spelling ids (the paths [paths_from_path] / the file argument
            yield, in order), identity of each spelling (spelling id, file id: the canonical path),
            ignored file ids, reference results (file id, result id) from [lint_string] on a fresh linter,
            observed completion order (spelling ids))
    expected = the observed directories, each a list of (spelling id, result id) in stored order. *)
Definition sched_args : Type := (list (list N) * list (N * N) * list N * list (N * N) * list N)%type.
Fixpoint lookupN (tab : list (N * N)) (p : N) : N :=
  match tab with
  | [] => 4000000000
  | (k, v) :: tab' => if k =? p then v else lookupN tab' p
  end.
Fixpoint count_occN (l : list N) (p : N) : N :=
  match l with [] => 0 | x :: l' => (if x =? p then 1 else 0) + count_occN l' p end.
(** [a] and [b] are permutations of each other (decidable on numbers) *)
Definition permb (a b : list N) : bool :=
  (N.of_nat (length a) =? N.of_nat (length b))
  && forallb (fun p => count_occN a p =? count_occN b p) (a ++ b).
(** spellings the harness could not identify keep their own (large) number as identity *)
Definition ident_of (idents : list (N * N)) (p : N) : N :=
  if existsb (fun kv => fst kv =? p) idents then lookupN idents p else 1000000 + p.
Definition model_sched (a : sched_args) : option (list (list (N * N))) :=
  let '(exps, idents, ign, tab, order) := a in
  lint_paths N (fun p => lookupN tab (ident_of idents p)) (ident_of idents) exps order.
Definition entry_eqb (a b : N * N) : bool := (fst a =? fst b) && (snd a =? snd b).
Definition check_sched (a : sched_args) (exp : list (list (N * N))) : bool :=
  let '(exps, idents, ign, tab, order) := a in
  permb order (selected (fun p => memN (ident_of idents p) ign) (kept (ident_of idents) exps))
  && opt_eqb (list_eqb (list_eqb entry_eqb)) (model_sched a) (Some exp).
Definition case_t_sched : Type := (N * sched_args * list (list (N * N)))%type.

(** group [lintloop]: the fix loop observed in lint mode on one file.
    args = (fix flag, rules as (id, phase 0 main / 1 post, fix compatible), ids of the rules that proposed a fix)
    expected = (tree at the end is the tree at the start, events as (kind 0 batch / 1 pass end, phase, pass, rule, flag)) *)
Definition loop_args : Type := (bool * list (N * N * bool) * list N)%type.
Definition rev_t : Type := (N * N * N * N * bool)%type.
Definition enc_phase (p : phase) : N := match p with Main => 0 | Post => 1 end.
Definition enc_ev (e : ev N) : rev_t :=
  match e with
  | Batch ph pass r acc => (0, enc_phase ph, pass, r, acc)
  | PassEnd ph pass ch => (1, enc_phase ph, pass, 0, ch)
  end.
Fixpoint rule_info (rs : list (N * N * bool)) (r : N) : N * bool :=
  match rs with
  | [] => (0, true)
  | (k, ph, fc) :: rs' => if k =? r then (ph, fc) else rule_info rs' r
  end.
Definition model_loop (a : loop_args) : bool * list rev_t :=
  let '(fixm, rs, fixable) := a in
  let '(t, tr) :=
    lint_fix_parsed N N N N.eqb (fun t => t)
      (fun r => if fst (rule_info rs r) =? 0 then Main else Post)
      (fun r => snd (rule_info rs r))
      (fun r t => if memN r fixable then Some (t + 1) else None)
      (map (fun x => fst (fst x)) rs) fixm 0 in
  (t =? 0, map enc_ev tr).
Definition rev_eqb (a b : rev_t) : bool :=
  let '(k, p, n, r, f) := a in let '(k', p', n', r', f') := b in
  (k =? k') && (p =? p') && (n =? n') && (r =? r') && Bool.eqb f f'.
Definition check_lintloop (a : loop_args) (exp : bool * list rev_t) : bool :=
  Bool.eqb (fst (model_loop a)) (fst exp) && list_eqb rev_eqb (snd (model_loop a)) (snd exp).
Definition case_t_lintloop : Type := (N * loop_args * (bool * list rev_t))%type.

(** group [verdict]: one invocation with an [OutputStreamFormatter] attached.
    args = (verbosity as (negative?, magnitude), the (fails, warns) of every file of the result in stored order)
    expected = (has_fail, files_dispatched) read from the formatter afterwards *)
Definition verdict_args : Type := (bool * N * list (N * N))%type.
Definition dec_verbosity (neg : bool) (m : N) : Z := if neg then Z.opp (Z.of_N m) else Z.of_N m.
Definition model_verdict (a : verdict_args) : bool * N :=
  let '(neg, m, files) := a in dispatch_all (dec_verbosity neg m) files.
Definition check_verdict (a : verdict_args) (exp : bool * N) : bool :=
  Bool.eqb (fst (model_verdict a)) (fst exp) && (snd (model_verdict a) =? snd exp).
Definition case_t_verdict : Type := (N * verdict_args * (bool * N))%type.
