(** Correspondence glue for C20: run the language-server model on recorded histories with the
    linter oracles given as tables (filled by the real linter), and compare with the events the
    real [LanguageServer] produced. No logic of the kernel lives here. *)
From Sq Require Import Base.Corr Lsp.Model.

Definition rviol := (N * N * option str * str)%type.          (* line, pos, code, description *)
Definition rdiag := (N * N * option str * str)%type.          (* line, character, code, message *)
Definition redit := (N * N * N * N * text)%type.              (* start line/char, end line/char, new text *)
(** operations and events are single numbers (keeps the generated files small):
    op    = tag + 8 * (a + 32 * b)      tag 0 Open a=doc b=text | 1 Change | 2 Close a | 3 WriteDisk a=config
                                        | 4 Save a=name | 5 Format a=doc | 6 Other
    event = tag + 4 * (a + 8 * b)       tag 0 Publish a=doc b=diagnostics id | 1 Edits (a + 8 * b)=edits id | 2 Crash *)
Definition rop := N.
Definition rout := N.

(** texts by id; save-uri names by id; lint results (config id, text id); fix results; the distinct
    published diagnostic lists and edit lists of the real server, by id. *)
Definition tables : Type :=
  (list text * list str * list (N * N * list rviol) * list (N * N * text)
   * list (N * list rdiag) * list (N * list redit))%type.
Definition t_texts (T : tables) := fst (fst (fst (fst (fst T)))).
Definition t_names (T : tables) := snd (fst (fst (fst (fst T)))).
Definition t_lint (T : tables) := snd (fst (fst (fst T))).
Definition t_fix (T : tables) := snd (fst (fst T)).
Definition t_dvals (T : tables) := snd (fst T).
Definition t_evals (T : tables) := snd T.

Definition to_viol (x : rviol) : viol :=
  let '(l, p, c, d) := x in mkviol l p c d.
Definition to_rdiag (d : diag) : rdiag := (d_line d, d_char d, d_code d, d_msg d).
Definition of_rdiag (x : rdiag) : diag := let '(l, c, k, m) := x in mkdiag l c k m.
Definition to_edit (x : redit) : edit :=
  let '(sl, sc, el, ec, n) := x in mkedit (mkpos sl sc) (mkpos el ec) n.

Fixpoint text_id_aux (ts : list text) (t : text) (i : N) : option N :=
  match ts with
  | [] => None
  | x :: ts' => if str_eqb x t then Some i else text_id_aux ts' t (i + 1)
  end.
Definition text_id (T : tables) (t : text) : option N := text_id_aux (t_texts T) t 0.

Fixpoint find2 {A} (tab : list (N * N * A)) (c t : N) : option A :=
  match tab with
  | [] => None
  | (c', t', v) :: tab' => if (c' =? c) && (t' =? t) then Some v else find2 tab' c t
  end.
Fixpoint find1 {A} (tab : list (N * A)) (k : N) : option A :=
  match tab with
  | [] => None
  | (k', v) :: tab' => if k' =? k then Some v else find1 tab' k
  end.

(** A (config, text) pair missing from the tables yields a marker that cannot match anything recorded. *)
Definition missing_viol : viol := mkviol 0 0 (Some [63]) [109;105;115;115;105;110;103].
Definition tab_lint (T : tables) (c : N) (t : text) : list viol :=
  match text_id T t with
  | Some i => match find2 (t_lint T) c i with Some vs => map to_viol vs | None => [missing_viol] end
  | None => [missing_viol]
  end.
Definition tab_fix (T : tables) (c : N) (t : text) : text :=
  match text_id T t with
  | Some i => match find2 (t_fix T) c i with Some f => f | None => [63] end
  | None => [63]
  end.

Definition to_op (T : tables) (x : rop) : op N :=
  let tag := x mod 8 in let a := (x / 8) mod 32 in let b := x / 256 in
  if tag =? 0 then Open a (nth (N.to_nat b) (t_texts T) [63])
  else if tag =? 1 then Change a (nth (N.to_nat b) (t_texts T) [63])
  else if tag =? 2 then Close a
  else if tag =? 3 then WriteDisk a
  else if tag =? 4 then Save (nth (N.to_nat a) (t_names T) [])
  else if tag =? 5 then Format a
  else Other.

Definition to_out (T : tables) (x : rout) : out :=
  let tag := x mod 4 in let a := (x / 4) mod 8 in let b := x / 32 in
  if tag =? 0 then Publish a (match find1 (t_dvals T) b with Some ds => map of_rdiag ds | None => [mkdiag 0 0 None [63]] end)
  else if tag =? 1 then Edits (match find1 (t_evals T) (x / 4) with Some es => map to_edit es | None => [] end)
  else Crash.

Definition rdiag_eqb (a b : rdiag) : bool :=
  let '(l, c, k, m) := a in let '(l', c', k', m') := b in
  (l =? l') && (c =? c') && opt_eqb str_eqb k k' && str_eqb m m'.
Definition pos_eqb (a b : pos) : bool := (p_line a =? p_line b) && (p_char a =? p_char b).
Definition edit_eqb (a b : edit) : bool :=
  pos_eqb (e_start a) (e_start b) && pos_eqb (e_end a) (e_end b) && str_eqb (e_new a) (e_new b).
Definition out_eqb (a b : out) : bool :=
  match a, b with
  | Publish u ds, Publish u' ds' => (u =? u') && list_eqb rdiag_eqb (map to_rdiag ds) (map to_rdiag ds')
  | Edits es, Edits es' => list_eqb edit_eqb es es'
  | Crash, Crash => true
  | _, _ => false
  end.
(** the outputs of one operation, as a multiset (a configuration save re-checks in hash-map order) *)
Definition batch_eqb (a b : list out) : bool :=
  (N.of_nat (length a) =? N.of_nat (length b))
  && forallb (fun x => existsb (out_eqb x) b) a && forallb (fun y => existsb (out_eqb y) a) b.

(** history cases: (initial config, ops) |-> per-operation batches of events *)
Definition hist_args : Type := (N * list rop)%type.
Definition model_hist (T : tables) (a : hist_args) : list (list out) :=
  snd (run N (tab_lint T) (tab_fix T) format_edit (init N (fst a)) (map (to_op T) (snd a))).
Definition check_hist (T : tables) (a : hist_args) (exp : list (list rout)) : bool :=
  list_eqb batch_eqb (model_hist T a) (map (map (to_out T)) exp).
Definition case_t_hist : Type := (N * hist_args * list (list rout))%type.

(** group [format]: one formatting request on real texts: (current text, fix of it) |-> real edits.
    The model's edit equals the real one, and the real one applied to the text gives the fix. *)
Definition fmt_args : Type := (text * text)%type.
Definition model_format (a : fmt_args) : list redit :=
  let e := format_edit (fst a) (snd a) in
  [(p_line (e_start e), p_char (e_start e), p_line (e_end e), p_char (e_end e), e_new e)].
(** group [format] (the property on this input): the real edits applied to the text give the fix *)
Definition check_format (a : fmt_args) (exp : list redit) : bool :=
  opt_eqb str_eqb (apply_edits (fst a) (map to_edit exp)) (Some (snd a)).
Definition case_t_format : Type := (N * fmt_args * list redit)%type.
(** group [fmtedit] (the tie): the model's edit is the real one *)
Definition check_fmtedit (a : fmt_args) (exp : list redit) : bool :=
  list_eqb edit_eqb (map to_edit (model_format a)) (map to_edit exp).
Definition case_t_fmtedit : Type := case_t_format.
Definition model_apply (a : fmt_args * list redit) : option text :=
  apply_edits (fst (fst a)) (map to_edit (snd a)).

(** group [docend]: [end_of_document] on arbitrary texts |-> (line, character) *)
Definition model_docend (t : text) : N * N := (p_line (doc_end t), p_char (doc_end t)).
Definition check_docend (t : text) (exp : N * N) : bool :=
  (fst (model_docend t) =? fst exp) && (snd (model_docend t) =? snd exp)
  && (offset_of t (fst exp) (snd exp) =? N.of_nat (length t)).
Definition case_t_docend : Type := (N * text * (N * N))%type.

(** group [legacy]: what the edit of the code before the repair does (used to classify a
    regression: the legacy model predicts the wrong edit exactly) *)
Definition model_format_legacy (a : fmt_args) : list redit :=
  let e := format_edit_legacy (fst a) (snd a) in
  [(p_line (e_start e), p_char (e_start e), p_line (e_end e), p_char (e_end e), e_new e)].
