(** Correspondence glue for C06: run the FixTree model on what the harness recorded in the
    fix loop and compare with what the implementation produced. No kernel logic here. *)
From Sq Require Export Base.Corr FixTree.Model.

(** The harness cannot tell a node whose children were all deleted from a token with an
    empty raw ([segments().is_empty()] holds for both): it records either as a [Leaf] of
    class 2. Canonicalise the model's result the same way before comparing. *)
Fixpoint canon (s : seg) : seg :=
  match s with
  | Leaf _ _ _ _ => s
  | Node i k [] => Leaf i k 2 []
  | Node i k cs => Node i k (map canon cs)
  end.

(** group [batch]: one applied batch. args = (tree before, fixes), expected = tree after. *)
Definition batch_args : Type := (seg * list lfix)%type.
Definition case_t_batch : Type := (N * batch_args * seg)%type.
Definition model_batch (a : batch_args) : option seg := apply_batch (fst a) (snd a).
Definition check_batch (a : batch_args) (exp : seg) : bool :=
  match model_batch a with Some t => seg_eqb (canon t) exp | None => false end.

(** group [run]: a whole fix run. args = (parsed tree, the fix lists of all batches in order),
    expected = (final tree, conjunction of the harness's per-batch monitors). *)
Definition run_args : Type := (seg * list (list lfix))%type.
Definition case_t_run : Type := (N * run_args * (seg * bool))%type.
Definition model_run (a : run_args) : option seg * bool :=
  (match run (init_state (fst a)) (snd a) with Some st => Some (fst st) | None => None end,
   run_okb (init_state (fst a)) (snd a)).
Definition check_run (a : run_args) (exp : seg * bool) : bool :=
  match fst (model_run a) with
  | Some t => seg_eqb (canon t) (fst exp) && Bool.eqb (snd (model_run a)) (snd exp)
  | None => false
  end.

(** printed in replay files *)
Definition show_batch (a : batch_args) : option (list (N * N * str)) :=
  match model_batch a with
  | Some t => Some (map (fun l => (l_id l, l_cls l, l_raw l)) (leaves t))
  | None => None
  end.
Definition show_run (a : run_args) : option (list (N * N * str)) * bool :=
  (match fst (model_run a) with
   | Some t => Some (map (fun l => (l_id l, l_cls l, l_raw l)) (leaves t))
   | None => None
   end, snd (model_run a)).

(** group [synth]: kernel level, synthetic batches driven through the public API
    ([compute_anchor_edit_info] + [apply_fixes]). expected = [Some tree] or [None] when the
    implementation hit the [unimplemented!()] of [AnchorEditInfo::add]. *)
Definition case_t_synth : Type := (N * batch_args * option seg)%type.
Definition check_synth (a : batch_args) (exp : option seg) : bool :=
  match model_batch a, exp with
  | Some t, Some t' => seg_eqb (canon t) t'
  | None, None => true
  | _, _ => false
  end.
