(** Correspondence glue for C12: run the position kernels of the model on what the harness
    recorded and compare with what the implementation produced.  No kernel logic here. *)
From Sq Require Import Base.Corr.
From Sq Require Export Apply.Model TreePos.Model TreePos.TFile.

Definition marker_eqb_full (a b : marker) : bool :=
  (m_ss a =? m_ss b) && (m_se a =? m_se b) && (m_ts a =? m_ts b) && (m_te a =? m_te b)
  && (m_wl a =? m_wl b) && (m_wp a =? m_wp b).

Fixpoint ptree_eqb (a b : ptree) : bool :=
  match a, b with
  | PLeaf i r p, PLeaf j s q => (i =? j) && str_eqb r s && opt_eqb marker_eqb_full p q
  | PNode i p ca, PNode j q cb =>
      (i =? j) && opt_eqb marker_eqb_full p q &&
      (fix go (xs ys : list ptree) : bool :=
         match xs, ys with
         | [], [] => true
         | x :: xs', y :: ys' => ptree_eqb x y && go xs' ys'
         | _, _ => false
         end) ca cb
  | _, _ => false
  end.

Definition nn_eqb (a b : N * N) : bool := (fst a =? fst b) && (snd a =? snd b).

(** group infer: (raw, line, pos) -> infer_next_position *)
Definition case_t_infer : Type := (N * (str * N * N) * (N * N))%type.
Definition model_infer (a : str * N * N) : N * N := infer_next (fst (fst a)) (snd (fst a)) (snd a).
Definition check_infer (a : str * N * N) (exp : N * N) : bool := nn_eqb (model_infer a) exp.

(** group linepos: (newline offsets, char_pos) -> get_line_pos_of_char_pos *)
Definition case_t_linepos : Type := (N * (list N * N) * (N * N))%type.
Definition model_linepos (a : list N * N) : N * N := line_pos_of (fst a) (snd a).
Definition check_linepos (a : list N * N) (exp : N * N) : bool := nn_eqb (model_linepos a) exp.

(** group hull: (newline offsets, child markers) -> from_child_markers *)
Definition case_t_hull : Type := (N * (list N * list marker) * option marker)%type.
Definition model_hull (a : list N * list marker) : option marker := hull (fst a) (snd a).
Definition check_hull (a : list N * list marker) (exp : option marker) : bool :=
  opt_eqb marker_eqb_full (model_hull a) exp.

(** group ps: (newline offsets, segments, parent marker) -> position_segments *)
Definition args_ps : Type := (list N * list ptree * marker)%type.
Definition case_t_ps : Type := (N * args_ps * (bool * option (list ptree)))%type.
Definition model_ps (a : args_ps) : bool * option (list ptree) :=
  (forallb preb (snd (fst a)), position_segments (fst (fst a)) (snd (fst a)) (snd a)).
(** expected = (the harness' own verdict on the theorem's hypothesis [preb], the real result) *)
Definition check_ps (a : args_ps) (exp : bool * option (list ptree)) : bool :=
  Bool.eqb (fst (model_ps a)) (fst exp) && opt_eqb (list_eqb ptree_eqb) (snd (model_ps a)) (snd exp).

(** group metapos: (newline offsets, tokens with markers, root match) -> the metas created by
    [apply], in tree order, with the markers [get_point_pos_at_idx] gives them *)
Fixpoint metas_of (t : tree) : list (N * N) :=
  match t with
  | Tok _ _ => []
  | Meta k p => [(k, p)]
  | Node _ ch => flat_map metas_of ch
  end.
Definition args_metapos : Type := (list N * list (tok * marker) * mr)%type.
Definition case_t_metapos : Type := (N * args_metapos * option (list (N * marker)))%type.
Definition model_metapos (a : args_metapos) : option (list (N * marker)) :=
  let '(nls, toks, m) := a in
  match apply (map fst toks) m with
  | None => None
  | Some r =>
      all_some (map (fun kp => option_map (pair (fst kp)) (point_pos_at nls (map snd toks) (snd kp)))
                    (flat_map metas_of r))
  end.
Definition check_metapos (a : args_metapos) (exp : option (list (N * marker))) : bool :=
  opt_eqb (list_eqb (pair_eqb N.eqb marker_eqb_full)) (model_metapos a) exp.

(** group tflinepos: (source text, templated text, char_pos, source flag) ->
    [TemplatedFile::new(..).get_line_pos_of_char_pos(char_pos, source)] *)
Definition args_tflinepos : Type := (str * str * N * bool)%type.
Definition case_t_tflinepos : Type := (N * args_tflinepos * (N * N))%type.
Definition model_tflinepos (a : args_tflinepos) : N * N :=
  let '(src, tpl, p, flag) := a in tf_line_pos (tf_new src tpl) p flag.
Definition check_tflinepos (a : args_tflinepos) (exp : N * N) : bool := nn_eqb (model_tflinepos a) exp.

(** group tfmarker: (source text, templated text, (ss, se, ts, te)) ->
    [PositionMarker::new(ss..se, ts..te, file, None, None)] with its source / templated positions *)
Definition args_tfmarker : Type := (str * str * (N * N * N * N))%type.
Definition case_t_tfmarker : Type := (N * args_tfmarker * (marker * (N * N) * (N * N)))%type.
Definition model_tfmarker (a : args_tfmarker) : marker * (N * N) * (N * N) :=
  let '(src, tpl, (ss, se, ts, te)) := a in
  let tf := tf_new src tpl in
  let m := marker_new tf ss se ts te in (m, source_position tf m, templated_position tf m).
Definition check_tfmarker (a : args_tfmarker) (exp : marker * (N * N) * (N * N)) : bool :=
  let '(m, sp, tp) := model_tfmarker a in
  marker_eqb_full m (fst (fst exp)) && nn_eqb sp (snd (fst exp)) && nn_eqb tp (snd exp).
