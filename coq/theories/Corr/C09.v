(** Correspondence glue for C09: run the selection model and the lint-loop model on what
    the harness recorded and compare with what the implementation did. The registry itself
    ([rules_dump]) comes from the generated SqGen.Registry. No kernel logic lives here. *)
From Sq Require Import Base.Corr Rules.Model.

(* ---- group select: (rules() dump, [rules =] text, [exclude_rules =] text) -> selected codes / panic *)
Definition sel_args : Type := (list rule * option str * option str)%type.
Definition model_select (a : sel_args) : option (list str) :=
  let '(dump, rules, excl) := a in
  option_map (map r_code) (select (register dump) rules excl).
Definition check_select (a : sel_args) (exp : option (list str)) : bool :=
  opt_eqb (list_eqb str_eqb) (model_select a) exp.
Definition case_t_select : Type := (N * sel_args * option (list str))%type.

(* ---- group lint: the lint loop over the selection, rule bodies = what the [rules = all] run reported *)
Definition rres : Type := (N * N * N)%type.                 (* line, column, hash of the description *)
Definition rviol : Type := (option str * rres)%type.
Definition lint_args : Type :=
  (list rule * str * option str * option str * list str * list rviol)%type.
Definition rres_eqb (a b : rres) : bool :=
  (fst (fst a) =? fst (fst b)) && (snd (fst a) =? snd (fst b)) && (snd a =? snd b).
Definition rviol_eqb (a b : rviol) : bool := opt_eqb str_eqb (fst a) (fst b) && rres_eqb (snd a) (snd b).
Definition is_none {A} (o : option A) : bool := match o with None => true | Some _ => false end.

Definition model_lint (a : lint_args) : option (list rviol) :=
  let '(dump, dialect, rules, excl, forced, all_run) := a in
  match select (register dump) rules excl with
  | None => None
  | Some sel =>
      let pre := filter (fun v : rviol => is_none (fst v)) all_run in
      let body := fun (_ : list rule) (r : rule) (_ : unit) =>
        map snd (filter (fun v : rviol => opt_eqb str_eqb (fst v) (Some (r_code r))) all_run) in
      Some (lint unit rres body (fun r => mem (r_code r) forced) (fun _ => false) dialect sel pre tt)
  end.
Definition check_lint (a : lint_args) (exp : option (list rviol)) : bool :=
  opt_eqb (list_eqb rviol_eqb) (model_lint a) exp.
Definition case_t_lint : Type := (N * lint_args * option (list rviol))%type.
