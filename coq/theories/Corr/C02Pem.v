(** C02, second sentence ("text the grammar cannot match is kept inside unparsable nodes or reported as a
    parse error"), judged against the reference semantics of the engine.

    What "the grammar cannot match" means is fixed by the Gallina interpreter of the combinator engine
    ([Pem.Model.parse_root] over the grammar graph dumped from the freshly built dialect): the tokens that
    its root match, turned into a tree by [Apply.Model.root_parse], puts under [Unparsable] nodes.  The
    harness records the root [MatchResult] of the real parser on the same tokens; this file compares the
    two and classifies a disagreement:

      0  the real root match is the interpreter's (nothing to report)
      1  they differ, but every code token the interpreter flags is flagged by the implementation too
         (or one side has no tree): a broken correspondence, not by itself a failing input of C02
      2  they differ and some *code* token that the interpreter puts under an unparsable node is outside
         every unparsable node of the tree the implementation builds, and no parse error is returned:
         text the grammar cannot match was accepted silently - a failing input of C02.

    No kernel logic here: only [run] (Corr.Pem), [root_parse] and [outside] (Apply.Model). *)
From Sq Require Import Base.Corr Pem.Model Corr.Pem.

(** the engine's tokens as tokens of the [apply] model: the index is the id *)
Fixpoint toks_from (i : N) (l : list ptok) : list Apply.Model.tok :=
  match l with
  | [] => []
  | t :: l' => mkTok i (p_kind t) (p_code t) :: toks_from (N.succ i) l'
  end.

Inductive outcome :=
| ONone                     (* panic / out of fuel / [apply] undefined: no tree and no parse error *)
| OErr                      (* a parse error is reported *)
| OTree (out : list N).     (* a tree; ids of the token leaves outside every unparsable node *)

Definition outcome_of (ts : list Apply.Model.tok) (r : res mr) : outcome :=
  match r with
  | ROk m =>
      match root_parse ts (GOk m) with
      | Some (POk t) => OTree (outside t)
      | Some PErr => OErr
      | None => ONone
      end
  | RErr => OErr
  | _ => ONone
  end.

Definition code_ids (ts : list Apply.Model.tok) : list N := map t_id (filter t_code ts).

(** code tokens outside the unparsable nodes of the implementation's tree that the reference puts under one *)
Definition silently_kept (ts : list Apply.Model.tok) (model real : list N) : list N :=
  filter (fun i => memN i real && negb (memN i model)) (code_ids ts).

Definition verdict_with (g : grammar) (a : args_t) (exp : res mr) : N :=
  let r := run g a in
  if res_eqb r exp then 0
  else
    let ts := toks_from 0 (fst (fst (fst a))) in
    match outcome_of ts r, outcome_of ts exp with
    | OTree mo, OTree ro => if is_empty (silently_kept ts mo ro) then 1 else 2
    | _, _ => 1
    end.

(** [id; verdict] of every case whose verdict is not 0, flattened (printed by the generated Cases files) *)
Definition verdicts (g : grammar) (cases : list case_t) : list N :=
  flat_map (fun c => let v := verdict_with g (snd (fst c)) (snd c) in
                     if v =? 0 then [] else [fst (fst c); v]) cases.

(** for the replay file: what the interpreter answers, and which tokens it flags that the implementation does not *)
Definition show_with (g : grammar) (a : args_t) (exp : res mr) : res mr * list N :=
  let r := run g a in
  let ts := toks_from 0 (fst (fst (fst a))) in
  (r, match outcome_of ts r, outcome_of ts exp with
      | OTree mo, OTree ro => silently_kept ts mo ro
      | _, _ => []
      end).

(* ------------------------------------------------------------------ the classification is not vacuous *)
(** [SELECT] alone under a toy grammar [file := Sequence(GreedyOnceStarted)(SELECT, word)]: the interpreter answers
    with an unparsable match over the keyword; an implementation that returns the same span as a clean match keeps
    the token silently (verdict 2); one that flags it too, but differently shaped, is only a mismatch (verdict 1). *)
Definition ex_g : grammar :=
  mkGrammar (nodes_of_list
     [(0, mkInfo GNonCode (Some true) None (Some 0));
      (1, mkInfo (GSeq (mkSeq [2; 3] GreedyOnceStarted true [])) (Some false) None (Some 1));
      (2, mkInfo (GString 100 7) (Some false) (Some ([100], [], true)) (Some 2));
      (3, mkInfo (GTyped 8 9) (Some false) None (Some 3))])
    [] [] (Some 1) 50 51 52 0 53 54 55 0.
Definition ex_toks : list ptok := [mkPtok true false 8 [8] 100 100 (Some 100)].
Definition ex_args : args_t := (ex_toks, [], 0, 1).

Example ex_interpreter_flags : run ex_g ex_args = ROk (MR 0 1 (Some (MKind 0)) [] [MR 0 1 (Some (MNewtype 7)) [] []]).
Proof. vm_compute. reflexivity. Qed.
Example ex_verdict_same : verdict_with ex_g ex_args (run ex_g ex_args) = 0.
Proof. vm_compute. reflexivity. Qed.
Example ex_verdict_silent : verdict_with ex_g ex_args (ROk (MR 0 1 None [] [MR 0 1 (Some (MNewtype 7)) [] []])) = 2.
Proof. vm_compute. reflexivity. Qed.
Example ex_verdict_mismatch_only : verdict_with ex_g ex_args (ROk (MR 0 1 (Some (MKind 0)) [] [])) = 1.
Proof. vm_compute. reflexivity. Qed.
Example ex_verdict_error_vs_tree : verdict_with ex_g ex_args RErr = 1.
Proof. vm_compute. reflexivity. Qed.
