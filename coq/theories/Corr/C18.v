(** Correspondence glue for C18: the CLI decision model is fed with the library's violation lists and
    compared with what the real binary printed / returned / wrote. No logic of the kernel lives here. *)
From Sq Require Export Base.Corr Cli.Model.

(** canonical order of report lines (the harness sorts the parsed output the same way) *)
Definition opt_cmp (a b : option str) : comparison :=
  match a, b with
  | None, None => Eq | None, Some _ => Lt | Some _, None => Gt
  | Some x, Some y => str_cmp x y
  end.
Definition rl_cmp (a b : rline) : comparison :=
  then_with (fst (fst a) ?= fst (fst b)) (then_with (snd (fst a) ?= snd (fst b)) (opt_cmp (snd a) (snd b))).
Fixpoint rl_ins (x : rline) (l : list rline) : list rline :=
  match l with [] => [x] | h :: l' => match rl_cmp x h with Gt => h :: rl_ins x l' | _ => x :: l end end.
Definition canon (l : list rline) : list rline := fold_right rl_ins [] l.
Definition rline_eqb (a b : rline) : bool :=
  (fst (fst a) =? fst (fst b)) && (snd (fst a) =? snd (fst b)) && opt_eqb str_eqb (snd a) (snd b).

(** group lint: format, stdin?, configured verbosity, the library's violations per linted file (in argument
    order; the answer does not depend on the dispatch order: [lint_v_order])
    |-> exit status, per file the report and the header of the human format *)
Definition lint_args : Type := (format * bool * Z * list (list viol))%type.
Definition lint_res : Type := option (N * list (list rline * header)).
Definition canon_rh (rh : list rline * header) : list rline * header := (canon (fst rh), snd rh).
Definition model_lint (a : lint_args) : lint_res :=
  let '(fmt, is_stdin, verb, files) := a in
  if is_stdin then
    match files with
    | [vs] => let '(c, rh) := run_lint_stdin_v verb fmt vs in Some (c, [canon_rh rh])
    | _ => None
    end
  else let '(c, rs) := run_lint_v verb fmt files in Some (c, map canon_rh rs).
Definition case_t_lint : Type := (N * lint_args * lint_res)%type.
Definition check_lint (a : lint_args) (exp : lint_res) : bool :=
  opt_eqb (pair_eqb N.eqb (list_eqb (pair_eqb (list_eqb rline_eqb) (opt_eqb Bool.eqb)))) (model_lint a) exp.

(** group fix: format, linted files (violations found in fix mode; text 1 = the library's fixed text)
    |-> exit status and, for every file of the directory, what it holds afterwards:
        (file, holds the library's fixed text?, holds the original text?, was it written (mtime)?).
    A file the model writes must hold its fixed text; a file the model does not write must be untouched. *)
Definition fix_args : Type := (format * list ffile)%type.
Definition fix_obs : Type := (N * bool * bool * bool)%type.
Definition fix_res : Type := option (N * list fix_obs).
Definition model_fix (a : fix_args) : option (N * list (N * N)) := run_fix (fst a) true (snd a).
Definition case_t_fix : Type := (N * fix_args * fix_res)%type.
Definition obs_ok (writes : list (N * N)) (o : fix_obs) : bool :=
  let '(i, is_fixed, is_orig, touched) := o in
  if existsb (fun w => fst w =? i) writes then is_fixed else is_orig && negb touched.
Definition check_fix (a : fix_args) (exp : fix_res) : bool :=
  match model_fix a, exp with
  | Some (c, writes), Some (c', obs) => (c =? c') && forallb (obs_ok writes) obs
  | None, None => true
  | _, _ => false
  end.

(** group fixstdin *)
Definition fixstdin_args : Type := (format * list viol * N)%type.
Definition model_fixstdin (a : fixstdin_args) : option (N * N) :=
  let '(fmt, vs, fixed) := a in run_fix_stdin fmt vs fixed.
Definition case_t_fixstdin : Type := (N * fixstdin_args * option (N * N))%type.
Definition check_fixstdin (a : fixstdin_args) (exp : option (N * N)) : bool :=
  opt_eqb (pair_eqb N.eqb N.eqb) (model_fixstdin a) exp.

(** group stdinflag: which arguments are "-"  |->  [None] = refused (exit 1, nothing linted) *)
Definition model_stdinflag (a : list bool) : option bool := stdin_flag a.
Definition case_t_stdinflag : Type := (N * list bool * option bool)%type.
Definition check_stdinflag (a : list bool) (exp : option bool) : bool := opt_eqb Bool.eqb (model_stdinflag a) exp.

(** group fed: the violations collected for a file by [parse_string] and [lint_fix_parsed] (in the order in which
    [lint_parsed] concatenates them), each with [IgnoreMask::is_masked] of the file's mask
    |-> (the violations of the file handed to a recording implementation of [Formatter],
         the violations of the [LintedFile] returned by [lint_string] / [lint_paths]) *)
Definition viol_eqb (a b : viol) : bool :=
  (v_line a =? v_line b) && (v_col a =? v_col b) && opt_eqb str_eqb (v_rule a) (v_rule b) &&
  Bool.eqb (v_warning a) (v_warning b) && Bool.eqb (v_ignore a) (v_ignore b) && Bool.eqb (v_fixable a) (v_fixable b).
Definition model_fed (raw : list cviol) : list viol * list viol := lint_parsed_end raw.
Definition case_t_fed : Type := (N * list cviol * (list viol * list viol))%type.
Definition check_fed (raw : list cviol) (exp : list viol * list viol) : bool :=
  pair_eqb (list_eqb viol_eqb) (list_eqb viol_eqb) (model_fed raw) exp.

(** group fixrep: format, the library's violations (fix mode) per linted file |-> what `sqruff fix` printed per file *)
Definition fixrep_args : Type := (format * list (list viol))%type.
Definition model_fixrep (a : fixrep_args) : option (list (list rline)) :=
  match dispatch_all false (fst a) (snd a) with
  | Some (reps, _) => Some (map canon reps)
  | None => None
  end.
Definition case_t_fixrep : Type := (N * fixrep_args * option (list (list rline)))%type.
Definition check_fixrep (a : fixrep_args) (exp : option (list (list rline))) : bool :=
  opt_eqb (list_eqb (list_eqb rline_eqb)) (model_fixrep a) exp.
