(** Templ/IterProofs.v — [iter_segments] (repaired code) maps every token to [map_spec]. *)
From Sq Require Import Base.Bytes Templ.Model.
From Coq Require Import ZArith Lia.

(** * Well-formed slice lists and element lists *)

(** templated ranges are contiguous from [q] on *)
Fixpoint chain (sl : list tslice) (q : N) : Prop :=
  match sl with
  | [] => True
  | s :: sl' => t0 s = q /\ t0 s <= t1 s /\ chain sl' (t1 s)
  end.
Fixpoint chain_end (sl : list tslice) (q : N) : N :=
  match sl with
  | [] => q
  | s :: sl' => chain_end sl' (t1 s)
  end.
(** slices with text in the rendered file are literal or templated *)
Definition typed (s : tslice) : Prop := is_zero s = true \/ ty s = SLit \/ ty s = STempl.

(** lexed elements are non-empty and contiguous from [p] on *)
Fixpoint echain (els : list elem) (p : N) : Prop :=
  match els with
  | [] => True
  | e :: els' => e0 e = p /\ e0 e < e1 e /\ echain els' (e1 e)
  end.
Fixpoint echain_end (els : list elem) (p : N) : N :=
  match els with
  | [] => p
  | e :: els' => echain_end els' (e1 e)
  end.

(** * The specification, relationally *)
Definition starts_at (sl : list tslice) (a v : N) : Prop :=
  exists s, In s sl /\ holds_start a s = true /\ v = start_in s a.
Definition ends_at (sl : list tslice) (b v : N) : Prop :=
  exists s, In s sl /\ holds_end b s = true /\ v = end_in s b.

(** What is emitted for one element from piece start [p] on: consecutive pieces up to [e1 e];
    every piece maps by the specification applied to its own templated range; only whitespace
    is cut, and only at the end of a literal slice that holds the piece. *)
Fixpoint pieces (sl : list tslice) (e : elem) (p : N) (gs : list seg) : Prop :=
  match gs with
  | [] => False
  | g :: gs' =>
      g_t0 g = p /\ g_r0 g = p - e0 e /\ g_r1 g = g_t1 g - e0 e /\
      starts_at sl p (g_s0 g) /\ ends_at sl (g_t1 g) (g_s1 g) /\
      match gs' with
      | [] => g_t1 g = e1 e
      | _ :: _ =>
          ews e = true /\ p < g_t1 g /\ g_t1 g < e1 e /\
          (exists s, In s sl /\ ty s = SLit /\ t0 s <= p /\ t1 s = g_t1 g) /\
          pieces sl e (g_t1 g) gs'
      end
  end.

(** the slice at the cursor, after zero-length slices, holds position [p] *)
Definition covers (rest : list tslice) (p : N) : Prop :=
  exists zs s r, rest = zs ++ s :: r /\ Forall (fun z => is_zero z = true) zs /\ t0 s <= p /\ p < t1 s.

(** * Basic facts *)
Lemma to_source_eq s x : t0 s <= x -> to_source s x = s0 s + (x - t0 s).
Proof. intros H. unfold to_source. lia. Qed.

Lemma is_zero_true s : is_zero s = true <-> t0 s = t1 s.
Proof. unfold is_zero. apply N.eqb_eq. Qed.
Lemma is_zero_false s : is_zero s = false <-> t0 s <> t1 s.
Proof. unfold is_zero. apply N.eqb_neq. Qed.

Lemma chain_end_ge sl : forall q, chain sl q -> q <= chain_end sl q.
Proof.
  induction sl as [|s sl IH]; cbn [chain chain_end]; intros q H; [lia|].
  destruct H as (H0 & H1 & H2). specialize (IH _ H2). lia.
Qed.

Lemma covers_of_chain r : forall q, chain r q -> q < chain_end r q -> covers r q.
Proof.
  induction r as [|s r IH]; cbn [chain chain_end]; intros q Hc Hlt; [lia|].
  destruct Hc as (H0 & H1 & H2).
  destruct (N.eq_dec (t0 s) (t1 s)) as [Hz|Hnz].
  - assert (Hq : t1 s = q) by lia. rewrite Hq in *.
    destruct (IH q H2 Hlt) as (zs & s' & r' & -> & Hzs & Ha & Hb).
    exists (s :: zs), s', r'. repeat apply conj; auto.
    constructor; auto. apply is_zero_true. lia.
  - exists [], s, r. repeat apply conj; auto; lia.
Qed.

Lemma covers_cons s r p :
  covers (s :: r) p -> (t0 s <= p /\ p < t1 s) \/ (is_zero s = true /\ covers r p).
Proof.
  intros (zs & s' & r' & Heq & Hzs & Ha & Hb).
  destruct zs as [|z zs]; cbn in Heq; inversion Heq; subst.
  - left; auto.
  - right. inversion Hzs; subst. split; auto. exists zs, s', r'; auto.
Qed.

Lemma cont_nonempty f s r c st : r <> [] -> cont f s r c st = f c st.
Proof. destruct r; [congruence|reflexivity]. Qed.

Lemma chain_end_nonempty r q : q < chain_end r q -> r <> [].
Proof. destruct r; cbn; [lia|congruence]. Qed.

(** * The inner loop *)
Definition post (sl : list tslice) (e : elem) (rest : list tslice) (q : N) (p : N)
           (out : option (list seg * list tslice)) : Prop :=
  exists gs mid cur q',
    out = Some (gs, cur) /\ pieces sl e p gs /\
    rest = mid ++ cur /\ Forall (fun s => t1 s <= e1 e) mid /\
    chain cur q' /\ chain_end cur q' = chain_end rest q /\
    Forall typed cur /\
    (e1 e < chain_end rest q -> covers cur (e1 e)).

Lemma post_skip sl e s rest' q p out :
  t1 s <= e1 e ->
  post sl e rest' (t1 s) p out -> post sl e (s :: rest') q p out.
Proof.
  intros Hs (gs & mid & cur & q' & -> & Hp & -> & Hmid & Hc & He & Hty & Hcov).
  exists gs, (s :: mid), cur, q'. repeat apply conj; auto.
Qed.

Lemma pieces_cons2 sl e p g g' gs' :
  pieces sl e p (g :: g' :: gs') <->
  (g_t0 g = p /\ g_r0 g = p - e0 e /\ g_r1 g = g_t1 g - e0 e /\
   starts_at sl p (g_s0 g) /\ ends_at sl (g_t1 g) (g_s1 g) /\
   ews e = true /\ p < g_t1 g /\ g_t1 g < e1 e /\
   (exists s, In s sl /\ ty s = SLit /\ t0 s <= p /\ t1 s = g_t1 g) /\
   pieces sl e (g_t1 g) (g' :: gs')).
Proof. reflexivity. Qed.

Lemma post_cut sl e s rest' q p g gs cur :
  t1 s <= e1 e ->
  post sl e rest' (t1 s) (g_t1 g) (Some (gs, cur)) ->
  g_t0 g = p -> g_r0 g = p - e0 e -> g_r1 g = g_t1 g - e0 e ->
  starts_at sl p (g_s0 g) -> ends_at sl (g_t1 g) (g_s1 g) ->
  ews e = true -> p < g_t1 g -> g_t1 g < e1 e ->
  (exists s', In s' sl /\ ty s' = SLit /\ t0 s' <= p /\ t1 s' = g_t1 g) ->
  post sl e (s :: rest') q p (Some (g :: gs, cur)).
Proof.
  intros Hs (gs0 & mid & cur0 & q' & Heq & Hp & -> & Hmid & Hc & He & Hty & Hcov) G1 G2 G3 G4 G5 G6 G7 G8 G9.
  inversion Heq; subst gs0 cur0.
  exists (g :: gs), (s :: mid), cur, q'.
  split; [reflexivity|]. split.
  { destruct gs as [|g' gs']; [destruct Hp|].
    apply pieces_cons2.
    exact (conj G1 (conj G2 (conj G3 (conj G4 (conj G5 (conj G6 (conj G7 (conj G8 (conj G9 Hp))))))))). }
  repeat apply conj; auto.
Qed.

Lemma scan_ok sl e : forall rest consumed stash q,
  (forall s, In s rest -> In s sl) ->
  Forall typed rest ->
  chain rest q ->
  e1 e <= chain_end rest q ->
  e0 e + consumed < e1 e ->
  (ews e = false -> consumed = 0) ->
  match stash with
  | None => covers rest (e0 e + consumed)
  | Some v => starts_at sl (e0 e + consumed) v /\ e0 e + consumed < q /\ q < e1 e
  end ->
  post sl e rest q (e0 e + consumed) (scan rest e consumed stash).
Proof.
  induction rest as [|s rest' IH]; intros consumed stash q Hin Hty Hch Hend Hp Hws Hst.
  { exfalso. cbn in Hend. destruct stash as [v|].
    - destruct Hst as (_ & _ & Hq). lia.
    - destruct Hst as (zs & s & r & Heq & _). destruct zs; discriminate. }
  cbn [chain] in Hch. destruct Hch as (Hq & Hle & Hch').
  cbn [chain_end] in Hend.
  assert (Hin' : forall x, In x rest' -> In x sl) by (intros x Hx; apply Hin; right; exact Hx).
  assert (Hs_in : In s sl) by (apply Hin; left; reflexivity).
  inversion Hty as [|? ? Hty_s Hty']; subst.
  cbn [scan].
  destruct (is_zero s) eqn:Hz.
  { (* zero-length slice: skip *)
    apply is_zero_true in Hz.
    assert (Hne : rest' <> []).
    { apply (chain_end_nonempty rest' (t1 s)).
      destruct stash as [v|].
      - destruct Hst as (_ & _ & Hq'). lia.
      - apply covers_cons in Hst. destruct Hst as [[Ha Hb]|[_ Hc]]; [lia|].
        destruct Hc as (zs & s' & r & -> & Hzs & Ha & Hb).
        clear - Hch' Ha Hb Hzs.
        revert Hch'. generalize (t1 s). induction zs as [|z zs IHz]; cbn; intros q0 H.
        + destruct H as (H0 & H1 & H2). pose proof (chain_end_ge _ _ H2). lia.
        + destruct H as (H0 & H1 & H2). inversion Hzs; subst.
          match goal with Hzz : is_zero z = true |- _ => apply is_zero_true in Hzz end.
          specialize (IHz ltac:(assumption) _ H2). lia. }
    rewrite cont_nonempty by exact Hne.
    apply post_skip.
    { destruct stash as [v|]; [destruct Hst as (_ & _ & Hq'); lia|].
      apply covers_cons in Hst. destruct Hst as [[Ha Hb]|[_ Hc]]; [lia|].
      destruct Hc as (zs & s' & r & Heq & Hzs & Ha & Hb). subst rest'.
      assert (t1 s <= t0 s').
      { clear - Hch' Hzs. revert Hch'. generalize (t1 s). induction zs as [|z zs IHz]; cbn; intros q0 H.
        - destruct H as (H0 & _). lia.
        - destruct H as (H0 & H1 & H2). inversion Hzs; subst. specialize (IHz ltac:(assumption) _ H2). lia. }
      lia. }
    apply IH; [exact Hin'|exact Hty'|exact Hch'|exact Hend|exact Hp|exact Hws|].
    destruct stash as [v|].
    - destruct Hst as (Hv & Hq1 & Hq2). split; [exact Hv|lia].
    - apply covers_cons in Hst. destruct Hst as [[Ha Hb]|[_ Hc]]; [lia|exact Hc]. }
  apply is_zero_false in Hz.
  assert (Hlt : t0 s < t1 s) by lia.
  (* position facts for the two states *)
  assert (Hpos : match stash with
                 | None => t0 s <= e0 e + consumed /\ e0 e + consumed < t1 s
                 | Some _ => t0 s < e1 e
                 end).
  { destruct stash as [v|]; [destruct Hst; lia|].
    apply covers_cons in Hst. destruct Hst as [[Ha Hb]|[Hzz _]]; [auto|].
    apply is_zero_true in Hzz. lia. }
  assert (Hq_e1 : t0 s < e1 e) by (destruct stash; [exact Hpos|lia]).
  assert (Hstart : forall v, (match stash with Some v' => v = v' | None => v = start_in s (e0 e + consumed) end) ->
                             starts_at sl (e0 e + consumed) v).
  { intros v Hv. destruct stash as [v'|].
    - subst v. apply Hst.
    - exists s. split; [exact Hs_in|]. split; [|exact Hv].
      unfold holds_start. destruct Hpos as [Ha Hb].
      apply andb_true_intro. split; [apply N.leb_le; exact Ha|apply N.ltb_lt; exact Hb]. }
  destruct Hty_s as [Hzz|Hty_s]; [apply is_zero_true in Hzz; lia|].
  assert (Hne_over : t1 s < e1 e -> rest' <> []).
  { intros Ho. apply (chain_end_nonempty rest' (t1 s)). lia. }
  (* carrying on with a stashed start *)
  assert (Hstash : forall v,
             t1 s < e1 e ->
             (match stash with Some v' => v = v' | None => v = start_in s (e0 e + consumed) end) ->
             post sl e (s :: rest') (t0 s) (e0 e + consumed) (scan rest' e consumed (Some v))).
  { intros v Ho Hv. apply post_skip; [lia|].
    apply IH; [exact Hin'|exact Hty'|exact Hch'|lia|exact Hp|exact Hws|].
    split; [apply Hstart; exact Hv|].
    destruct stash as [v'|]; [destruct Hst as (_ & Ha & Hb); lia|lia]. }
  (* emitting the last piece in this slice *)
  assert (Hemit : forall v w,
             e1 e <= t1 s ->
             (match stash with Some v' => v = v' | None => v = start_in s (e0 e + consumed) end) ->
             w = end_in s (e1 e) ->
             post sl e (s :: rest') (t0 s) (e0 e + consumed)
                  (Some ([mk_seg v w (e0 e + consumed) (e1 e) consumed (e1 e - e0 e)],
                         if e1 e =? t1 s then rest' else s :: rest'))).
  { intros v w Hfit Hv Hw.
    exists [mk_seg v w (e0 e + consumed) (e1 e) consumed (e1 e - e0 e)],
           (if e1 e =? t1 s then [s] else []), (if e1 e =? t1 s then rest' else s :: rest'),
           (if e1 e =? t1 s then t1 s else t0 s).
    split; [reflexivity|].
    split.
    { cbn [pieces g_t0 g_t1 g_r0 g_r1 g_s0 g_s1].
      split; [reflexivity|]. split; [lia|]. split; [reflexivity|].
      split; [apply Hstart; exact Hv|].
      split; [|reflexivity].
      exists s. split; [exact Hs_in|]. split; [|exact Hw].
      unfold holds_end. apply andb_true_intro. split; [apply N.ltb_lt; lia|apply N.leb_le; lia]. }
    destruct (N.eqb_spec (e1 e) (t1 s)) as [Hex|Hnex].
    - split; [reflexivity|]. split; [constructor; [lia|constructor]|].
      split; [exact Hch'|]. split; [reflexivity|]. split; [exact Hty'|].
      intros Hmore. cbn [chain_end] in Hmore. rewrite Hex.
      apply covers_of_chain; [exact Hch'|lia].
    - split; [reflexivity|]. split; [constructor|].
      split; [cbn [chain]; auto|]. split; [reflexivity|]. split; [exact Hty|].
      intros _. exists [], s, rest'. split; [reflexivity|]. split; [constructor|]. lia. }
  destruct Hty_s as [Hlit|Htempl].
  - (* literal slice *)
    rewrite Hlit.
    destruct (N.leb_spec (e1 e) (t1 s)) as [Hfit|Hover].
    + (* the element ends inside this slice *)
      apply Hemit; [exact Hfit| |].
      * destruct stash as [v'|]; cbn [or_else]; [reflexivity|].
        destruct Hpos as [Ha Hb]. rewrite to_source_eq by exact Ha.
        unfold start_in. rewrite Hlit. reflexivity.
      * rewrite to_source_eq by lia. unfold end_in. rewrite Hlit. reflexivity.
    + destruct (N.eqb_spec (e0 e) (t1 s)) as [Hmiss|Hnmiss].
      { (* "missed skip": cannot happen when the cursor is right *)
        exfalso. destruct stash as [v|]; [destruct Hst as (_ & Ha & Hb); lia|lia]. }
      specialize (Hne_over Hover).
      destruct (ews e && is_none stash) eqn:Hsplit.
      * (* whitespace, nothing stashed: cut at the end of this slice *)
        apply andb_prop in Hsplit. destruct Hsplit as [Hews Hnone].
        destruct stash as [v|]; [discriminate|]. destruct Hpos as [Ha Hb].
        cbv zeta.
        destruct (N.ltb_spec (t1 s) (e0 e + consumed)) as [Hbad|_]; [lia|].
        rewrite cont_nonempty by exact Hne_over.
        assert (Hp' : e0 e + (consumed + (t1 s - (e0 e + consumed))) = t1 s) by lia.
        assert (HIH : post sl e rest' (t1 s) (e0 e + (consumed + (t1 s - (e0 e + consumed))))
                           (scan rest' e (consumed + (t1 s - (e0 e + consumed))) None)).
        { apply IH; [exact Hin'|exact Hty'|exact Hch'|lia|lia|intros Hf; congruence|].
          rewrite Hp'. apply covers_of_chain; [exact Hch'|lia]. }
        rewrite Hp' in HIH.
        destruct HIH as (gs & mid & cur & q' & Heq & Hrest).
        rewrite Heq.
        apply post_cut; cbn [g_t0 g_t1 g_r0 g_r1 g_s0 g_s1]; try lia; auto.
        -- exists gs, mid, cur, q'. split; [reflexivity|exact Hrest].
        -- exists s. split; [exact Hs_in|]. split.
           ++ unfold holds_start. apply andb_true_intro. split; [apply N.leb_le; lia|apply N.ltb_lt; lia].
           ++ rewrite to_source_eq by lia. unfold start_in. rewrite Hlit. reflexivity.
        -- exists s. split; [exact Hs_in|]. split.
           ++ unfold holds_end. apply andb_true_intro. split; [apply N.ltb_lt; lia|apply N.leb_le; lia].
           ++ rewrite to_source_eq by lia. unfold end_in. rewrite Hlit. reflexivity.
        -- exists s. auto.
      * (* cannot be cut: remember where it started and carry on *)
        rewrite cont_nonempty by exact Hne_over.
        destruct stash as [v|]; cbn [stash_or].
        -- apply Hstash; [exact Hover|reflexivity].
        -- apply Hstash; [exact Hover|].
           destruct (ews e) eqn:Hews; [discriminate|]. rewrite (Hws eq_refl) in *.
           destruct Hpos as [Ha Hb].
           replace (e0 e + 0) with (e0 e) in * by lia.
           rewrite to_source_eq by lia. unfold start_in. rewrite Hlit. reflexivity.
  - (* templated slice *)
    rewrite Htempl.
    destruct (N.leb_spec (e1 e) (t1 s)) as [Hfit|Hover].
    + apply Hemit; [exact Hfit| |].
      * destruct stash as [v'|]; cbn [or_else]; [reflexivity|].
        unfold start_in. rewrite Htempl. reflexivity.
      * unfold end_in. rewrite Htempl. reflexivity.
    + rewrite cont_nonempty by (apply Hne_over; exact Hover).
      destruct stash as [v|]; cbn [stash_or].
      * apply Hstash; [exact Hover|reflexivity].
      * apply Hstash; [exact Hover|]. unfold start_in. rewrite Htempl. reflexivity.
Qed.

(** * The outer loop, and locality *)
Lemma echain_end_ge els : forall p, echain els p -> p <= echain_end els p.
Proof.
  induction els as [|e els IH]; cbn [echain echain_end]; intros p H; [lia|].
  destruct H as (H0 & H1 & H2). specialize (IH _ H2). lia.
Qed.

Lemma chain_app_le zs s r : forall q, chain (zs ++ s :: r) q -> Forall (fun z => t1 z <= t0 s) zs.
Proof.
  induction zs as [|z zs IH]; cbn [app chain]; intros q H; [constructor|].
  destruct H as (H0 & H1 & H2). pose proof (IH _ H2) as HF. constructor; [|exact HF].
  destruct zs as [|z' zs']; cbn [app chain] in H2.
  - destruct H2 as (H3 & _). lia.
  - destruct H2 as (H3 & H4 & _). inversion HF; subst. lia.
Qed.

Lemma scan_skip_zeros zs s r e c st :
  Forall (fun z => is_zero z = true) zs -> scan (zs ++ s :: r) e c st = scan (s :: r) e c st.
Proof.
  induction zs as [|z zs IH]; intros HF; [reflexivity|].
  inversion HF as [|? ? Hz HF']; subst.
  cbn [app scan]. rewrite Hz. rewrite cont_nonempty by (destruct zs; discriminate).
  apply IH; exact HF'.
Qed.

Lemma dropwhile_app {A} (f : A -> bool) pre l :
  Forall (fun x => f x = true) pre -> dropwhile f (pre ++ l) = dropwhile f l.
Proof.
  induction pre as [|x pre IH]; intros HF; [reflexivity|].
  inversion HF; subst. cbn [app dropwhile]. rewrite H1. apply IH; assumption.
Qed.

Lemma scan_cursor_for sl pre cur q e :
  sl = pre ++ cur -> Forall (fun s => t1 s <= e0 e) pre -> chain cur q -> covers cur (e0 e) ->
  scan (cursor_for sl (e0 e)) e 0 None = scan cur e 0 None.
Proof.
  intros -> Hpre Hch (zs & s & r & -> & Hzs & Ha & Hb).
  unfold cursor_for.
  rewrite dropwhile_app.
  2:{ eapply Forall_impl; [|exact Hpre]. cbv beta. intros x Hx. apply N.leb_le. exact Hx. }
  rewrite dropwhile_app.
  2:{ pose proof (chain_app_le _ _ _ _ Hch) as HF.
      eapply Forall_impl; [|exact HF]. cbv beta. intros x Hx. apply N.leb_le. lia. }
  cbn [dropwhile]. destruct (N.leb_spec (t1 s) (e0 e)) as [Hc|_]; [lia|].
  symmetry. apply scan_skip_zeros. exact Hzs.
Qed.

Lemma iter_ok sl : forall els pre cur p q,
  sl = pre ++ cur -> Forall (fun s => t1 s <= p) pre ->
  Forall typed cur -> chain cur q ->
  echain els p -> echain_end els p <= chain_end cur q ->
  (els <> [] -> covers cur p) ->
  iter_from cur els = Some (concat (map (tokens_of sl) els)) /\
  Forall (fun e => pieces sl e (e0 e) (tokens_of sl e)) els.
Proof.
  induction els as [|e els IH]; intros pre cur p q Hsl Hpre Hty Hch He Hend Hcov.
  { split; [reflexivity|constructor]. }
  cbn [echain echain_end] in He, Hend. destruct He as (Hp & Hlt & He').
  specialize (Hcov ltac:(discriminate)).
  pose proof (echain_end_ge _ _ He') as Hge.
  assert (Hin : forall s, In s cur -> In s sl).
  { intros s Hs. rewrite Hsl. apply in_or_app. right. exact Hs. }
  pose proof (scan_ok sl e cur 0 None q Hin Hty Hch ltac:(lia) ltac:(lia) ltac:(reflexivity)) as Hscan.
  rewrite N.add_0_r in Hscan. rewrite <- Hp in Hcov. specialize (Hscan Hcov).
  destruct Hscan as (gs & mid & cur' & q' & Heq & Hpieces & Hmid & HFmid & Hch' & Hend' & Hty' & Hcov').
  assert (Htok : tokens_of sl e = gs).
  { unfold tokens_of. rewrite (scan_cursor_for sl pre cur q e Hsl); [rewrite Heq; reflexivity| |exact Hch|exact Hcov].
    rewrite Hp. exact Hpre. }
  cbn [iter_from map concat]. rewrite Heq.
  destruct (IH (pre ++ mid) cur' (e1 e) q') as [Hiter HF].
  - rewrite Hsl, Hmid. rewrite app_assoc. reflexivity.
  - apply Forall_app. split; [|exact HFmid].
    eapply Forall_impl; [|exact Hpre]. cbv beta. intros x Hx. lia.
  - exact Hty'.
  - exact Hch'.
  - exact He'.
  - rewrite Hend'. exact Hend.
  - intros Hne. apply Hcov'. destruct els as [|e' els']; [congruence|].
    cbn [echain echain_end] in He', Hend. destruct He' as (H1 & H2 & H3).
    pose proof (echain_end_ge _ _ H3). lia.
  - rewrite Hiter, Htok. split; [reflexivity|].
    constructor; [rewrite Htok; exact Hpieces|exact HF].
Qed.

(** Well-formed input of [iter_segments]: what [TemplatedFile::new] accepts (contiguous
    templated ranges from 0) with literal/templated slices, and the lexer's elements
    (non-empty, contiguous from 0, inside the rendered text). *)
Definition wf_slices (sl : list tslice) : Prop := chain sl 0 /\ Forall typed sl.
Definition wf_elems (sl : list tslice) (els : list elem) : Prop :=
  echain els 0 /\ echain_end els 0 <= chain_end sl 0.

Theorem iter_segments_spec sl els :
  wf_slices sl -> wf_elems sl els ->
  iter_segments sl els = Some (concat (map (tokens_of sl) els)) /\
  Forall (fun e => pieces sl e (e0 e) (tokens_of sl e)) els.
Proof.
  intros [Hch Hty] [He Hend]. unfold iter_segments.
  apply (iter_ok sl els [] sl 0 0); auto.
  intros Hne. apply covers_of_chain; [exact Hch|].
  destruct els as [|e els']; [congruence|].
  cbn [echain echain_end] in He, Hend. destruct He as (H1 & H2 & H3).
  pose proof (echain_end_ge _ _ H3). lia.
Qed.

(** * From the relational specification to the executable [map_spec] *)
Lemma chain_later x l : forall q s, chain (x :: l) q -> In s l -> t1 x <= t0 s.
Proof.
  revert x. induction l as [|y l IH]; intros x q s Hc Hin; [destruct Hin|].
  cbn [chain] in Hc. destruct Hc as (H0 & H1 & H2 & H3 & H4).
  destruct Hin as [->|Hin]; [lia|].
  assert (t1 y <= t0 s) by (apply (IH y (t1 x) s); [cbn [chain]; auto|exact Hin]). lia.
Qed.

Lemma find_start sl : forall q a s, chain sl q -> In s sl -> holds_start a s = true ->
  find (holds_start a) sl = Some s.
Proof.
  induction sl as [|x l IH]; intros q a s Hc Hin Hh; [destruct Hin|].
  cbn [find]. destruct (holds_start a x) eqn:Hx.
  - destruct Hin as [->|Hin]; [reflexivity|]. exfalso.
    pose proof (chain_later _ _ _ _ Hc Hin).
    unfold holds_start in *. apply andb_prop in Hx, Hh. destruct Hx as [_ Hx], Hh as [Hh _].
    apply N.ltb_lt in Hx. apply N.leb_le in Hh. lia.
  - destruct Hin as [->|Hin]; [congruence|].
    cbn [chain] in Hc. destruct Hc as (_ & _ & Hc). apply (IH _ _ _ Hc Hin Hh).
Qed.

Lemma find_end sl : forall q b s, chain sl q -> In s sl -> holds_end b s = true ->
  find (holds_end b) sl = Some s.
Proof.
  induction sl as [|x l IH]; intros q b s Hc Hin Hh; [destruct Hin|].
  cbn [find]. destruct (holds_end b x) eqn:Hx.
  - destruct Hin as [->|Hin]; [reflexivity|]. exfalso.
    pose proof (chain_later _ _ _ _ Hc Hin).
    unfold holds_end in *. apply andb_prop in Hx, Hh. destruct Hx as [_ Hx], Hh as [Hh _].
    apply N.leb_le in Hx. apply N.ltb_lt in Hh. lia.
  - destruct Hin as [->|Hin]; [congruence|].
    cbn [chain] in Hc. destruct Hc as (_ & _ & Hc). apply (IH _ _ _ Hc Hin Hh).
Qed.

Lemma map_spec_of_rel sl q a b x y :
  chain sl q -> starts_at sl a x -> ends_at sl b y -> map_spec sl a b = Some (x, y).
Proof.
  intros Hc (sa & Ha1 & Ha2 & ->) (sb & Hb1 & Hb2 & ->). unfold map_spec.
  rewrite (find_start _ _ _ _ Hc Ha1 Ha2), (find_end _ _ _ _ Hc Hb1 Hb2). reflexivity.
Qed.

Lemma pieces_map_spec sl q e : forall gs p, chain sl q -> pieces sl e p gs ->
  Forall (fun g => map_spec sl (g_t0 g) (g_t1 g) = Some (g_s0 g, g_s1 g)) gs.
Proof.
  induction gs as [|g gs IH]; intros p Hc Hp; [constructor|].
  destruct gs as [|g' gs'].
  - cbn [pieces] in Hp. destruct Hp as (H1 & _ & _ & H4 & H5 & _).
    constructor; [|constructor]. rewrite H1. eapply map_spec_of_rel; eauto.
  - apply pieces_cons2 in Hp. destruct Hp as (H1 & _ & _ & H4 & H5 & _ & _ & _ & _ & Hrest).
    constructor; [rewrite H1; eapply map_spec_of_rel; eauto|].
    eapply IH; eauto.
Qed.

(** the pieces of an element tile its templated range, in order, without gaps *)
Fixpoint tiles (p stop : N) (gs : list seg) : Prop :=
  match gs with
  | [] => p = stop
  | g :: gs' => g_t0 g = p /\ p < g_t1 g /\ tiles (g_t1 g) stop gs'
  end.
Lemma pieces_tiles sl e : forall gs p, p < e1 e -> pieces sl e p gs -> tiles p (e1 e) gs.
Proof.
  induction gs as [|g gs IH]; intros p Hlt Hp; [destruct Hp|].
  destruct gs as [|g' gs'].
  - cbn [pieces] in Hp. destruct Hp as (H1 & _ & _ & _ & _ & H6). cbn [tiles]. repeat apply conj; auto; lia.
  - apply pieces_cons2 in Hp. destruct Hp as (H1 & _ & _ & _ & _ & _ & H7 & H8 & _ & Hrest).
    cbn [tiles]. split; [exact H1|]. split; [exact H7|].
    apply (IH (g_t1 g) H8 Hrest).
Qed.

Lemma pieces_single sl e p gs : ews e = false -> pieces sl e p gs -> exists g, gs = [g].
Proof.
  intros Hws Hp. destruct gs as [|g [|g' gs']]; [destruct Hp|eauto|].
  apply pieces_cons2 in Hp. destruct Hp as (_ & _ & _ & _ & _ & H & _). congruence.
Qed.
