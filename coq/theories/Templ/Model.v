(** Templ/Model.v — executable model of the placeholder templater, the [TemplatedFile]
    constructor checks and the lexer's [iter_segments] (C15).  Definitions only.

    Rust sources mirrored (line numbers of the repaired tree):
      crates/lib/src/templaters/placeholder.rs   [PlaceholderTemplater::process]
      crates/lib-core/src/templaters/base.rs     [TemplatedFileInner::new], [is_source_slice_literal]
      crates/lib-core/src/parser/lexer.rs        [iter_segments], [elements_to_segments]

    Conventions: text is [list N] (bytes), offsets are [N]; a Rust panic (index out of
    range, unsigned underflow, [panic!], [unimplemented!]) is [RPanic]/[None]; an [Err]
    return is [RErr].  The regex engine is not modelled: the capture list it returns is
    an argument ([caps]) whose contract [H_caps] is stated in Proofs.v and monitored by
    the harness. *)
From Sq Require Import Base.Bytes.
From Coq Require Import ZArith.

Definition len (s : str) : N := N.of_nat (length s).

(** [&s[a..b]] : panics unless [a <= b <= len s] (char boundaries are not modelled). *)
Definition substr (s : str) (a b : N) : option str :=
  if (a <=? b) && (b <=? len s)
  then Some (firstn (N.to_nat (b - a)) (skipn (N.to_nat a) s))
  else None.

Inductive res (A : Type) : Type := ROk (a : A) | RErr | RPanic.
Arguments ROk {A} a.
Arguments RErr {A}.
Arguments RPanic {A}.

(** * Slices *)
Inductive stype := SLit | STempl | SBlockStart | SOther.
Definition stype_eqb (a b : stype) : bool :=
  match a, b with
  | SLit, SLit | STempl, STempl | SBlockStart, SBlockStart | SOther, SOther => true
  | _, _ => false
  end.

(** [TemplatedFileSlice]: type, source range [s0,s1), templated range [t0,t1). *)
Record tslice := mk_ts { ty : stype; s0 : N; s1 : N; t0 : N; t1 : N }.
(** [RawFileSlice]: raw text, type, source_idx. *)
Record rslice := mk_rs { r_raw : str; r_ty : stype; r_idx : N }.

(** * Replacement values ([Value] of the config map) *)
Inductive cval := VStr (s : str) | VInt (neg : bool) (m : N) | VBool (b : bool) | VOther.

(** decimal rendering, [i32::to_string] / [usize::to_string] *)
Fixpoint dec_aux (fuel : nat) (n : N) (acc : str) : str :=
  match fuel with
  | O => acc
  | S f => let acc' := (48 + n mod 10) :: acc in
           if n / 10 =? 0 then acc' else dec_aux f (n / 10) acc'
  end.
Definition dec (n : N) : str := dec_aux (S (N.size_nat n)) n [].

Fixpoint assoc (k : str) (m : list (str * cval)) : option cval :=
  match m with
  | [] => None
  | (k', v) :: m' => if str_eqb k k' then Some v else assoc k m'
  end.

(** [template_config.and_then(|c| c.get(name)).map_or(Ok(name), render)] *)
Definition replacement (vals : list (str * cval)) (name : str) : option str :=
  match assoc name vals with
  | None => Some name
  | Some (VStr s) => Some s
  | Some (VInt neg m) => Some ((if neg then [45] else []) ++ dec m)
  | Some (VBool b) => Some (if b then [116;114;117;101] else [102;97;108;115;101])
  | Some VOther => None
  end.

(** * [PlaceholderTemplater::process] *)
(** one regex capture: span of group 0 and the text of the named group [param_name] *)
Record cap := mk_cap { c0 : N; c1 : N; cname : option str }.

Record tfile := mk_tf { tf_tpl : str; tf_sl : list tslice; tf_rs : list rslice }.

(** The [for cap in regex.captures_iter(in_str)] loop followed by "add the last literal".
    Structural recursion on the capture list; [last_raw], [last_tpl], [cnt] are the
    loop variables [last_pos_raw], [last_pos_templated], [param_counter]. *)
Fixpoint ploop (src : str) (vals : list (str * cval)) (caps : list cap)
         (last_raw last_tpl cnt : N) : res tfile :=
  match caps with
  | [] =>
      if last_raw <? len src then
        match substr src last_raw (len src) with
        | Some lit =>
            ROk (mk_tf lit
                       [mk_ts SLit last_raw (len src) last_tpl (last_tpl + (len src - last_raw))]
                       [mk_rs lit SLit last_raw])
        | None => RPanic
        end
      else ROk (mk_tf [] [] [])
  | c :: caps' =>
      let name := match cname c with Some n => n | None => dec cnt end in
      let cnt' := match cname c with Some _ => cnt | None => cnt + 1 end in
      if c0 c <? last_raw then RPanic            (* span.start - last_pos_raw *)
      else
        let lit_len := c0 c - last_raw in
        match replacement vals name with
        | None => RErr                           (* Invalid value for parameter replacement *)
        | Some repl =>
            match substr src last_raw (c0 c), substr src (c0 c) (c1 c) with
            | Some lit, Some ph =>
                let tstart := last_tpl + lit_len in
                match ploop src vals caps' (c1 c) (tstart + len repl) cnt' with
                | ROk r =>
                    ROk (mk_tf (lit ++ repl ++ tf_tpl r)
                               (mk_ts SLit last_raw (c0 c) last_tpl tstart
                                :: mk_ts STempl (c0 c) (c1 c) tstart (tstart + len repl)
                                :: tf_sl r)
                               (mk_rs lit SLit last_raw :: mk_rs ph STempl (c0 c) :: tf_rs r))
                | RErr => RErr
                | RPanic => RPanic
                end
            | _, _ => RPanic
            end
        end
  end.

(** * [TemplatedFileInner::new] consistency checks (sliced + raw-sliced + templated given) *)
Fixpoint raw_check (rs : list rslice) (pos : N) : option N :=
  match rs with
  | [] => Some pos
  | r :: rs' => if r_idx r =? pos then raw_check rs' (pos + len (r_raw r)) else None
  end.

(** [prev] = end of the previous templated slice ([None] before the first one);
    returns the end of the last slice. *)
Fixpoint tpl_check (sl : list tslice) (prev : option N) : option (option N) :=
  match sl with
  | [] => Some prev
  | s :: sl' =>
      let ok := match prev with Some p => t0 s =? p | None => t0 s =? 0 end in
      if ok then tpl_check sl' (Some (t1 s)) else None
  end.

Definition tf_new (src tpl : str) (sl : list tslice) (rs : list rslice) : res unit :=
  match raw_check rs 0 with
  | None => RPanic                              (* running source length *)
  | Some pos =>
      if negb (pos =? len src) then RPanic      (* final source length *)
      else match tpl_check sl None with
           | None => RErr                       (* non-contiguous / first not at 0 *)
           | Some None => ROk tt
           | Some (Some e) => if e =? len tpl then ROk tt else RErr
           end
  end.

Definition process (src : str) (vals : list (str * cval)) (caps : list cap) : res tfile :=
  match ploop src vals caps 0 0 1 with
  | ROk r =>
      match tf_new src (tf_tpl r) (tf_sl r) (tf_rs r) with
      | ROk _ => ROk r
      | _ => RPanic                             (* [.unwrap()] of the constructor result *)
      end
  | RErr => RErr
  | RPanic => RPanic
  end.

(** * [is_source_slice_literal] *)
Fixpoint issl_loop (rs : list rslice) (a b : N) (lit : bool) : bool :=
  match rs with
  | [] => lit
  | r :: rs' =>
      if r_idx r <=? a then issl_loop rs' a b (stype_eqb (r_ty r) SLit)
      else if b <=? r_idx r then lit
      else if negb (stype_eqb (r_ty r) SLit) then issl_loop rs' a b false
      else issl_loop rs' a b lit
  end.
Definition is_source_slice_literal (rs : list rslice) (a b : N) : bool :=
  match rs with
  | [] => true
  | _ => if a =? b then true else issl_loop rs a b true
  end.

(** * [iter_segments] (repaired code) *)
(** a lexed element: templated range and [matcher.name == "whitespace"] *)
Record elem := mk_el { e0 : N; e1 : N; ews : bool }.
(** an emitted token: source range, templated range, sub-range of the element's raw *)
Record seg := mk_seg { g_s0 : N; g_s1 : N; g_t0 : N; g_t1 : N; g_r0 : N; g_r1 : N }.

Definition is_zero (s : tslice) : bool := t0 s =? t1 s.

(** [(templated_idx as isize + (source_slice.start as isize - templated_slice.start as isize)) as usize];
    a negative result (never reached on slice lists the constructor accepts) is clamped to 0 here. *)
Definition to_source (s : tslice) (x : N) : N :=
  Z.to_N (Z.of_N x + (Z.of_N (s0 s) - Z.of_N (t0 s))).

Definition or_else (o : option N) (d : N) : N := match o with Some v => v | None => d end.
Definition is_none {A} (o : option A) : bool := match o with None => true | Some _ => false end.

(** [continue] of the inner loop: go on with the next slice; when there is none the loop ends
    without [break] and the cursor stays on the slice just visited. *)
Definition cont (scan_rest : N -> option N -> option (list seg * list tslice))
           (s : tslice) (rest' : list tslice) (c : N) (st : option N) : option (list seg * list tslice) :=
  match rest' with
  | [] => Some ([], [s])
  | _ :: _ => scan_rest c st
  end.

Definition stash_or (stash : option N) (v : N) : option N :=
  match stash with None => Some v | Some _ => stash end.

(** The inner [for (idx, tfs) in slices.iter().enumerate().skip(tfs_idx)] loop for one
    element. [rest] is [slices[tfs_idx..]]; the result is the emitted tokens and the new
    cursor (again as a suffix of the slice list). [None] = panic. *)
Fixpoint scan (rest : list tslice) (e : elem) (consumed : N) (stash : option N)
  : option (list seg * list tslice) :=
  match rest with
  | [] => Some ([], [])
  | s :: rest' =>
      if is_zero s then cont (scan rest' e) s rest' consumed stash
      else
        match ty s with
        | SLit =>
            if e1 e <=? t1 s then
              Some ([mk_seg (or_else stash (to_source s (e0 e + consumed))) (to_source s (e1 e))
                            (e0 e + consumed) (e1 e) consumed (e1 e - e0 e)],
                    if e1 e =? t1 s then rest' else rest)
            else if e0 e =? t1 s then cont (scan rest' e) s rest' consumed stash
            else if ews e && is_none stash then
              let p := e0 e + consumed in
              if t1 s <? p then None                  (* usize underflow / bad raw sub-slice *)
              else
                let inc := t1 s - p in
                match cont (scan rest' e) s rest' (consumed + inc) stash with
                | Some (gs, cur) =>
                    Some (mk_seg (to_source s p) (to_source s (t1 s)) p (t1 s) consumed (consumed + inc) :: gs, cur)
                | None => None
                end
            else
              cont (scan rest' e) s rest' consumed (stash_or stash (to_source s (e0 e)))
        | STempl =>
            if e1 e <=? t1 s then
              Some ([mk_seg (or_else stash (s0 s)) (s1 s) (e0 e + consumed) (e1 e) consumed (e1 e - e0 e)],
                    if e1 e =? t1 s then rest' else rest)
            else
              cont (scan rest' e) s rest' consumed (stash_or stash (s0 s))
        | SBlockStart => None                          (* unimplemented!() *)
        | SOther => None                               (* panic!("Unable to process slice") *)
        end
  end.

(** The outer [for element in lexed_elements] loop. *)
Fixpoint iter_from (cur : list tslice) (els : list elem) : option (list seg) :=
  match els with
  | [] => Some []
  | e :: els' =>
      match scan cur e 0 None with
      | None => None
      | Some (gs, cur') =>
          match iter_from cur' els' with
          | None => None
          | Some r => Some (gs ++ r)
          end
      end
  end.
Definition iter_segments (sl : list tslice) (els : list elem) : option (list seg) := iter_from sl els.

(** [elements_to_segments]: the end-of-file token sits at the end point of the last token. *)
Definition eof_seg (gs : list seg) : seg :=
  match rev gs with
  | [] => mk_seg 0 0 0 0 0 0
  | g :: _ => mk_seg (g_s1 g) (g_s1 g) (g_t1 g) (g_t1 g) 0 0
  end.
Definition lex_segments (sl : list tslice) (els : list elem) : option (list seg) :=
  match iter_segments sl els with
  | Some gs => Some (gs ++ [eof_seg gs])
  | None => None
  end.

(** * Specification: the source range of a templated range, from the slice list alone *)
Definition holds_start (a : N) (s : tslice) : bool := (t0 s <=? a) && (a <? t1 s).
Definition holds_end (b : N) (s : tslice) : bool := (t0 s <? b) && (b <=? t1 s).
Definition start_in (s : tslice) (a : N) : N :=
  match ty s with SLit => s0 s + (a - t0 s) | _ => s0 s end.
Definition end_in (s : tslice) (b : N) : N :=
  match ty s with SLit => s0 s + (b - t0 s) | _ => s1 s end.
(** literal: offset-translated; templated: the whole placeholder; straddling: from the
    (translated or placeholder) start in the first slice to the end in the last one. *)
Definition map_spec (sl : list tslice) (a b : N) : option (N * N) :=
  match find (holds_start a) sl, find (holds_end b) sl with
  | Some sa, Some sb => Some (start_in sa a, end_in sb b)
  | _, _ => None
  end.

(** The tokens of one lexed element as a function of the slice list and the element alone:
    run the inner loop from the first slice that ends after the element's start. *)
Fixpoint dropwhile {A} (f : A -> bool) (l : list A) : list A :=
  match l with
  | [] => []
  | x :: l' => if f x then dropwhile f l' else l
  end.
Definition cursor_for (sl : list tslice) (p : N) : list tslice := dropwhile (fun s => t1 s <=? p) sl.
Definition tokens_of (sl : list tslice) (e : elem) : list seg :=
  match scan (cursor_for sl (e0 e)) e 0 None with
  | Some (gs, _) => gs
  | None => []
  end.

(** * [iter_segments] as it was before the repair (fix 7940035), for the [_refuted] lemmas.
    [idx] is the index of the head of [rest] in the slice list; the cursor only moves by one
    on an exact match; [checked] selects the overflow-checking build. *)
Definition zadd (x : N) (off : Z) : N := Z.to_N (Z.of_N x + off).
Fixpoint scan_legacy (checked : bool) (rest : list tslice) (idx : N) (e : elem) (stash : option N)
  : option (list seg * bool) :=
  match rest with
  | [] => Some ([], false)
  | s :: rest' =>
      if is_zero s then scan_legacy checked rest' (idx + 1) e stash
      else
        match ty s with
        | SLit =>
            if checked && (s0 s <? t0 s) then None
            else
              let off := (Z.of_N (s0 s) - Z.of_N (t0 s))%Z in
              if e1 e <=? t1 s then
                Some ([mk_seg (or_else stash (zadd (e0 e) off)) (zadd (e1 e) off) (e0 e) (e1 e) 0 (e1 e - e0 e)],
                      e1 e =? t1 s)
              else if e0 e =? t1 s then scan_legacy checked rest' (idx + 1) e stash
              else if ews e then None
              else match stash with
                   | None => scan_legacy checked rest' (idx + 1) e (Some (e0 e + idx))
                   | Some _ => None
                   end
        | STempl =>
            if e1 e <=? t1 s then
              Some ([mk_seg (or_else stash (s0 s)) (s1 s) (e0 e) (e1 e) 0 (e1 e - e0 e)], e1 e =? t1 s)
            else scan_legacy checked rest' (idx + 1) e
                             (match stash with None => Some (s0 s) | Some _ => stash end)
        | SBlockStart => None
        | SOther => None
        end
  end.
Fixpoint iter_legacy (checked : bool) (sl : list tslice) (idx : N) (els : list elem) : option (list seg) :=
  match els with
  | [] => Some []
  | e :: els' =>
      match scan_legacy checked (skipn (N.to_nat idx) sl) idx e None with
      | None => None
      | Some (gs, bump) =>
          match iter_legacy checked sl (if bump then idx + 1 else idx) els' with
          | None => None
          | Some r => Some (gs ++ r)
          end
      end
  end.
Definition iter_segments_legacy (checked : bool) (sl : list tslice) (els : list elem) :=
  iter_legacy checked sl 0 els.
