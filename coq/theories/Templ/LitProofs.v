(** Templ/LitProofs.v — [is_source_slice_literal] on raw slices that tile the source. *)
From Sq Require Import Base.Bytes Templ.Model Templ.IterProofs Templ.ProcProofs.
From Coq Require Import ZArith Lia.

Definition r_lit (r : rslice) : bool := stype_eqb (r_ty r) SLit.
Definition r_end (r : rslice) : N := r_idx r + len (r_raw r).
(** a raw slice overlaps the source range [a,b) (a zero-length slice: lies strictly inside) *)
Definition overlaps (a b : N) (r : rslice) : bool := (r_idx r <? b) && (a <? r_end r).
(** specification: every raw slice overlapping the range is literal *)
Definition lit_spec (rs : list rslice) (a b : N) : bool :=
  forallb (fun r => negb (overlaps a b r) || r_lit r) rs.

Lemma raw_tiling_ge src : forall rs ps r, raw_tiling src rs ps -> In r rs -> ps <= r_idx r /\ r_end r <= len src.
Proof.
  induction rs as [|x rs IH]; intros ps r H Hin; [destruct Hin|].
  cbn [raw_tiling] in H. destruct H as (H1 & H2 & _ & H4).
  destruct Hin as [->|Hin]; [unfold r_end; lia|].
  destruct (IH _ _ H4 Hin). lia.
Qed.

(** past the start of the range: the flag only goes down, on non-literal slices starting before [b] *)
Lemma issl_past src a b : forall rs ps lit, raw_tiling src rs ps -> a < ps ->
  issl_loop rs a b lit = lit && forallb (fun r => (b <=? r_idx r) || r_lit r) rs.
Proof.
  induction rs as [|x rs IH]; intros ps lit H Hps; cbn [issl_loop forallb].
  - rewrite andb_true_r. reflexivity.
  - cbn [raw_tiling] in H. destruct H as (H1 & H2 & _ & H4).
    destruct (N.leb_spec (r_idx x) a) as [Hc|Hc]; [lia|].
    destruct (N.leb_spec b (r_idx x)) as [Hb|Hb].
    + cbn [orb andb].
      assert (Hall : forallb (fun r => (b <=? r_idx r) || r_lit r) rs = true).
      { apply forallb_forall. intros r Hr. destruct (raw_tiling_ge _ _ _ _ H4 Hr) as [Hge _].
        apply orb_true_intro. left. apply N.leb_le. lia. }
      rewrite Hall, andb_true_r. reflexivity.
    + cbn [orb]. unfold r_lit at 1. destruct (stype_eqb (r_ty x) SLit) eqn:E; cbn [negb andb].
      * apply (IH (ps + len (r_raw x))); [exact H4|lia].
      * rewrite (IH (ps + len (r_raw x)) false H4) by lia. cbn [andb]. rewrite andb_false_r. reflexivity.
Qed.

Lemma forallb_ext_in' {A} (f g : A -> bool) l : (forall x, In x l -> f x = g x) -> forallb f l = forallb g l.
Proof.
  induction l as [|y l IH]; intros H; [reflexivity|]. cbn [forallb].
  rewrite (H y (or_introl eq_refl)), IH; [reflexivity|]. intros x Hx. apply H. right. exact Hx.
Qed.

(** before it: the last slice starting at or before [a] decides the initial flag *)
Lemma issl_before src a b : forall rs ps lit, raw_tiling src rs ps -> ps <= a -> a < b -> b <= len src ->
  issl_loop rs a b lit = lit_spec rs a b.
Proof.
  induction rs as [|x rs IH]; intros ps lit H Hps Hab Hb.
  - cbn [raw_tiling] in H. lia.
  - pose proof H as Hfull. cbn [raw_tiling] in H. destruct H as (H1 & H2 & _ & H4).
    cbn [issl_loop]. destruct (N.leb_spec (r_idx x) a) as [_|Hc]; [|lia].
    fold (r_lit x). unfold lit_spec. cbn [forallb]. fold (lit_spec rs a b).
    destruct (N.le_gt_cases (ps + len (r_raw x)) a) as [Hnext|Hnext].
    + (* x ends at or before a: does not overlap *)
      rewrite (IH _ _ H4 Hnext Hab Hb).
      assert (Ho : overlaps a b x = false).
      { unfold overlaps, r_end. rewrite H1. apply andb_false_intro2. apply N.ltb_ge. lia. }
      rewrite Ho. reflexivity.
    + (* x holds a *)
      rewrite (issl_past src a b rs _ _ H4 Hnext).
      assert (Ho : overlaps a b x = true).
      { unfold overlaps, r_end. rewrite H1. apply andb_true_intro. split; apply N.ltb_lt; lia. }
      rewrite Ho. cbn [negb orb]. f_equal.
      apply forallb_ext_in'. intros r Hr.
      destruct (raw_tiling_ge _ _ _ _ H4 Hr) as [Hge _].
      unfold overlaps, r_end.
      destruct (N.leb_spec b (r_idx r)) as [H5|H5]; destruct (N.ltb_spec (r_idx r) b) as [H6|H6]; try lia; cbn [andb negb orb].
      destruct (N.ltb_spec a (r_idx r + len (r_raw r))) as [H7|H7]; [reflexivity|lia].
Qed.

Theorem is_source_slice_literal_spec src rs a b :
  raw_tiling src rs 0 -> a < b -> b <= len src ->
  is_source_slice_literal rs a b = lit_spec rs a b.
Proof.
  intros H Hab Hb. unfold is_source_slice_literal.
  destruct rs as [|x rs]; [cbn [raw_tiling] in H; lia|].
  destruct (N.eqb_spec a b) as [He|_]; [lia|].
  apply (issl_before src a b (x :: rs) 0 true H); lia.
Qed.
