(** Templ/ProcProofs.v — [PlaceholderTemplater::process]: rendered text, slice tiling,
    acceptance by the [TemplatedFile] constructor. *)
From Sq Require Import Base.Bytes Templ.Model Templ.IterProofs.
From Coq Require Import ZArith Lia.

(** * [H_caps]: contract of the regex engine's [captures_iter] — spans in order, disjoint,
      inside the source *)
Fixpoint caps_ok (caps : list cap) (pos n : N) : Prop :=
  match caps with
  | [] => pos <= n
  | c :: cs => pos <= c0 c /\ c0 c <= c1 c /\ caps_ok cs (c1 c) n
  end.

Lemma caps_ok_le caps : forall pos n, caps_ok caps pos n -> pos <= n.
Proof.
  induction caps as [|c cs IH]; cbn [caps_ok]; intros pos n H; [exact H|].
  destruct H as (H1 & H2 & H3). specialize (IH _ _ H3). lia.
Qed.

(** * Specification of the rendered text: the source with every placeholder span replaced *)
Definition pname (c : cap) (cnt : N) : str := match cname c with Some n => n | None => dec cnt end.
Definition pcnt (c : cap) (cnt : N) : N := match cname c with Some _ => cnt | None => cnt + 1 end.

Definition slice_of (s : str) (a b : N) : str := firstn (N.to_nat (b - a)) (skipn (N.to_nat a) s).

Fixpoint render_spec (src : str) (vals : list (str * cval)) (caps : list cap) (pos cnt : N) : option str :=
  match caps with
  | [] => Some (skipn (N.to_nat pos) src)
  | c :: cs =>
      match replacement vals (pname c cnt), render_spec src vals cs (c1 c) (pcnt c cnt) with
      | Some r, Some rest => Some (slice_of src pos (c0 c) ++ r ++ rest)
      | _, _ => None
      end
  end.

(** * [substr] facts *)
Lemma len_app (a b : str) : len (a ++ b) = len a + len b.
Proof. unfold len. rewrite app_length. lia. Qed.
Lemma len_nil : len [] = 0.
Proof. reflexivity. Qed.

Lemma substr_some s a b : a <= b -> b <= len s -> substr s a b = Some (slice_of s a b).
Proof.
  intros H1 H2. unfold substr.
  destruct (N.leb_spec a b) as [Ha|Ha]; [|lia]. destruct (N.leb_spec b (len s)) as [Hb|Hb]; [|lia]. reflexivity.
Qed.
Lemma substr_inv s a b x : substr s a b = Some x -> a <= b /\ b <= len s /\ x = slice_of s a b.
Proof.
  unfold substr. destruct (N.leb_spec a b) as [Ha|Ha]; cbn [andb]; [|discriminate].
  destruct (N.leb_spec b (len s)) as [Hb|Hb]; [|discriminate]. intros Hx; inversion Hx. auto.
Qed.
Lemma slice_of_len s a b : a <= b -> b <= len s -> len (slice_of s a b) = b - a.
Proof.
  intros H1 H2. unfold slice_of, len in *. rewrite firstn_length, skipn_length. lia.
Qed.
Lemma slice_of_app_mid (x y z : str) : slice_of (x ++ y ++ z) (len x) (len x + len y) = y.
Proof.
  unfold slice_of, len.
  replace (N.to_nat (N.of_nat (length x) + N.of_nat (length y) - N.of_nat (length x))) with (length y) by lia.
  rewrite Nat2N.id. rewrite skipn_app, skipn_all, Nat.sub_diag. cbn [skipn app].
  rewrite firstn_app, firstn_all, Nat.sub_diag. cbn [firstn]. apply app_nil_r.
Qed.
Lemma slice_of_to_end s a : a <= len s -> slice_of s a (len s) = skipn (N.to_nat a) s.
Proof.
  intros H. unfold slice_of, len in *. apply firstn_all2. rewrite skipn_length. lia.
Qed.

(** * Tiling of both texts by the slices *)
Fixpoint tiling (src tpl : str) (sl : list tslice) (ps pt : N) : Prop :=
  match sl with
  | [] => ps = len src /\ pt = len tpl
  | s :: sl' =>
      s0 s = ps /\ t0 s = pt /\ s0 s <= s1 s /\ s1 s <= len src /\ t0 s <= t1 s /\ t1 s <= len tpl /\
      (ty s = SLit \/ ty s = STempl) /\
      (ty s = SLit -> slice_of src (s0 s) (s1 s) = slice_of tpl (t0 s) (t1 s) /\ s1 s - s0 s = t1 s - t0 s) /\
      tiling src tpl sl' (s1 s) (t1 s)
  end.

Lemma tiling_end src tpl sl : forall ps pt, tiling src tpl sl ps pt -> ps <= len src /\ pt <= len tpl.
Proof.
  induction sl as [|s sl IH]; cbn [tiling]; intros ps pt H; [lia|].
  destruct H as (H1 & H2 & H3 & H4 & H5 & H6 & _ & _ & H9). lia.
Qed.

(** the raw slices tile the source *)
Fixpoint raw_tiling (src : str) (rs : list rslice) (ps : N) : Prop :=
  match rs with
  | [] => ps = len src
  | r :: rs' => r_idx r = ps /\ ps + len (r_raw r) <= len src /\
                r_raw r = slice_of src ps (ps + len (r_raw r)) /\ raw_tiling src rs' (ps + len (r_raw r))
  end.

Section Process.
  Variable src : str.
  Variable vals : list (str * cval).

  Lemma ploop_ok : forall caps last_raw last_tpl cnt,
    caps_ok caps last_raw (len src) ->
    match ploop src vals caps last_raw last_tpl cnt with
    | ROk r =>
        render_spec src vals caps last_raw cnt = Some (tf_tpl r) /\
        raw_tiling src (tf_rs r) last_raw /\
        forall pre, len pre = last_tpl -> tiling src (pre ++ tf_tpl r) (tf_sl r) last_raw last_tpl
    | RErr => render_spec src vals caps last_raw cnt = None
    | RPanic => False
    end.
  Proof.
    induction caps as [|c cs IH]; intros last_raw last_tpl cnt Hok.
    - cbn [caps_ok] in Hok. cbn [ploop render_spec].
      destruct (N.ltb_spec last_raw (len src)) as [Hlt|Hge].
      + rewrite substr_some by lia. cbn [tf_tpl tf_sl tf_rs].
        rewrite slice_of_to_end by lia.
        assert (Hl : len (skipn (N.to_nat last_raw) src) = len src - last_raw).
        { unfold len. rewrite skipn_length. lia. }
        split; [reflexivity|]. split.
        * cbn [raw_tiling r_idx r_raw]. rewrite Hl.
          replace (last_raw + (len src - last_raw)) with (len src) by lia.
          rewrite slice_of_to_end by lia. repeat apply conj; auto; lia.
        * intros pre Hpre. cbn [tiling ty s0 s1 t0 t1]. rewrite len_app, Hl.
          repeat apply conj; try lia; auto.
          intros _. split; [|lia].
          rewrite slice_of_to_end by lia. rewrite <- Hpre.
          replace (len src - last_raw) with (len (skipn (N.to_nat last_raw) src)) by exact Hl.
          rewrite <- (app_nil_r (skipn (N.to_nat last_raw) src)) at 2.
          rewrite slice_of_app_mid. reflexivity.
      + assert (last_raw = len src) by lia. subst last_raw.
        cbn [tf_tpl tf_sl tf_rs]. split.
        * f_equal. apply skipn_all2. unfold len. lia.
        * split; [reflexivity|]. intros pre Hpre. cbn [tiling]. rewrite app_nil_r. auto.
    - cbn [caps_ok] in Hok. destruct Hok as (H1 & H2 & H3).
      pose proof (caps_ok_le _ _ _ H3) as H4.
      cbn [ploop render_spec]. fold (pname c cnt) (pcnt c cnt).
      destruct (N.ltb_spec (c0 c) last_raw) as [Hbad|_]; [lia|].
      destruct (replacement vals (pname c cnt)) as [repl|]; [|reflexivity].
      rewrite (substr_some src last_raw (c0 c)) by lia.
      rewrite (substr_some src (c0 c) (c1 c)) by lia.
      specialize (IH (c1 c) (last_tpl + (c0 c - last_raw) + len repl) (pcnt c cnt) H3).
      destruct (ploop src vals cs (c1 c) (last_tpl + (c0 c - last_raw) + len repl) (pcnt c cnt)) as [r| |];
        [|rewrite IH; reflexivity|exact IH].
      destruct IH as (IHr & IHraw & IHt). cbn [tf_tpl tf_sl tf_rs].
      pose proof (slice_of_len src last_raw (c0 c) ltac:(lia) ltac:(lia)) as Hl1.
      pose proof (slice_of_len src (c0 c) (c1 c) ltac:(lia) ltac:(lia)) as Hl2.
      split; [rewrite IHr; reflexivity|]. split.
      + cbn [raw_tiling r_idx r_raw]. rewrite Hl1, Hl2.
        replace (last_raw + (c0 c - last_raw)) with (c0 c) by lia.
        replace (c0 c + (c1 c - c0 c)) with (c1 c) by lia.
        repeat apply conj; auto; lia.
      + intros pre Hpre.
        specialize (IHt (pre ++ slice_of src last_raw (c0 c) ++ repl)).
        rewrite !len_app, Hl1, Hpre in IHt. specialize (IHt ltac:(lia)).
        rewrite <- !app_assoc in IHt.
        pose proof (tiling_end _ _ _ _ _ IHt) as [He1 He2].
        cbn [tiling ty s0 s1 t0 t1].
        repeat apply conj; try lia; auto; try (intros Hf; discriminate).
        intros _. split; [|lia]. rewrite <- Hpre.
        replace (len pre + (c0 c - last_raw)) with (len pre + len (slice_of src last_raw (c0 c))) by lia.
        rewrite slice_of_app_mid. reflexivity.
  Qed.

  (** the constructor's consistency checks pass on what the loop produced *)
  Lemma raw_check_ok : forall rs ps, raw_tiling src rs ps -> raw_check rs ps = Some (len src).
  Proof.
    induction rs as [|r rs IH]; cbn [raw_tiling raw_check]; intros ps H; [congruence|].
    destruct H as (H1 & _ & _ & H4). rewrite H1, N.eqb_refl. apply IH. exact H4.
  Qed.
  Lemma tpl_check_ok tpl : forall sl ps pt, tiling src tpl sl ps pt ->
    tpl_check sl (Some pt) = Some (Some (len tpl)).
  Proof.
    induction sl as [|s sl IH]; cbn [tiling tpl_check]; intros ps pt H.
    - destruct H as [_ ->]. reflexivity.
    - destruct H as (_ & H2 & _ & _ & _ & _ & _ & _ & H9). rewrite H2, N.eqb_refl. eapply IH; exact H9.
  Qed.
  Lemma tf_new_ok tpl sl rs : raw_tiling src rs 0 -> tiling src tpl sl 0 0 -> tf_new src tpl sl rs = ROk tt.
  Proof.
    intros Hr Ht. unfold tf_new. rewrite (raw_check_ok _ _ Hr), N.eqb_refl. cbn [negb].
    destruct sl as [|s sl]; [reflexivity|].
    cbn [tiling] in Ht. destruct Ht as (_ & H2 & _ & _ & _ & _ & _ & _ & H9).
    cbn [tpl_check]. rewrite H2. cbn [N.eqb]. rewrite (tpl_check_ok _ _ _ _ H9), N.eqb_refl. reflexivity.
  Qed.

  (** ** [process]: never panics under [H_caps]; [Err] exactly when a replacement value is not a
      string/int/bool; otherwise the rendered text is the substitution, the slices tile both
      texts with literal slices covering identical text, the raw slices tile the source. *)
  Theorem process_spec caps :
    caps_ok caps 0 (len src) ->
    match process src vals caps with
    | ROk r =>
        render_spec src vals caps 0 1 = Some (tf_tpl r) /\
        tiling src (tf_tpl r) (tf_sl r) 0 0 /\
        raw_tiling src (tf_rs r) 0
    | RErr => render_spec src vals caps 0 1 = None
    | RPanic => False
    end.
  Proof.
    intros Hok. unfold process. pose proof (ploop_ok caps 0 0 1 Hok) as H.
    destruct (ploop src vals caps 0 0 1) as [r| |]; [|exact H|exact H].
    destruct H as (Hr & Hraw & Ht). specialize (Ht [] eq_refl). cbn [app] in Ht.
    rewrite (tf_new_ok _ _ _ Hraw Ht). auto.
  Qed.

  Lemma render_spec_some caps : forall pos cnt,
    (forall n, replacement vals n <> None) -> render_spec src vals caps pos cnt <> None.
  Proof.
    induction caps as [|c cs IH]; cbn [render_spec]; intros pos cnt Hv; [discriminate|].
    specialize (Hv (pname c cnt)) as Hv1. destruct (replacement vals (pname c cnt)); [|congruence].
    specialize (IH (c1 c) (pcnt c cnt) Hv). destruct (render_spec src vals cs (c1 c) (pcnt c cnt)); [discriminate|congruence].
  Qed.

  Theorem process_total caps :
    caps_ok caps 0 (len src) -> (forall n, replacement vals n <> None) ->
    exists r, process src vals caps = ROk r.
  Proof.
    intros Hok Hv. pose proof (process_spec caps Hok) as H.
    destruct (process src vals caps) as [r| |]; [eauto| |destruct H].
    exfalso. exact (render_spec_some caps 0 1 Hv H).
  Qed.
End Process.

(** * What [process] hands to the lexer is well formed for [iter_segments] *)
Lemma tiling_wf src tpl sl : forall ps pt, tiling src tpl sl ps pt ->
  chain sl pt /\ chain_end sl pt = len tpl /\ Forall typed sl.
Proof.
  induction sl as [|s sl IH]; cbn [tiling chain chain_end]; intros ps pt H.
  - destruct H as [_ ->]. auto.
  - destruct H as (H1 & H2 & H3 & H4 & H5 & H6 & H7 & H8 & H9).
    destruct (IH _ _ H9) as (Ha & Hb & Hc). repeat apply conj; auto.
    constructor; [|exact Hc]. right. exact H7.
Qed.

(** every source range produced by the specification lies inside the source, start before end *)
Lemma tiling_in src tpl sl : forall ps pt s, tiling src tpl sl ps pt -> In s sl ->
  ps <= s0 s /\ s0 s <= s1 s /\ s1 s <= len src /\ pt <= t0 s /\
  (ty s = SLit -> s1 s - s0 s = t1 s - t0 s).
Proof.
  induction sl as [|x sl IH]; intros ps pt s H Hin; [destruct Hin|].
  cbn [tiling] in H. destruct H as (H1 & H2 & H3 & H4 & H5 & H6 & H7 & H8 & H9).
  destruct Hin as [->|Hin].
  - repeat apply conj; try lia. intros Hl. apply H8. exact Hl.
  - destruct (IH _ _ _ H9 Hin) as (I1 & I2 & I3 & I4 & I5). repeat apply conj; auto; lia.
Qed.

Lemma tiling_order src tpl sl : forall ps pt a b, tiling src tpl sl ps pt ->
  In a sl -> In b sl -> t0 a < t1 b -> t0 a <= t0 b -> t1 a <= t1 b ->
  a = b \/ s1 a <= s0 b.
Proof.
  induction sl as [|x sl IH]; intros ps pt a b H Ha Hb Hlt Hle0 Hle1; [destruct Ha|].
  pose proof H as Hfull.
  cbn [tiling] in H. destruct H as (H1 & H2 & H3 & H4 & H5 & H6 & H7 & H8 & H9).
  destruct Ha as [->|Ha]; destruct Hb as [->|Hb].
  - left; reflexivity.
  - right. destruct (tiling_in _ _ _ _ _ _ H9 Hb) as (I1 & _). exact I1.
  - (* b is the head, a later: then t1 b <= t0 a, contradiction unless degenerate *)
    destruct (tiling_in _ _ _ _ _ _ H9 Ha) as (I1 & I2 & I3 & I4 & I5). lia.
  - eapply IH; eauto.
Qed.

Lemma spec_range_ok src tpl sl a b x y :
  tiling src tpl sl 0 0 -> a < b ->
  starts_at sl a x -> ends_at sl b y -> x <= y /\ y <= len src.
Proof.
  intros Ht Hab (sa & Ha1 & Ha2 & ->) (sb & Hb1 & Hb2 & ->).
  unfold holds_start in Ha2. unfold holds_end in Hb2.
  apply andb_prop in Ha2, Hb2. destruct Ha2 as [Ha2 Ha3], Hb2 as [Hb2 Hb3].
  apply N.leb_le in Ha2, Hb3. apply N.ltb_lt in Ha3, Hb2.
  destruct (tiling_in _ _ _ _ _ _ Ht Ha1) as (A1 & A2 & A3 & A4 & A5).
  destruct (tiling_in _ _ _ _ _ _ Ht Hb1) as (B1 & B2 & B3 & B4 & B5).
  assert (Hsa : start_in sa a <= s1 sa /\ s0 sa <= start_in sa a).
  { unfold start_in. destruct (ty sa) eqn:E; try lia. specialize (A5 eq_refl). lia. }
  assert (Hsb : s0 sb <= end_in sb b /\ end_in sb b <= s1 sb).
  { unfold end_in. destruct (ty sb) eqn:E; try lia. specialize (B5 eq_refl). lia. }
  split; [|lia].
  (* the slice holding the start is the one holding the end, or lies before it *)
  destruct (N.le_gt_cases (t0 sa) (t0 sb)) as [Hc|Hc].
  - destruct (N.le_gt_cases (t1 sa) (t1 sb)) as [Hd|Hd].
    + destruct (tiling_order _ _ _ _ _ _ _ Ht Ha1 Hb1 ltac:(lia) Hc Hd) as [->|Hord]; [|lia].
      unfold start_in, end_in. destruct (ty sb); lia.
    + (* sa strictly contains the end of sb: both hold positions of a chain; use order the other way *)
      pose proof (tiling_wf _ _ _ _ _ Ht) as (Hch & _ & _).
      exfalso.
      assert (Hx : In sb sl) by exact Hb1.
      clear - Hch Ha1 Hb1 Hc Hd Hb2 Ha3 Ha2 Hb3 Hab.
      revert Hch. generalize 0. induction sl as [|z sl IH]; intros q Hch; [destruct Ha1|].
      destruct Ha1 as [->|Ha1]; destruct Hb1 as [->|Hb1]; try lia.
      * pose proof (chain_later _ _ _ _ Hch Hb1). lia.
      * pose proof (chain_later _ _ _ _ Hch Ha1). lia.
      * cbn [chain] in Hch. destruct Hch as (_ & _ & Hch). eapply IH; eauto.
  - pose proof (tiling_wf _ _ _ _ _ Ht) as (Hch & _ & _).
    exfalso.
    clear - Hch Ha1 Hb1 Hc Hb2 Ha3 Ha2 Hb3 Hab.
    revert Hch. generalize 0. induction sl as [|z sl IH]; intros q Hch; [destruct Ha1|].
    destruct Ha1 as [->|Ha1]; destruct Hb1 as [->|Hb1]; try lia.
    * pose proof (chain_later _ _ _ _ Hch Hb1). lia.
    * pose proof (chain_later _ _ _ _ Hch Ha1).
      cbn [chain] in Hch. lia.
    * cbn [chain] in Hch. destruct Hch as (_ & _ & Hch). eapply IH; eauto.
Qed.
