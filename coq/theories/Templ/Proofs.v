(** Templ/Proofs.v — lemmas and theorems about the model of Templ/Model.v (C15). *)
From Sq Require Import Base.Bytes Templ.Model.
From Coq Require Import ZArith Lia.

(** * The code before the repair (fix 7ed96a0): witnesses *)

(** [ab:x c] with [x = 1] (colon style): rendered [ab1 c]; slices literal 0..2/0..2, templated
    2..4/2..3, literal 4..6/3..5; tokens [ab1] 0..3, blank 3..4, [c] 4..5. *)
Definition w_slices : list tslice :=
  [mk_ts SLit 0 2 0 2; mk_ts STempl 2 4 2 3; mk_ts SLit 4 6 3 5].
Definition w_elems : list elem := [mk_el 0 3 false; mk_el 3 4 true; mk_el 4 5 false].

(** The slice cursor lags behind: the blank and [c] restart on the placeholder slice and get
    its source start (2) instead of their own (4, 5). *)
Lemma legacy_refuted_cursor :
  exists sl els gs, iter_segments_legacy false sl els = Some gs /\
    exists g, In g gs /\ map_spec sl (g_t0 g) (g_t1 g) <> Some (g_s0 g, g_s1 g).
Proof.
  exists w_slices, w_elems. eexists. split; [vm_compute; reflexivity|].
  exists (mk_seg 2 5 3 4 0 1). split; [vm_compute; tauto|]. vm_compute. discriminate.
Qed.

(** [ab:x cd:x]: the third token walks from the first placeholder slice over a literal slice with
    a start already stashed and falls through to the final [panic!]. *)
Lemma legacy_refuted_panic :
  exists sl els, iter_segments_legacy false sl els = None /\ iter_segments sl els <> None.
Proof.
  exists [mk_ts SLit 0 2 0 2; mk_ts STempl 2 4 2 3; mk_ts SLit 4 7 3 6; mk_ts STempl 7 9 6 7],
         [mk_el 0 3 false; mk_el 3 4 true; mk_el 4 7 false].
  split; vm_compute; [reflexivity|discriminate].
Qed.

(** A replacement longer than its placeholder: the literal slice after it has a source start
    smaller than its templated start; builds with overflow checks panic on the subtraction. *)
Lemma legacy_refuted_underflow :
  exists sl els, iter_segments_legacy true sl els = None /\ iter_segments sl els <> None.
Proof.
  exists [mk_ts SLit 0 2 0 2; mk_ts STempl 2 4 2 7; mk_ts SLit 4 6 7 9], [mk_el 0 2 false; mk_el 2 7 false; mk_el 7 9 false].
  split; vm_compute; [reflexivity|discriminate].
Qed.

(** Whitespace spanning a slice border always ended in the final [panic!]. *)
Lemma legacy_refuted_whitespace :
  exists sl els, iter_segments_legacy false sl els = None /\ iter_segments sl els <> None.
Proof.
  exists [mk_ts SLit 0 2 0 2; mk_ts STempl 2 4 2 2; mk_ts SLit 4 6 2 4], [mk_el 0 1 false; mk_el 1 3 true; mk_el 3 4 false].
  split; vm_compute; [reflexivity|discriminate].
Qed.
