(** Templ/Proofs.v — lemmas and theorems about the model of Templ/Model.v (C15). *)
From Sq Require Import Base.Bytes Templ.Model.
From Sq Require Export Templ.IterProofs Templ.ProcProofs Templ.LitProofs.
From Coq Require Import ZArith Lia.

(** * The code before the repair (fix 7940035): witnesses *)

(** [ab:x c] with [x = 1] (colon style): rendered [ab1 c]; slices literal 0..2/0..2, templated
    2..4/2..3, literal 4..6/3..5; tokens [ab1] 0..3, blank 3..4, [c] 4..5. *)
Definition w_slices : list tslice :=
  [mk_ts SLit 0 2 0 2; mk_ts STempl 2 4 2 3; mk_ts SLit 4 6 3 5].
Definition w_elems : list elem := [mk_el 0 3 false; mk_el 3 4 true; mk_el 4 5 false].

(** The slice cursor lags behind: the blank and [c] restart on the placeholder slice and get
    its source start (2) instead of their own (4, 5). *)
Lemma legacy_refuted_cursor :
  exists sl els gs, iter_segments_legacy false sl els = Some gs /\
    exists g, In g gs /\ map_spec sl (g_t0 g) (g_t1 g) <> Some (g_s0 g, g_s1 g).
Proof.
  exists w_slices, w_elems. eexists. split; [vm_compute; reflexivity|].
  exists (mk_seg 2 5 3 4 0 1). split; [vm_compute; tauto|]. vm_compute. discriminate.
Qed.

(** [ab:x cd:x]: the third token walks from the first placeholder slice over a literal slice with
    a start already stashed and falls through to the final [panic!]. *)
Lemma legacy_refuted_panic :
  exists sl els, iter_segments_legacy false sl els = None /\ iter_segments sl els <> None.
Proof.
  exists [mk_ts SLit 0 2 0 2; mk_ts STempl 2 4 2 3; mk_ts SLit 4 7 3 6; mk_ts STempl 7 9 6 7],
         [mk_el 0 3 false; mk_el 3 4 true; mk_el 4 7 false].
  split; vm_compute; [reflexivity|discriminate].
Qed.

(** A replacement longer than its placeholder: the literal slice after it has a source start
    smaller than its templated start; builds with overflow checks panic on the subtraction. *)
Lemma legacy_refuted_underflow :
  exists sl els, iter_segments_legacy true sl els = None /\ iter_segments sl els <> None.
Proof.
  exists [mk_ts SLit 0 2 0 2; mk_ts STempl 2 4 2 7; mk_ts SLit 4 6 7 9], [mk_el 0 2 false; mk_el 2 7 false; mk_el 7 9 false].
  split; vm_compute; [reflexivity|discriminate].
Qed.

(** Whitespace spanning a slice border always ended in the final [panic!]. *)
Lemma legacy_refuted_whitespace :
  exists sl els, iter_segments_legacy false sl els = None /\ iter_segments sl els <> None.
Proof.
  exists [mk_ts SLit 0 2 0 2; mk_ts STempl 2 4 2 2; mk_ts SLit 4 6 2 4], [mk_el 0 1 false; mk_el 1 3 true; mk_el 3 4 false].
  split; vm_compute; [reflexivity|discriminate].
Qed.

(** * The token map, stated with the executable [map_spec] *)

(** what is emitted for one element: pieces that tile its templated range in order; each piece's
    source range is [map_spec] of its own templated range; elements other than whitespace are
    never split *)
Definition token_ok (sl : list tslice) (e : elem) (gs : list seg) : Prop :=
  tiles (e0 e) (e1 e) gs /\
  Forall (fun g => map_spec sl (g_t0 g) (g_t1 g) = Some (g_s0 g, g_s1 g) /\
                   g_r0 g = g_t0 g - e0 e /\ g_r1 g = g_t1 g - e0 e) gs /\
  (ews e = false -> exists g, gs = [g]).

Lemma pieces_raw sl e : forall gs p, pieces sl e p gs ->
  Forall (fun g => g_r0 g = g_t0 g - e0 e /\ g_r1 g = g_t1 g - e0 e) gs.
Proof.
  induction gs as [|g gs IH]; intros p Hp; [constructor|].
  destruct gs as [|g' gs'].
  - cbn [pieces] in Hp. destruct Hp as (H1 & H2 & H3 & _). constructor; [|constructor]. rewrite H1. auto.
  - apply pieces_cons2 in Hp. destruct Hp as (H1 & H2 & H3 & _ & _ & _ & _ & _ & _ & Hrest).
    constructor; [rewrite H1; auto|]. eapply IH; eauto.
Qed.

Lemma pieces_token_ok sl q e gs : chain sl q -> e0 e < e1 e -> pieces sl e (e0 e) gs -> token_ok sl e gs.
Proof.
  intros Hc Hlt Hp. split; [eapply pieces_tiles; eauto|]. split.
  - pose proof (pieces_map_spec sl q e gs (e0 e) Hc Hp) as H1.
    pose proof (pieces_raw sl e gs (e0 e) Hp) as H2.
    clear - H1 H2. induction gs as [|g gs IH]; [constructor|].
    inversion H1; inversion H2; subst. constructor; auto.
  - intros Hws. eapply pieces_single; eauto.
Qed.

Lemma echain_pos els : forall p, echain els p -> Forall (fun e => e0 e < e1 e) els.
Proof.
  induction els as [|e els IH]; cbn [echain]; intros p H; [constructor|].
  destruct H as (_ & H1 & H2). constructor; [exact H1|eapply IH; eauto].
Qed.

Theorem iter_segments_map sl els :
  wf_slices sl -> wf_elems sl els ->
  iter_segments sl els = Some (concat (map (tokens_of sl) els)) /\
  Forall (fun e => token_ok sl e (tokens_of sl e)) els.
Proof.
  intros Hsl Hel. destruct (iter_segments_spec sl els Hsl Hel) as [H1 H2]. split; [exact H1|].
  destruct Hsl as [Hc _]. destruct Hel as [He _].
  pose proof (echain_pos _ _ He) as Hpos.
  clear - Hc H2 Hpos. induction els as [|e els IH]; [constructor|].
  inversion H2; inversion Hpos; subst. constructor; [eapply pieces_token_ok; eauto|auto].
Qed.

(** Locality: the tokens of an element are the same in every element list that contains it. *)
Corollary iter_segments_local sl pre1 post1 pre2 post2 e :
  wf_slices sl -> wf_elems sl (pre1 ++ e :: post1) -> wf_elems sl (pre2 ++ e :: post2) ->
  exists a1 b1 a2 b2,
    iter_segments sl (pre1 ++ e :: post1) = Some (a1 ++ tokens_of sl e ++ b1) /\
    iter_segments sl (pre2 ++ e :: post2) = Some (a2 ++ tokens_of sl e ++ b2) /\
    length a1 = length (concat (map (tokens_of sl) pre1)) /\
    length a2 = length (concat (map (tokens_of sl) pre2)).
Proof.
  intros Hsl H1 H2.
  destruct (iter_segments_spec sl _ Hsl H1) as [E1 _].
  destruct (iter_segments_spec sl _ Hsl H2) as [E2 _].
  rewrite map_app, concat_app in E1, E2. cbn [map concat] in E1, E2.
  eexists _, _, _, _. split; [exact E1|]. split; [exact E2|]. split; reflexivity.
Qed.

(** * End to end: what [process] produces is well formed for the lexer, and every token of the
      rendered text gets the specified source range, inside the source *)
Lemma pieces_in_range src tpl sl e : forall gs p,
  tiling src tpl sl 0 0 -> p < e1 e -> pieces sl e p gs ->
  Forall (fun g => g_s0 g <= g_s1 g /\ g_s1 g <= len src) gs.
Proof.
  induction gs as [|g gs IH]; intros p Ht Hlt Hp; [constructor|].
  destruct gs as [|g' gs'].
  - cbn [pieces] in Hp. destruct Hp as (H1 & _ & _ & H4 & H5 & H6).
    constructor; [|constructor]. apply (spec_range_ok src tpl sl p (g_t1 g) _ _ Ht); [lia|exact H4|exact H5].
  - apply pieces_cons2 in Hp. destruct Hp as (H1 & _ & _ & H4 & H5 & _ & H7 & H8 & _ & Hrest).
    constructor; [apply (spec_range_ok src tpl sl p (g_t1 g) _ _ Ht); [lia|exact H4|exact H5]|].
    eapply IH; eauto.
Qed.

Theorem process_lex_spec src vals caps r els :
  caps_ok caps 0 (len src) -> process src vals caps = ROk r ->
  echain els 0 -> echain_end els 0 <= len (tf_tpl r) ->
  iter_segments (tf_sl r) els = Some (concat (map (tokens_of (tf_sl r)) els)) /\
  Forall (fun e => token_ok (tf_sl r) e (tokens_of (tf_sl r) e) /\
                   Forall (fun g => g_s0 g <= g_s1 g /\ g_s1 g <= len src) (tokens_of (tf_sl r) e)) els.
Proof.
  intros Hok Hp He Hend.
  pose proof (process_spec src vals caps Hok) as Hs. rewrite Hp in Hs. destruct Hs as (_ & Ht & _).
  destruct (tiling_wf _ _ _ _ _ Ht) as (Hch & Hce & Hty).
  assert (Hsl : wf_slices (tf_sl r)) by (split; assumption).
  assert (Hel : wf_elems (tf_sl r) els) by (split; [exact He|rewrite Hce; exact Hend]).
  destruct (iter_segments_spec _ _ Hsl Hel) as [H1 H2]. split; [exact H1|].
  pose proof (echain_pos _ _ He) as Hpos.
  clear - Hch H2 Hpos Ht. induction els as [|e els IH]; [constructor|].
  inversion H2; inversion Hpos; subst. constructor; [|auto].
  split; [eapply pieces_token_ok; eauto|]. eapply pieces_in_range; eauto.
Qed.

(** * Non-vacuity: concrete instances of the hypotheses *)
(** source [ab:x c], one capture 2..4 named [x], configured value [x = 1] *)
Definition ex_src : str := [97;98;58;120;32;99].
Definition ex_vals : list (str * cval) := [([120], VInt false 1)].
Definition ex_caps : list cap := [mk_cap 2 4 (Some [120])].
Example ex_caps_ok : caps_ok ex_caps 0 (len ex_src).
Proof. cbn. lia. Qed.
Example ex_process :
  process ex_src ex_vals ex_caps = ROk (mk_tf [97;98;49;32;99] w_slices
     [mk_rs [97;98] SLit 0; mk_rs [58;120] STempl 2; mk_rs [32;99] SLit 4]).
Proof. vm_compute. reflexivity. Qed.
Example ex_vals_total : forall n, replacement ex_vals n <> None.
Proof.
  intros n. unfold replacement, ex_vals. cbn [assoc]. destruct (str_eqb n [120]); discriminate.
Qed.
Example ex_wf : wf_slices w_slices /\ wf_elems w_slices w_elems.
Proof.
  split; split.
  - cbn. repeat apply conj; auto; lia.
  - unfold w_slices. constructor; [right; left; reflexivity|]. constructor; [right; right; reflexivity|].
    constructor; [right; left; reflexivity|]. constructor.
  - cbn. repeat apply conj; auto; lia.
  - cbn. lia.
Qed.
Example ex_iter :
  iter_segments w_slices w_elems = Some [mk_seg 0 4 0 3 0 3; mk_seg 4 5 3 4 0 1; mk_seg 5 6 4 5 0 1].
Proof. vm_compute. reflexivity. Qed.
(** whitespace straddling a border is split: [a :x] with [x = " b"] renders [a  b] *)
Example ex_split :
  iter_segments [mk_ts SLit 0 2 0 2; mk_ts STempl 2 4 2 4] [mk_el 0 1 false; mk_el 1 3 true; mk_el 3 4 false]
  = Some [mk_seg 0 1 0 1 0 1; mk_seg 1 2 1 2 0 1; mk_seg 2 4 2 3 1 2; mk_seg 2 4 3 4 0 1].
Proof. vm_compute. reflexivity. Qed.

(** [is_source_slice_literal] on the raw slices [process] makes: the model instance *)
Example ex_literal :
  is_source_slice_literal [mk_rs [97;98] SLit 0; mk_rs [58;120] STempl 2; mk_rs [32;99] SLit 4] 0 2 = true /\
  is_source_slice_literal [mk_rs [97;98] SLit 0; mk_rs [58;120] STempl 2; mk_rs [32;99] SLit 4] 1 3 = false /\
  raw_tiling ex_src [mk_rs [97;98] SLit 0; mk_rs [58;120] STempl 2; mk_rs [32;99] SLit 4] 0.
Proof. split; [reflexivity|]. split; [reflexivity|]. cbn. repeat apply conj; auto; lia. Qed.
