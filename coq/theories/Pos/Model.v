(** C08 — model of the mechanism that turns a position marker into the (line, column,
    source range) of a reported violation.

    Rust code mirrored (crates/lib-core/src):
    - templaters/base.rs  [iter_indices_of_newlines], [TemplatedFileInner::get_line_pos_of_char_pos]
    - parser/markers.rs   [PositionMarker::source_position] / [line_no] / [line_pos] /
                          [templated_position] / [from_child_markers] (ranges only)
    - errors.rs           [SQLBaseError::set_position_marker], [From<SQLParseError> for SQLBaseError]

    Executable definitions only.  Text is [list N] (bytes), offsets / line / column are [N]. *)
From Sq Require Import Base.Bytes.

(** * The newline table ([iter_indices_of_newlines]: [raw_str.match_indices('\n')]). *)
Fixpoint newlines_from (off : N) (s : str) : list N :=
  match s with
  | [] => []
  | b :: s' => if b =? 10 then off :: newlines_from (off + 1) s' else newlines_from (off + 1) s'
  end.
Definition newlines (s : str) : list N := newlines_from 0 s.

(** * [slice::binary_search], by its documented contract on a strictly increasing slice:
    [Ok i] with [v[i] = x] if [x] occurs, otherwise [Err i] where [i] is the insertion
    point; in both cases [i] is the number of elements [< x].  (Trusted: the standard
    library implements its documentation; the newline table is strictly increasing,
    lemma [newlines_sorted].) *)
Inductive bsearch_result := BsOk (i : N) | BsErr (i : N).

Fixpoint count_lt (v : list N) (x : N) : N :=
  match v with
  | [] => 0
  | y :: v' => (if y <? x then 1 else 0) + count_lt v' x
  end.

Definition binary_search (v : list N) (x : N) : bsearch_result :=
  if existsb (N.eqb x) v then BsOk (count_lt v x) else BsErr (count_lt v x).

(** Indexing [v[i]] (panics when out of range) and checked subtraction (debug builds panic
    on underflow): partial in the model. *)
Definition index (v : list N) (i : N) : option N := nth_error v (N.to_nat i).
Definition sub_checked (a b : N) : option N := if b <=? a then Some (a - b) else None.

(** * [get_line_pos_of_char_pos] on an explicit newline table.  [None] = panic. *)
Definition get_line_pos_opt (ref_str : list N) (char_pos : N) : option (N * N) :=
  match binary_search ref_str char_pos with
  | BsOk nl_idx | BsErr nl_idx =>
      if 0 <? nl_idx then
        match index ref_str (nl_idx - 1) with
        | Some prev =>
            match sub_checked char_pos prev with
            | Some d => Some (nl_idx + 1, d)
            | None => None
            end
        | None => None
        end
      else Some (1, char_pos + 1)
  end.

(** Total reading (the panics are proved impossible on a newline table: [get_line_pos_total]). *)
Definition get_line_pos (ref_str : list N) (char_pos : N) : N * N :=
  match get_line_pos_opt ref_str char_pos with Some r => r | None => (0, 0) end.

(** * Templated file: the two texts; the newline tables are computed by the constructor
    ([TemplatedFileInner::new]: [iter_indices_of_newlines(&source_str)],
    [iter_indices_of_newlines(&templated_str)]). *)
Record tfile := { tf_source : str; tf_templated : str }.
Definition source_newlines (tf : tfile) : list N := newlines (tf_source tf).
Definition templated_newlines (tf : tfile) : list N := newlines (tf_templated tf).

Definition get_line_pos_of_char_pos (tf : tfile) (char_pos : N) (source : bool) : N * N :=
  get_line_pos (if source then source_newlines tf else templated_newlines tf) char_pos.

(** * Position markers (the two ranges; the file is passed separately). *)
Definition range := (N * N)%type.
Record marker := { m_src : range; m_tpl : range }.

(** Repaired code (fix 9a5420e): the *source* offset against the source newline table. *)
Definition source_position (tf : tfile) (m : marker) : N * N :=
  get_line_pos_of_char_pos tf (fst (m_src m)) true.
(** Before the repair: the *templated* offset against the source newline table. *)
Definition source_position_legacy (tf : tfile) (m : marker) : N * N :=
  get_line_pos_of_char_pos tf (fst (m_tpl m)) true.
Definition templated_position (tf : tfile) (m : marker) : N * N :=
  get_line_pos_of_char_pos tf (fst (m_tpl m)) false.
Definition line_no (tf : tfile) (m : marker) : N := fst (source_position tf m).
Definition line_pos (tf : tfile) (m : marker) : N := snd (source_position tf m).

(** * Violations: the three fields of [SQLBaseError] this property is about. *)
Record viol := { v_line : N; v_col : N; v_src : range }.
Definition viol_default : viol := {| v_line := 0; v_col := 0; v_src := (0, 0) |}.

(** [SQLBaseError::set_position_marker] (used by [SQLLintError::new] on
    [SQLBaseError::default()]): overwrites exactly these three fields. *)
Definition set_position_marker_with (sp : tfile -> marker -> N * N) (tf : tfile) (m : marker) (v : viol) : viol :=
  let '(line_no, line_pos) := sp tf m in
  {| v_line := line_no; v_col := line_pos; v_src := m_src m |}.
Definition set_position_marker (tf : tfile) (m : marker) : viol :=
  set_position_marker_with source_position tf m viol_default.
Definition set_position_marker_legacy (tf : tfile) (m : marker) : viol :=
  set_position_marker_with source_position_legacy tf m viol_default.

(** [From<SQLParseError> for SQLBaseError].  Repaired: when the error has a segment with a
    marker, the marker is copied like for lint errors; without one everything stays default.
    Legacy: line and column were copied but [source_slice] stayed [0..0]. *)
Definition of_parse_error (tf : tfile) (om : option marker) : viol :=
  match om with
  | Some m => set_position_marker tf m
  | None => viol_default
  end.
Definition of_parse_error_legacy (tf : tfile) (om : option marker) : viol :=
  match om with
  | Some m => let '(l, c) := source_position tf m in {| v_line := l; v_col := c; v_src := (0, 0) |}
  | None => viol_default
  end.

(** * [PositionMarker::from_child_markers] (ranges): min of starts / max of ends, folded
    from [usize::MAX] / [usize::MIN]. *)
Definition usize_max : N := 18446744073709551615.
Definition from_child_markers (ms : list marker) : marker :=
  {| m_src := (fold_left (fun a m => N.min a (fst (m_src m))) ms usize_max,
               fold_left (fun a m => N.max a (snd (m_src m))) ms 0);
     m_tpl := (fold_left (fun a m => N.min a (fst (m_tpl m))) ms usize_max,
               fold_left (fun a m => N.max a (snd (m_tpl m))) ms 0) |}.

(** * Specification functions (independent of [newlines]): plain left-to-right scans. *)
Fixpoint count_nl (s : str) : N :=
  match s with
  | [] => 0
  | b :: s' => (if b =? 10 then 1 else 0) + count_nl s'
  end.

(** [sol_from off cur s p]: [s] starts at offset [off]; [cur] is the start of the line as
    known so far; result = offset just after the last newline strictly before [p]. *)
Fixpoint sol_from (off cur : N) (s : str) (p : N) : N :=
  match s with
  | [] => cur
  | b :: s' => if off <? p then sol_from (off + 1) (if b =? 10 then off + 1 else cur) s' p else cur
  end.
Definition start_of_line (s : str) (p : N) : N := sol_from 0 0 s p.

Definition prefix (s : str) (p : N) : str := firstn (N.to_nat p) s.
Definition len (s : str) : N := N.of_nat (length s).

(** 1-based line and column (in bytes) of offset [p] of text [s]. *)
Definition linecol (s : str) (p : N) : N * N :=
  (1 + count_nl (prefix s p), p - start_of_line s p + 1).
