(** C08 — proofs about [Pos.Model]. *)
From Sq Require Import Base.Bytes Pos.Model.
From Coq Require Import Sorted.

Arguments N.add : simpl never.
Arguments N.sub : simpl never.
Arguments N.ltb : simpl never.
Arguments N.leb : simpl never.
Arguments N.eqb : simpl never.
Arguments N.to_nat : simpl never.
Arguments N.of_nat : simpl never.

(** * The newline table *)

Lemma newlines_from_ge : forall s off x, In x (newlines_from off s) -> off <= x.
Proof.
  induction s as [|b s IH]; intros off x H; cbn in H; [contradiction|].
  destruct (b =? 10).
  - destruct H as [<-|H]; [lia|]. apply IH in H. lia.
  - apply IH in H. lia.
Qed.

(** the table is exactly the set of offsets holding byte 10 *)
Lemma newlines_from_In : forall s off x,
  In x (newlines_from off s) <-> (off <= x /\ nth_error s (N.to_nat (x - off)) = Some 10).
Proof.
  induction s as [|b s IH]; intros off x; cbn.
  - split; [contradiction|]. intros [_ H]. destruct (N.to_nat (x - off)); discriminate.
  - assert (Hstep : forall y, off + 1 <= y -> N.to_nat (y - off) = S (N.to_nat (y - (off + 1)))) by (intros; lia).
    destruct (N.eqb_spec b 10) as [->|Hb]; cbn.
    + split.
      * intros [<-|H]. { split; [lia|]. replace (off - off) with 0 by lia. reflexivity. }
        apply IH in H. destruct H as [Hle H]. split; [lia|]. rewrite Hstep by lia. exact H.
      * intros [Hle H]. destruct (N.eq_dec off x) as [->|Hne]; [now left|]. right.
        apply IH. split; [lia|]. rewrite Hstep in H by lia. exact H.
    + split.
      * intros H. apply IH in H. destruct H as [Hle H]. split; [lia|]. rewrite Hstep by lia. exact H.
      * intros [Hle H]. destruct (N.eq_dec off x) as [->|Hne].
        { replace (x - x) with 0 in H by lia. change (N.to_nat 0) with 0%nat in H. cbn in H. congruence. }
        apply IH. split; [lia|]. rewrite Hstep in H by lia. exact H.
Qed.

Lemma newlines_In : forall s x, In x (newlines s) <-> nth_error s (N.to_nat x) = Some 10.
Proof.
  intros. unfold newlines. rewrite newlines_from_In. replace (x - 0) with x by lia.
  split; [tauto|]. intros; split; [lia|assumption].
Qed.

Lemma newlines_from_sorted : forall s off, StronglySorted N.lt (newlines_from off s).
Proof.
  induction s as [|b s IH]; intros off; cbn; [constructor|].
  destruct (b =? 10); [|apply IH].
  constructor; [apply IH|]. apply Forall_forall. intros x H. apply newlines_from_ge in H. lia.
Qed.

(** the vector handed to [binary_search] is strictly increasing, as its contract requires *)
Lemma newlines_sorted : forall s, StronglySorted N.lt (newlines s).
Proof. intros; apply newlines_from_sorted. Qed.

(** * The partition point *)

Lemma count_lt_all_ge : forall v p, (forall x, In x v -> p <= x) -> count_lt v p = 0.
Proof.
  induction v as [|y v IH]; intros p H; cbn; [reflexivity|].
  rewrite IH by (intros; apply H; now right).
  assert (p <= y) by (apply H; now left).
  destruct (N.ltb_spec y p); lia.
Qed.

Lemma count_lt_newlines_from : forall s off p,
  count_lt (newlines_from off s) p = count_nl (firstn (N.to_nat (p - off)) s).
Proof.
  induction s as [|b s IH]; intros off p; cbn.
  - now rewrite firstn_nil.
  - destruct (N.ltb_spec off p) as [Hlt|Hge].
    + replace (N.to_nat (p - off)) with (S (N.to_nat (p - (off + 1)))) by lia. cbn.
      destruct (b =? 10); cbn; rewrite IH.
      * destruct (N.ltb_spec off p); [reflexivity|lia].
      * reflexivity.
    + replace (N.to_nat (p - off)) with 0%nat by lia. cbn.
      destruct (b =? 10); cbn.
      * rewrite count_lt_all_ge by (intros x Hx; apply newlines_from_ge in Hx; lia).
        destruct (N.ltb_spec off p); lia.
      * apply count_lt_all_ge. intros x Hx; apply newlines_from_ge in Hx; lia.
Qed.

Lemma count_lt_newlines : forall s p, count_lt (newlines s) p = count_nl (prefix s p).
Proof. intros. unfold newlines, prefix. rewrite count_lt_newlines_from. now replace (p - 0) with p by lia. Qed.

(** * The element before the partition point is the last newline strictly before [p] *)

Lemma index_cons_succ : forall x v i, 0 < i -> index (x :: v) i = index v (i - 1).
Proof. intros. unfold index. replace (N.to_nat i) with (S (N.to_nat (i - 1))) by lia. reflexivity. Qed.

Lemma last_before : forall s off cur p,
  let c := count_lt (newlines_from off s) p in
  (c = 0 -> sol_from off cur s p = cur) /\
  (0 < c -> exists prev, index (newlines_from off s) (c - 1) = Some prev /\ prev < p /\
                         sol_from off cur s p = prev + 1).
Proof.
  induction s as [|b s IH]; intros off cur p; cbn.
  - split; [reflexivity|lia].
  - destruct (N.ltb_spec off p) as [Hlt|Hge].
    + destruct (b =? 10); cbn.
      * destruct (N.ltb_spec off p); [|lia].
        specialize (IH (off + 1) (off + 1) p). cbn in IH. destruct IH as [IH0 IH1].
        set (c' := count_lt (newlines_from (off + 1) s) p) in *.
        split; [lia|]. intros _.
        destruct (N.eq_dec c' 0) as [E|E].
        -- exists off. rewrite E. replace (1 + 0 - 1) with 0 by lia. cbn.
           split; [reflexivity|]. split; [lia|]. now apply IH0.
        -- destruct IH1 as [prev [Hi [Hp Hs]]]; [lia|].
           exists prev. rewrite index_cons_succ by lia.
           replace (1 + c' - 1 - 1) with (c' - 1) by lia. auto.
      * apply IH.
    + assert (Hz : count_lt (newlines_from (off + 1) s) p = 0)
        by (apply count_lt_all_ge; intros x Hx; apply newlines_from_ge in Hx; lia).
      destruct (b =? 10); cbn; rewrite Hz.
      * destruct (N.ltb_spec off p); [lia|]. split; [reflexivity|lia].
      * split; [reflexivity|lia].
Qed.

(** * [get_line_pos] = the specification, for every text and every offset; no panic *)

Theorem get_line_pos_opt_spec : forall s p,
  get_line_pos_opt (newlines s) p = Some (linecol s p).
Proof.
  intros s p. unfold get_line_pos_opt, linecol, binary_search.
  assert (E : forall r, match (if existsb (N.eqb p) (newlines s) then BsOk (count_lt (newlines s) p)
                               else BsErr (count_lt (newlines s) p)) with
                        | BsOk i | BsErr i => r i end = r (count_lt (newlines s) p) :> option (N * N))
    by (intros; destruct (existsb _ _); reflexivity).
  rewrite (E (fun nl_idx => if 0 <? nl_idx then _ else _)). clear E.
  pose proof (last_before s 0 0 p) as H. cbn in H. fold (newlines s) in H. fold (start_of_line s p) in H.
  destruct H as [H0 H1]. rewrite <- count_lt_newlines.
  destruct (N.ltb_spec 0 (count_lt (newlines s) p)) as [Hc|Hc].
  - destruct (H1 Hc) as [prev [Hi [Hp Hs]]]. rewrite Hi. unfold sub_checked.
    destruct (N.leb_spec prev p); [|lia]. rewrite Hs. f_equal. f_equal; lia.
  - rewrite H0 by lia. f_equal. f_equal; lia.
Qed.

Corollary get_line_pos_total : forall s p, get_line_pos_opt (newlines s) p = Some (get_line_pos (newlines s) p).
Proof. intros. unfold get_line_pos. now rewrite get_line_pos_opt_spec. Qed.

Theorem get_line_pos_spec : forall s p, get_line_pos (newlines s) p = linecol s p.
Proof. intros. unfold get_line_pos. now rewrite get_line_pos_opt_spec. Qed.

Example get_line_pos_spec_ex :
  (* "ab\n\ncd\n" *)
  let s := [97; 98; 10; 10; 99; 100; 10] in
  map (get_line_pos (newlines s)) [0; 1; 2; 3; 4; 5; 6; 7; 9]
  = [(1, 1); (1, 2); (1, 3); (2, 1); (3, 1); (3, 2); (3, 3); (4, 1); (4, 3)]
  /\ map (linecol s) [0; 1; 2; 3; 4; 5; 6; 7; 9]
  = [(1, 1); (1, 2); (1, 3); (2, 1); (3, 1); (3, 2); (3, 3); (4, 1); (4, 3)].
Proof. split; vm_compute; reflexivity. Qed.

(** * Well-formedness of the answer *)

Lemma sol_from_bounds : forall s off cur p, cur <= off -> cur <= p ->
  cur <= sol_from off cur s p <= p.
Proof.
  induction s as [|b s IH]; intros off cur p H1 H2; cbn; [lia|].
  destruct (N.ltb_spec off p); [|lia].
  destruct (b =? 10).
  - specialize (IH (off + 1) (off + 1) p). lia.
  - specialize (IH (off + 1) cur p). lia.
Qed.

Lemma start_of_line_le : forall s p, start_of_line s p <= p.
Proof. intros. unfold start_of_line. pose proof (sol_from_bounds s 0 0 p). lia. Qed.

Theorem linecol_ge_1 : forall s p, 1 <= fst (linecol s p) /\ 1 <= snd (linecol s p).
Proof. intros. unfold linecol; cbn. lia. Qed.

(** the text between the line start and [p] holds no newline: the column counts bytes of one line *)
Lemma sol_from_no_nl : forall s off cur p i,
  cur <= off -> sol_from off cur s p <= i -> i < p -> off <= i ->
  nth_error s (N.to_nat (i - off)) <> Some 10.
Proof.
  induction s as [|b s IH]; intros off cur p i Hc Hs Hi Ho; cbn in *.
  - destruct (N.to_nat (i - off)); discriminate.
  - destruct (N.ltb_spec off p); [|lia].
    destruct (N.eq_dec i off) as [->|Hne].
    + replace (off - off) with 0 by lia. change (N.to_nat 0) with 0%nat. cbn. intros [= ->].
      change (10 =? 10) with true in Hs. cbn in Hs.
      pose proof (sol_from_bounds s (off + 1) (off + 1) p). lia.
    + replace (N.to_nat (i - off)) with (S (N.to_nat (i - (off + 1)))) by lia. cbn.
      destruct (b =? 10).
      * apply (IH (off + 1) (off + 1) p i); lia.
      * apply (IH (off + 1) cur p i); lia.
Qed.

Theorem line_segment_has_no_newline : forall s p i,
  start_of_line s p <= i -> i < p -> nth_error s (N.to_nat i) <> Some 10.
Proof.
  intros s p i H1 H2. pose proof (sol_from_no_nl s 0 0 p i) as H.
  replace (i - 0) with i in H by lia. apply H; try lia. exact H1.
Qed.

(** the line start is 0 or just after a newline *)
Lemma sol_from_after_nl : forall s off cur p, cur <= off ->
  sol_from off cur s p = cur \/
  (off < sol_from off cur s p /\ nth_error s (N.to_nat (sol_from off cur s p - 1 - off)) = Some 10).
Proof.
  induction s as [|b s IH]; intros off cur p Hc; cbn; [now left|].
  destruct (N.ltb_spec off p); [|now left].
  destruct (N.eqb_spec b 10) as [->|Hb].
  - right. destruct (IH (off + 1) (off + 1) p) as [E|[Hl Hn]]; [lia| |].
    + rewrite E. split; [lia|]. replace (off + 1 - 1 - off) with 0 by lia. reflexivity.
    + split; [lia|].
      replace (N.to_nat (sol_from (off + 1) (off + 1) s p - 1 - off))
        with (S (N.to_nat (sol_from (off + 1) (off + 1) s p - 1 - (off + 1)))) by lia.
      exact Hn.
  - destruct (IH (off + 1) cur p) as [E|[Hl Hn]]; [lia|now left|]. right. split; [lia|].
    replace (N.to_nat (sol_from (off + 1) cur s p - 1 - off))
      with (S (N.to_nat (sol_from (off + 1) cur s p - 1 - (off + 1)))) by lia.
    exact Hn.
Qed.

Theorem start_of_line_after_newline : forall s p,
  start_of_line s p = 0 \/ nth_error s (N.to_nat (start_of_line s p - 1)) = Some 10.
Proof.
  intros. destruct (sol_from_after_nl s 0 0 p) as [E|[_ H]]; [lia|now left|right].
  unfold start_of_line. now replace (sol_from 0 0 s p - 1 - 0) with (sol_from 0 0 s p - 1) in H by lia.
Qed.

(** * (line, column) determines the offset *)

Definition cnt (off : N) (s : str) (p : N) : N := count_nl (firstn (N.to_nat (p - off)) s).

Lemma cnt_cons_lt : forall b s off p, off < p ->
  cnt off (b :: s) p = (if b =? 10 then 1 else 0) + cnt (off + 1) s p.
Proof. intros. unfold cnt. replace (N.to_nat (p - off)) with (S (N.to_nat (p - (off + 1)))) by lia. reflexivity. Qed.
Lemma cnt_cons_ge : forall b s off p, p <= off -> cnt off (b :: s) p = 0.
Proof. intros. unfold cnt. replace (N.to_nat (p - off)) with 0%nat by lia. reflexivity. Qed.

Lemma sol_from_cnt0 : forall s off cur p, cnt off s p = 0 -> sol_from off cur s p = cur.
Proof.
  induction s as [|b s IH]; intros off cur p H; cbn; [reflexivity|].
  destruct (N.ltb_spec off p); [|reflexivity].
  rewrite cnt_cons_lt in H by lia. destruct (b =? 10); [lia|]. apply IH. lia.
Qed.

Lemma cnt_mono : forall s off p q, p <= q -> cnt off s p <= cnt off s q.
Proof.
  induction s as [|b s IH]; intros off p q H.
  - unfold cnt. rewrite !firstn_nil. lia.
  - destruct (N.ltb_spec off p).
    + rewrite !cnt_cons_lt by lia. specialize (IH (off + 1) p q H). lia.
    + rewrite (cnt_cons_ge b s off p) by lia. lia.
Qed.

Lemma sol_from_same_line : forall s off cur p q, p <= q ->
  cnt off s p = cnt off s q -> sol_from off cur s p = sol_from off cur s q.
Proof.
  induction s as [|b s IH]; intros off cur p q Hpq H; cbn; [reflexivity|].
  destruct (N.ltb_spec off p) as [Hp|Hp].
  - destruct (N.ltb_spec off q); [|lia].
    rewrite !cnt_cons_lt in H by lia. apply IH; lia.
  - destruct (N.ltb_spec off q) as [Hq|Hq]; [|reflexivity].
    rewrite (cnt_cons_ge b s off p) in H by lia. rewrite cnt_cons_lt in H by lia.
    destruct (b =? 10); [lia|]. symmetry. apply sol_from_cnt0. lia.
Qed.

Theorem linecol_inj : forall s p q, linecol s p = linecol s q -> p = q.
Proof.
  assert (W : forall s p q, p <= q -> linecol s p = linecol s q -> p = q).
  { intros s p q Hpq H. unfold linecol in H. injection H as Hl Hc.
    assert (E : start_of_line s p = start_of_line s q).
    { unfold start_of_line. apply sol_from_same_line; [assumption|].
      unfold cnt, prefix in *. replace (p - 0) with p by lia. replace (q - 0) with q by lia. lia. }
    pose proof (start_of_line_le s p). pose proof (start_of_line_le s q). lia. }
  intros s p q H. destruct (N.le_ge_cases p q); [now apply (W s)|]. symmetry. apply (W s); [lia|now symmetry].
Qed.

Example linecol_inj_ex :
  let s := [97; 10; 98; 10] in linecol s 1 = (1, 2) /\ linecol s 2 = (2, 1) /\ linecol s 4 = (3, 1) /\ linecol s 6 = (3, 3).
Proof. vm_compute. auto. Qed.

(** * Violations *)

Theorem source_position_spec : forall tf m,
  source_position tf m = linecol (tf_source tf) (fst (m_src m)).
Proof. intros. unfold source_position, get_line_pos_of_char_pos, source_newlines. apply get_line_pos_spec. Qed.

Theorem templated_position_spec : forall tf m,
  templated_position tf m = linecol (tf_templated tf) (fst (m_tpl m)).
Proof. intros. unfold templated_position, get_line_pos_of_char_pos, templated_newlines. apply get_line_pos_spec. Qed.

Theorem set_position_marker_spec : forall tf m,
  let v := set_position_marker tf m in
  (v_line v, v_col v) = linecol (tf_source tf) (fst (v_src v)) /\ v_src v = m_src m /\
  1 <= v_line v /\ 1 <= v_col v.
Proof.
  intros tf m. unfold set_position_marker, set_position_marker_with.
  rewrite source_position_spec. cbn. split; [reflexivity|]. split; [reflexivity|]. lia.
Qed.

Example set_position_marker_ex :
  (* "SELECT :x,\n   b  from t\n" templated with x = 1; the token "   " of line 2:
     source 11..14, templated 10..13 *)
  let src := [83;69;76;69;67;84;32;58;120;44;10;32;32;32;98;32;32;102;114;111;109;32;116;10] in
  let tpl := [83;69;76;69;67;84;32;49;44;10;32;32;32;98;32;32;102;114;111;109;32;116;10] in
  set_position_marker {| tf_source := src; tf_templated := tpl |} {| m_src := (11, 14); m_tpl := (10, 13) |}
  = {| v_line := 2; v_col := 1; v_src := (11, 14) |}.
Proof. vm_compute. reflexivity. Qed.

(** parse errors (repaired conversion): same statement whenever the error carries a marker *)
Theorem of_parse_error_spec : forall tf m,
  let v := of_parse_error tf (Some m) in
  (v_line v, v_col v) = linecol (tf_source tf) (fst (v_src v)) /\ v_src v = m_src m.
Proof. intros. cbn. pose proof (set_position_marker_spec tf m) as H. cbn in H. tauto. Qed.

(** * The code before the repairs *)

Theorem source_position_legacy_refuted :
  exists tf m, fst (m_src m) <= len (tf_source tf) /\
    let v := set_position_marker_legacy tf m in
    (v_line v, v_col v) <> linecol (tf_source tf) (fst (v_src v)).
Proof.
  exists {| tf_source := [83;69;76;69;67;84;32;58;120;44;10;32;32;32;98;32;32;102;114;111;109;32;116;10];
            tf_templated := [83;69;76;69;67;84;32;49;44;10;32;32;32;98;32;32;102;114;111;109;32;116;10] |},
         {| m_src := (11, 14); m_tpl := (10, 13) |}.
  split; vm_compute; [discriminate|]. intros H. discriminate H.
Qed.

Theorem of_parse_error_legacy_refuted :
  exists tf m, snd (m_src m) <= len (tf_source tf) /\
    let v := of_parse_error_legacy tf (Some m) in
    (v_line v, v_col v) <> linecol (tf_source tf) (fst (v_src v)).
Proof.
  (* "SELECT 1\n+\n": the unparsable "+" at 9..10 is line 2 column 1 but the range stayed 0..0 *)
  exists {| tf_source := [83;69;76;69;67;84;32;49;10;43;10]; tf_templated := [83;69;76;69;67;84;32;49;10;43;10] |},
         {| m_src := (9, 10); m_tpl := (9, 10) |}.
  split; vm_compute; [discriminate|]. intros H. discriminate H.
Qed.

(** * Parent markers keep ranges inside the file *)

Lemma fold_min_le : forall (f : marker -> N) ms a, fold_left (fun a m => N.min a (f m)) ms a <= a.
Proof. induction ms as [|m ms IH]; intros a; cbn; [lia|]. specialize (IH (N.min a (f m))). lia. Qed.
Lemma fold_min_le_in : forall (f : marker -> N) ms a m, In m ms -> fold_left (fun a m => N.min a (f m)) ms a <= f m.
Proof.
  induction ms as [|m0 ms IH]; intros a m H; cbn; [contradiction|].
  destruct H as [->|H]; [|now apply IH].
  pose proof (fold_min_le f ms (N.min a (f m))). lia.
Qed.
Lemma fold_min_attained : forall (f : marker -> N) ms a,
  fold_left (fun a m => N.min a (f m)) ms a = a \/ exists m, In m ms /\ fold_left (fun a m => N.min a (f m)) ms a = f m.
Proof.
  induction ms as [|m0 ms IH]; intros a; cbn; [now left|].
  destruct (IH (N.min a (f m0))) as [E|[m [Hin E]]].
  - rewrite E. destruct (N.min_spec a (f m0)) as [[_ ->]|[_ ->]]; [now left|]. right. exists m0. auto.
  - right. exists m. auto.
Qed.
Lemma fold_max_ge : forall (f : marker -> N) ms a, a <= fold_left (fun a m => N.max a (f m)) ms a.
Proof. induction ms as [|m ms IH]; intros a; cbn; [lia|]. specialize (IH (N.max a (f m))). lia. Qed.
Lemma fold_max_ge_in : forall (f : marker -> N) ms a m, In m ms -> f m <= fold_left (fun a m => N.max a (f m)) ms a.
Proof.
  induction ms as [|m0 ms IH]; intros a m H; cbn; [contradiction|].
  destruct H as [->|H]; [|now apply IH].
  pose proof (fold_max_ge f ms (N.max a (f m))). lia.
Qed.
Lemma fold_max_bound : forall (f : marker -> N) ms a L, a <= L -> (forall m, In m ms -> f m <= L) ->
  fold_left (fun a m => N.max a (f m)) ms a <= L.
Proof.
  induction ms as [|m0 ms IH]; intros a L Ha H; cbn; [assumption|].
  apply IH; [|intros; apply H; now right]. specialize (H m0 (or_introl eq_refl)). lia.
Qed.

Definition range_ok (L : N) (r : range) : Prop := fst r <= snd r /\ snd r <= L.

(** If every child's source range is a range of the file, so is the parent's; the parent's
    range covers every child, and its start is the start of one of the children (given
    offsets fit in [usize]). *)
Theorem from_child_markers_range : forall ms L, ms <> [] ->
  (forall m, In m ms -> range_ok L (m_src m)) ->
  range_ok L (m_src (from_child_markers ms)) /\
  (forall m, In m ms -> fst (m_src (from_child_markers ms)) <= fst (m_src m) /\
                        snd (m_src m) <= snd (m_src (from_child_markers ms))).
Proof.
  intros ms L Hne H. unfold range_ok, from_child_markers; cbn.
  destruct ms as [|m0 ms]; [congruence|].
  assert (H0 : In m0 (m0 :: ms)) by now left.
  pose proof (fold_min_le_in (fun m => fst (m_src m)) (m0 :: ms) usize_max m0 H0) as A.
  pose proof (fold_max_ge_in (fun m => snd (m_src m)) (m0 :: ms) 0 m0 H0) as B.
  pose proof (H m0 H0) as [C D]. cbn in A, B.
  split.
  - split; [cbn; lia|]. apply fold_max_bound; [lia|]. intros m Hm. apply H in Hm. apply Hm.
  - intros m Hm. split; [now apply (fold_min_le_in (fun m => fst (m_src m))) | now apply (fold_max_ge_in (fun m => snd (m_src m)))].
Qed.

Theorem from_child_markers_start : forall ms, ms <> [] ->
  (forall m, In m ms -> fst (m_src m) <= usize_max) ->
  exists m, In m ms /\ fst (m_src (from_child_markers ms)) = fst (m_src m).
Proof.
  intros ms Hne H. unfold from_child_markers; cbn.
  destruct (fold_min_attained (fun m => fst (m_src m)) ms usize_max) as [E|X]; [|exact X].
  destruct ms as [|m0 ms]; [congruence|]. exists m0. split; [now left|].
  pose proof (fold_min_le_in (fun m => fst (m_src m)) (m0 :: ms) usize_max m0 (or_introl eq_refl)) as A.
  specialize (H m0 (or_introl eq_refl)). cbn in *. lia.
Qed.

Example from_child_markers_ex :
  from_child_markers [ {| m_src := (11, 14); m_tpl := (10, 13) |}; {| m_src := (7, 9); m_tpl := (7, 8) |};
                       {| m_src := (14, 15); m_tpl := (13, 14) |} ]
  = {| m_src := (7, 15); m_tpl := (7, 14) |}
  /\ range_ok 24 (7, 15).
Proof. split; [vm_compute; reflexivity|unfold range_ok; cbn; lia]. Qed.

(** * Combined statements pinned in [Props/C08.v] *)
Theorem line_pos_total_and_spec : forall s p,
  get_line_pos_opt (newlines s) p = Some (get_line_pos (newlines s) p) /\
  get_line_pos (newlines s) p = (1 + count_nl (prefix s p), p - start_of_line s p + 1).
Proof. intros. split; [apply get_line_pos_total|apply get_line_pos_spec]. Qed.

Theorem line_start_facts : forall s p,
  start_of_line s p <= p /\
  (start_of_line s p = 0 \/ nth_error s (N.to_nat (start_of_line s p - 1)) = Some 10) /\
  (forall i, start_of_line s p <= i -> i < p -> nth_error s (N.to_nat i) <> Some 10) /\
  1 <= fst (linecol s p) /\ 1 <= snd (linecol s p).
Proof.
  intros. split; [apply start_of_line_le|]. split; [apply start_of_line_after_newline|].
  split; [apply line_segment_has_no_newline|apply linecol_ge_1].
Qed.
