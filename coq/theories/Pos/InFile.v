(** Pos/InFile.v — C08, clause "the range lies within the file", given the C15 map:
    token markers made by [iter_segments] on what [process] renders lie inside the source, hence
    so do the markers of their parents, hence so does every violation built from them. *)
From Sq Require Import Base.Bytes.
From Sq Require Templ.Model Templ.IterProofs Templ.ProcProofs Templ.Proofs Pos.Model Pos.Proofs.
From Coq Require Import Lia.

Module T := Sq.Templ.Model.
Module TP := Sq.Templ.Proofs.
Module TI := Sq.Templ.IterProofs.
Module TC := Sq.Templ.ProcProofs.
Module P := Sq.Pos.Model.
Module PP := Sq.Pos.Proofs.

(** the position marker [iter_segments] gives a token *)
Definition marker_of (g : T.seg) : P.marker :=
  {| P.m_src := (T.g_s0 g, T.g_s1 g); P.m_tpl := (T.g_t0 g, T.g_t1 g) |}.

Lemma in_concat_map {A B} (f : A -> list B) l y :
  In y (concat (map f l)) -> exists x, In x l /\ In y (f x).
Proof.
  induction l as [|a l IH]; cbn [map concat]; intros H; [destruct H|].
  apply in_app_or in H. destruct H as [H|H].
  - exists a. split; [left; reflexivity|exact H].
  - destruct (IH H) as (x & Hx & Hy). exists x. split; [right; exact Hx|exact Hy].
Qed.

Lemma token_markers_in_file src vals caps r els toks :
  TC.caps_ok caps 0 (T.len src) -> T.process src vals caps = T.ROk r ->
  TI.echain els 0 -> TI.echain_end els 0 <= T.len (T.tf_tpl r) ->
  T.iter_segments (T.tf_sl r) els = Some toks ->
  forall g, In g toks -> PP.range_ok (P.len src) (P.m_src (marker_of g)).
Proof.
  intros Hc Hp He Hend Hit g Hg.
  destruct (TP.process_lex_spec src vals caps r els Hc Hp He Hend) as [Heq HF].
  rewrite Heq in Hit. inversion Hit; subst toks.
  apply in_concat_map in Hg. destruct Hg as (e & He_in & Hg).
  rewrite Forall_forall in HF. destruct (HF e He_in) as [_ Hr].
  rewrite Forall_forall in Hr. specialize (Hr g Hg).
  unfold PP.range_ok, marker_of. cbn. exact Hr.
Qed.

(** A violation raised on a token, or on any segment spanning a non-empty set of tokens of the
    file, carries a source range inside the file and the line/column of its start. *)
Theorem violation_in_file src vals caps r els toks :
  TC.caps_ok caps 0 (T.len src) -> T.process src vals caps = T.ROk r ->
  TI.echain els 0 -> TI.echain_end els 0 <= T.len (T.tf_tpl r) ->
  T.iter_segments (T.tf_sl r) els = Some toks ->
  let tf := {| P.tf_source := src; P.tf_templated := T.tf_tpl r |} in
  (forall g, In g toks ->
     let v := P.set_position_marker tf (marker_of g) in
     PP.range_ok (P.len src) (P.v_src v) /\ (P.v_line v, P.v_col v) = P.linecol src (fst (P.v_src v))) /\
  (forall ms, ms <> [] -> (forall m, In m ms -> exists g, In g toks /\ m = marker_of g) ->
     let v := P.set_position_marker tf (P.from_child_markers ms) in
     PP.range_ok (P.len src) (P.v_src v) /\ (P.v_line v, P.v_col v) = P.linecol src (fst (P.v_src v))).
Proof.
  intros Hc Hp He Hend Hit tf. split.
  - intros g Hg v.
    destruct (PP.set_position_marker_spec tf (marker_of g)) as (H1 & H2 & _).
    fold v in H1, H2. split; [|exact H1]. rewrite H2.
    eapply token_markers_in_file; eauto.
  - intros ms Hne Hms v.
    destruct (PP.set_position_marker_spec tf (P.from_child_markers ms)) as (H1 & H2 & _).
    fold v in H1, H2. split; [|exact H1]. rewrite H2.
    apply PP.from_child_markers_range; [exact Hne|].
    intros m Hm. destruct (Hms m Hm) as (g & Hg & ->).
    eapply token_markers_in_file; eauto.
Qed.

(** non-vacuity: the instance of Templ/Proofs.v ([ab:x c], x = 1) *)
Example violation_in_file_ex :
  exists toks, T.iter_segments (T.tf_sl (T.mk_tf [97;98;49;32;99] TP.w_slices [])) TP.w_elems = Some toks /\
               toks <> [] /\ TC.caps_ok TP.ex_caps 0 (T.len TP.ex_src).
Proof. eexists. split; [vm_compute; reflexivity|]. split; [discriminate|]. exact TP.ex_caps_ok. Qed.
