(** Cli/Model.v — C18: the decision logic of the command line front-ends over abstract violation records.

    [run_lint], [run_lint_stdin] (crates/cli/src/commands_lint.rs), [run_fix], [run_fix_stdin]
    (crates/cli/src/commands_fix.rs) and [dispatch_file_violations] / [has_fail] of the three formatters
    (crates/lib/src/cli/formatters.rs, json.rs, github_annotation_native_formatter.rs).
    What a formatter prints is abstracted to one report line (line, column, rule code) per violation.
    The violation lists themselves (the library's [LintedFile]) are inputs. Executable definitions only. *)
From Sq Require Import Base.Bytes.
From Coq Require Export ZArith.

Record viol := {
  v_line : N; v_col : N; v_rule : option str;     (* [None]: lexing / parsing / noqa-directive errors *)
  v_warning : bool; v_ignore : bool; v_fixable : bool }.

(** one printed report line *)
Definition rline := (N * N * option str)%type.
Definition rl (v : viol) : rline := (v_line v, v_col v, v_rule v).

Inductive format := Human | Github | Json.

(* ---------- the stable sorts of the formatters ([slice::sort_by]) *)
Fixpoint str_cmp (a b : str) : comparison :=
  match a, b with
  | [], [] => Eq
  | [], _ :: _ => Lt
  | _ :: _, [] => Gt
  | x :: a', y :: b' => match x ?= y with Eq => str_cmp a' b' | c => c end
  end.

(** [SQLBaseError::rule_code]: "????" when there is no rule *)
Definition rule_code (v : viol) : str := match v_rule v with Some c => c | None => [63; 63; 63; 63] end.

Definition then_with (c : comparison) (d : comparison) : comparison := match c with Eq => d | _ => c end.
Definition cmp_lp (a b : viol) : comparison := then_with (v_line a ?= v_line b) (v_col a ?= v_col b).
Definition cmp_lpc (a b : viol) : comparison := then_with (cmp_lp a b) (str_cmp (rule_code a) (rule_code b)).

(** stable: [x] precedes every element of [l] in the original order, so it stays before its equals *)
Fixpoint insert_by (cmp : viol -> viol -> comparison) (x : viol) (l : list viol) : list viol :=
  match l with
  | [] => [x]
  | h :: l' => match cmp x h with Gt => h :: insert_by cmp x l' | _ => x :: l end
  end.
Definition sort_by (cmp : viol -> viol -> comparison) (l : list viol) : list viol :=
  fold_right (insert_by cmp) [] l.

(* ---------- dispatch_file_violations: (printed lines, does this file set has_fail) ; None = panic *)

Definition is_fail (v : viol) : bool := negb (v_ignore v) && negb (v_warning v).

(** OutputStreamFormatter (verbosity 0): the file header and the violations are printed when the file has
    a failing or warning violation; the header of a failing file sets [has_fail]. *)
Definition human_file (vs : list viol) : list rline * bool :=
  let fails := length (filter is_fail vs) in
  let warns := length (filter v_warning vs) in
  let show := negb (Nat.eqb (fails + warns) 0) in
  let has_fail := show && negb (Nat.eqb fails 0) in
  (if show then map rl (sort_by cmp_lp vs) else [], has_fail).

(** JsonFormatter: every violation becomes a diagnostic; [has_fail] = some diagnostic has severity Error. *)
Definition json_file (vs : list viol) : list rline * bool :=
  (map rl vs, existsb (fun v => negb (v_warning v)) vs).

(** GithubAnnotationNativeFormatter: one ::error line per violation. *)
Definition github_file (vs : list viol) : list rline * bool :=
  (map rl (sort_by cmp_lpc vs), existsb is_fail vs).

(** Before the repair the rule was [unwrap]ped: a violation without a rule aborted the process. *)
Definition has_no_rule (v : viol) : bool := match v_rule v with None => true | Some _ => false end.
Definition github_file_legacy (vs : list viol) : option (list rline * bool) :=
  if existsb has_no_rule vs then None else Some (github_file vs).

Definition file_out (legacy : bool) (fmt : format) (vs : list viol) : option (list rline * bool) :=
  match fmt with
  | Human => Some (human_file vs)
  | Json => Some (json_file vs)
  | Github => if legacy then github_file_legacy vs else Some (github_file vs)
  end.

(** all linted files, in order: the printed lines per file and the final [has_fail] *)
Fixpoint dispatch_all (legacy : bool) (fmt : format) (files : list (list viol)) : option (list (list rline) * bool) :=
  match files with
  | [] => Some ([], false)
  | vs :: files' =>
      match file_out legacy fmt vs, dispatch_all legacy fmt files' with
      | Some (r, f), Some (rs, fs) => Some (r :: rs, f || fs)
      | _, _ => None
      end
  end.

(* ---------- lint *)

(** [run_lint]: "if formatter.has_fail() { 1 } else { 0 }" *)
Definition run_lint_gen (legacy : bool) (fmt : format) (files : list (list viol)) : option (N * list (list rline)) :=
  match dispatch_all legacy fmt files with
  | None => None
  | Some (reps, fail) => Some (if fail then 1 else 0, reps)
  end.
Definition run_lint := run_lint_gen false.

(** [run_lint_stdin]: one linted string, same formatter, same exit rule. *)
Definition run_lint_stdin (fmt : format) (vs : list viol) : option (N * list rline) :=
  match file_out false fmt vs with
  | None => None
  | Some (rep, fail) => Some (if fail then 1 else 0, rep)
  end.

(* ---------- the formatter as one object shared by every file of a run *)

(** One formatter lives for the whole run: [lint_paths] hands it the linted files one after the other (in the
    order in which the worker pool finishes them) and [run_lint] reads [has_fail()] at the end. [has_fail] is a
    field that the dispatches mutate (human, GitHub) or a function of the diagnostics stored so far (JSON).
    The human formatter also carries the configured verbosity ([verbose] in the [sqruff] section; documented
    range 0-2): above 0 every file gets a header line, "PASS" for a file without failing violation; below 0
    [dispatch_file_violations] returns before doing anything. *)

(** the header line of a file in the human format: [Some true] = "PASS", [Some false] = "FAIL" *)
Definition header := option bool.

(** [format_file_violations] at verbosity [verb]: printed lines and header ([format_filename fname (fails == 0)]) *)
Definition human_file_v (verb : Z) (vs : list viol) : list rline * header :=
  if (verb <? 0)%Z then ([], None)
  else
    let fails := length (filter is_fail vs) in
    let warns := length (filter v_warning vs) in
    let show := negb (Nat.eqb (fails + warns) 0) in
    (if show then map rl (sort_by cmp_lp vs) else [],
     if (0 <? verb)%Z || show then Some (Nat.eqb fails 0) else None).

(** one dispatch: what is printed for the file and the value of [has_fail] afterwards, given its value before.
    Human: [format_filename] stores [true] when it formats a FAIL header and does not touch the field otherwise.
    GitHub: stores [true] for every violation that is neither ignored nor a warning.
    JSON: [has_fail()] looks for a diagnostic of severity Error in everything collected so far. *)
Definition step (verb : Z) (fmt : format) (st : bool) (vs : list viol) : (list rline * header) * bool :=
  match fmt with
  | Human => let '(r, h) := human_file_v verb vs in
             ((r, h), match h with Some false => true | _ => st end)
  | Github => ((map rl (sort_by cmp_lpc vs), None), if existsb is_fail vs then true else st)
  | Json => ((map rl vs, None), if existsb (fun v => negb (v_warning v)) vs then true else st)
  end.

(** the files in dispatch order, threading the state of the formatter *)
Fixpoint dispatch_seq (verb : Z) (fmt : format) (st : bool) (files : list (list viol))
  : list (list rline * header) * bool :=
  match files with
  | [] => ([], st)
  | vs :: files' =>
      let '(rh, st') := step verb fmt st vs in
      let '(rs, stf) := dispatch_seq verb fmt st' files' in
      (rh :: rs, stf)
  end.

(** [run_lint] with the formatter built by [linter(config, format, ..)] (verbosity from the configuration) *)
Definition run_lint_v (verb : Z) (fmt : format) (files : list (list viol)) : N * list (list rline * header) :=
  let '(rs, st) := dispatch_seq verb fmt false files in (if st then 1 else 0, rs).

Definition run_lint_stdin_v (verb : Z) (fmt : format) (vs : list viol) : N * (list rline * header) :=
  let '(rh, st) := step verb fmt false vs in (if st then 1 else 0, rh).

(* ---------- fix *)

(** a linted file in fix mode: an identifier, the violations found, (an identifier of) its fixed text *)
Record ffile := { f_id : N; f_viols : list viol; f_fixed : N }.

Definition has_unfixable (vs : list viol) : bool := existsb (fun v => negb (v_fixable v)) vs.

(** [run_fix]. [proceed]: --force, or the user answered yes. Result: exit code and the writes performed
    (file, text), in order. *)
Definition run_fix (fmt : format) (proceed : bool) (files : list ffile) : option (N * list (N * N)) :=
  match dispatch_all false fmt (map f_viols files) with
  | None => None
  | Some _ =>
      if forallb (fun f => is_empty (f_viols f)) files then Some (0, [])     (* nothing to fix *)
      else if negb proceed then Some (0, [])
      else
        let any_unfixable := existsb (fun f => has_unfixable (f_viols f)) files in
        Some (if any_unfixable then 1 else 0, map (fun f => (f_id f, f_fixed f)) files)
  end.

(** [run_fix_stdin]: prints the fixed text; exit 1 iff an unfixable violation was found. *)
Definition run_fix_stdin (fmt : format) (vs : list viol) (fixed : N) : option (N * N) :=
  match file_out false fmt vs with
  | None => None
  | Some _ => Some (if has_unfixable vs then 1 else 0, fixed)
  end.

(** [is_std_in_flag_input]: [true] marks an argument equal to "-". *)
Definition stdin_flag (args : list bool) : option bool :=
  match args with
  | [true] => Some true
  | _ => if existsb (fun b => b) args then None (* "Cannot mix stdin flag with other inputs", exit 1 *) else Some false
  end.

(* ---------- the two entry points of the library (crates/lib/src/core/linter/core.rs) *)
Section Entry.
  Variables src linted : Type.
  (** [process_raw_file_for_config]: [false] = the scan for in-file configuration aborts ([panic!] in
      [process_inline_config] on a line starting "-- sqlfluff": property C03) *)
  Variable scan_ok : src -> bool.
  (** [render_string] ; [parse_rendered] ; [lint_parsed] *)
  Variable pipeline : src -> linted.
  (** [lint_string] (stdin mode) scans, [lint_paths] (path and directory mode) does not *)
  Definition lint_string_m (s : src) : option linted := if scan_ok s then Some (pipeline s) else None.
  Definition lint_path_m (s : src) : option linted := Some (pipeline s).
End Entry.

(* ---------- the end of [Linter::lint_parsed]: last ignore-mask filter, hand-over to the formatter, result *)

(** A violation collected for a file before the last filter (templating / lexing / parsing errors of the
    [ParsedString], errors of malformed noqa directives, rule violations of the first pass) together with the
    answer of the file's ignore mask for it ([IgnoreMask::is_masked]; [false] when noqa is disabled). The mask
    itself is an oracle here (property C10). Rule violations are already masked rule by rule inside
    [lint_fix_parsed]; this filter is the only one that sees the violations without a rule. *)
Definition cviol := (viol * bool)%type.

Definition unmasked (raw : list cviol) : list viol := map fst (filter (fun x => negb (snd x)) raw).

(** [lint_parsed] after [lint_fix_parsed] (core.rs): filter with the mask, build the [LintedFile], hand it to the
    formatter ([Formatter::dispatch_file_violations], any implementation of the public trait), return it.
    Result: (the violations of the file the formatter is given, [LintedFile::violations] of the returned file). *)
Definition lint_parsed_end (raw : list cviol) : list viol * list viol :=
  let violations := unmasked raw in
  let linted_file := violations in
  (linted_file, linted_file).
Definition fed (raw : list cviol) : list viol := fst (lint_parsed_end raw).
Definition returned (raw : list cviol) : list viol := snd (lint_parsed_end raw).

(** The front-ends on top of it. lint: the formatter prints what it is fed, the exit code is its [has_fail]. *)
Definition lint_front (verb : Z) (fmt : format) (raws : list (list cviol)) : N * list (list rline * header) :=
  run_lint_v verb fmt (map fed raws).

(** fix: the formatter prints what it is fed; "nothing to fix", the exit code and the writes are decided on the
    returned files. Result: the printed lines per file, (exit code, writes). *)
Record cfile := { c_id : N; c_raw : list cviol; c_fixed : N }.
Definition returned_file (f : cfile) : ffile := {| f_id := c_id f; f_viols := returned (c_raw f); f_fixed := c_fixed f |}.
Definition fix_front (fmt : format) (proceed : bool) (files : list cfile) : option (list (list rline) * (N * list (N * N))) :=
  match dispatch_all false fmt (map (fun f => fed (c_raw f)) files), run_fix fmt proceed (map returned_file files) with
  | Some (reps, _), Some r => Some (reps, r)
  | _, _ => None
  end.
