(** Cli/Proofs.v — C18: exit codes follow the reported violations; the formats report the same thing. *)
From Sq Require Import Base.Bytes Cli.Model.
From Coq Require Import Permutation PeanoNat.

(** [H_flags]: no violation carries the [ignore] flag (nothing in the code base sets it; monitored). *)
Definition no_ignore (files : list (list viol)) : Prop :=
  forall vs v, In vs files -> In v vs -> v_ignore v = false.

(* ------------------------------------------------------------------ sorting *)

Lemma insert_by_perm : forall cmp x l, Permutation (insert_by cmp x l) (x :: l).
Proof.
  intros cmp x. induction l as [|h l IH]; cbn; [apply Permutation_refl|].
  destruct (cmp x h); try apply Permutation_refl.
  eapply perm_trans; [apply perm_skip, IH | apply perm_swap].
Qed.

Lemma sort_by_perm : forall cmp l, Permutation (sort_by cmp l) l.
Proof.
  intros cmp. induction l as [|h l IH]; cbn; [constructor|].
  eapply perm_trans; [apply insert_by_perm | now apply perm_skip].
Qed.

(* ------------------------------------------------------------------ one file *)

Lemma existsb_false_filter_nil : forall {A} (f : A -> bool) l, existsb f l = false <-> filter f l = [].
Proof.
  intros A f. induction l as [|x l IH]; cbn; [tauto|].
  destruct (f x); cbn; [split; discriminate | exact IH].
Qed.

Lemma length_filter_zero : forall {A} (f : A -> bool) l, Nat.eqb (length (filter f l)) 0 = negb (existsb f l).
Proof.
  intros A f. induction l as [|x l IH]; cbn; [reflexivity|]. destruct (f x); cbn; [reflexivity | exact IH].
Qed.

(** what every format says about one file, when no violation is flagged [ignore] *)
Lemma file_out_spec : forall fmt vs rep fail,
  (forall v, In v vs -> v_ignore v = false) ->
  file_out false fmt vs = Some (rep, fail) ->
  Permutation rep (map rl vs) /\ fail = existsb (fun v => negb (v_warning v)) vs.
Proof.
  intros fmt vs rep fail Hig H.
  assert (Hf : forall l, (forall v, In v l -> v_ignore v = false) ->
                         existsb is_fail l = existsb (fun v => negb (v_warning v)) l).
  { induction l as [|x l IH]; cbn; intro Hl; [reflexivity|].
    unfold is_fail at 1. rewrite (Hl x (or_introl eq_refl)). cbn. f_equal. apply IH. intros v Hv. apply Hl. now right. }
  destruct fmt; cbn in H; inversion H; subst; clear H.
  - (* human *)
    rewrite (length_filter_zero is_fail vs).
    destruct vs as [|x vs']; [cbn; split; [constructor | reflexivity]|].
    set (vs := x :: vs') in *.
    assert (Hshow : Nat.eqb (length (filter is_fail vs) + length (filter v_warning vs)) 0 = false).
    { unfold vs. cbn [filter]. unfold is_fail at 1. rewrite (Hig x (or_introl eq_refl)). cbn [negb andb].
      destruct (v_warning x); cbn; [rewrite Nat.add_succ_r|]; reflexivity. }
    rewrite Hshow. cbn [negb andb]. rewrite negb_involutive. split.
    + apply Permutation_map, sort_by_perm.
    + now apply Hf.
  - (* github *)
    split; [apply Permutation_map, sort_by_perm | now apply Hf].
  - (* json *)
    split; [apply Permutation_refl | reflexivity].
Qed.

Lemma file_out_total : forall fmt vs, exists r, file_out false fmt vs = Some r.
Proof. intros [] vs; cbn; now eexists. Qed.

(* ------------------------------------------------------------------ lint *)

Lemma dispatch_all_spec : forall fmt files reps fail,
  no_ignore files ->
  dispatch_all false fmt files = Some (reps, fail) ->
  Forall2 (fun rep vs => Permutation rep (map rl vs)) reps files /\
  (fail = true <-> exists vs v, In vs files /\ In v vs /\ v_warning v = false).
Proof.
  intros fmt. induction files as [|vs files IH]; cbn; intros reps fail Hig H.
  - inversion H; subst. split; [constructor|]. split; [discriminate | intros [? [? [[] _]]]].
  - destruct (file_out false fmt vs) as [[r f]|] eqn:Ef; [|discriminate].
    destruct (dispatch_all false fmt files) as [[rs fs]|] eqn:Ed; [|discriminate].
    inversion H; subst; clear H.
    assert (Hig' : no_ignore files) by (intros ws v Hw Hv; apply (Hig ws v); [now right | exact Hv]).
    destruct (IH rs fs Hig' eq_refl) as [IH1 IH2].
    destruct (file_out_spec fmt vs r f (fun v Hv => Hig vs v (or_introl eq_refl) Hv) Ef) as [Hp Hf].
    split; [now constructor|].
    rewrite orb_true_iff, IH2, Hf, existsb_exists. split.
    + intros [[v [Hv Hw]]|[ws [v [Hws [Hv Hw]]]]].
      * exists vs, v. apply negb_true_iff in Hw. auto.
      * exists ws, v. auto.
    + intros [ws [v [[<-|Hws] [Hv Hw]]]].
      * left. exists v. split; [exact Hv | now rewrite Hw].
      * right. exists ws, v. auto.
Qed.

Lemma dispatch_all_total : forall fmt files, exists r, dispatch_all false fmt files = Some r.
Proof.
  intros fmt. induction files as [|vs files [[rs fs] IH]]; cbn; [now eexists|].
  destruct (file_out_total fmt vs) as [[r f] ->]. rewrite IH. now eexists.
Qed.

(** lint exits 1 exactly when at least one non-warning violation is reported, 0 otherwise; every violation
    of every file is reported, whatever the format. *)
Theorem lint_exit_spec : forall fmt files code reps,
  no_ignore files ->
  run_lint fmt files = Some (code, reps) ->
  (code = 1 \/ code = 0) /\
  (code = 1 <-> exists vs v, In vs files /\ In v vs /\ v_warning v = false) /\
  Forall2 (fun rep vs => Permutation rep (map rl vs)) reps files.
Proof.
  intros fmt files code reps Hig H. unfold run_lint, run_lint_gen in H.
  destruct (dispatch_all false fmt files) as [[rs fail]|] eqn:E; [|discriminate].
  inversion H; subst; clear H.
  destruct (dispatch_all_spec fmt files reps fail Hig E) as [H1 H2].
  split; [destruct fail; auto|]. split; [|exact H1].
  rewrite <- H2. destruct fail; split; intro; try reflexivity; discriminate.
Qed.

Theorem lint_total : forall fmt files, exists r, run_lint fmt files = Some r.
Proof.
  intros fmt files. unfold run_lint, run_lint_gen.
  destruct (dispatch_all_total fmt files) as [[rs f] ->]. now eexists.
Qed.

(** Any two formats: same exit code, same reported violations per file. *)
Theorem formats_agree : forall f1 f2 files c1 r1 c2 r2,
  no_ignore files ->
  run_lint f1 files = Some (c1, r1) -> run_lint f2 files = Some (c2, r2) ->
  c1 = c2 /\ Forall2 (fun a b => Permutation a b) r1 r2.
Proof.
  intros f1 f2 files c1 r1 c2 r2 Hig H1 H2.
  destruct (lint_exit_spec f1 files c1 r1 Hig H1) as [Hc1 [He1 Hr1]].
  destruct (lint_exit_spec f2 files c2 r2 Hig H2) as [Hc2 [He2 Hr2]].
  split.
  - destruct Hc1 as [->| ->], Hc2 as [->| ->]; try reflexivity.
    + assert (c : 0 = 1) by (apply He2, He1; reflexivity). discriminate.
    + assert (c : 0 = 1) by (apply He1, He2; reflexivity). discriminate.
  - clear - Hr1 Hr2. revert r2 Hr2. induction Hr1 as [|a vs r1 files Ha _ IH]; intros r2 Hr2.
    + inversion Hr2. constructor.
    + inversion Hr2 as [|b ? r2' ? Hb Hr2']; subst. constructor; [|now apply IH].
      eapply perm_trans; [exact Ha | now apply Permutation_sym].
Qed.

(** stdin mode is the one-file case of path mode. *)
Theorem stdin_agrees : forall fmt vs,
  run_lint_stdin fmt vs =
  match run_lint fmt [vs] with Some (c, [r]) => Some (c, r) | _ => None end.
Proof.
  intros fmt vs. unfold run_lint_stdin, run_lint, run_lint_gen. cbn.
  destruct (file_out false fmt vs) as [[r f]|]; [|reflexivity]. cbn. now rewrite orb_false_r.
Qed.

(** stdin and path mode lint the same thing whenever the in-file configuration scan does not abort. *)
Theorem modes_agree : forall (src linted : Type) (scan_ok : src -> bool) (pipeline : src -> linted) s,
  scan_ok s = true -> lint_string_m src linted scan_ok pipeline s = lint_path_m src linted pipeline s.
Proof. intros src linted scan_ok pipeline s H. unfold lint_string_m, lint_path_m. now rewrite H. Qed.

Example modes_agree_nonvacuous :
  lint_string_m N N (fun s => negb (s =? 0)) (fun s => s + 1) 5 = Some 6 /\
  lint_string_m N N (fun s => negb (s =? 0)) (fun s => s + 1) 0 = None /\ lint_path_m N N (fun s => s + 1) 0 = Some 1.
Proof. vm_compute. repeat split; reflexivity. Qed.

(* ------------------------------------------------------------------ fix *)

(** fix exits 1 exactly when a violation that cannot be auto-fixed was found; when nothing is reported
    nothing is written; otherwise every linted file is written with its own fixed text. *)
Theorem fix_spec : forall fmt files code writes,
  run_fix fmt true files = Some (code, writes) ->
  (code = 1 \/ code = 0) /\
  (code = 1 <-> exists f v, In f files /\ In v (f_viols f) /\ v_fixable v = false) /\
  ((forall f, In f files -> f_viols f = []) -> writes = []) /\
  ((exists f, In f files /\ f_viols f <> []) -> writes = map (fun f => (f_id f, f_fixed f)) files).
Proof.
  intros fmt files code writes H. unfold run_fix in H.
  destruct (dispatch_all false fmt (map f_viols files)); [|discriminate].
  destruct (forallb (fun f => is_empty (f_viols f)) files) eqn:Ec.
  - inversion H; subst; clear H. rewrite forallb_forall in Ec.
    split; [auto|]. split; [|split; [reflexivity|]].
    + split; [discriminate|]. intros [f [v [Hf [Hv _]]]]. specialize (Ec f Hf). destruct (f_viols f); [easy | discriminate].
    + intros [f [Hf Hne]]. specialize (Ec f Hf). destruct (f_viols f); [easy | discriminate].
  - cbn in H. inversion H; subst; clear H.
    assert (Hex : existsb (fun f => has_unfixable (f_viols f)) files = true <->
                  exists f v, In f files /\ In v (f_viols f) /\ v_fixable v = false).
    { rewrite existsb_exists. split.
      - intros [f [Hf Hu]]. unfold has_unfixable in Hu. apply existsb_exists in Hu as [v [Hv Hx]].
        apply negb_true_iff in Hx. exists f, v. auto.
      - intros [f [v [Hf [Hv Hx]]]]. exists f. split; [exact Hf|]. unfold has_unfixable. apply existsb_exists.
        exists v. split; [exact Hv | now rewrite Hx]. }
    split; [destruct (existsb _ files); auto|]. split; [|split].
    + rewrite <- Hex. destruct (existsb _ files); split; intro; try reflexivity; discriminate.
    + intro Hall. assert (forallb (fun f => is_empty (f_viols f)) files = true); [|congruence].
      apply forallb_forall. intros f Hf. now rewrite (Hall f Hf).
    + reflexivity.
Qed.

Theorem fix_declined : forall fmt files r, run_fix fmt false files = Some r -> r = (0, []).
Proof.
  intros fmt files r H. unfold run_fix in H. destruct (dispatch_all false fmt (map f_viols files)); [|discriminate].
  destruct (forallb _ files); cbn in H; now inversion H.
Qed.

Theorem fix_stdin_spec : forall fmt vs fixed code out,
  run_fix_stdin fmt vs fixed = Some (code, out) ->
  out = fixed /\ (code = 1 \/ code = 0) /\ (code = 1 <-> exists v, In v vs /\ v_fixable v = false).
Proof.
  intros fmt vs fixed code out H. unfold run_fix_stdin in H. destruct (file_out false fmt vs); [|discriminate].
  inversion H; subst; clear H. split; [reflexivity|]. unfold has_unfixable.
  split; [destruct (existsb _ vs); auto|].
  assert (Hex : existsb (fun v => negb (v_fixable v)) vs = true <-> exists v, In v vs /\ v_fixable v = false).
  { rewrite existsb_exists. split; intros [v [Hv Hx]]; exists v; split; auto;
      [now apply negb_true_iff in Hx | now rewrite Hx]. }
  rewrite <- Hex. destruct (existsb _ vs); split; intro; try reflexivity; discriminate.
Qed.

(* ------------------------------------------------------------------ non-vacuity, the flag hypothesis, the code before the repair *)

Definition cp01 : str := [67; 80; 48; 49].
Definition v_ok : viol := {| v_line := 1; v_col := 10; v_rule := Some cp01; v_warning := false; v_ignore := false; v_fixable := true |}.
Definition v_prs : viol := {| v_line := 2; v_col := 1; v_rule := None; v_warning := false; v_ignore := false; v_fixable := false |}.
Definition v_warn : viol := {| v_line := 3; v_col := 1; v_rule := Some cp01; v_warning := true; v_ignore := false; v_fixable := true |}.
Definition v_ign : viol := {| v_line := 1; v_col := 1; v_rule := Some cp01; v_warning := false; v_ignore := true; v_fixable := true |}.

Example lint_example :
  no_ignore [[v_prs; v_ok]; []; [v_warn]] /\
  run_lint Human [[v_prs; v_ok]; []; [v_warn]] = Some (1, [[rl v_ok; rl v_prs]; []; [rl v_warn]]) /\
  run_lint Github [[v_prs; v_ok]; []; [v_warn]] = Some (1, [[rl v_ok; rl v_prs]; []; [rl v_warn]]) /\
  run_lint Json [[v_prs; v_ok]; []; [v_warn]] = Some (1, [[rl v_prs; rl v_ok]; []; [rl v_warn]]) /\
  run_lint Human [[v_warn]; []] = Some (0, [[rl v_warn]; []]).
Proof.
  split; [|vm_compute; repeat split; reflexivity].
  intros vs v Hvs Hv. cbn in Hvs. destruct Hvs as [<-|[<-|[<-|[]]]]; cbn in Hv.
  - destruct Hv as [<-|[<-|[]]]; reflexivity.
  - easy.
  - destruct Hv as [<-|[]]; reflexivity.
Qed.

Example fix_example :
  run_fix Human true [ {| f_id := 1; f_viols := [v_ok]; f_fixed := 11 |}; {| f_id := 2; f_viols := []; f_fixed := 12 |} ]
    = Some (0, [(1, 11); (2, 12)]) /\
  run_fix Json true [ {| f_id := 1; f_viols := [v_ok; v_prs]; f_fixed := 11 |} ] = Some (1, [(1, 11)]) /\
  run_fix Github true [ {| f_id := 1; f_viols := []; f_fixed := 11 |} ] = Some (0, []).
Proof. vm_compute. repeat split; reflexivity. Qed.

(** The three [has_fail] functions agree only under [H_flags]: the JSON one does not look at [ignore]. *)
Lemma flags_needed : exists files, run_lint Json files = Some (1, [[rl v_ign]]) /\ run_lint Human files = Some (0, [[]]).
Proof. exists [[v_ign]]. vm_compute. split; reflexivity. Qed.

(** Before the repair: the GitHub format aborted on any violation without a rule (parse errors, malformed
    noqa directives), where the other formats report it. *)
Lemma github_legacy_refuted :
  exists files, run_lint_gen true Github files = None /\ exists r, run_lint_gen true Human files = Some r.
Proof. exists [[v_prs]]. vm_compute. split; [reflexivity | now eexists]. Qed.

(* ------------------------------------------------------------------ further non-vacuity examples *)

Example fix_stdin_example :
  run_fix_stdin Human [v_ok] 7 = Some (0, 7) /\ run_fix_stdin Github [v_ok; v_prs] 7 = Some (1, 7) /\ run_fix_stdin Json [] 7 = Some (0, 7).
Proof. vm_compute. repeat split; reflexivity. Qed.

Example fix_declined_example :
  run_fix Human false [ {| f_id := 1; f_viols := [v_ok]; f_fixed := 11 |} ] = Some (0, []) /\
  run_fix Human true [ {| f_id := 1; f_viols := [v_ok]; f_fixed := 11 |} ] = Some (0, [(1, 11)]).
Proof. vm_compute. split; reflexivity. Qed.

Example stdin_flag_example :
  stdin_flag [true] = Some true /\ stdin_flag [false; true] = None /\ stdin_flag [false; false] = Some false /\ stdin_flag [] = Some false.
Proof. vm_compute. repeat split; reflexivity. Qed.

(* ------------------------------------------------------------------ the formatter across the files of a run *)

(** does dispatching this file raise [has_fail] (starting from a lowered flag)? *)
Definition sets (verb : Z) (fmt : format) (vs : list viol) : bool := snd (step verb fmt false vs).

(** [has_fail] is a latch: a dispatch can raise it, never lower it. *)
Lemma step_latch : forall verb fmt st vs, snd (step verb fmt st vs) = st || sets verb fmt vs.
Proof.
  intros verb fmt st vs. unfold sets, step. destruct fmt.
  - destruct (human_file_v verb vs) as [r [[|]|]]; cbn; now destruct st.
  - cbn. destruct (existsb is_fail vs); now destruct st.
  - cbn. destruct (existsb _ vs); now destruct st.
Qed.

(** what is printed for a file does not depend on the files dispatched before it *)
Lemma step_out : forall verb fmt st vs, fst (step verb fmt st vs) = fst (step verb fmt false vs).
Proof. intros verb fmt st vs. unfold step. destruct fmt; [destruct (human_file_v verb vs)|..]; reflexivity. Qed.

Lemma dispatch_seq_spec : forall verb fmt files st,
  dispatch_seq verb fmt st files =
  (map (fun vs => fst (step verb fmt false vs)) files, st || existsb (sets verb fmt) files).
Proof.
  intros verb fmt. induction files as [|vs files IH]; intro st; cbn [dispatch_seq map existsb].
  - now rewrite orb_false_r.
  - pose proof (step_latch verb fmt st vs) as Hl. pose proof (step_out verb fmt st vs) as Ho.
    destruct (step verb fmt st vs) as [rh st']. cbn in Hl, Ho. subst. rewrite IH. now rewrite orb_assoc.
Qed.

Lemma run_lint_v_spec : forall verb fmt files,
  run_lint_v verb fmt files =
  (if existsb (sets verb fmt) files then 1 else 0, map (fun vs => fst (step verb fmt false vs)) files).
Proof. intros. unfold run_lint_v. now rewrite dispatch_seq_spec. Qed.

Lemma existsb_perm : forall {A} (f : A -> bool) l l', Permutation l l' -> existsb f l = existsb f l'.
Proof.
  intros A f l l' H. induction H; cbn; try congruence.
  destruct (f x), (f y); reflexivity.
Qed.

(** The exit code does not depend on the order in which the files are dispatched (argument order, directory
    walk, whichever worker finishes last), and each file gets the same lines whatever came before it. *)
Theorem lint_v_order : forall verb fmt files files',
  Permutation files files' ->
  fst (run_lint_v verb fmt files) = fst (run_lint_v verb fmt files') /\
  Permutation (snd (run_lint_v verb fmt files)) (snd (run_lint_v verb fmt files')).
Proof.
  intros verb fmt files files' H. rewrite !run_lint_v_spec. cbn [fst snd]. split.
  - now rewrite (existsb_perm _ _ _ H).
  - now apply Permutation_map.
Qed.

(** At any verbosity from 0 upwards the stateful run is [run_lint] (the per-file account of Model.v) plus headers. *)
Lemma step_file_out : forall verb fmt vs, (0 <= verb)%Z ->
  file_out false fmt vs = Some (fst (fst (step verb fmt false vs)), sets verb fmt vs).
Proof.
  intros verb fmt vs Hv. unfold sets, step. destruct fmt; cbn.
  - unfold human_file_v, human_file. destruct (verb <? 0)%Z eqn:E; [apply Z.ltb_lt in E; lia|].
    cbn [fst snd].
    destruct (Nat.eqb (length (filter is_fail vs)) 0) eqn:Ef.
    + apply Nat.eqb_eq in Ef. rewrite Ef. cbn [Nat.add].
      destruct (negb (Nat.eqb (length (filter v_warning vs)) 0)); destruct (0 <? verb)%Z; cbn; reflexivity.
    + assert (Hs : Nat.eqb (length (filter is_fail vs) + length (filter v_warning vs)) 0 = false).
      { apply Nat.eqb_neq in Ef. apply Nat.eqb_neq. lia. }
      rewrite Hs. cbn. rewrite orb_true_r. reflexivity.
  - unfold github_file. destruct (existsb is_fail vs); reflexivity.
  - unfold json_file. destruct (existsb _ vs); reflexivity.
Qed.

Theorem lint_v_as_lint : forall verb fmt files, (0 <= verb)%Z ->
  run_lint fmt files = Some (fst (run_lint_v verb fmt files), map fst (snd (run_lint_v verb fmt files))).
Proof.
  intros verb fmt files Hv. rewrite run_lint_v_spec. cbn [fst snd]. unfold run_lint, run_lint_gen.
  assert (H : dispatch_all false fmt files =
              Some (map fst (map (fun vs => fst (step verb fmt false vs)) files), existsb (sets verb fmt) files)).
  { induction files as [|vs files IH]; cbn [dispatch_all map existsb]; [reflexivity|].
    rewrite (step_file_out verb fmt vs Hv), IH. reflexivity. }
  now rewrite H.
Qed.

(** lint with the shared formatter at a documented verbosity: the exit code is 1 exactly when a non-warning
    violation is reported, every violation of every file is reported, and the answer is the same in any dispatch
    order, at any verbosity and in any format. *)
Theorem lint_v_exit_spec : forall verb fmt files,
  (0 <= verb)%Z -> no_ignore files ->
  let '(code, reps) := run_lint_v verb fmt files in
  (code = 1 \/ code = 0) /\
  (code = 1 <-> exists vs v, In vs files /\ In v vs /\ v_warning v = false) /\
  Forall2 (fun rep vs => Permutation (fst rep) (map rl vs)) reps files.
Proof.
  intros verb fmt files Hv Hig. pose proof (lint_v_as_lint verb fmt files Hv) as H.
  destruct (run_lint_v verb fmt files) as [code reps]. cbn [fst snd] in H.
  destruct (lint_exit_spec fmt files code (map fst reps) Hig H) as [H1 [H2 H3]].
  split; [exact H1|]. split; [exact H2|].
  clear - H3. revert files H3. induction reps as [|r reps IH]; intros files H3; cbn in H3; inversion H3; subst; constructor; auto.
Qed.

Theorem lint_v_agree : forall v1 v2 f1 f2 files,
  (0 <= v1)%Z -> (0 <= v2)%Z -> no_ignore files ->
  fst (run_lint_v v1 f1 files) = fst (run_lint_v v2 f2 files) /\
  Forall2 (fun a b => Permutation (fst a) (fst b)) (snd (run_lint_v v1 f1 files)) (snd (run_lint_v v2 f2 files)).
Proof.
  intros v1 v2 f1 f2 files H1 H2 Hig.
  destruct (formats_agree f1 f2 files _ _ _ _ Hig (lint_v_as_lint v1 f1 files H1) (lint_v_as_lint v2 f2 files H2)) as [Hc Hr].
  split; [exact Hc|].
  remember (snd (run_lint_v v1 f1 files)) as a. remember (snd (run_lint_v v2 f2 files)) as b. clear - Hr.
  revert b Hr. induction a as [|x a IH]; intros [|y b] Hr; cbn in Hr; inversion Hr; subst; constructor; auto.
Qed.

(** the header of the human format: FAIL exactly for a file with a non-warning violation; at verbosity above 0
    every file has one; a file without header has no line printed *)
Theorem human_header_spec : forall verb vs,
  (0 <= verb)%Z -> (forall v, In v vs -> v_ignore v = false) ->
  let '(r, h) := human_file_v verb vs in
  (h = Some false <-> exists v, In v vs /\ v_warning v = false) /\
  ((0 < verb)%Z -> h <> None) /\
  (h = None -> r = [] /\ vs = []).
Proof.
  intros verb vs Hv Hig. unfold human_file_v.
  destruct (verb <? 0)%Z eqn:E; [apply Z.ltb_lt in E; lia|].
  assert (Hf : existsb is_fail vs = true <-> exists v, In v vs /\ v_warning v = false).
  { rewrite existsb_exists. split; intros [v [Hi Hw]]; exists v; split; auto.
    - unfold is_fail in Hw. apply andb_true_iff in Hw as [_ Hw]. now apply negb_true_iff in Hw.
    - unfold is_fail. now rewrite (Hig v Hi), Hw. }
  rewrite (length_filter_zero is_fail vs).
  assert (Hshow : existsb is_fail vs = true ->
                  Nat.eqb (length (filter is_fail vs) + length (filter v_warning vs)) 0 = false).
  { intro Hx. apply Nat.eqb_neq. pose proof (length_filter_zero is_fail vs) as Hz. rewrite Hx in Hz. cbn in Hz.
    apply Nat.eqb_neq in Hz. lia. }
  split; [|split].
  - rewrite <- Hf. destruct (existsb is_fail vs) eqn:Ex.
    + rewrite (Hshow eq_refl). cbn. rewrite orb_true_r. split; reflexivity.
    + cbn. destruct ((0 <? verb)%Z || _); split; intro; discriminate.
  - intro Hp. apply Z.ltb_lt in Hp. rewrite Hp. cbn. discriminate.
  - destruct vs as [|x vs']; [cbn; destruct (0 <? verb)%Z; cbn; [discriminate | auto]|].
    assert (Hs : Nat.eqb (length (filter is_fail (x :: vs')) + length (filter v_warning (x :: vs'))) 0 = false).
    { cbn [filter]. unfold is_fail at 1. rewrite (Hig x (or_introl eq_refl)). cbn [negb andb].
      destruct (v_warning x); cbn; [rewrite Nat.add_succ_r|]; reflexivity. }
    rewrite Hs. cbn. rewrite orb_true_r. discriminate.
Qed.

(** stdin mode is the one-file run of the same formatter *)
Theorem stdin_v_agrees : forall verb fmt vs,
  run_lint_v verb fmt [vs] = (fst (run_lint_stdin_v verb fmt vs), [snd (run_lint_stdin_v verb fmt vs)]).
Proof.
  intros verb fmt vs. unfold run_lint_v, run_lint_stdin_v. cbn [dispatch_seq].
  destruct (step verb fmt false vs) as [rh st]. reflexivity.
Qed.

(** Outside the documented range: below verbosity 0 the human formatter prints nothing and never raises
    [has_fail], whatever was found (the other two formats have no verbosity). *)
Theorem human_quiet : forall verb files, (verb < 0)%Z ->
  run_lint_v verb Human files = (0, map (fun _ => ([], None)) files).
Proof.
  intros verb files Hv. rewrite run_lint_v_spec.
  assert (Hs : forall vs, step verb Human false vs = (([], None), false)).
  { intro vs. unfold step, human_file_v. apply Z.ltb_lt in Hv. now rewrite Hv. }
  replace (existsb (sets verb Human) files) with false.
  - f_equal. apply map_ext. intro vs. now rewrite Hs.
  - symmetry. apply not_true_is_false. intro Hx. apply existsb_exists in Hx as [vs [_ Hx]]. unfold sets in Hx. now rewrite Hs in Hx.
Qed.

Example lint_v_example :
  run_lint_v 1 Human [[v_prs; v_ok]; []; [v_warn]] =
    (1, [([rl v_ok; rl v_prs], Some false); ([], Some true); ([rl v_warn], Some true)]) /\
  run_lint_v 1 Human [[]; [v_warn]; [v_prs; v_ok]] =
    (1, [([], Some true); ([rl v_warn], Some true); ([rl v_ok; rl v_prs], Some false)]) /\
  run_lint_v 0 Human [[v_prs; v_ok]; []; [v_warn]] =
    (1, [([rl v_ok; rl v_prs], Some false); ([], None); ([rl v_warn], Some true)]) /\
  run_lint_v 2 Json [[v_prs; v_ok]; []] = (1, [([rl v_prs; rl v_ok], None); ([], None)]) /\
  run_lint_v (-1) Human [[v_prs; v_ok]; []] = (0, [([], None); ([], None)]) /\
  run_lint_stdin_v 1 Human [] = (0, ([], Some true)).
Proof. vm_compute. repeat split; reflexivity. Qed.

(* ------------------------------------------------------------------ what the formatter is fed *)

(** The formatter (any front-end) is handed exactly the violations of the returned [LintedFile], and those are
    exactly the collected violations that the file's ignore mask does not cover. *)
Theorem fed_is_returned : forall raw,
  fed raw = returned raw /\
  (forall v, In v (fed raw) <-> In (v, false) raw) /\
  (forall v, In (v, true) raw -> ~ In (v, false) raw -> ~ In v (fed raw)).
Proof.
  intro raw.
  assert (H : forall v, In v (fed raw) <-> In (v, false) raw).
  { intro v. unfold fed, lint_parsed_end, unmasked. cbn [fst]. rewrite in_map_iff. split.
    - intros [[v' b] [H1 H2]]. apply filter_In in H2 as [H2 H3]. cbn in H1, H3. subst v'.
      destruct b; [discriminate | exact H2].
    - intro Hin. exists (v, false). split; [reflexivity|]. apply filter_In. split; [exact Hin | reflexivity]. }
  split; [reflexivity|]. split; [exact H|].
  intros v _ Hn Hin. apply Hn. now apply H.
Qed.

Lemma Forall2_map_r : forall {A B C} (P : A -> C -> Prop) (f : B -> C) l l',
  Forall2 P l (map f l') -> Forall2 (fun a b => P a (f b)) l l'.
Proof.
  intros A B C P f l. induction l as [|a l IH]; intros [|b l'] H; cbn in H; inversion H; subst; constructor; auto.
Qed.

(** lint through any format at a documented verbosity: what is printed for a file is (a permutation of) the
    violations of the library's result for that file, masked violations without a rule included in neither;
    exit 1 exactly when the library's result holds a non-warning violation. *)
Theorem lint_front_spec : forall verb fmt raws,
  (0 <= verb)%Z -> no_ignore (map returned raws) ->
  let '(code, reps) := lint_front verb fmt raws in
  (code = 1 \/ code = 0) /\
  (code = 1 <-> exists raw v, In raw raws /\ In v (returned raw) /\ v_warning v = false) /\
  Forall2 (fun rep raw => Permutation (fst rep) (map rl (returned raw))) reps raws.
Proof.
  intros verb fmt raws Hv Hig. unfold lint_front.
  replace (map fed raws) with (map returned raws) by (apply map_ext; intro; reflexivity).
  pose proof (lint_v_exit_spec verb fmt (map returned raws) Hv Hig) as H.
  destruct (run_lint_v verb fmt (map returned raws)) as [code reps].
  destruct H as [H1 [H2 H3]]. split; [exact H1|]. split.
  - rewrite H2. split.
    + intros [vs [v [Hin [Hv' Hw]]]]. apply in_map_iff in Hin as [raw [He Hin]]. subst vs. exists raw, v. auto.
    + intros [raw [v [Hin [Hv' Hw]]]]. exists (returned raw), v. split; [now apply in_map|]. auto.
  - now apply Forall2_map_r in H3.
Qed.

(** fix: what is printed for a file is the library's result for it; exit 1 exactly when a printed violation
    cannot be auto-fixed; when nothing is printed nothing is written. *)
Theorem fix_front_spec : forall fmt files reps code writes,
  no_ignore (map (fun f => returned (c_raw f)) files) ->
  fix_front fmt true files = Some (reps, (code, writes)) ->
  Forall2 (fun rep f => Permutation rep (map rl (returned (c_raw f)))) reps files /\
  (code = 1 <-> exists f v, In f files /\ In v (returned (c_raw f)) /\ v_fixable v = false) /\
  ((forall rep, In rep reps -> rep = []) -> writes = []).
Proof.
  intros fmt files reps code writes Hig H. unfold fix_front in H.
  replace (map (fun f => fed (c_raw f)) files) with (map (fun f => returned (c_raw f)) files) in H
    by (apply map_ext; intro; reflexivity).
  destruct (dispatch_all false fmt (map (fun f => returned (c_raw f)) files)) as [[reps' fail]|] eqn:Ed; [|discriminate].
  destruct (run_fix fmt true (map returned_file files)) as [[c w]|] eqn:Ef; [|discriminate].
  inversion H; subst; clear H.
  destruct (dispatch_all_spec fmt _ _ _ Hig Ed) as [Hp _]. apply Forall2_map_r in Hp.
  destruct (fix_spec fmt _ _ _ Ef) as [_ [Hc [Hn _]]].
  split; [exact Hp|]. split.
  - rewrite Hc. split.
    + intros [f [v [Hin [Hv Hx]]]]. apply in_map_iff in Hin as [cf [He Hin]]. subst f. exists cf, v. auto.
    + intros [cf [v [Hin [Hv Hx]]]]. exists (returned_file cf), v. split; [now apply in_map|]. auto.
  - intro Hall. apply Hn. intros f Hin. apply in_map_iff in Hin as [cf [He Hin]]. subst f. cbn [f_viols returned_file].
    clear - Hp Hall Hin. induction Hp as [|rep f0 reps files Hperm Hrest IH]; [destruct Hin|].
    destruct Hin as [->|Hin].
    + rewrite (Hall rep (or_introl eq_refl)) in Hperm. apply Permutation_nil in Hperm.
      destruct (returned (c_raw cf)); [reflexivity | discriminate].
    + apply IH; [|exact Hin]. intros r Hr. apply Hall. now right.
Qed.

(** a parse error covered by a noqa directive next to a reported rule violation: neither the formatter nor the
    caller sees the covered one; lint exits 1 for the other; a file whose only violation is covered is clean *)
Example fed_example :
  lint_parsed_end [(v_prs, true); (v_ok, false)] = ([v_ok], [v_ok]) /\
  lint_front 1 Human [[(v_prs, true); (v_ok, false)]; [(v_prs, true)]] = (1, [([rl v_ok], Some false); ([], Some true)]) /\
  lint_front 0 Github [[(v_prs, true)]] = (0, [([], None)]) /\
  fix_front Json true [{| c_id := 0; c_raw := [(v_prs, true)]; c_fixed := 7 |}] = Some ([[]], (0, [])) /\
  fix_front Human true [{| c_id := 0; c_raw := [(v_prs, false); (v_ok, false)]; c_fixed := 7 |}] = Some ([[rl v_ok; rl v_prs]], (1, [(0, 7)])).
Proof. vm_compute. repeat split; reflexivity. Qed.
