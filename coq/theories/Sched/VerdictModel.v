(** C07 (verdict) — [OutputStreamFormatter] (crates/lib/src/cli/formatters.rs): the state the formatter
    accumulates while the linted files are dispatched to it, i.e. the pass/fail verdict of an
    invocation ([Formatter::has_fail], the exit status of [sqruff lint]) and the number of files
    reported ([files_dispatched]).

      dispatch_file_violations(f):  if verbosity < 0 { return }
                                    s := format_file_violations(f.path, f.violations);  files_dispatched += 1
      format_file_violations:       fails := #(!ignore && !warning);  warns := #warning;  show := fails + warns > 0
                                    if verbosity > 0 || show { format_filename(fname, fails == 0) }
      format_filename(_, success):  if !success { has_fail := true }

    A file is abstracted to its pair (fails, warns); the order in which the worker threads dispatch
    their files is an arbitrary list. *)
From Sq Require Export Base.Bytes.
From Coq Require Export ZArith.

Definition counts : Type := (N * N)%type.
Definition fstate : Type := (bool * N)%type.          (* has_fail, files_dispatched *)

(** [format_filename]: the only writer of [has_fail] *)
Definition format_filename (has_fail success : bool) : bool := if success then has_fail else true.

Definition dispatch_one (verbosity : Z) (st : fstate) (c : counts) : fstate :=
  let '(hf, n) := st in
  let '(fails, warns) := c in
  if (verbosity <? 0)%Z then st
  else
    let show := 0 <? fails + warns in
    ((if (0 <? verbosity)%Z || show then format_filename hf (fails =? 0) else hf), n + 1).

(** the formatter after the files were dispatched in the order [order] *)
Definition dispatch_all (verbosity : Z) (order : list counts) : fstate :=
  fold_left (dispatch_one verbosity) order (false, 0).

(** "some file failed" *)
Definition any_fail (files : list counts) : bool := existsb (fun c => 0 <? fst c) files.
