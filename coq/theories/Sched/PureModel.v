(** C07 (purity) — executable model of the two mechanisms that make lint-only runs change nothing:
    the control skeleton of [Linter::lint_fix_parsed] (crates/lib/src/core/linter/core.rs: phases,
    loop limits, "apply only when fixing", loop detection, early exit) with rule bodies, [apply_fixes]
    and the loop key as Section variables, and [LintedFile::fix_string] (linted_file.rs:
    [generate_source_patches], [slice_source_file_using_patches], [build_up_fixed_source_string]). *)
From Sq Require Export Base.Bytes.

Inductive phase := Main | Post.
Definition phase_eqb (a b : phase) : bool :=
  match a, b with Main, Main | Post, Post => true | _, _ => false end.

(** what the [cfg(sqruff_verif)] fixm-loop observer sees *)
Inductive ev {rule : Type} :=
| Batch (ph : phase) (pass : N) (r : rule) (accepted : bool)
| PassEnd (ph : phase) (pass : N) (changed : bool).
Arguments ev : clear implicits.

Section Loop.
  Variable tree key rule : Type.
  Variable key_eqb : key -> key -> bool.
  Variable key_of : tree -> key.                  (* (raw, source fixes): the loop-detection tuple *)
  Variable rule_phase : rule -> phase.
  Variable fix_compatible : rule -> bool.
  (** [crawl r t]: [None] when rule [r] proposes no fixm on [t], else the tree [apply_fixes] builds *)
  Variable crawl : rule -> tree -> option tree.
  Variable rules : list rule.

  Record st := mkst { cur : tree; seen : list key; changed : bool; trace : list (ev rule) }.

  Definition rule_step (fixm first : bool) (ph : phase) (pass : N) (s : st) (r : rule) : st :=
    if fixm && negb first && negb (fix_compatible r) then s
    else
      match crawl r (cur s) with
      | None => s
      | Some t' =>
          if fixm then
            let k := key_of t' in
            if existsb (key_eqb k) (seen s)
            then mkst (cur s) (seen s) (changed s) (Batch ph pass r false :: trace s)
            else mkst t' (k :: seen s) true (Batch ph pass r true :: trace s)
          else s
      end.

  Fixpoint passes (fixm : bool) (ph : phase) (first_phase : bool) (fuel : nat) (pass : N) (s : st) : st :=
    match fuel with
    | O => s
    | S fuel' =>
        let first := first_phase && (pass =? 0) in
        let rs := if first then rules
                  else if fixm then filter (fun r => phase_eqb (rule_phase r) ph) rules else rules in
        let s1 := fold_left (rule_step fixm first ph pass) rs (mkst (cur s) (seen s) false (trace s)) in
        let s2 := mkst (cur s1) (seen s1) (changed s1) (PassEnd ph pass (changed s1) :: trace s1) in
        if fixm && negb (changed s1) then s2 else passes fixm ph first_phase fuel' (pass + 1) s2
    end.

  Definition lint_fix_parsed (fixm : bool) (t : tree) : tree * list (ev rule) :=
    let s0 := mkst t [key_of t] false [] in
    let s1 := passes fixm Main true (if fixm then 10 else 1)%nat 0 s0 in
    let s2 := if fixm then passes fixm Post false 2%nat 0 s1 else s1 in
    (cur s2, rev (trace s2)).
End Loop.

(** * [fix_string] *)
Record patch := mkpatch { p_start : N; p_end : N; p_fixed : str }.
Definition patch_eqb (a b : patch) : bool :=
  (p_start a =? p_start b) && (p_end a =? p_end b) && str_eqb (p_fixed a) (p_fixed b).

Fixpoint dedupe (seen ps : list patch) : list patch :=
  match ps with
  | [] => []
  | p :: ps' => if existsb (patch_eqb p) seen then dedupe seen ps' else p :: dedupe (p :: seen) ps'
  end.
Fixpoint insert_sorted (p : patch) (l : list patch) : list patch :=
  match l with
  | [] => [p]
  | q :: l' => if p_start p <? p_start q then p :: l else q :: insert_sorted p l'
  end.
(** dedupe, then a stable sort by start *)
Definition generate_source_patches (ps : list patch) : list patch :=
  fold_right insert_sorted [] (dedupe [] ps).

Definition slice := (N * N)%type.

(** the inner [while]: source-only slices that start before the patch *)
Fixpoint take_so (so : list slice) (pstart idx : N) (acc : list slice) : list slice * N * list slice :=
  match so with
  | (s, e) :: so' =>
      if s <? pstart then
        take_so so' pstart e ((if idx <? e then acc ++ [(idx, s)] else acc) ++ [(s, e)])
      else (so, idx, acc)
  | [] => (so, idx, acc)
  end.

Fixpoint slice_loop (ps : list patch) (so : list slice) (idx : N) (acc : list slice) : list slice * N :=
  match ps with
  | [] => (acc, idx)
  | p :: ps' =>
      let '(so1, idx1, acc1) := take_so so (p_start p) idx acc in
      let so2 := match so1 with
                 | (s, e) :: so' => if (s =? p_start p) && (e =? p_end p) then so' else so1
                 | [] => so1
                 end in
      let acc2 := if idx1 <? p_start p then acc1 ++ [(idx1, p_start p)] else acc1 in
      if p_start p <? idx1 then slice_loop ps' so2 idx1 acc2
      else slice_loop ps' so2 (p_end p) (acc2 ++ [(p_start p, p_end p)])
  end.

Definition slice_source_file (ps : list patch) (so : list slice) (raw : str) : list slice :=
  let '(acc, idx) := slice_loop ps so 0 [] in
  let n := N.of_nat (length raw) in
  if idx <? n then acc ++ [(idx, n)] else acc.

Definition slice_str (raw : str) (sl : slice) : str :=
  firstn (N.to_nat (snd sl - fst sl)) (skipn (N.to_nat (fst sl)) raw).
Fixpoint find_patch (ps : list patch) (sl : slice) : option str :=
  match ps with
  | [] => None
  | p :: ps' => if (p_start p =? fst sl) && (p_end p =? snd sl) then Some (p_fixed p) else find_patch ps' sl
  end.
Definition build_up (slices : list slice) (ps : list patch) (raw : str) : str :=
  flat_map (fun sl => match find_patch ps sl with Some f => f | None => slice_str raw sl end) slices.

Definition fix_string (patches : list patch) (source_only : list slice) (raw : str) : str :=
  let fp := generate_source_patches patches in
  build_up (slice_source_file fp source_only raw) fp raw.
