(** C07 (scheduling) — the expansion loop of [lint_paths] with its [seen_files] set: whatever the
    path arguments (repeated, overlapping, the same file under several spellings), every file that
    is reached is taken exactly once, so the result holds every selected file exactly once. *)
From Sq Require Import Base.Bytes Sched.Model Sched.Proofs.
From Coq Require Import Lia Permutation PeanoNat.

Section Keep.
  Variable ident : N -> N.

  Lemma keep_arg_app : forall a b seen,
    keep_arg ident seen (a ++ b) =
      (fst (keep_arg ident seen a) ++ fst (keep_arg ident (snd (keep_arg ident seen a)) b),
       snd (keep_arg ident (snd (keep_arg ident seen a)) b)).
  Proof.
    induction a as [|p a IH]; intros b seen; cbn [app keep_arg fst snd].
    - destruct (keep_arg ident seen b); reflexivity.
    - destruct (memN (ident p) seen); [apply IH|].
      rewrite IH. destruct (keep_arg ident (ident p :: seen) a) as [k s]. cbn [fst snd app].
      reflexivity.
  Qed.

  (** the arguments one after the other = one pass over the concatenated expansions *)
  Lemma keep_all_concat : forall exps seen,
    concat (keep_all ident seen exps) = fst (keep_arg ident seen (concat exps)).
  Proof.
    induction exps as [|e es IH]; intros seen; cbn [keep_all concat]; [reflexivity|].
    rewrite keep_arg_app. cbn [fst].
    destruct (keep_arg ident seen e) as [k s]. cbn [concat fst snd]. rewrite IH. reflexivity.
  Qed.

  Lemma keep_all_length : forall exps seen, length (keep_all ident seen exps) = length exps.
  Proof.
    induction exps as [|e es IH]; intros seen; cbn [keep_all length]; [reflexivity|].
    destruct (keep_arg ident seen e) as [k s]. cbn [length]. rewrite IH. reflexivity.
  Qed.

  (** what is taken comes from the expansion and was not seen before *)
  Lemma keep_arg_sub : forall e seen p,
    In p (fst (keep_arg ident seen e)) -> In p e /\ ~ In (ident p) seen.
  Proof.
    induction e as [|q e IH]; intros seen p H; cbn [keep_arg fst] in H; [contradiction|].
    destruct (memN (ident q) seen) eqn:M.
    - apply IH in H. destruct H as [H1 H2]. split; [right; exact H1|exact H2].
    - destruct (keep_arg ident (ident q :: seen) e) as [k s] eqn:K. cbn [fst] in H.
      destruct H as [<-|H].
      + split; [left; reflexivity|]. intros C. apply memN_In in C. congruence.
      + assert (H' : In p (fst (keep_arg ident (ident q :: seen) e))) by (rewrite K; exact H).
        apply IH in H'. destruct H' as [H1 H2]. split; [right; exact H1|].
        intros C. apply H2. right. exact C.
  Qed.

  (** no identity is taken twice *)
  Lemma keep_arg_nodup : forall e seen, NoDup (map ident (fst (keep_arg ident seen e))).
  Proof.
    induction e as [|q e IH]; intros seen; cbn [keep_arg fst map]; [constructor|].
    destruct (memN (ident q) seen); [apply IH|].
    destruct (keep_arg ident (ident q :: seen) e) as [k s] eqn:K. cbn [fst map].
    constructor.
    - intros C. apply in_map_iff in C. destruct C as (r & E & Hr).
      assert (H' : In r (fst (keep_arg ident (ident q :: seen) e))) by (rewrite K; exact Hr).
      apply keep_arg_sub in H'. destruct H' as [_ H']. apply H'. left. symmetry. exact E.
    - specialize (IH (ident q :: seen)). rewrite K in IH. exact IH.
  Qed.

  (** every identity of the expansion was seen before or is taken now *)
  Lemma keep_arg_cover : forall e seen p,
    In p e -> In (ident p) seen \/ In (ident p) (map ident (fst (keep_arg ident seen e))).
  Proof.
    induction e as [|q e IH]; intros seen p H; [contradiction|].
    cbn [keep_arg]. destruct (memN (ident q) seen) eqn:M.
    - destruct H as [<-|H]; [left; apply memN_In; exact M|apply IH; exact H].
    - destruct (keep_arg ident (ident q :: seen) e) as [k s] eqn:K. cbn [fst map].
      destruct H as [<-|H]; [right; left; reflexivity|].
      destruct (IH (ident q :: seen) p H) as [[E|C]|C].
      + right. left. exact E.
      + left. exact C.
      + right. right. rewrite K in C. exact C.
  Qed.

  Variable exps : list (list N).

  Lemma kept_length : length (kept ident exps) = length exps.
  Proof. apply keep_all_length. Qed.

  Lemma kept_nodup_ident : NoDup (map ident (expanded (kept ident exps))).
  Proof. unfold expanded, kept. rewrite keep_all_concat. apply keep_arg_nodup. Qed.

  Lemma kept_nodup : NoDup (expanded (kept ident exps)).
  Proof. eapply NoDup_map_inv. exact kept_nodup_ident. Qed.

  Lemma kept_sub : forall p, In p (expanded (kept ident exps)) -> In p (expanded exps).
  Proof.
    intros p H. unfold expanded, kept in H. rewrite keep_all_concat in H.
    apply keep_arg_sub in H. exact (proj1 H).
  Qed.

  Lemma kept_cover : forall p, In p (expanded exps) ->
    In (ident p) (map ident (expanded (kept ident exps))).
  Proof.
    intros p H. unfold expanded, kept. rewrite keep_all_concat.
    destruct (keep_arg_cover (concat exps) [] p H) as [C|C]; [contradiction|exact C].
  Qed.

  (** the identities taken are exactly the identities reached *)
  Lemma kept_reached : forall f,
    memN f (map ident (expanded (kept ident exps))) = existsb (fun p => ident p =? f) (expanded exps).
  Proof.
    intros f. destruct (existsb _ (expanded exps)) eqn:E.
    - apply existsb_exists in E. destruct E as (p & Hp & E). apply N.eqb_eq in E. subst f.
      apply memN_In. apply kept_cover. exact Hp.
    - destruct (memN f _) eqn:M; [|reflexivity].
      apply memN_In in M. apply in_map_iff in M. destruct M as (q & Eq & Hq).
      apply kept_sub in Hq.
      assert (X : existsb (fun p => ident p =? f) (expanded exps) = true).
      { apply existsb_exists. exists q. split; [exact Hq|]. apply N.eqb_eq. exact Eq. }
      congruence.
  Qed.
End Keep.

Lemma filter_map_comm : forall A B (g : A -> B) (t : B -> bool) l,
  filter t (map g l) = map g (filter (fun x => t (g x)) l).
Proof.
  intros A B g t l. induction l as [|x l IH]; [reflexivity|].
  cbn [map filter]. destruct (t (g x)); cbn [map]; rewrite IH; reflexivity.
Qed.

Lemma filter_filter_comm : forall A (f g : A -> bool) l,
  filter f (filter g l) = filter g (filter f l).
Proof.
  intros A f g l. induction l as [|x l IH]; [reflexivity|].
  cbn [filter]. destruct (g x) eqn:G, (f x) eqn:F; cbn [filter]; rewrite ?G, ?F, IH; reflexivity.
Qed.

Lemma filter_false : forall A (f : A -> bool) l, (forall x, In x l -> f x = false) -> filter f l = [].
Proof.
  intros A f l H. induction l as [|x l IH]; [reflexivity|].
  cbn [filter]. rewrite (H x (or_introl eq_refl)). apply IH. intros y Hy. apply H. right. exact Hy.
Qed.

Lemma filter_true : forall A (f : A -> bool) l, (forall x, In x l -> f x = true) -> filter f l = l.
Proof.
  intros A f l H. induction l as [|x l IH]; [reflexivity|].
  cbn [filter]. rewrite (H x (or_introl eq_refl)). f_equal. apply IH. intros y Hy. apply H. right. exact Hy.
Qed.

Lemma filter_len_le : forall A (f : A -> bool) l, (length (filter f l) <= length l)%nat.
Proof.
  intros A f l. induction l as [|x l IH]; [reflexivity|].
  cbn [filter]. destruct (f x); cbn [length]; lia.
Qed.

Section Once.
  Variable res : Type.
  Variable lint : N -> res.
  Variable ident : N -> N.
  Variable exps : list (list N).

  Notation ex := (kept ident exps).

  (** entries of the result that belong to the file [f] *)
  Definition of_file (f : N) (bs : list (list (N * res))) : list (N * res) :=
    filter (fun e : N * res => ident (fst e) =? f) (concat bs).

  Lemma of_file_selected : forall ignored order bs f,
    Permutation order (selected ignored ex) -> collect res lint ex order = Some bs ->
    Permutation (of_file f bs)
                (map (entry res lint) (filter (fun q => ident q =? f) (selected ignored ex))).
  Proof.
    intros ignored order bs f HP Hc. unfold of_file.
    pose proof (collect_multiset res lint ignored ex order bs HP Hc) as HM.
    pose proof (perm_filter _ (fun e : N * res => ident (fst e) =? f) _ _ HM) as HF.
    rewrite filter_map_comm in HF. exact HF.
  Qed.

  Lemma count_ident : forall f l, NoDup (map ident l) ->
    length (filter (fun q => ident q =? f) l) = if memN f (map ident l) then 1%nat else 0%nat.
  Proof.
    intros f l H. rewrite <- (nodup_count f (map ident l) H).
    rewrite (filter_map_comm _ _ ident (fun x => x =? f)), map_length. reflexivity.
  Qed.

  (** No panic, one directory per argument, and — for *any* ignore predicate on the spelled paths
      and any path arguments — no file has two entries in the result. *)
  Theorem dedup_at_most_once : forall ignored order,
    Permutation order (selected ignored ex) ->
    exists bs, lint_paths res lint ident exps order = Some bs /\ length bs = length exps
      /\ forall f, (length (of_file f bs) <= 1)%nat.
  Proof.
    intros ignored order HP.
    destruct (collect_buckets res lint ignored ex order HP) as (bs & Hc & Hl & _).
    exists bs. split; [exact Hc|]. split; [rewrite Hl; apply kept_length|].
    intros f. rewrite (Permutation_length (of_file_selected ignored order bs f HP Hc)), map_length.
    unfold selected. rewrite filter_filter_comm.
    etransitivity; [apply filter_len_le|].
    rewrite count_ident by apply kept_nodup_ident.
    destruct (memN f _); lia.
  Qed.

  (** With an ignore predicate that is a property of the file ([ign] on identities): every file that
      some argument reaches and that is not ignored has exactly one entry, every other file none —
      whatever the arguments, their spelling, their order and the completion order. *)
  Theorem dedup_each_file_exactly_once : forall ign order,
    Permutation order (selected (fun p => ign (ident p)) ex) ->
    exists bs, lint_paths res lint ident exps order = Some bs /\ length bs = length exps
      /\ forall f, length (of_file f bs) =
           (if existsb (fun p => ident p =? f) (expanded exps) && negb (ign f) then 1%nat else 0%nat)
         /\ Forall (fun e => In (fst e) (expanded exps) /\ snd e = lint (fst e)) (of_file f bs).
  Proof.
    intros ign order HP.
    destruct (collect_buckets res lint _ ex order HP) as (bs & Hc & Hl & _).
    exists bs. split; [exact Hc|]. split; [rewrite Hl; apply kept_length|].
    intros f. pose proof (of_file_selected _ order bs f HP Hc) as HF. split.
    - rewrite (Permutation_length HF), map_length.
      unfold selected. rewrite filter_filter_comm.
      destruct (ign f) eqn:I.
      + rewrite andb_false_r. rewrite filter_false; [reflexivity|].
        intros q Hq. apply filter_In in Hq. destruct Hq as [_ Hq]. apply N.eqb_eq in Hq.
        rewrite Hq, I. reflexivity.
      + rewrite andb_true_r. rewrite filter_true.
        * rewrite count_ident by apply kept_nodup_ident. rewrite kept_reached. reflexivity.
        * intros q Hq. apply filter_In in Hq. destruct Hq as [_ Hq]. apply N.eqb_eq in Hq.
          rewrite Hq, I. reflexivity.
    - eapply Permutation_Forall; [symmetry; exact HF|].
      apply Forall_forall. intros e He. apply in_map_iff in He. destruct He as (q & <- & Hq).
      apply filter_In in Hq. destruct Hq as [Hq _]. apply filter_In in Hq. destruct Hq as [Hq _].
      split; [apply (kept_sub ident); exact Hq|reflexivity].
  Qed.
End Once.

(** What is reported for a file does not depend on the other arguments of the invocation, on how
    they (or the file's own argument) are spelled, on the ignore predicate for other files or on the
    schedule — when linting depends on the file only ([lint p = lintf (ident p)]: [H_pure]). *)
Theorem dedup_batch_independent :
  forall res (lint : N -> res) (lintf : N -> res) ident ign1 ign2 exps1 exps2 o1 o2 bs1 bs2 f,
  (forall p, lint p = lintf (ident p)) ->
  Permutation o1 (selected (fun p => ign1 (ident p)) (kept ident exps1)) ->
  Permutation o2 (selected (fun p => ign2 (ident p)) (kept ident exps2)) ->
  lint_paths res lint ident exps1 o1 = Some bs1 -> lint_paths res lint ident exps2 o2 = Some bs2 ->
  existsb (fun p => ident p =? f) (expanded exps1) = true -> ign1 f = false ->
  existsb (fun p => ident p =? f) (expanded exps2) = true -> ign2 f = false ->
  exists e1 e2, of_file res ident f bs1 = [e1] /\ of_file res ident f bs2 = [e2]
    /\ snd e1 = lintf f /\ snd e2 = lintf f.
Proof.
  intros res lint lintf ident ign1 ign2 exps1 exps2 o1 o2 bs1 bs2 f HL P1 P2 C1 C2 R1 I1 R2 I2.
  destruct (dedup_each_file_exactly_once res lint ident exps1 ign1 o1 P1) as (b1 & E1 & _ & H1).
  destruct (dedup_each_file_exactly_once res lint ident exps2 ign2 o2 P2) as (b2 & E2 & _ & H2).
  rewrite E1 in C1. rewrite E2 in C2. injection C1 as <-. injection C2 as <-.
  destruct (H1 f) as [L1 F1]. destruct (H2 f) as [L2 F2].
  rewrite R1, I1 in L1. rewrite R2, I2 in L2. cbn [andb negb] in L1, L2.
  assert (X : forall bs e, In e (of_file res ident f bs) -> ident (fst e) = f).
  { intros bs e He. unfold of_file in He. apply filter_In in He. destruct He as [_ He].
    apply N.eqb_eq in He. exact He. }
  pose proof (X b1) as X1. pose proof (X b2) as X2.
  destruct (of_file res ident f b1) as [|e1 [|? ?]]; cbn [length] in L1; try discriminate.
  destruct (of_file res ident f b2) as [|e2 [|? ?]]; cbn [length] in L2; try discriminate.
  exists e1, e2. split; [reflexivity|]. split; [reflexivity|].
  inversion F1 as [|? ? [_ S1] _]. inversion F2 as [|? ? [_ S2] _]. subst.
  rewrite S1, S2, !HL.
  rewrite (X1 e1 (or_introl eq_refl)), (X2 e2 (or_introl eq_refl)).
  split; reflexivity.
Qed.

(** The seeded variant (the set keyed by the spelled path, as a map keyed by the path string
    decides) is refuted: [1] and [2] spell the same file, both are taken and the file has two entries. *)
Lemma kept_by_spelling_refuted :
  exists (ident : N -> N) exps order bs,
    Permutation order (selected (fun _ => false) (kept_by_spelling exps))
    /\ collect N (fun p => p) (kept_by_spelling exps) order = Some bs
    /\ length (of_file N ident 7 bs) = 2%nat.
Proof.
  exists (fun p => if p <? 3 then 7 else p), [[1; 4]; [2]], [1; 4; 2], [[(1, 1); (4, 4)]; [(2, 2)]].
  split; [vm_compute; apply Permutation_refl|]. split; reflexivity.
Qed.

(** Non-vacuity: a directory (spellings 10, 11, 12 for the files 0, 1, 2), one of its files again
    under another spelling (20 = file 1) before and after it, a repeated argument; file 2 ignored. *)
Definition exd_ident (p : N) : N := p mod 10.
Definition exd_exps : list (list N) := [[21]; [10; 11; 12]; [20]; [10; 11; 12]].
Definition exd_ign (f : N) : bool := f =? 2.
Example ex_dedup :
  kept exd_ident exd_exps = [[21]; [10; 12]; []; []]
  /\ selected (fun p => exd_ign (exd_ident p)) (kept exd_ident exd_exps) = [21; 10]
  /\ lint_paths N ex_lint exd_ident exd_exps [10; 21] = Some [[(21, 210)]; [(10, 100)]; []; []]
  /\ (exists bs, lint_paths N ex_lint exd_ident exd_exps [10; 21] = Some bs
        /\ length (of_file N exd_ident 1 bs) = 1%nat /\ length (of_file N exd_ident 2 bs) = 0%nat
        /\ length (of_file N exd_ident 5 bs) = 0%nat).
Proof.
  repeat split; try (vm_compute; reflexivity).
  eexists. split; [vm_compute; reflexivity|]. repeat split.
Qed.
