(** C07 (scheduling) — proofs: the result of [lint_paths] does not depend on the completion order. *)
From Sq Require Import Base.Bytes Sched.Model.
From Coq Require Import Lia Permutation PeanoNat.

Lemma memN_In : forall p l, memN p l = true <-> In p l.
Proof.
  intros p l. induction l as [|x l IH]; cbn [memN In]; [split; [discriminate|tauto]|].
  rewrite orb_true_iff, N.eqb_eq, IH. tauto.
Qed.

(** * the path -> directory map *)
Lemma dir_of_aux_range : forall exps i p acc j,
  dir_of_aux exps i p acc = Some j -> acc = Some j \/ (i <= j < i + length exps)%nat.
Proof.
  induction exps as [|e es IH]; intros i p acc j H; cbn [dir_of_aux] in H; [left; exact H|].
  apply IH in H. cbn [length]. destruct H as [H|H]; [|right; lia].
  destruct (memN p e); [|left; exact H]. injection H as <-. right. lia.
Qed.

Lemma dir_of_aux_some : forall exps i p j, exists k, dir_of_aux exps i p (Some j) = Some k.
Proof.
  induction exps as [|e es IH]; intros i p j; cbn [dir_of_aux]; [eauto|].
  destruct (memN p e); apply IH.
Qed.

Lemma dir_of_aux_in : forall exps i p acc,
  In p (concat exps) -> exists j, dir_of_aux exps i p acc = Some j.
Proof.
  induction exps as [|e es IH]; intros i p acc H; cbn [concat] in H; [contradiction|].
  cbn [dir_of_aux]. apply in_app_or in H. destruct H as [H|H].
  - apply memN_In in H. rewrite H. apply dir_of_aux_some.
  - apply IH. exact H.
Qed.

(** every expanded path is attributed to an existing directory: the index never panics *)
Lemma dir_of_valid : forall exps p,
  In p (concat exps) -> exists j, dir_of exps p = Some j /\ (j < length exps)%nat.
Proof.
  intros exps p H. unfold dir_of. destruct (dir_of_aux_in exps 0 p None H) as [j Hj].
  exists j. split; [exact Hj|]. apply dir_of_aux_range in Hj. destruct Hj as [Hj|Hj]; [discriminate|lia].
Qed.

(** * pushing into a bucket *)
Lemma push_at_length : forall A i (x : A) bs, length (push_at i x bs) = length bs.
Proof.
  intros A i x bs. revert i. induction bs as [|b bs IH]; intros i; [destruct i; reflexivity|].
  destruct i; cbn [push_at length]; [reflexivity|]. rewrite IH. reflexivity.
Qed.

Lemma push_at_nth : forall A i (x : A) bs k, (i < length bs)%nat ->
  nth k (push_at i x bs) [] = if Nat.eqb i k then nth k bs [] ++ [x] else nth k bs [].
Proof.
  intros A i x bs. revert i. induction bs as [|b bs IH]; intros i k Hi; cbn [length] in Hi; [lia|].
  destruct i as [|i]; cbn [push_at].
  - destruct k; reflexivity.
  - destruct k as [|k]; [reflexivity|]. cbn [nth Nat.eqb]. apply IH. lia.
Qed.

Lemma push_at_concat : forall A i (x : A) bs, (i < length bs)%nat ->
  Permutation (concat (push_at i x bs)) (x :: concat bs).
Proof.
  intros A i x bs. revert i. induction bs as [|b bs IH]; intros i Hi; cbn [length] in Hi; [lia|].
  destruct i as [|i]; cbn [push_at concat].
  - rewrite <- app_assoc. cbn [app]. symmetry. apply Permutation_middle.
  - rewrite IH by lia. symmetry. apply Permutation_middle.
Qed.

Lemma nth_repeat_nil : forall A n k, nth k (repeat (@nil A) n) [] = [].
Proof. intros A n. induction n as [|n IH]; intros [|k]; cbn; auto. Qed.

Lemma concat_repeat_nil : forall A n, concat (repeat (@nil A) n) = [].
Proof. intros A n. induction n as [|n IH]; cbn; auto. Qed.

Lemma perm_filter : forall A (f : A -> bool) l1 l2,
  Permutation l1 l2 -> Permutation (filter f l1) (filter f l2).
Proof.
  intros A f l1 l2 H. induction H as [|x l1 l2 H IH|x y l|l1 l2 l3 H1 IH1 H2 IH2]; cbn [filter].
  - constructor.
  - destruct (f x); [constructor|]; exact IH.
  - destruct (f x), (f y); try reflexivity. constructor.
  - etransitivity; eassumption.
Qed.

Section Proofs.
  Variable res : Type.
  Variable lint : N -> res.
  Variable ignored : N -> bool.
  Variable exps : list (list N).

  Notation entry := (entry res lint).
  Notation collect := (collect res lint exps).
  Notation add_one := (add_one res lint exps).
  Notation selected := (selected ignored exps).

  Definition dir_is (i : nat) (p : N) : bool :=
    match dir_of exps p with Some j => Nat.eqb j i | None => false end.

  (** The fold, from any accumulator of the right shape: it never panics on expanded paths, bucket [i]
      receives exactly the files attributed to [i], in completion order, and nothing is lost or duplicated. *)
  Lemma collect_from : forall order bs,
    length bs = length exps ->
    (forall p, In p order -> In p (concat exps)) ->
    exists bs',
      fold_left add_one order (Some bs) = Some bs'
      /\ length bs' = length exps
      /\ (forall i, nth i bs' [] = nth i bs [] ++ map entry (filter (dir_is i) order))
      /\ Permutation (concat bs') (concat bs ++ map entry order).
  Proof.
    induction order as [|p order IH]; intros bs Hlen Hin.
    - exists bs. cbn [fold_left filter map]. repeat split; try assumption.
      + intros i. rewrite app_nil_r. reflexivity.
      + rewrite app_nil_r. reflexivity.
    - destruct (dir_of_valid exps p (Hin p (or_introl eq_refl))) as [j [Hj Hlt]].
      cbn [fold_left]. unfold Model.add_one at 2. rewrite Hj.
      destruct (IH (push_at j (entry p) bs)) as (bs' & Hf & Hl & Hn & Hp).
      + rewrite push_at_length. exact Hlen.
      + intros q Hq. apply Hin. right. exact Hq.
      + exists bs'. split; [exact Hf|]. split; [exact Hl|]. split.
        * intros i. rewrite Hn, push_at_nth by (rewrite Hlen; exact Hlt).
          cbn [filter]. unfold dir_is at 2. rewrite Hj.
          destruct (Nat.eqb j i); [|reflexivity].
          rewrite <- app_assoc. reflexivity.
        * rewrite Hp. cbn [map].
          rewrite (push_at_concat _ j (entry p) bs) by (rewrite Hlen; exact Hlt).
          cbn [app]. apply Permutation_middle.
  Qed.

  Lemma selected_expanded : forall order p,
    Permutation order selected -> In p order -> In p (concat exps).
  Proof.
    intros order p HP Hin. apply (Permutation_in _ HP) in Hin.
    unfold Model.selected in Hin. apply filter_In in Hin. exact (proj1 Hin).
  Qed.

  (** No panic, and each directory's file list is exactly the selected files attributed to it, in the
      order in which they completed. *)
  Theorem collect_buckets : forall order,
    Permutation order selected ->
    exists bs, collect order = Some bs /\ length bs = length exps
      /\ forall i, nth i bs [] = map entry (filter (dir_is i) order).
  Proof.
    intros order HP. unfold Model.collect.
    destruct (collect_from order (repeat [] (length exps))) as (bs & Hf & Hl & Hn & _).
    - apply repeat_length.
    - intros p. apply selected_expanded. exact HP.
    - exists bs. split; [exact Hf|]. split; [exact Hl|].
      intros i. rewrite Hn, nth_repeat_nil. reflexivity.
  Qed.

  (** Fan-in loses and duplicates nothing: as a multiset, the result is one entry per selected file. *)
  Theorem collect_multiset : forall order bs,
    Permutation order selected -> collect order = Some bs ->
    Permutation (concat bs) (map entry selected).
  Proof.
    intros order bs HP Hc. unfold Model.collect in Hc.
    destruct (collect_from order (repeat [] (length exps))) as (bs' & Hf & _ & _ & Hp).
    - apply repeat_length.
    - intros p. apply selected_expanded. exact HP.
    - rewrite Hf in Hc. injection Hc as <-.
      rewrite Hp, concat_repeat_nil. cbn [app]. apply Permutation_map. exact HP.
  Qed.

  (** Independence of the schedule: two completion orders give, directory by directory, the same
      files with the same results (as multisets: the order inside a directory is the completion order). *)
  Theorem schedule_independent : forall o1 o2 bs1 bs2,
    Permutation o1 selected -> Permutation o2 selected ->
    collect o1 = Some bs1 -> collect o2 = Some bs2 ->
    length bs1 = length bs2 /\ forall i, Permutation (nth i bs1 []) (nth i bs2 []).
  Proof.
    intros o1 o2 bs1 bs2 H1 H2 C1 C2.
    destruct (collect_buckets o1 H1) as (b1 & E1 & L1 & N1).
    destruct (collect_buckets o2 H2) as (b2 & E2 & L2 & N2).
    rewrite E1 in C1. rewrite E2 in C2. injection C1 as <-. injection C2 as <-.
    split; [congruence|]. intros i. rewrite N1, N2.
    apply Permutation_map, perm_filter.
    etransitivity; [exact H1|symmetry; exact H2].
  Qed.

  Lemma filter_entry : forall p l,
    filter (fun e : N * res => fst e =? p) (map entry l) = map entry (filter (fun q => q =? p) l).
  Proof.
    intros p l. induction l as [|q l IH]; [reflexivity|].
    cbn [map filter entry fst]. unfold Model.entry at 1. cbn [fst].
    destruct (q =? p); cbn [map]; rewrite IH; reflexivity.
  Qed.

  Lemma nodup_count : forall p l, NoDup l ->
    length (filter (fun q => q =? p) l) = if memN p l then 1%nat else 0%nat.
  Proof.
    intros p l H. induction H as [|q l Hni Hnd IH]; [reflexivity|].
    cbn [filter memN]. destruct (q =? p) eqn:E; cbn [orb length].
    - apply N.eqb_eq in E. subst q. rewrite IH.
      destruct (memN p l) eqn:M; [apply memN_In in M; contradiction|reflexivity].
    - exact IH.
  Qed.

  (** Every selected file appears exactly once in the result (and no other file appears), with the
      result of linting that file — provided the expansion lists no file twice. *)
  Theorem each_exactly_once : forall order bs p,
    NoDup (expanded exps) ->
    Permutation order selected -> collect order = Some bs ->
    let es := filter (fun e : N * res => fst e =? p) (concat bs) in
    length es = (if memN p selected then 1%nat else 0%nat) /\ Forall (fun e => e = entry p) es.
  Proof.
    intros order bs p Hnd HP Hc es.
    pose proof (collect_multiset order bs HP Hc) as HM.
    pose proof (perm_filter _ (fun e : N * res => fst e =? p) _ _ HM) as HF.
    fold es in HF. rewrite filter_entry in HF. split.
    - rewrite (Permutation_length HF), map_length. apply nodup_count.
      unfold Model.selected. apply NoDup_filter. exact Hnd.
    - eapply Permutation_Forall; [symmetry; exact HF|].
      apply Forall_forall. intros e He. apply in_map_iff in He. destruct He as (q & <- & Hq).
      apply filter_In in Hq. destruct Hq as [_ Hq]. apply N.eqb_eq in Hq. subst q. reflexivity.
  Qed.
End Proofs.

(** The result for one file does not depend on the rest of the batch: whatever the other arguments,
    the ignore predicate on other files and the schedule, its entry is [lint p]. *)
Theorem batch_independent : forall res lint ign1 ign2 exps1 exps2 o1 o2 bs1 bs2 p,
  NoDup (expanded exps1) -> NoDup (expanded exps2) ->
  Permutation o1 (selected ign1 exps1) -> Permutation o2 (selected ign2 exps2) ->
  collect res lint exps1 o1 = Some bs1 -> collect res lint exps2 o2 = Some bs2 ->
  memN p (selected ign1 exps1) = true -> memN p (selected ign2 exps2) = true ->
  exists e, filter (fun e : N * res => fst e =? p) (concat bs1) = [e]
         /\ filter (fun e : N * res => fst e =? p) (concat bs2) = [e] /\ e = (p, lint p).
Proof.
  intros res lint ign1 ign2 exps1 exps2 o1 o2 bs1 bs2 p N1 N2 P1 P2 C1 C2 M1 M2.
  destruct (each_exactly_once res lint ign1 exps1 o1 bs1 p N1 P1 C1) as [L1 F1].
  destruct (each_exactly_once res lint ign2 exps2 o2 bs2 p N2 P2 C2) as [L2 F2].
  rewrite M1 in L1. rewrite M2 in L2.
  exists (p, lint p).
  destruct (filter _ (concat bs1)) as [|e1 [|? ?]]; cbn [length] in L1; try discriminate.
  destruct (filter _ (concat bs2)) as [|e2 [|? ?]]; cbn [length] in L2; try discriminate.
  inversion F1 as [|? ? E1 _]; inversion F2 as [|? ? E2 _]; subst.
  repeat split.
Qed.

(** Non-vacuity: two arguments, one file ignored, two different completion orders. *)
Definition ex_exps : list (list N) := [[1; 2; 3]; [4; 5]].
Definition ex_ign (p : N) : bool := p =? 2.
Definition ex_lint (p : N) : N := 10 * p.
Example ex_orders :
  NoDup (expanded ex_exps)
  /\ Permutation [5; 1; 4; 3] (selected ex_ign ex_exps)
  /\ collect N ex_lint ex_exps [5; 1; 4; 3] = Some [[(1, 10); (3, 30)]; [(5, 50); (4, 40)]]
  /\ collect N ex_lint ex_exps [3; 4; 5; 1] = Some [[(3, 30); (1, 10)]; [(4, 40); (5, 50)]].
Proof.
  split.
  - cbn. repeat constructor; cbn; intuition discriminate.
  - split; [|split; vm_compute; reflexivity].
    vm_compute.
    apply (perm_trans (l' := [1; 5; 4; 3])); [apply perm_swap|].
    apply perm_skip.
    apply (perm_trans (l' := [4; 5; 3])); [apply perm_swap|].
    apply (perm_trans (l' := [4; 3; 5])); [apply perm_skip, perm_swap|].
    apply perm_swap.
Qed.
