(** C07 (purity) — proofs. *)
From Sq Require Import Base.Bytes Sched.PureModel.
From Coq Require Import Lia.

Section Loop.
  Variable tree key rule : Type.
  Variable key_eqb : key -> key -> bool.
  Variable key_of : tree -> key.
  Variable rule_phase : rule -> phase.
  Variable fix_compatible : rule -> bool.
  Variable crawl : rule -> tree -> option tree.
  Variable rules : list rule.

  Notation rule_step := (rule_step tree key rule key_eqb key_of fix_compatible crawl).
  Notation lint_fix_parsed := (lint_fix_parsed tree key rule key_eqb key_of rule_phase fix_compatible crawl rules).

  Lemma lint_rule_step : forall first ph pass rs s,
    fold_left (rule_step false first ph pass) rs s = s.
  Proof.
    intros first ph pass rs. induction rs as [|r rs IH]; intros s; [reflexivity|].
    cbn [fold_left]. unfold PureModel.rule_step at 2. cbn [andb].
    destruct (crawl r (cur _ _ _ s)); apply IH.
  Qed.

  (** Lint mode: exactly one pass of the main phase, whatever the rules propose; the tree handed
      back is the tree handed in. *)
  Theorem lint_mode_applies_nothing : forall t,
    lint_fix_parsed false t = (t, [PassEnd Main 0 false]).
  Proof.
    intros t. unfold PureModel.lint_fix_parsed. cbn [passes andb].
    rewrite lint_rule_step. reflexivity.
  Qed.

  Lemma clean_rule_step : forall fixm first ph pass rs s,
    (forall r t, crawl r t = None) ->
    fold_left (rule_step fixm first ph pass) rs s = s.
  Proof.
    intros fixm first ph pass rs. induction rs as [|r rs IH]; intros s H; [reflexivity|].
    cbn [fold_left]. unfold PureModel.rule_step at 2. rewrite H.
    destruct (fixm && negb first && negb (fix_compatible r)); apply IH; exact H.
  Qed.

  Notation passes := (passes tree key rule key_eqb key_of rule_phase fix_compatible crawl rules).

  Lemma passes_clean : forall ph fp fuel pass s,
    (forall r t, crawl r t = None) ->
    passes true ph fp (S fuel) pass s =
    mkst _ _ _ (cur _ _ _ s) (seen _ _ _ s) false (PassEnd ph pass false :: trace _ _ _ s).
  Proof.
    intros ph fp fuel pass s H. cbn [PureModel.passes].
    rewrite clean_rule_step by exact H. reflexivity.
  Qed.

  (** Fix mode on a file for which no rule proposes a fix: one pass per phase, same tree. *)
  Theorem fix_mode_clean_file : forall t,
    (forall r t', crawl r t' = None) ->
    lint_fix_parsed true t = (t, [PassEnd Main 0 false; PassEnd Post 0 false]).
  Proof.
    intros t H. unfold PureModel.lint_fix_parsed.
    rewrite !passes_clean by exact H. reflexivity.
  Qed.
End Loop.

(** * [fix_string] with no patch is the identity on the source *)
Lemma firstn_length_all : forall (raw : str), firstn (N.to_nat (N.of_nat (length raw) - 0)) (skipn (N.to_nat 0) raw) = raw.
Proof.
  intros raw. rewrite N.sub_0_r, Nat2N.id. cbn [N.to_nat skipn]. apply firstn_all.
Qed.

Theorem fix_string_no_patches : forall source_only raw, fix_string [] source_only raw = raw.
Proof.
  intros so raw. unfold fix_string, generate_source_patches. cbn [dedupe fold_right].
  unfold slice_source_file. cbn [slice_loop].
  destruct (0 <? N.of_nat (length raw)) eqn:E.
  - cbn [app build_up flat_map find_patch]. unfold slice_str. cbn [fst snd].
    rewrite firstn_length_all. apply app_nil_r.
  - apply N.ltb_ge in E. destruct raw as [|c raw]; [reflexivity|]. cbn [length] in E. lia.
Qed.

(** Linting without fixm changes nothing: if the freshly parsed tree yields no patch (every segment's
    raw is its templated slice: the lexer/parser invariants of C01/C02, monitored as [H_parse_patches]),
    then the lint-only result carries no patch and its fixed string is the source. *)
Theorem lint_no_change :
  forall tree key rule key_eqb key_of rule_phase fix_compatible crawl rules
         (iter_patches : tree -> list patch) t source_only raw,
    iter_patches t = [] ->
    let t' := fst (lint_fix_parsed tree key rule key_eqb key_of rule_phase fix_compatible crawl rules false t) in
    t' = t /\ iter_patches t' = [] /\ fix_string (iter_patches t') source_only raw = raw.
Proof.
  intros tree key rule key_eqb key_of rule_phase fix_compatible crawl rules iter_patches t so raw H t'.
  assert (E : t' = t) by (unfold t'; rewrite lint_mode_applies_nothing; reflexivity).
  rewrite E, H. repeat split. apply fix_string_no_patches.
Qed.

(** Non-vacuity: a rule set that does propose fixes (so fixm mode changes the tree), on which lint
    mode still returns the input; and [fix_string] does change the text when there is a patch. *)
Definition ex_crawl (r : N) (t : N) : option N := if t <? 3 then Some (t + 1) else None.
Example ex_loop :
  lint_fix_parsed N N N N.eqb (fun t => t) (fun _ => Main) (fun _ => true) ex_crawl [7; 8] false 0
    = (0, [PassEnd Main 0 false])
  /\ fst (lint_fix_parsed N N N N.eqb (fun t => t) (fun _ => Main) (fun _ => true) ex_crawl [7; 8] true 0) = 3.
Proof. split; vm_compute; reflexivity. Qed.

Example ex_fix_string :
  fix_string [mkpatch 1 2 [120; 121]] [] [97; 98; 99] = [97; 120; 121; 99]
  /\ fix_string [] [(1, 2)] [97; 98; 99] = [97; 98; 99].
Proof. split; vm_compute; reflexivity. Qed.
