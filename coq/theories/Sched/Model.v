(** C07 (scheduling) — [Linter::lint_paths] (crates/lib/src/core/linter/core.rs), [LintedDir::add]
    (linted_dir.rs), [LintingResult::add] (linting_result.rs): executable model of the fan-out /
    fan-in bookkeeping.

      for each path argument i:  result.paths[i] := LintedDir(arg i);  expand arg i;
                                 for each p of the expansion not seen before (by identity, [kept] below):
                                   expanded_paths.push(p);  expanded_path_to_linted_dir[p] := i
      expanded_paths.par_iter().filter(!ignorer).map(render + lint).for_each(|f| result.paths[dir[f.path]].add(f))

    Files are identified by numbers ([N]); [lint] is the per-file function (a Section variable:
    purity of linting one file is the hypothesis [H_pure], monitored); the order in which the
    worker threads finish is an arbitrary list [order] (a permutation of the selected files). *)
From Sq Require Export Base.Bytes.

Fixpoint memN (p : N) (l : list N) : bool :=
  match l with [] => false | x :: l' => (x =? p) || memN p l' end.

(** [expanded_path_to_linted_dir]: a hash map filled by sequential inserts, so a path that occurs in
    the expansion of several arguments is attributed to the last one. *)
Fixpoint dir_of_aux (exps : list (list N)) (i : nat) (p : N) (acc : option nat) : option nat :=
  match exps with
  | [] => acc
  | e :: es => dir_of_aux es (S i) p (if memN p e then Some i else acc)
  end.
Definition dir_of (exps : list (list N)) (p : N) : option nat := dir_of_aux exps 0 p None.

(** [AppendOnlyVec::push] on the [i]-th [LintedDir] *)
Fixpoint push_at {A} (i : nat) (x : A) (bs : list (list A)) : list (list A) :=
  match bs, i with
  | [], _ => []
  | b :: bs', O => (b ++ [x]) :: bs'
  | b :: bs', S i' => b :: push_at i' x bs'
  end.

(** The expansion loop of [lint_paths] since cbbae86 ("processes a file once when path arguments
    repeat or overlap"):

      seen_files := {};  for each argument i, for each path p of its expansion (in order):
        identity := canonicalize(p) (or p itself);  if !seen_files.insert(identity) { continue }
        expanded_paths.push(p);  expanded_path_to_linted_dir.insert(p, i)

    A path is a *spelling* (a number); [ident] maps a spelling to the identity of the file it
    reaches (the canonical path: [./d/a.sql], [d//a.sql], [d/../d/a.sql], [/abs/d/a.sql] and a
    symbolic link to it are five spellings of one file). [keep_arg seen e] = (the paths of one
    expansion that are taken, the set afterwards); [kept] = what every argument contributes to
    [expanded_paths] / [expanded_path_to_linted_dir]. The rest of [lint_paths] (below) runs on [kept]. *)
Fixpoint keep_arg (ident : N -> N) (seen : list N) (e : list N) : list N * list N :=
  match e with
  | [] => ([], seen)
  | p :: e' =>
      if memN (ident p) seen then keep_arg ident seen e'
      else let '(k, s) := keep_arg ident (ident p :: seen) e' in (p :: k, s)
  end.
Fixpoint keep_all (ident : N -> N) (seen : list N) (exps : list (list N)) : list (list N) :=
  match exps with
  | [] => []
  | e :: es => let '(k, s) := keep_arg ident seen e in k :: keep_all ident s es
  end.
Definition kept (ident : N -> N) (exps : list (list N)) : list (list N) := keep_all ident [] exps.

(** The same loop keyed by the spelling instead of the identity (what a map keyed by the path
    string decides): kept for the refutation lemma of the seeded round. *)
Definition kept_by_spelling (exps : list (list N)) : list (list N) := keep_all (fun p => p) [] exps.

Section Sched.
  Variable res : Type.
  Variable lint : N -> res.
  Variable ignored : N -> bool.

  Definition expanded (exps : list (list N)) : list N := concat exps.
  Definition selected (exps : list (list N)) : list N :=
    filter (fun p => negb (ignored p)) (expanded exps).

  Definition entry (p : N) : N * res := (p, lint p).

  (** one completed file is added to the directory its path is attributed to
      ([expanded_path_to_linted_dir[&linted_file.path]] panics on a missing key: [None]) *)
  Definition add_one (exps : list (list N)) (bs : option (list (list (N * res)))) (p : N)
    : option (list (list (N * res))) :=
    match bs, dir_of exps p with
    | Some bs', Some i => Some (push_at i (entry p) bs')
    | _, _ => None
    end.

  (** the result after the files completed in the order [order] *)
  Definition collect (exps : list (list N)) (order : list N) : option (list (list (N * res))) :=
    fold_left (add_one exps) order (Some (repeat [] (length exps))).

  (** [lint_paths] as a whole: expansion with de-duplication by identity, then the fan-in *)
  Definition lint_paths (ident : N -> N) (exps : list (list N)) (order : list N)
    : option (list (list (N * res))) :=
    collect (kept ident exps) order.
End Sched.
