(** C07 (verdict) — proofs: the pass/fail verdict and the number of reported files do not depend on
    the order in which the files are dispatched to the formatter, nor on the clean files of the batch. *)
From Sq Require Import Base.Bytes Sched.VerdictModel.
From Coq Require Import Lia Permutation.

Lemma dispatch_one_spec : forall v hf n fails warns, (0 <= v)%Z ->
  dispatch_one v (hf, n) (fails, warns) = (hf || (0 <? fails), n + 1).
Proof.
  intros v hf n fails warns Hv. unfold dispatch_one. cbv beta iota zeta.
  destruct (v <? 0)%Z eqn:E; [apply Z.ltb_lt in E; lia|].
  f_equal. unfold format_filename.
  destruct (0 <? fails) eqn:F.
  - apply N.ltb_lt in F.
    assert (S : 0 <? fails + warns = true) by (apply N.ltb_lt; lia).
    assert (Z0 : fails =? 0 = false) by (apply N.eqb_neq; lia).
    rewrite S, Z0, !orb_true_r. reflexivity.
  - apply N.ltb_ge in F.
    assert (Z0 : fails =? 0 = true) by (apply N.eqb_eq; lia).
    rewrite Z0, orb_false_r. destruct (_ || _); reflexivity.
Qed.

Lemma dispatch_fold : forall v order hf n, (0 <= v)%Z ->
  fold_left (dispatch_one v) order (hf, n) = (hf || any_fail order, n + N.of_nat (length order)).
Proof.
  intros v order. induction order as [|[f w] order IH]; intros hf n Hv.
  - cbn [fold_left any_fail existsb length]. f_equal; [symmetry; apply orb_false_r|cbn; lia].
  - cbn [fold_left]. rewrite dispatch_one_spec by exact Hv. rewrite IH by exact Hv.
    unfold any_fail. cbn [existsb fst length]. rewrite orb_assoc. f_equal.
    rewrite Nat2N.inj_succ. lia.
Qed.

Lemma dispatch_quiet_fold : forall v order st, (v < 0)%Z -> fold_left (dispatch_one v) order st = st.
Proof.
  intros v order. induction order as [|[f w] order IH]; intros [hf n] Hv; cbn [fold_left]; [reflexivity|].
  assert (E : dispatch_one v (hf, n) (f, w) = (hf, n)).
  { unfold dispatch_one. cbv beta iota zeta. apply Z.ltb_lt in Hv. rewrite Hv. reflexivity. }
  rewrite E. apply IH. exact Hv.
Qed.

(** With a non-negative verbosity the verdict is "some file has a failing violation" and every file is
    counted once — whatever the verbosity, the order, and the clean or warnings-only files around. *)
Theorem verdict_spec : forall v order, (0 <= v)%Z ->
  dispatch_all v order = (any_fail order, N.of_nat (length order)).
Proof.
  intros v order Hv. unfold dispatch_all. rewrite dispatch_fold by exact Hv. reflexivity.
Qed.

Theorem verdict_quiet : forall v order, (v < 0)%Z -> dispatch_all v order = (false, 0).
Proof. intros v order Hv. unfold dispatch_all. apply dispatch_quiet_fold. exact Hv. Qed.

Lemma any_fail_perm : forall a b, Permutation a b -> any_fail a = any_fail b.
Proof.
  unfold any_fail. induction 1 as [|x a b _ IH|x y a|a b c _ IH1 _ IH2]; cbn [existsb].
  - reflexivity.
  - rewrite IH. reflexivity.
  - rewrite !orb_assoc, (orb_comm (0 <? fst y)). reflexivity.
  - rewrite IH1. exact IH2.
Qed.

(** Two dispatch orders of the same files leave the formatter in the same state. *)
Theorem verdict_order_independent : forall v o1 o2,
  Permutation o1 o2 -> dispatch_all v o1 = dispatch_all v o2.
Proof.
  intros v o1 o2 P. destruct (Z.ltb_spec v 0) as [Hv|Hv].
  - rewrite !verdict_quiet by exact Hv. reflexivity.
  - rewrite !verdict_spec by exact Hv.
    rewrite (any_fail_perm _ _ P), (Permutation_length P). reflexivity.
Qed.

(** Once a failing file has been reported the verdict stays "fail", whatever is reported next. *)
Theorem verdict_monotone : forall v a b,
  fst (dispatch_all v a) = true -> fst (dispatch_all v (a ++ b)) = true.
Proof.
  intros v a b H. destruct (Z.ltb_spec v 0) as [Hv|Hv].
  - rewrite verdict_quiet in H by exact Hv. discriminate.
  - rewrite verdict_spec in * by exact Hv. cbn [fst] in *.
    unfold any_fail in *. rewrite existsb_app. apply orb_true_iff. left. exact H.
Qed.

(** The verdict of a batch that contains a failing file does not depend on the rest of the batch. *)
Theorem verdict_batch_independent : forall v o1 o2 c,
  (0 <= v)%Z -> In c o1 -> In c o2 -> 0 < fst c ->
  fst (dispatch_all v o1) = true /\ fst (dispatch_all v o2) = true.
Proof.
  intros v o1 o2 c Hv H1 H2 Hc.
  rewrite !verdict_spec by exact Hv. cbn [fst]. unfold any_fail.
  split; apply existsb_exists; exists c; (split; [assumption|apply N.ltb_lt; exact Hc]).
Qed.

(** Non-vacuity: a failing file followed by clean files (reported at verbosity 1, silent at 0), a
    warnings-only file, both orders. *)
Example ex_verdict :
  dispatch_all 1 [(2, 0); (0, 0); (0, 1)] = (true, 3)
  /\ dispatch_all 1 [(0, 1); (0, 0); (2, 0)] = (true, 3)
  /\ dispatch_all 0 [(2, 0); (0, 1)] = (true, 2)
  /\ dispatch_all 2 [(0, 0); (0, 1)] = (false, 2)
  /\ dispatch_all (-1) [(2, 0)] = (false, 0)
  /\ Permutation [(2, 0); (0, 0); (0, 1)] [(0, 1); (0, 0); (2, 0)].
Proof.
  repeat split; try (vm_compute; reflexivity).
  apply (perm_trans (l' := [(0, 0); (2, 0); (0, 1)])); [apply perm_swap|].
  apply (perm_trans (l' := [(0, 0); (0, 1); (2, 0)])); [apply perm_skip, perm_swap|].
  apply perm_swap.
Qed.
