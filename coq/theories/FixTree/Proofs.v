(** FixTree — proofs about the model of [apply_fixes] and of the fix loop.

    Main results:
    - [apply_fixes_refines]: under unique ids, fresh edits and at most one use of the anchor
      per entry, the fuelled, map-consuming [apply_fixes] computes exactly the lookup-based
      rewriting [rw] (tree level), for every sufficient fuel;
    - [leaves_rw_rewrite]: for batches anchored on tokens, [leaves (rw m t)] is the
      list rewriting [rewrite m (leaves t)];
    - [run_preserves]: code-neutral batches preserve the code sequence and the comment
      multiset through any number of batches of the fix loop;
    - [relex_transfer]: the text-level statement from tree-level preservation and re-lex
      stability. *)
From Sq Require Import Base.Bytes FixTree.Model.
From Coq Require Import Arith.

(** * Induction principle for the nested tree type *)
Section seg_ind'.
  Variable P : seg -> Prop.
  Hypothesis HL : forall i k c r, P (Leaf i k c r).
  Hypothesis HN : forall i k cs, Forall P cs -> P (Node i k cs).
  Fixpoint seg_ind' (s : seg) : P s :=
    match s with
    | Leaf i k c r => HL i k c r
    | Node i k cs =>
        HN i k cs ((fix go (l : list seg) : Forall P l :=
                      match l with
                      | [] => Forall_nil P
                      | x :: l' => Forall_cons x (seg_ind' x) (go l')
                      end) cs)
    end.
End seg_ind'.

(** * Reflection of the boolean equalities *)
Lemma str_eqb_eq : forall a b : str, str_eqb a b = true <-> a = b.
Proof.
  induction a as [|x a IH]; destruct b as [|y b]; cbn; split; intro H; try discriminate; auto.
  - apply andb_true_iff in H. destruct H as [H1 H2]. apply N.eqb_eq in H1. apply IH in H2. congruence.
  - inversion H; subst. apply andb_true_iff. split; [apply N.eqb_refl | apply IH; reflexivity].
Qed.
Lemma str_eqb_refl : forall a, str_eqb a a = true.
Proof. intro a. apply str_eqb_eq. reflexivity. Qed.

Lemma strs_eqb_eq : forall a b : list str, strs_eqb a b = true <-> a = b.
Proof.
  unfold strs_eqb.
  induction a as [|x a IH]; destruct b as [|y b]; cbn; split; intro H; try discriminate; auto.
  - apply andb_true_iff in H. destruct H as [H1 H2]. apply str_eqb_eq in H1. apply IH in H2. congruence.
  - inversion H; subst. apply andb_true_iff. split; [apply str_eqb_refl | apply IH; reflexivity].
Qed.

Lemma nodupb_NoDup : forall l, nodupb l = true -> NoDup l.
Proof.
  induction l as [|x l IH]; cbn; intro H; [constructor|].
  apply andb_true_iff in H. destruct H as [H1 H2]. constructor; [|auto].
  intro Hin. apply negb_true_iff in H1.
  assert (existsb (N.eqb x) l = true) as E.
  { apply existsb_exists. exists x. split; [assumption | apply N.eqb_refl]. }
  congruence.
Qed.

(** * Association-list facts *)
Lemma lookup_remove_same : forall i m, lookup i (remove i m) = None.
Proof.
  intros i m. induction m as [|[j e] m IH]; cbn; [reflexivity|].
  destruct (j =? i) eqn:E; cbn; [assumption|]. rewrite E. assumption.
Qed.
Lemma lookup_remove_other : forall i j m, j <> i -> lookup j (remove i m) = lookup j m.
Proof.
  intros i j m Hne. induction m as [|[k e] m IH]; cbn; [reflexivity|].
  destruct (k =? i) eqn:E; cbn.
  - apply N.eqb_eq in E. subst k. destruct (i =? j) eqn:E2; [apply N.eqb_eq in E2; congruence | assumption].
  - destruct (k =? j); [reflexivity | assumption].
Qed.
Lemma lookup_nil_all : forall m i, is_nil m = true -> lookup i m = None.
Proof. intros [|p m] i H; [reflexivity | discriminate]. Qed.

Definition shrinks (m m' : fmap) : Prop :=
  forall j, lookup j m' = lookup j m \/ lookup j m' = None.
Definition shrinks_on (S : list N) (m m' : fmap) : Prop :=
  forall j, lookup j m' = lookup j m \/ (In j S /\ lookup j m' = None).

Lemma shrinks_on_shrinks : forall S m m', shrinks_on S m m' -> shrinks m m'.
Proof. intros S m m' H j. destruct (H j) as [E|[_ E]]; auto. Qed.
Lemma shrinks_refl : forall m, shrinks m m.
Proof. intros m j. auto. Qed.
Lemma shrinks_on_refl : forall S m, shrinks_on S m m.
Proof. intros S m j. auto. Qed.
Lemma shrinks_trans : forall a b c, shrinks a b -> shrinks b c -> shrinks a c.
Proof.
  intros a b c H1 H2 j. destruct (H2 j) as [E|E]; [|auto].
  rewrite E. apply H1.
Qed.
Lemma shrinks_on_trans : forall S1 S2 S a b c,
  (forall j, In j S1 -> In j S) -> (forall j, In j S2 -> In j S) ->
  shrinks_on S1 a b -> shrinks_on S2 b c -> shrinks_on S a c.
Proof.
  intros S1 S2 S a b c I1 I2 H1 H2 j.
  destruct (H2 j) as [E|[Hin E]].
  - rewrite E. destruct (H1 j) as [E1|[Hin1 E1]]; auto.
  - right. auto.
Qed.

(** * Ids *)
Lemma all_ids_cons : forall s, all_ids s = seg_id s :: desc_ids s.
Proof. destruct s; reflexivity. Qed.

Lemma root_in_flat : forall c cs, In c cs -> In (seg_id c) (flat_map all_ids cs).
Proof.
  intros c cs H. apply in_flat_map. exists c. split; [assumption|].
  rewrite all_ids_cons. left. reflexivity.
Qed.
Lemma desc_in_flat : forall c cs j, In c cs -> In j (desc_ids c) -> In j (flat_map all_ids cs).
Proof.
  intros c cs j H Hj. apply in_flat_map. exists c. split; [assumption|].
  rewrite all_ids_cons. right. assumption.
Qed.

Lemma NoDup_app_split : forall (a b : list N),
  NoDup (a ++ b) -> NoDup a /\ NoDup b /\ (forall x, In x a -> ~ In x b).
Proof.
  induction a as [|x a IH]; cbn; intros b H.
  - split; [constructor|]. split; [assumption|]. intros x [].
  - inversion H as [|? ? Hnin Hnd]; subst.
    destruct (IH b Hnd) as [Ha [Hb Hd]].
    split; [constructor; [intro Hx; apply Hnin; apply in_or_app; auto | assumption]|].
    split; [assumption|].
    intros y [Hy|Hy] Hyb; [subst y; apply Hnin; apply in_or_app; auto | exact (Hd y Hy Hyb)].
Qed.

Lemma roots_nodup : forall cs, NoDup (flat_map all_ids cs) -> NoDup (map seg_id cs).
Proof.
  induction cs as [|c cs IH]; cbn; intro H; [constructor|].
  apply NoDup_app_split in H. destruct H as [Hc [Hcs Hd]].
  constructor; [|auto].
  intro Hin. apply in_map_iff in Hin. destruct Hin as [c2 [E Hc2]].
  apply (Hd (seg_id c)).
  - rewrite all_ids_cons. left. reflexivity.
  - rewrite <- E. apply root_in_flat. assumption.
Qed.

Lemma desc_not_root : forall cs c j,
  NoDup (flat_map all_ids cs) -> In c cs -> In j (desc_ids c) -> ~ In j (map seg_id cs).
Proof.
  induction cs as [|c0 cs IH]; cbn; intros c j H Hc Hj; [contradiction|].
  apply NoDup_app_split in H. destruct H as [Hc0 [Hcs Hd]].
  intros [E|Hin].
  - (* j is the id of c0 *)
    destruct Hc as [Hc|Hc].
    + subst c. rewrite all_ids_cons in Hc0. inversion Hc0; subst. congruence.
    + apply (Hd j).
      * rewrite all_ids_cons. left. assumption.
      * eapply desc_in_flat; eassumption.
  - destruct Hc as [Hc|Hc].
    + subst c. apply (Hd j).
      * rewrite all_ids_cons. right. assumption.
      * apply in_map_iff in Hin. destruct Hin as [c2 [E Hc2]]. rewrite <- E. apply root_in_flat. assumption.
    + exact (IH c j Hcs Hc Hj Hin).
Qed.

(** * [rw] depends only on the lookups below the segment *)
Definition clean (m : fmap) (s : seg) : Prop :=
  forall j, In j (desc_ids s) -> lookup j m = None.

Lemma flat_map_ext_in : forall {A B} (f g : A -> list B) l,
  (forall x, In x l -> f x = g x) -> flat_map f l = flat_map g l.
Proof.
  intros A B f g l H. induction l as [|x l IH]; cbn; [reflexivity|].
  rewrite H by (left; reflexivity). rewrite IH; [reflexivity|].
  intros y Hy. apply H. right. assumption.
Qed.

Lemma rw_ext : forall m m' s,
  (forall j, In j (desc_ids s) -> lookup j m = lookup j m') -> rw m s = rw m' s.
Proof.
  intros m m' s. induction s as [i k c r | i k cs IH] using seg_ind'; intro H; [reflexivity|].
  cbn. f_equal. apply flat_map_ext_in. intros c Hc.
  rewrite Forall_forall in IH.
  assert (rw m c = rw m' c) as E.
  { apply IH; [assumption|]. intros j Hj. apply H. cbn. eapply desc_in_flat; eassumption. }
  rewrite E. rewrite (H (seg_id c)) by (cbn; apply root_in_flat; assumption). reflexivity.
Qed.

Lemma flat_map_singleton_id : forall (f : seg -> seg) l,
  (forall x, In x l -> f x = x) -> flat_map (fun c => [f c]) l = l.
Proof.
  intros f l H. induction l as [|x l IH]; cbn; [reflexivity|].
  rewrite H by (left; reflexivity). f_equal. apply IH. intros y Hy. apply H. right. assumption.
Qed.

Lemma rw_clean : forall m s, clean m s -> rw m s = s.
Proof.
  intros m s. induction s as [i k c r | i k cs IH] using seg_ind'; intro H; [reflexivity|].
  cbn. f_equal. rewrite Forall_forall in IH.
  rewrite (flat_map_ext_in _ (fun c => [rw m c])).
  - apply flat_map_singleton_id. intros c Hc. apply IH; [assumption|].
    intros j Hj. apply H. cbn. eapply desc_in_flat; eassumption.
  - intros c Hc. rewrite (H (seg_id c)); [reflexivity|]. cbn. apply root_in_flat. assumption.
Qed.

(** * A segment none of whose descendants is anchored is returned unchanged *)
Lemma scan_clean : forall cs m,
  (forall c, In c cs -> lookup (seg_id c) m = None) -> scan cs m = (cs, m).
Proof.
  induction cs as [|c cs IH]; intros m H; cbn; [reflexivity|].
  rewrite H by (left; reflexivity). rewrite IH; [reflexivity|].
  intros c2 Hc2. apply H. right. assumption.
Qed.

Lemma map_thread_id : forall f l m,
  (forall x, In x l -> f x m = Some (x, m)) -> map_thread f l m = Some (l, m).
Proof.
  intros f l m H. induction l as [|x l IH]; cbn; [reflexivity|].
  rewrite H by (left; reflexivity). rewrite IH; [reflexivity|].
  intros y Hy. apply H. right. assumption.
Qed.

Local Open Scope nat_scope.

Lemma height_child : forall c cs, In c cs -> height c <= list_max (map height cs).
Proof.
  intros c cs H.
  assert (Forall (fun k => k <= list_max (map height cs)) (map height cs)) as F.
  { apply list_max_le. apply le_n. }
  rewrite Forall_forall in F. apply F. apply in_map. assumption.
Qed.

Lemma clean_noop : forall fuel s m,
  height s < fuel -> clean m s -> apply_fixes fuel s m = Some (s, m).
Proof.
  induction fuel as [|n IH]; intros s m Hh Hc; [inversion Hh|].
  destruct s as [i k c r | i k cs]; cbn [apply_fixes]; [reflexivity|].
  destruct (is_nil m || is_nil cs); [reflexivity|].
  rewrite scan_clean.
  - rewrite map_thread_id; [reflexivity|].
    intros x Hx. apply IH.
    + cbn in Hh. pose proof (height_child x cs Hx). lia.
    + intros j Hj. apply Hc. cbn. eapply desc_in_flat; eassumption.
  - intros c Hcin. apply Hc. cbn. apply root_in_flat. assumption.
Qed.

(** * The first loop: [scan] selects by lookup in the map it started from *)
Definition sel (m : fmap) (c : seg) : list seg :=
  match lookup (seg_id c) m with None => [c] | Some e => expand c e end.

Lemma scan_spec : forall cs m buf m1,
  NoDup (map seg_id cs) -> scan cs m = (buf, m1) ->
  buf = flat_map (sel m) cs /\ shrinks_on (map seg_id cs) m m1.
Proof.
  induction cs as [|c cs IH]; intros m buf m1 Hnd H; cbn in H.
  - inversion H; subst. split; [reflexivity | apply shrinks_on_refl].
  - inversion Hnd as [|? ? Hnin Hnd']; subst.
    destruct (lookup (seg_id c) m) as [e|] eqn:El.
    + destruct (scan cs (remove (seg_id c) m)) as [r m'] eqn:Es. inversion H; subst.
      destruct (IH _ _ _ Hnd' Es) as [Er Hs]. split.
      * cbn. unfold sel at 1. rewrite El. f_equal. rewrite Er.
        apply flat_map_ext_in. intros c2 Hc2. unfold sel.
        rewrite lookup_remove_other; [reflexivity|].
        intro E. apply Hnin. rewrite <- E. apply in_map. assumption.
      * intro j. destruct (Hs j) as [E|[Hin E]].
        -- destruct (N.eq_dec j (seg_id c)) as [Ej|Ej].
           ++ right. split; [left; auto|]. rewrite E. subst j. apply lookup_remove_same.
           ++ left. rewrite E. apply lookup_remove_other. assumption.
        -- right. split; [right; assumption | assumption].
    + destruct (scan cs m) as [r m'] eqn:Es. inversion H; subst.
      destruct (IH _ _ _ Hnd' Es) as [Er Hs]. split.
      * cbn. unfold sel at 1. rewrite El. cbn. f_equal. assumption.
      * intro j. destruct (Hs j) as [E|[Hin E]]; [left; assumption | right; split; [right; assumption | assumption]].
Qed.

(** * The second loop over one expanded entry *)
Lemma map_thread_app : forall f l1 l2 m r1 m1 r2 m2,
  map_thread f l1 m = Some (r1, m1) -> map_thread f l2 m1 = Some (r2, m2) ->
  map_thread f (l1 ++ l2) m = Some (r1 ++ r2, m2).
Proof.
  intros f. induction l1 as [|x l1 IH]; intros l2 m r1 m1 r2 m2 H1 H2; cbn in *.
  - inversion H1; subst. assumption.
  - destruct (f x m) as [[x' m']|]; [|discriminate].
    destruct (map_thread f l1 m') as [[r m'']|] eqn:E; [|discriminate].
    inversion H1; subst. rewrite (IH _ _ _ _ _ _ E H2). reflexivity.
Qed.

Lemma thread_items_noanchor : forall f its c c' m,
  (forall x, In (Edit x) its -> f x m = Some (x, m)) ->
  filter uses_anchor its = [] ->
  map_thread f (map (fill c) its) m = Some (map (fill c') its, m).
Proof.
  intros f its c c' m. induction its as [|it its IH]; intros He Hf; cbn; [reflexivity|].
  destruct it as [|x]; cbn in Hf; [discriminate|].
  cbn. rewrite He by (left; reflexivity). rewrite IH; [reflexivity | | assumption].
  intros y Hy. apply He. right. assumption.
Qed.

Lemma thread_items : forall f its c c' mcur m'' D,
  (forall x, In (Edit x) its -> forall m', shrinks mcur m' -> f x m' = Some (x, m')) ->
  f c mcur = Some (c', m'') -> shrinks_on D mcur m'' ->
  length (filter uses_anchor its) <= 1 ->
  exists mfin, map_thread f (map (fill c) its) mcur = Some (map (fill c') its, mfin)
               /\ shrinks_on D mcur mfin.
Proof.
  intros f its c c' mcur m'' D. induction its as [|it its IH]; intros He Hc Hs Hn.
  - exists mcur. split; [reflexivity | apply shrinks_on_refl].
  - destruct it as [|x].
    + (* the anchor: the rest holds no anchor *)
      cbn in Hn. assert (filter uses_anchor its = []) as Hnone.
      { destruct (filter uses_anchor its); [reflexivity | cbn in Hn; lia]. }
      exists m''. split; [|assumption].
      cbn. rewrite Hc. rewrite (thread_items_noanchor f its c c' m''); [reflexivity | | assumption].
      intros x Hx. apply He; [right; assumption|]. eapply shrinks_on_shrinks; eassumption.
    + cbn in Hn. destruct IH as [mfin [E Hsf]].
      * intros y Hy. apply He. right. assumption.
      * assumption.
      * assumption.
      * assumption.
      * exists mfin. split; [|assumption].
        cbn. rewrite (He x (or_introl eq_refl) mcur (shrinks_refl mcur)). rewrite E. reflexivity.
Qed.

Lemma reorder_in : forall e f, In f (reorder e) -> In f e.
Proof.
  intros e f H. destruct e as [|a [|b [|c e]]]; cbn in H; try assumption.
  destruct (f_type a); cbn in *; tauto.
Qed.

Lemma piece_edit : forall n f x, In (Edit x) (piece n f) -> In x (f_edit f).
Proof.
  intros n f x H. unfold piece in H.
  destruct (f_type f).
  - contradiction.
  - apply in_map_iff in H. destruct H as [y [E Hy]]. inversion E; subst. assumption.
  - apply in_app_or in H. destruct H as [H|[H|[]]]; [|discriminate].
    apply in_map_iff in H. destruct H as [y [E Hy]]. inversion E; subst. assumption.
  - apply in_app_or in H. destruct H as [H|H].
    + destruct (Nat.eqb n 1); [destruct H as [H|[]]; discriminate | contradiction].
    + apply in_map_iff in H. destruct H as [y [E Hy]]. inversion E; subst. assumption.
Qed.

Lemma expand_items_edit : forall e x,
  In (Edit x) (expand_items e) -> exists f, In f e /\ In x (f_edit f).
Proof.
  intros e x H. unfold expand_items in H. apply in_flat_map in H.
  destruct H as [f [Hf Hx]]. exists f. split; [apply reorder_in; assumption | eapply piece_edit; eassumption].
Qed.

(** * Hypotheses on the fix map (lookup-based, closed under consumption of entries) *)
Definition edits_le (m : fmap) (H : nat) : Prop :=
  forall i e f x, lookup i m = Some e -> In f e -> In x (f_edit f) -> height x <= H.
Definition edits_fresh (m : fmap) : Prop :=
  forall i e f x, lookup i m = Some e -> In f e -> In x (f_edit f) -> clean m x.
Definition single_anchor (m : fmap) : Prop :=
  forall i e, lookup i m = Some e -> anchor_uses e <= 1.

Lemma shrinks_some : forall m m' i e, shrinks m m' -> lookup i m' = Some e -> lookup i m = Some e.
Proof. intros m m' i e H E. destruct (H i) as [E'|E']; congruence. Qed.
Lemma shrinks_clean : forall m m' x, shrinks m m' -> clean m x -> clean m' x.
Proof. intros m m' x H C j Hj. destruct (H j) as [E|E]; [rewrite E; auto | assumption]. Qed.
Lemma edits_le_shrinks : forall m m' H, shrinks m m' -> edits_le m H -> edits_le m' H.
Proof. intros m m' H Hs He i e f x El. eapply He. eapply shrinks_some; eassumption. Qed.
Lemma edits_fresh_shrinks : forall m m', shrinks m m' -> edits_fresh m -> edits_fresh m'.
Proof.
  intros m m' Hs Hf i e f x El Hin Hx. eapply shrinks_clean; [eassumption|].
  eapply Hf; [eapply shrinks_some; eassumption | eassumption | eassumption].
Qed.
Lemma single_anchor_shrinks : forall m m', shrinks m m' -> single_anchor m -> single_anchor m'.
Proof. intros m m' Hs H i e El. eapply H. eapply shrinks_some; eassumption. Qed.

(** * The refinement *)

(** what the specification makes of one child *)
Definition sel' (m : fmap) (c : seg) : list seg :=
  match lookup (seg_id c) m with None => [rw m c] | Some e => expand (rw m c) e end.

Lemma rw_node : forall m i k cs, rw m (Node i k cs) = Node i k (flat_map (sel' m) cs).
Proof. reflexivity. Qed.

Section forest.
  Variable n : nat.
  Variable H : nat.
  Hypothesis IHfuel : forall s m,
    edits_le m H -> edits_fresh m -> single_anchor m -> NoDup (desc_ids s) -> height s + H < n ->
    exists m', apply_fixes n s m = Some (rw m s, m') /\ shrinks_on (desc_ids s) m m'.
  Hypothesis Hn : H < n.

  Lemma thread_children : forall (m : fmap) cs mcur,
    edits_le m H -> edits_fresh m -> single_anchor m ->
    shrinks m mcur ->
    (forall c j, In c cs -> In j (desc_ids c) -> lookup j mcur = lookup j m) ->
    NoDup (flat_map all_ids cs) ->
    (forall c, In c cs -> height c + H < n) ->
    exists m2, map_thread (apply_fixes n) (flat_map (sel m) cs) mcur = Some (flat_map (sel' m) cs, m2)
               /\ shrinks_on (flat_map desc_ids cs) mcur m2.
  Proof.
    intros m cs. induction cs as [|c cs IH]; intros mcur Hle Hfr Hsi Hsh Hag Hnd Hht.
    - exists mcur. split; [reflexivity | apply shrinks_on_refl].
    - cbn in Hnd. apply NoDup_app_split in Hnd. destruct Hnd as [Hndc [Hndcs Hdisj]].
      assert (NoDup (desc_ids c)) as Hndd.
      { rewrite all_ids_cons in Hndc. inversion Hndc; assumption. }
      (* the child itself, under the current map *)
      destruct (IHfuel c mcur) as [m'' [Ec Hsc]].
      { eapply edits_le_shrinks; eassumption. }
      { eapply edits_fresh_shrinks; eassumption. }
      { eapply single_anchor_shrinks; eassumption. }
      { assumption. }
      { apply Hht. left. reflexivity. }
      assert (rw mcur c = rw m c) as Erw.
      { apply rw_ext. intros j Hj. apply (Hag c j); [left; reflexivity | assumption]. }
      rewrite Erw in Ec.
      (* the chunk of this child *)
      assert (exists mfin, map_thread (apply_fixes n) (sel m c) mcur = Some (sel' m c, mfin)
                           /\ shrinks_on (desc_ids c) mcur mfin) as [mfin [Echunk Hsfin]].
      { unfold sel, sel'. destruct (lookup (seg_id c) m) as [e|] eqn:El.
        - unfold expand. eapply thread_items; [ | exact Ec | exact Hsc | ].
          + intros x Hx m' Hs'. apply clean_noop.
            * destruct (expand_items_edit e x Hx) as [f [Hf Hxf]].
              pose proof (Hle _ _ _ _ El Hf Hxf). lia.
            * destruct (expand_items_edit e x Hx) as [f [Hf Hxf]].
              eapply shrinks_clean; [eassumption|].
              eapply shrinks_clean; [exact Hsh|].
              eapply Hfr; eassumption.
          + apply (Hsi _ _ El).
        - exists m''. split; [|assumption]. cbn. rewrite Ec. reflexivity. }
      (* the rest *)
      destruct (IH mfin) as [m2 [Erest Hs2]]; try assumption.
      { eapply shrinks_trans; [exact Hsh|]. eapply shrinks_on_shrinks; eassumption. }
      { intros c2 j Hc2 Hj. destruct (Hsfin j) as [E|[Hin _]].
        - rewrite E. apply (Hag c2 j); [right; assumption | assumption].
        - exfalso. apply (Hdisj j).
          + rewrite all_ids_cons. right. assumption.
          + eapply desc_in_flat; eassumption. }
      { intros c2 Hc2. apply Hht. right. assumption. }
      exists m2. split.
      + cbn. eapply map_thread_app; eassumption.
      + eapply shrinks_on_trans; [ | | exact Hsfin | exact Hs2]; intros j Hj; cbn; apply in_or_app; auto.
  Qed.
End forest.

Lemma desc_sub_all : forall cs j, In j (flat_map desc_ids cs) -> In j (flat_map all_ids cs).
Proof.
  intros cs j H. apply in_flat_map in H. destruct H as [c [Hc Hj]].
  eapply desc_in_flat; eassumption.
Qed.
Lemma roots_sub_all : forall cs j, In j (map seg_id cs) -> In j (flat_map all_ids cs).
Proof.
  intros cs j H. apply in_map_iff in H. destruct H as [c [E Hc]]. subst j. apply root_in_flat. assumption.
Qed.

Lemma apply_refines : forall fuel s m H,
  edits_le m H -> edits_fresh m -> single_anchor m ->
  NoDup (desc_ids s) -> height s + H < fuel ->
  exists m', apply_fixes fuel s m = Some (rw m s, m') /\ shrinks_on (desc_ids s) m m'.
Proof.
  induction fuel as [|n IH]; intros s m H Hle Hfr Hsi Hnd Hh; [inversion Hh|].
  destruct s as [i k c r | i k cs].
  - exists m. split; [reflexivity | apply shrinks_on_refl].
  - cbn [apply_fixes].
    destruct (is_nil m) eqn:Em.
    { exists m. split; [|apply shrinks_on_refl]. cbn [orb].
      rewrite rw_clean; [reflexivity|]. intros j _. apply lookup_nil_all. assumption. }
    destruct (is_nil cs) eqn:Ecs.
    { exists m. split; [|apply shrinks_on_refl]. destruct cs; [reflexivity | discriminate]. }
    cbn [orb].
    destruct (scan cs m) as [buf m1] eqn:Escan.
    cbn [desc_ids] in Hnd.
    destruct (scan_spec cs m buf m1 (roots_nodup cs Hnd) Escan) as [Ebuf Hs1].
    assert (forall c, In c cs -> height c + H < n) as Hht.
    { intros c Hc. cbn in Hh. pose proof (height_child c cs Hc). lia. }
    assert (H < n) as HHn by (cbn in Hh; lia).
    destruct (thread_children n H (fun s0 m0 => IH s0 m0 H) HHn m cs m1) as [m2 [Eth Hs2]]; try assumption.
    { eapply shrinks_on_shrinks; eassumption. }
    { intros c j Hc Hj. destruct (Hs1 j) as [E|[Hin _]]; [assumption|].
      exfalso. eapply desc_not_root; eassumption. }
    exists m2. split.
    + rewrite Ebuf. rewrite Eth. rewrite rw_node. reflexivity.
    + cbn [desc_ids]. eapply shrinks_on_trans; [ | | exact Hs1 | exact Hs2].
      * apply roots_sub_all.
      * apply desc_sub_all.
Qed.

(** * From the decidable predicates to the hypotheses *)
Lemma lookup_in : forall i m e, lookup i m = Some e -> In (i, e) m.
Proof.
  intros i m e. induction m as [|[j e'] m IH]; cbn; intro H; [discriminate|].
  destruct (N.eqb j i) eqn:E.
  - apply N.eqb_eq in E. inversion H; subst. left. reflexivity.
  - right. auto.
Qed.

Lemma edits_freshb_sound : forall m, edits_freshb m = true -> edits_fresh m.
Proof.
  intros m Hb i e f x El Hf Hx j Hj.
  unfold edits_freshb in Hb. rewrite forallb_forall in Hb.
  pose proof (Hb _ (lookup_in _ _ _ El)) as H1. cbn in H1.
  rewrite forallb_forall in H1. pose proof (H1 _ Hf) as H2.
  rewrite forallb_forall in H2. pose proof (H2 _ Hx) as H3.
  rewrite forallb_forall in H3. pose proof (H3 _ Hj) as H4.
  unfold has_key in H4. destruct (lookup j m); [discriminate | reflexivity].
Qed.

Lemma single_anchorb_sound : forall m, single_anchorb m = true -> single_anchor m.
Proof.
  intros m Hb i e El. unfold single_anchorb in Hb. rewrite forallb_forall in Hb.
  pose proof (Hb _ (lookup_in _ _ _ El)) as H1. cbn in H1. apply Nat.leb_le. assumption.
Qed.

Lemma list_max_in : forall l x, In x l -> x <= list_max l.
Proof.
  intros l x H.
  assert (Forall (fun k => k <= list_max l) l) as F by (apply list_max_le; apply le_n).
  rewrite Forall_forall in F. auto.
Qed.

Lemma edits_le_max : forall m, edits_le m (list_max (edit_heights m)).
Proof.
  intros m i e f x El Hf Hx. apply list_max_in. unfold edit_heights.
  apply in_flat_map. exists (i, e). split; [apply lookup_in; assumption|].
  cbn. apply in_flat_map. exists f. split; [assumption|]. apply in_map. assumption.
Qed.

Lemma ids_uniqueb_desc : forall t, ids_uniqueb t = true -> NoDup (desc_ids t).
Proof.
  intros t H. apply nodupb_NoDup in H. rewrite all_ids_cons in H. inversion H; assumption.
Qed.

(** * Refinement, top level *)
Theorem apply_fixes_refines : forall t m fuel,
  ids_uniqueb t = true -> edits_freshb m = true -> single_anchorb m = true ->
  height t + list_max (edit_heights m) < fuel ->
  exists m', apply_fixes fuel t m = Some (rw m t, m').
Proof.
  intros t m fuel Hu Hf Hs Hfuel.
  destruct (apply_refines fuel t m (list_max (edit_heights m))) as [m' [E _]].
  - apply edits_le_max.
  - apply edits_freshb_sound; assumption.
  - apply single_anchorb_sound; assumption.
  - apply ids_uniqueb_desc; assumption.
  - assumption.
  - exists m'. assumption.
Qed.

Lemma fuel_for_enough : forall t m, height t + list_max (edit_heights m) < fuel_for t m.
Proof.
  intros t m. unfold fuel_for. rewrite Nat.mul_succ_r. lia.
Qed.

Theorem apply_batch_spec : forall t fs m,
  compute_anchor_edit_info fs = Some m ->
  ids_uniqueb t = true -> edits_freshb m = true -> single_anchorb m = true ->
  apply_batch t fs = Some (rw m t).
Proof.
  intros t fs m Em Hu Hf Hs. unfold apply_batch. rewrite Em.
  destruct (apply_fixes_refines t m (fuel_for t m) Hu Hf Hs (fuel_for_enough t m)) as [m' E].
  rewrite E. reflexivity.
Qed.

(** * Leaf level: batches anchored on tokens rewrite the leaf list in place *)
Fixpoint inner_ids (s : seg) : list N :=
  match s with
  | Leaf _ _ _ _ => []
  | Node _ _ cs =>
      flat_map (fun c => match c with Leaf _ _ _ _ => [] | Node i _ _ => [i] end ++ inner_ids c) cs
  end.

Lemma flat_map_flat_map : forall {A B C} (f : B -> list C) (g : A -> list B) l,
  flat_map f (flat_map g l) = flat_map (fun x => flat_map f (g x)) l.
Proof.
  intros A B C f g l. induction l as [|x l IH]; cbn; [reflexivity|].
  rewrite flat_map_app. rewrite IH. reflexivity.
Qed.

Lemma child_leaves : forall m c,
  (match c with Leaf _ _ _ _ => True | Node i _ _ => lookup i m = None end) ->
  (forall cs i k, c = Node i k cs -> leaves (rw m c) = rewrite m (leaves c)) ->
  flat_map leaves (sel' m c) = rewrite m (leaves c).
Proof.
  intros m c Hroot Hnode. destruct c as [i k cl r | i k cs].
  - unfold sel', rewrite. cbn. unfold rewrite1. cbn.
    destruct (lookup i m); cbn; rewrite ?app_nil_r; reflexivity.
  - unfold sel'. cbn [seg_id]. rewrite Hroot. cbn [flat_map]. rewrite app_nil_r.
    eapply Hnode. reflexivity.
Qed.

Theorem leaves_rw_rewrite : forall m t,
  no_children t = false ->
  (forall j, In j (inner_ids t) -> lookup j m = None) ->
  leaves (rw m t) = rewrite m (leaves t).
Proof.
  intros m t. induction t as [i k c r | i k cs IH] using seg_ind'; intros Hroot H; [discriminate|].
  rewrite rw_node. cbn [leaves]. unfold rewrite at 1.
  rewrite !flat_map_flat_map. apply flat_map_ext_in. intros c Hc.
  rewrite Forall_forall in IH.
  change (flat_map (rewrite1 m) (leaves c)) with (rewrite m (leaves c)).
  apply child_leaves.
  - destruct c as [|ci ck ccs]; [exact I|]. apply H. cbn. apply in_flat_map.
    exists (Node ci ck ccs). split; [assumption|]. left. reflexivity.
  - intros ccs ci ck Ec. subst c. destruct ccs as [|c1 ccs].
    + reflexivity.
    + apply IH; [assumption | reflexivity |].
      intros j Hj. apply H. cbn [inner_ids]. apply in_flat_map.
      exists (Node ci ck (c1 :: ccs)). split; [assumption|]. apply in_or_app. right. assumption.
Qed.

(** * Content preservation *)
Definition same_content (t t' : seg) : Prop :=
  code_seq (leaves t') = code_seq (leaves t) /\
  forall c, count_str c (comment_seq (leaves t')) = count_str c (comment_seq (leaves t)).

Lemma count_notin : forall c l, ~ In c l -> count_str c l = 0.
Proof.
  intros c l. unfold count_str. induction l as [|x l IH]; cbn; intro H; [reflexivity|].
  destruct (str_eqb c x) eqn:E.
  - apply str_eqb_eq in E. subst x. exfalso. apply H. left. reflexivity.
  - apply IH. intro Hin. apply H. right. assumption.
Qed.

Lemma same_bagb_sound : forall a b, same_bagb a b = true -> forall c, count_str c a = count_str c b.
Proof.
  intros a b H c. unfold same_bagb in H. rewrite forallb_forall in H.
  destruct (in_dec (list_eq_dec N.eq_dec) c (a ++ b)) as [Hin|Hnin].
  - apply Nat.eqb_eq. apply H. assumption.
  - rewrite !count_notin; [reflexivity | | ]; intro Hc; apply Hnin; apply in_or_app; auto.
Qed.

Lemma same_contentb_sound : forall t t', same_contentb t t' = true -> same_content t t'.
Proof.
  intros t t' H. unfold same_contentb in H. apply andb_true_iff in H. destruct H as [H1 H2].
  split; [apply strs_eqb_eq; assumption | apply same_bagb_sound; assumption].
Qed.
Lemma same_content_refl : forall t, same_content t t.
Proof. intro t. split; auto. Qed.
Lemma same_content_trans : forall a b c, same_content a b -> same_content b c -> same_content a c.
Proof.
  intros a b c [H1 H2] [H3 H4]. split; [congruence|]. intro x. rewrite H4. apply H2.
Qed.

(** * The fix loop *)
Lemma step_cases : forall t seen fs t' seen',
  step (t, seen) fs = Some (t', seen') ->
  (t' = t /\ seen' = seen) \/ (apply_batch t fs = Some t' /\ seen' = seg_raw t' :: seen).
Proof.
  intros t seen fs t' seen' H. unfold step in H.
  destruct (apply_batch t fs) as [u|] eqn:E; [|discriminate].
  destruct (mem (seg_raw u) seen); inversion H; subst; auto.
Qed.

Lemma step_preserves : forall st fs st',
  batch_okb (fst st) fs = true -> step st fs = Some st' -> same_content (fst st) (fst st').
Proof.
  intros [t seen] fs [t' seen'] Hok Hstep. cbn [fst] in *.
  unfold batch_okb in Hok. destruct (compute_anchor_edit_info fs) as [m|] eqn:Em; [|discriminate].
  apply andb_true_iff in Hok. destruct Hok as [Hok Hn].
  apply andb_true_iff in Hok. destruct Hok as [Hok Hs].
  apply andb_true_iff in Hok. destruct Hok as [Hu Hf].
  destruct (step_cases _ _ _ _ _ Hstep) as [[E _]|[E _]].
  - subst t'. apply same_content_refl.
  - rewrite (apply_batch_spec t fs m Em Hu Hf Hs) in E. inversion E; subst.
    apply same_contentb_sound. exact Hn.
Qed.

Theorem run_preserves : forall bs st,
  run_okb st bs = true ->
  exists st', run st bs = Some st' /\ same_content (fst st) (fst st').
Proof.
  induction bs as [|fs bs IH]; intros st H; cbn in *.
  - exists st. split; [reflexivity | apply same_content_refl].
  - apply andb_true_iff in H. destruct H as [Hb Hr].
    destruct (step st fs) as [st1|] eqn:Es; [|discriminate].
    destruct (IH st1 Hr) as [st' [Erun Hc]].
    exists st'. split; [assumption|].
    eapply same_content_trans; [eapply step_preserves; eassumption | assumption].
Qed.

(** * Text level *)
Section Text.
  (** the dialect's lexer as an oracle: (class, raw) per token *)
  Variable lex : str -> list (N * str).

  Definition code_toks (ts : list (N * str)) : list str :=
    map snd (filter (fun t => N.eqb (fst t) 0) ts).
  Definition comment_toks (ts : list (N * str)) : list str :=
    map snd (filter (fun t => N.eqb (fst t) 1) ts).

  (** the text of a tree lexes back to the code tokens and comments the tree holds *)
  Definition relex_stable (t : seg) : Prop :=
    code_toks (lex (seg_raw t)) = code_seq (leaves t) /\
    forall c, count_str c (comment_toks (lex (seg_raw t))) = count_str c (comment_seq (leaves t)).

  Theorem text_preserved : forall src fixed t0 bs,
    seg_raw t0 = src ->                       (* the parsed tree spells the source (C02) *)
    relex_stable t0 ->                        (* ... and holds its tokens *)
    run_okb (init_state t0) bs = true ->      (* every applied batch passed the monitors *)
    exists tf seen,
      run (init_state t0) bs = Some (tf, seen) /\
      (fixed = seg_raw tf ->                  (* the output is the final tree's text (C04) *)
       relex_stable tf ->                     (* monitored: no two leaves fuse when re-lexed *)
       code_toks (lex fixed) = code_toks (lex src) /\
       (forall c, count_str c (comment_toks (lex fixed)) = count_str c (comment_toks (lex src))) /\
       code_toks (lex fixed) = code_seq (leaves tf)).
  Proof.
    intros src fixed t0 bs Esrc [R0c R0m] Hok.
    destruct (run_preserves bs (init_state t0) Hok) as [[tf seen] [Erun [Hc Hm]]].
    exists tf, seen. split; [assumption|].
    intros Efix [Rfc Rfm]. cbn [fst init_state] in Hc, Hm. subst fixed src.
    split; [congruence|]. split; [|assumption].
    intro c. rewrite Rfm, Hm, R0m. reflexivity.
  Qed.
End Text.
