(** FixTree — non-vacuity: concrete instances that meet the hypotheses of the theorems
    (and instances that fail them, showing each hypothesis carries weight). *)
From Sq Require Import Base.Bytes FixTree.Model FixTree.Proofs.

Definition s_select : str := [83;69;76;69;67;84].
Definition s_sp : str := [32].
Definition s_nl : str := [10].
Definition s_a : str := [97].
Definition s_b : str := [98].
Definition s_comma : str := [44].
Definition s_cmt : str := [45;45;32;99].

(** File[ Statement[ SELECT ␣ ␣ a , b --c \n ] EOF ] ; kinds are arbitrary numbers *)
Definition ex_t : seg :=
  Node 100 1
    [ Node 101 2
        [ Leaf 1 10 0 s_select; Leaf 2 11 2 s_sp; Leaf 3 11 2 s_sp; Leaf 4 12 0 s_a;
          Leaf 5 13 0 s_comma; Leaf 6 12 0 s_b; Leaf 7 14 1 s_cmt; Leaf 8 15 2 s_nl ];
      Leaf 9 16 2 [] ].

(** delete the second space (twice: deduplicated); newline before and space after the comma
    (given as CreateAfter then CreateBefore: the pair is reversed); replace the newline;
    one fix on an id that is not in the tree (silently dropped) *)
Definition ex_fs : list lfix :=
  [ mkfix Delete 3 11 s_sp [];
    mkfix CreateAfter 5 13 s_comma [Leaf 20 11 2 s_sp];
    mkfix Delete 3 11 s_sp [];
    mkfix CreateBefore 5 13 s_comma [Leaf 21 15 2 s_nl];
    mkfix Replace 8 15 s_nl [Leaf 22 15 2 s_nl];
    mkfix Delete 999 11 s_sp [] ].

Example ex_batch_ok : batch_okb ex_t ex_fs = true.
Proof. vm_compute. reflexivity. Qed.

Example ex_batch_result :
  option_map (fun t => map (fun l => (l_id l, l_raw l)) (leaves t)) (apply_batch ex_t ex_fs)
  = Some [(1, s_select); (2, s_sp); (4, s_a); (21, s_nl); (5, s_comma); (20, s_sp); (6, s_b);
          (7, s_cmt); (22, s_nl); (9, [])].
Proof. vm_compute. reflexivity. Qed.

(** the same result read as a rewriting of the leaf list *)
Example ex_leaf_rewrite :
  match compute_anchor_edit_info ex_fs with
  | Some m => option_map leaves (apply_batch ex_t ex_fs) = Some (rewrite m (leaves ex_t))
  | None => False
  end.
Proof. vm_compute. reflexivity. Qed.

(** a move: the comment is deleted and re-created after [a] (same id): still neutral *)
Definition ex_move : list lfix :=
  [ mkfix Delete 7 14 s_cmt []; mkfix CreateAfter 4 12 s_a [Leaf 7 14 1 s_cmt] ].
Example ex_move_ok : batch_okb ex_t ex_move = true.
Proof. vm_compute. reflexivity. Qed.

(** deleting a code token is not neutral; duplicating a comment is not neutral *)
Example ex_delete_code_not_ok : batch_okb ex_t [mkfix Delete 4 12 s_a []] = false.
Proof. vm_compute. reflexivity. Qed.
Example ex_dup_comment_not_ok :
  batch_okb ex_t [mkfix CreateAfter 4 12 s_a [Leaf 30 14 1 s_cmt]] = false.
Proof. vm_compute. reflexivity. Qed.

(** a run of three batches; the third would restore a text already seen and is rejected *)
Definition ex_run : list (list lfix) :=
  [ ex_fs; ex_move; [mkfix Delete 7 14 s_cmt []; mkfix CreateAfter 6 12 s_b [Leaf 7 14 1 s_cmt]] ].
Example ex_run_ok : run_okb (init_state ex_t) ex_run = true.
Proof. vm_compute. reflexivity. Qed.
Example ex_run_rejects_last :
  option_map (fun st => (map l_id (leaves (fst st)), length (snd st))) (run (init_state ex_t) ex_run)
  = Some ([1; 2; 4; 7; 21; 5; 20; 6; 22; 9], 3%nat).
Proof. vm_compute. reflexivity. Qed.

(** [single_anchor] is needed: two different CreateBefore on one anchor duplicate it *)
Lemma double_before_duplicates :
  exists t fs t', ids_uniqueb t = true /\ apply_batch t fs = Some t' /\ ids_uniqueb t' = false.
Proof.
  exists ex_t, [mkfix CreateBefore 4 12 s_a [Leaf 40 11 2 s_sp]; mkfix CreateBefore 4 12 s_a [Leaf 41 15 2 s_nl]].
  eexists. split; [vm_compute; reflexivity|]. split; vm_compute; reflexivity.
Qed.

(** [edits_fresh] is needed: an edit that contains an anchored id is rewritten itself, which
    the lookup specification does not do *)
Lemma unfresh_edit_differs :
  exists t fs m t', compute_anchor_edit_info fs = Some m /\ ids_uniqueb t = true /\
                    apply_batch t fs = Some t' /\ seg_eqb t' (rw m t) = false.
Proof.
  exists ex_t,
    [mkfix Delete 7 14 s_cmt [];
     mkfix CreateBefore 101 2 [] [Node 50 2 [Leaf 7 14 1 s_cmt]]].
  eexists. eexists. split; [vm_compute; reflexivity|].
  split; [vm_compute; reflexivity|]. split; vm_compute; reflexivity.
Qed.

(** an entry anchored on the root is never met: the batch is a no-op *)
Example root_anchor_dropped : apply_batch ex_t [mkfix Delete 100 1 [] []] = Some ex_t.
Proof. vm_compute. reflexivity. Qed.

(** the [unimplemented!()] of [AnchorEditInfo::add]: a same-raw replacement after a replace *)
Example add_panics :
  compute_anchor_edit_info [mkfix Replace 4 12 s_a [Leaf 60 12 0 s_b]; mkfix Replace 4 12 s_a [Leaf 61 12 0 s_a]] = None.
Proof. vm_compute. reflexivity. Qed.

(** * Text level with a toy lexer (words, single commas, whitespace runs) *)
Definition cls_of_byte (b : N) : N :=
  if (b =? 32) || (b =? 10) then 2 else if b =? 44 then 3 else 0.
Definition flush (cur : str) (c : N) : list (N * str) :=
  match cur with [] => [] | _ => [((if c =? 3 then 0 else c), rev cur)] end.
Fixpoint toy_lex_aux (s cur : str) (curc : N) : list (N * str) :=
  match s with
  | [] => flush cur curc
  | b :: s' =>
      let c := cls_of_byte b in
      if (c =? curc) && negb (c =? 3) && negb (is_nil cur) then toy_lex_aux s' (b :: cur) c
      else flush cur curc ++ toy_lex_aux s' [b] c
  end.
Definition toy_lex (s : str) : list (N * str) := toy_lex_aux s [] 0.

Definition ex_t2 : seg :=
  Node 100 1 [ Leaf 1 10 0 s_select; Leaf 2 11 2 s_sp; Leaf 3 11 2 s_sp; Leaf 4 12 0 s_a;
               Leaf 5 13 0 s_comma; Leaf 6 12 0 s_b; Leaf 8 15 2 s_nl ].
Definition ex_fs2 : list lfix :=
  [ mkfix Delete 3 11 s_sp []; mkfix CreateAfter 5 13 s_comma [Leaf 20 11 2 s_sp] ].

Definition relex_stableb (t : seg) : bool :=
  strs_eqb (code_toks (toy_lex (seg_raw t))) (code_seq (leaves t))
  && same_bagb (comment_toks (toy_lex (seg_raw t))) (comment_seq (leaves t)).
Lemma relex_stableb_sound : forall t, relex_stableb t = true -> relex_stable toy_lex t.
Proof.
  intros t H. apply andb_true_iff in H. destruct H as [H1 H2].
  split; [apply strs_eqb_eq; assumption | apply same_bagb_sound; assumption].
Qed.

(** all hypotheses of [text_preserved] hold together on a run that changes the text *)
Example text_hypotheses_satisfiable :
  relex_stable toy_lex ex_t2 /\ run_okb (init_state ex_t2) [ex_fs2] = true /\
  exists tf seen, run (init_state ex_t2) [ex_fs2] = Some (tf, seen) /\ relex_stable toy_lex tf
                  /\ seg_raw tf <> seg_raw ex_t2.
Proof.
  split; [apply relex_stableb_sound; vm_compute; reflexivity|].
  split; [vm_compute; reflexivity|].
  eexists. eexists. split; [vm_compute; reflexivity|].
  split; [apply relex_stableb_sound; vm_compute; reflexivity | vm_compute; discriminate].
Qed.

(** re-lex stability does not follow from tree-level neutrality: deleting the only space
    between two words is code-neutral on the tree and fuses them in the text *)
Definition ex_t3 : seg := Node 100 1 [ Leaf 1 12 0 s_a; Leaf 2 11 2 s_sp; Leaf 3 12 0 s_b ].
Lemma relex_not_implied :
  exists t fs tf seen, run_okb (init_state t) [fs] = true /\ run (init_state t) [fs] = Some (tf, seen) /\
                       code_toks (toy_lex (seg_raw tf)) <> code_seq (leaves tf).
Proof.
  exists ex_t3, [mkfix Delete 2 11 s_sp []]. eexists. eexists.
  split; [vm_compute; reflexivity|]. split; [vm_compute; reflexivity|]. vm_compute. discriminate.
Qed.
