(** FixTree — executable model of how a batch of lint fixes is applied to the parse tree.

    Rust kernels modelled (line by line, positions left out):
      - [LintFix] (crates/lib-core/src/lint_fix.rs): [PartialEq], [is_just_source_edit]
      - [AnchorEditInfo::add] (crates/lib-core/src/segments.rs)
      - [compute_anchor_edit_info] (crates/lib-core/src/linter.rs)
      - [ErasedSegment::apply_fixes] (crates/lib-core/src/parser/segments/base.rs)
      - the acceptance logic of the fix loop in [Linter::lint_fix_parsed]
        (crates/lib/src/core/linter/core.rs): a batch result replaces the tree iff its raw
        text has not been seen before.

    Not modelled: position markers ([position_segments], the marker copied onto a
    same-raw replacement), [source_fixes] (empty without a templater; monitored),
    the rule bodies and the reflow engine (their output, the fix lists, is data).

    Definitions only; proofs live in Proofs.v. *)
From Sq Require Import Base.Bytes.

(** * Trees *)

(** [cls]: 0 = code, 1 = comment, 2 = other non-code (whitespace, newline, meta).
    It is [is_code()] / [is_comment()] of the real token, recorded by the harness. *)
Inductive seg :=
| Leaf (id kind cls : N) (raw : str)
| Node (id kind : N) (cs : list seg).

Definition seg_id (s : seg) : N :=
  match s with Leaf i _ _ _ => i | Node i _ _ => i end.
Definition seg_kind (s : seg) : N :=
  match s with Leaf _ k _ _ => k | Node _ k _ => k end.

(** [segments().is_empty()] *)
Definition no_children (s : seg) : bool :=
  match s with Leaf _ _ _ _ => true | Node _ _ [] => true | Node _ _ (_ :: _) => false end.

Record leaf := mkleaf { l_id : N; l_kind : N; l_cls : N; l_raw : str }.

Fixpoint leaves (s : seg) : list leaf :=
  match s with
  | Leaf i k c r => [mkleaf i k c r]
  | Node _ _ cs => flat_map leaves cs
  end.

(** [raw()] of a segment: concatenation of the token raws. *)
Definition raw_of_leaves (ls : list leaf) : str := flat_map l_raw ls.
Definition seg_raw (s : seg) : str := raw_of_leaves (leaves s).

Fixpoint all_ids (s : seg) : list N :=
  match s with
  | Leaf i _ _ _ => [i]
  | Node i _ cs => i :: flat_map all_ids cs
  end.
(** ids of the strict descendants: the ids [apply_fixes] can match below [s] *)
Definition desc_ids (s : seg) : list N :=
  match s with
  | Leaf _ _ _ _ => []
  | Node _ _ cs => flat_map all_ids cs
  end.

Fixpoint height (s : seg) : nat :=
  match s with
  | Leaf _ _ _ _ => O
  | Node _ _ cs => S (list_max (map height cs))
  end.

Fixpoint seg_eqb (a b : seg) : bool :=
  match a, b with
  | Leaf i k c r, Leaf i' k' c' r' => (i =? i') && (k =? k') && (c =? c') && str_eqb r r'
  | Node i k cs, Node i' k' cs' =>
      (i =? i') && (k =? k') &&
      (fix go (l l' : list seg) : bool :=
         match l, l' with
         | [], [] => true
         | x :: t, x' :: t' => seg_eqb x x' && go t t'
         | _, _ => false
         end) cs cs'
  | _, _ => false
  end.

(** * Fixes *)

Inductive etype := Delete | Replace | CreateBefore | CreateAfter.
Definition etype_eqb (a b : etype) : bool :=
  match a, b with
  | Delete, Delete | Replace, Replace | CreateBefore, CreateBefore | CreateAfter, CreateAfter => true
  | _, _ => false
  end.

(** A [LintFix]: the anchor is recorded by id, type and raw (what the kernels read of it). *)
Record lfix := mkfix {
  f_type : etype;
  f_aid : N;
  f_akind : N;
  f_araw : str;
  f_edit : list seg
}.

(** [impl PartialEq for LintFix]: edit type, anchor type, anchor id, edit length, and the
    raws of the edit segments pairwise (source fixes are all empty here). *)
Fixpoint raws_eqb (a b : list seg) : bool :=
  match a, b with
  | [], [] => true
  | x :: a', y :: b' => str_eqb (seg_raw x) (seg_raw y) && raws_eqb a' b'
  | _, _ => false
  end.
Definition fix_eqb (a b : lfix) : bool :=
  etype_eqb (f_type a) (f_type b) && (f_akind a =? f_akind b) && (f_aid a =? f_aid b)
  && raws_eqb (f_edit a) (f_edit b).

(** [LintFix::is_just_source_edit] *)
Definition is_just_source_edit (f : lfix) : bool :=
  match f_type f, f_edit f with
  | Replace, [e] => str_eqb (seg_raw e) (f_araw f)
  | _, _ => false
  end.

(** [AnchorEditInfo]: only the [fixes] vector matters to [apply_fixes]; [first_replace]
    is [Some] exactly when [fixes] holds a Replace. *)
Definition entry := list lfix.
Definition has_replace (e : entry) : bool := existsb (fun f => etype_eqb (f_type f) Replace) e.

(** [AnchorEditInfo::add]; [None] = the [unimplemented!()] panic. *)
Definition entry_add (e : entry) (f : lfix) : option entry :=
  if existsb (fun g => fix_eqb g f) e then Some e
  else if is_just_source_edit f && has_replace e then None
  else Some (e ++ [f]).

(** [FxHashMap<u32, AnchorEditInfo>] as an association list. [lookup] reads the first
    binding, [remove] deletes every binding of the key, [upsert] updates the first binding
    in place: the three agree with a hash map on every sequence of operations. *)
Definition fmap := list (N * entry).

Fixpoint lookup (i : N) (m : fmap) : option entry :=
  match m with
  | [] => None
  | (j, e) :: m' => if j =? i then Some e else lookup i m'
  end.
Definition remove (i : N) (m : fmap) : fmap := filter (fun p => negb (fst p =? i)) m.

Fixpoint upsert (i : N) (f : lfix) (m : fmap) : option fmap :=
  match m with
  | [] => match entry_add [] f with Some e => Some [(i, e)] | None => None end
  | (j, e) :: m' =>
      if j =? i then
        match entry_add e f with Some e' => Some ((j, e') :: m') | None => None end
      else
        match upsert i f m' with Some m'' => Some ((j, e) :: m'') | None => None end
  end.

(** [compute_anchor_edit_info] *)
Fixpoint anchor_info_from (fs : list lfix) (m : fmap) : option fmap :=
  match fs with
  | [] => Some m
  | f :: fs' => match upsert (f_aid f) f m with Some m' => anchor_info_from fs' m' | None => None end
  end.
Definition compute_anchor_edit_info (fs : list lfix) : option fmap := anchor_info_from fs [].

(** * [apply_fixes] *)

(** What one anchored child turns into. [AnchorHere] marks where the code pushes
    [seg.clone()], [Edit x] where it pushes an edit segment. *)
Inductive item := AnchorHere | Edit (x : seg).

(** "if anchor_info.fixes.len() == 2 && fixes[0].edit_type == CreateAfter { fixes.reverse() }" *)
Definition reorder (e : entry) : entry :=
  match e with
  | [a; b] => match f_type a with CreateAfter => [b; a] | _ => e end
  | _ => e
  end.

(** body of "for mut lint_fix in anchor_info.fixes", [n] = fixes_count *)
Definition piece (n : nat) (f : lfix) : list item :=
  match f_type f with
  | Delete => []
  | Replace => map Edit (f_edit f)
  | CreateBefore => map Edit (f_edit f) ++ [AnchorHere]
  | CreateAfter => (if Nat.eqb n 1 then [AnchorHere] else []) ++ map Edit (f_edit f)
  end.

Definition expand_items (e : entry) : list item := flat_map (piece (length e)) (reorder e).
Definition fill (a : seg) (it : item) : seg := match it with AnchorHere => a | Edit x => x end.
Definition expand (a : seg) (e : entry) : list seg := map (fill a) (expand_items e).

(** First loop of [apply_fixes]: "let Some(anchor_info) = fixes.remove(&seg.id()) else push". *)
Fixpoint scan (cs : list seg) (m : fmap) : list seg * fmap :=
  match cs with
  | [] => ([], m)
  | c :: cs' =>
      match lookup (seg_id c) m with
      | None => let (r, m') := scan cs' m in (c :: r, m')
      | Some e => let (r, m') := scan cs' (remove (seg_id c) m) in (expand c e ++ r, m')
      end
  end.

(** Second loop: "for seg in seg_queue { let (s, ..) = seg.apply_fixes(fixes); push(s) }",
    the map being threaded through. *)
Fixpoint map_thread (f : seg -> fmap -> option (seg * fmap)) (l : list seg) (m : fmap)
  : option (list seg * fmap) :=
  match l with
  | [] => Some ([], m)
  | x :: l' =>
      match f x m with
      | None => None
      | Some (x', m') =>
          match map_thread f l' m' with
          | None => None
          | Some (r, m'') => Some (x' :: r, m'')
          end
      end
  end.

Definition is_nil {A} (l : list A) : bool := match l with [] => true | _ => false end.

(** [ErasedSegment::apply_fixes]. The recursion also enters freshly inserted edit
    segments, so it is not structural in the tree: it runs on fuel, [None] = out of fuel
    (excluded by the theorems; see [fuel_for]). *)
Fixpoint apply_fixes (fuel : nat) (s : seg) (m : fmap) : option (seg * fmap) :=
  match fuel with
  | O => None
  | S n =>
      match s with
      | Leaf _ _ _ _ => Some (s, m)
      | Node i k cs =>
          if is_nil m || is_nil cs then Some (s, m)
          else
            let (buf, m1) := scan cs m in
            match map_thread (apply_fixes n) buf m1 with
            | None => None
            | Some (buf', m2) => Some (Node i k buf', m2)
            end
      end
  end.

Definition edit_heights (m : fmap) : list nat :=
  flat_map (fun p => flat_map (fun f => map height (f_edit f)) (snd p)) m.
(** enough fuel whenever no edit segment contains an anchor (proved); the extra
    [length m] per level of nesting covers the general case in practice *)
Definition fuel_for (s : seg) (m : fmap) : nat :=
  S (height s + (S (list_max (edit_heights m))) * S (length m)).

(** One batch as the fix loop applies it:
    "compute_anchor_edit_info(fixes); tree.apply_fixes(&mut anchor_info)". *)
Definition apply_batch (t : seg) (fs : list lfix) : option seg :=
  match compute_anchor_edit_info fs with
  | None => None
  | Some m => match apply_fixes (fuel_for t m) t m with Some (t', _) => Some t' | None => None end
  end.

(** * Specification: rewriting by lookup (no consumption, no threading, no fuel) *)

Fixpoint rw (m : fmap) (s : seg) : seg :=
  match s with
  | Leaf _ _ _ _ => s
  | Node i k cs =>
      Node i k (flat_map (fun c => match lookup (seg_id c) m with
                                   | None => [rw m c]
                                   | Some e => expand (rw m c) e
                                   end) cs)
  end.

(** The list-level reading for batches anchored on tokens: every leaf is rewritten
    independently, in place. *)
Definition rewrite1 (m : fmap) (l : leaf) : list leaf :=
  match lookup (l_id l) m with
  | None => [l]
  | Some e => flat_map leaves (expand (Leaf (l_id l) (l_kind l) (l_cls l) (l_raw l)) e)
  end.
Definition rewrite (m : fmap) (ls : list leaf) : list leaf := flat_map (rewrite1 m) ls.

(** * Hypotheses of the refinement, as decidable predicates *)

Fixpoint nodupb (l : list N) : bool :=
  match l with
  | [] => true
  | x :: l' => negb (existsb (N.eqb x) l') && nodupb l'
  end.
Definition ids_uniqueb (t : seg) : bool := nodupb (all_ids t).

Definition has_key (i : N) (m : fmap) : bool :=
  match lookup i m with Some _ => true | None => false end.
(** no id strictly inside an edit segment is an anchor of the batch *)
Definition edits_freshb (m : fmap) : bool :=
  forallb (fun p => forallb (fun f => forallb (fun x =>
    forallb (fun j => negb (has_key j m)) (desc_ids x)) (f_edit f)) (snd p)) m.
(** the anchor is pushed at most once per entry *)
Definition uses_anchor (it : item) : bool := match it with AnchorHere => true | Edit _ => false end.
Definition anchor_uses (e : entry) : nat := length (filter uses_anchor (expand_items e)).
Definition single_anchorb (m : fmap) : bool :=
  forallb (fun p => Nat.leb (anchor_uses (snd p)) 1) m.

(** * What a layout batch must leave alone *)

Definition code_seq (ls : list leaf) : list str :=
  map l_raw (filter (fun l => l_cls l =? 0) ls).
Definition comment_seq (ls : list leaf) : list str :=
  map l_raw (filter (fun l => l_cls l =? 1) ls).

Definition count_str (c : str) (l : list str) : nat := length (filter (str_eqb c) l).
(** multiset equality of two lists of texts *)
Definition same_bagb (a b : list str) : bool :=
  forallb (fun c => Nat.eqb (count_str c a) (count_str c b)) (a ++ b).

Definition strs_eqb := list_eqb str_eqb.

(** tree [t'] holds the same code tokens in the same order and the same comments as [t] *)
Definition same_contentb (t t' : seg) : bool :=
  strs_eqb (code_seq (leaves t')) (code_seq (leaves t))
  && same_bagb (comment_seq (leaves t')) (comment_seq (leaves t)).

(** [code_neutral]: decided on the list-rewriting specification of the batch *)
Definition code_neutralb (m : fmap) (t : seg) : bool := same_contentb t (rw m t).

(** * The fix loop: acceptance of batches *)

(** state: current tree and [previous_versions] (raw texts seen so far) *)
Definition lstate := (seg * list str)%type.
Definition init_state (t : seg) : lstate := (t, [seg_raw t]).

(** one applied batch: "if previous_versions.insert(loop_check_tuple) { tree = new_tree }" *)
Definition step (st : lstate) (fs : list lfix) : option lstate :=
  let (t, seen) := st in
  match apply_batch t fs with
  | None => None
  | Some t' =>
      let r := seg_raw t' in
      if mem r seen then Some (t, seen) else Some (t', r :: seen)
  end.

Fixpoint run (st : lstate) (bs : list (list lfix)) : option lstate :=
  match bs with
  | [] => Some st
  | fs :: bs' => match step st fs with Some st' => run st' bs' | None => None end
  end.

(** The per-batch conditions the harness monitors, evaluated by the model along the run. *)
Definition batch_okb (t : seg) (fs : list lfix) : bool :=
  match compute_anchor_edit_info fs with
  | None => false
  | Some m => ids_uniqueb t && edits_freshb m && single_anchorb m && code_neutralb m t
  end.

Fixpoint run_okb (st : lstate) (bs : list (list lfix)) : bool :=
  match bs with
  | [] => true
  | fs :: bs' =>
      batch_okb (fst st) fs &&
      match step st fs with Some st' => run_okb st' bs' | None => false end
  end.
