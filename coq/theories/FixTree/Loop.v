(** FixTree — the shape of the fix loop of [Linter::lint_fix_parsed] with the rules as
    oracles, and preservation through it. (Model part: [accepted], [one_pass], [passes],
    [lint_fix_loop]; the rest are proofs. Kept apart from Model.v, which the correspondence
    runs: rules are functions here, recorded fix lists there.) *)
From Sq Require Import Base.Bytes FixTree.Model FixTree.Proofs.

(** a rule: the fixes its crawl proposes on a tree (an oracle: rule body + reflow engine) *)
Definition rule_t := seg -> list lfix.

(** "if previous_versions.insert(..) { tree = new_tree; changed = true }" *)
Definition accepted (st st' : lstate) : bool :=
  negb (Nat.eqb (length (snd st')) (length (snd st))).

(** "for rule in rules_this_phase { ... if fix && !fixes.is_empty() { apply } }" *)
Fixpoint one_pass (rules : list rule_t) (st : lstate) (changed : bool) : option (lstate * bool) :=
  match rules with
  | [] => Some (st, changed)
  | r :: rs =>
      let fs := r (fst st) in
      if is_nil fs then one_pass rs st changed
      else match step st fs with
           | None => None
           | Some st' => one_pass rs st' (changed || accepted st st')
           end
  end.

(** "for loop_ in 0..limit { ...; if fix && !changed { break } }" *)
Fixpoint passes (limit : nat) (rules : list rule_t) (st : lstate) : option lstate :=
  match limit with
  | O => Some st
  | S k =>
      match one_pass rules st false with
      | None => None
      | Some (st', ch) => if ch then passes k rules st' else Some st'
      end
  end.

(** phases Main (10 passes; every rule, since the first pass installs [self.rules()]) and
    Post (2 passes, post-phase rules) *)
Definition lint_fix_loop (all_rules post_rules : list rule_t) (t : seg) : option lstate :=
  match passes 10 all_rules (init_state t) with
  | None => None
  | Some st => passes 2 post_rules st
  end.

(** every batch a rule proposes passes the monitored conditions *)
Definition rules_ok (rules : list rule_t) : Prop :=
  forall r t, In r rules -> is_nil (r t) = false -> batch_okb t (r t) = true.

Lemma batch_ok_step : forall st fs, batch_okb (fst st) fs = true -> exists st', step st fs = Some st'.
Proof.
  intros [t seen] fs Hok. cbn [fst] in Hok. unfold batch_okb in Hok.
  destruct (compute_anchor_edit_info fs) as [m|] eqn:Em; [|discriminate].
  apply andb_true_iff in Hok. destruct Hok as [Hok _].
  apply andb_true_iff in Hok. destruct Hok as [Hok Hs].
  apply andb_true_iff in Hok. destruct Hok as [Hu Hf].
  unfold step. rewrite (apply_batch_spec t fs m Em Hu Hf Hs).
  destruct (mem (seg_raw (rw m t)) seen); eexists; reflexivity.
Qed.

Lemma one_pass_preserves : forall rules st ch,
  rules_ok rules ->
  exists st' ch', one_pass rules st ch = Some (st', ch') /\ same_content (fst st) (fst st').
Proof.
  induction rules as [|r rs IH]; intros st ch Hok; cbn [one_pass].
  - exists st, ch. split; [reflexivity | apply same_content_refl].
  - assert (rules_ok rs) as Hrs by (intros r0 t Hin; apply Hok; right; assumption).
    destruct (is_nil (r (fst st))) eqn:En.
    + apply IH. assumption.
    + assert (batch_okb (fst st) (r (fst st)) = true) as Hb by (apply Hok; [left; reflexivity | assumption]).
      destruct (batch_ok_step st _ Hb) as [st1 Es]. rewrite Es.
      destruct (IH st1 (ch || accepted st st1)%bool Hrs) as [st' [ch' [E Hc]]].
      exists st', ch'. split; [assumption|].
      eapply same_content_trans; [eapply step_preserves; eassumption | assumption].
Qed.

Lemma passes_preserves : forall limit rules st,
  rules_ok rules ->
  exists st', passes limit rules st = Some st' /\ same_content (fst st) (fst st').
Proof.
  induction limit as [|k IH]; intros rules st Hok; cbn [passes].
  - exists st. split; [reflexivity | apply same_content_refl].
  - destruct (one_pass_preserves rules st false Hok) as [st1 [ch [E Hc]]]. rewrite E.
    destruct ch.
    + destruct (IH rules st1 Hok) as [st' [E' Hc']]. exists st'. split; [assumption|].
      eapply same_content_trans; eassumption.
    + exists st1. split; [reflexivity | assumption].
Qed.

Theorem loop_preserves : forall all_rules post_rules t,
  rules_ok all_rules -> rules_ok post_rules ->
  exists st', lint_fix_loop all_rules post_rules t = Some st' /\ same_content t (fst st').
Proof.
  intros all_rules post_rules t Ha Hp. unfold lint_fix_loop.
  destruct (passes_preserves 10 all_rules (init_state t) Ha) as [st1 [E1 H1]]. rewrite E1.
  destruct (passes_preserves 2 post_rules st1 Hp) as [st' [E2 H2]].
  exists st'. split; [assumption|]. cbn [fst init_state] in H1.
  eapply same_content_trans; eassumption.
Qed.

(** Non-vacuity: two rules that do something on the example tree and are [rules_ok] there
    (rules that answer only on the trees of this run). *)
From Sq Require Import FixTree.Examples.
Definition ex_rule_a : rule_t := fun t => if seg_eqb t ex_t2 then ex_fs2 else [].
Example loop_runs :
  option_map (fun st => map l_id (leaves (fst st))) (lint_fix_loop [ex_rule_a] [] ex_t2)
  = Some [1; 2; 4; 5; 20; 6; 8].
Proof. vm_compute. reflexivity. Qed.
Lemma ex_rule_a_ok : rules_ok [ex_rule_a].
Proof.
  intros r t [E|[]] Hn. subst r. unfold ex_rule_a in *.
  destruct (seg_eqb t ex_t2) eqn:Eq; [|discriminate].
  assert (t = ex_t2) as ->.
  { clear Hn. revert Eq. generalize ex_t2 as u. intro u. revert u.
    induction t as [i k c r | i k cs IH] using seg_ind'; intros [i' k' c' r' | i' k' cs'] H; cbn in H; try discriminate.
    - repeat (apply andb_true_iff in H; destruct H as [H ?]).
      apply N.eqb_eq in H. apply str_eqb_eq in H0. apply N.eqb_eq in H1. apply N.eqb_eq in H2. congruence.
    - apply andb_true_iff in H. destruct H as [H Hcs]. apply andb_true_iff in H. destruct H as [H1 H2].
      apply N.eqb_eq in H1. apply N.eqb_eq in H2. subst. f_equal.
      revert cs' Hcs. induction cs as [|x cs IHcs]; intros [|y cs'] Hcs; try discriminate; [reflexivity|].
      apply andb_true_iff in Hcs. destruct Hcs as [Hx Hr]. inversion IH as [|? ? Px Pcs]; subst.
      f_equal; [apply Px; assumption | apply IHcs; assumption]. }
  vm_compute. reflexivity.
Qed.
