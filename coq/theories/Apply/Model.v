(** Model of [MatchResult::{append, wrap, apply}] (crates/lib-core/src/parser/match_result.rs)
    and of [FileSegment::root_parse] (crates/lib-core/src/parser/segments/file.rs).
    Executable definitions only.  Panics ([unreachable!], slice out of range, [unwrap] on
    an empty vector, [position_from_segments] on a node without children) are [None].
    The grammar match itself is not modelled: its result is data ([gm_result]). *)
From Sq Require Export Base.Bytes.

(** A lexed token: its segment id, its [SyntaxKind] (as a number) and [is_code]. *)
Record tok := mkTok { t_id : N; t_kind : N; t_code : bool }.

Inductive matched := MKind (k : N) | MNewtype (k : N).

(** [MatchResult { span: start..end, matched, insert_segments, child_matches }] *)
Inductive mr := MR (s e : N) (m : option matched) (ins : list (N * N)) (ch : list mr).

Definition mr_start (x : mr) : N := match x with MR s _ _ _ _ => s end.
Definition mr_end (x : mr) : N := match x with MR _ e _ _ _ => e end.
Definition mr_matched (x : mr) : option matched := match x with MR _ _ m _ _ => m end.
Definition mr_ins (x : mr) : list (N * N) := match x with MR _ _ _ i _ => i end.
Definition mr_ch (x : mr) : list mr := match x with MR _ _ _ _ c => c end.

(** The parse tree: a token (identified by the lexer's segment id, possibly re-tagged by a
    [Newtype] match), a zero-width meta created by [apply] at token index [p], or a node. *)
Inductive tree := Tok (id k : N) | Meta (k p : N) | Node (k : N) (ch : list tree).

Definition K_Unparsable : N := 0.
Definition K_File : N := 1.

Definition tok_tree (t : tok) : tree := Tok (t_id t) (t_kind t).

(** ids of the non-meta leaves, left to right *)
Fixpoint leaves (t : tree) : list N :=
  match t with
  | Tok i _ => [i]
  | Meta _ _ => []
  | Node _ ch => flat_map leaves ch
  end.
Definition leaves_l (l : list tree) : list N := flat_map leaves l.

(** [&segments[a..b]] without the range check *)
Definition slice_raw {A} (ts : list A) (a b : N) : list A :=
  firstn (N.to_nat (b - a)) (skipn (N.to_nat a) ts).
(** [&segments[a..b]]: panics unless [a <= b <= len] *)
Definition slice {A} (ts : list A) (a b : N) : option (list A) :=
  if (a <=? b) && (b <=? N.of_nat (length ts)) then Some (slice_raw ts a b) else None.

(** --- has_match / is_empty; [len()] is a wrapping u32 subtraction in the harness profile,
    so [len() > 0] is [start <> end]. *)
Definition has_match (x : mr) : bool := negb (mr_start x =? mr_end x) || negb (is_empty (mr_ins x)).
Definition mr_is_empty (x : mr) : bool := negb (has_match x).

Definition is_some {A} (o : option A) : bool := match o with Some _ => true | None => false end.

(** --- append *)
Definition flat_ins (x : mr) : list (N * N) := if is_some (mr_matched x) then [] else mr_ins x.
Definition flat_ch (x : mr) : list mr := if is_some (mr_matched x) then [x] else mr_ch x.

Definition append (a b : mr) : mr :=
  if mr_is_empty a then b
  else if mr_is_empty b then a
  else MR (mr_start a) (mr_end b) None (flat_ins a ++ flat_ins b) (flat_ch a ++ flat_ch b).

(** --- wrap *)
Definition wrap (x : mr) (outer : matched) : mr :=
  if mr_is_empty x then x
  else MR (mr_start x) (mr_end x) (Some outer) (flat_ins x) (flat_ch x).

(** --- apply *)
(** sorted keys of the trigger map ([keys.sort()] over distinct map keys) *)
Fixpoint insert_key (k : N) (l : list N) : list N :=
  match l with
  | [] => [k]
  | x :: l' => if k <? x then k :: l else if k =? x then l else x :: insert_key k l'
  end.
Definition sort_keys (l : list N) : list N := fold_right insert_key [] l.

(** a child match after its own [apply]: (start, end, result) *)
Definition child_r : Type := (N * N * option (list tree))%type.

(** [get_point_pos_at_idx] is defined iff [idx < len] or [1 <= idx] and [idx - 1 < len] *)
Definition point_ok (n p : N) : bool := (p <? n) || ((1 <=? p) && (p - 1 <? n)).

Definition metas_at (n p : N) (ins : list (N * N)) : option (list tree) :=
  let here := filter (fun i => fst i =? p) ins in
  if is_empty here then Some []
  else if point_ok n p then Some (map (fun i => Meta (snd i) p) here) else None.

Fixpoint run_children (rs : list child_r) (cur : N) (out : list tree) : option (N * list tree) :=
  match rs with
  | [] => Some (cur, out)
  | (_, ce, r) :: rs' =>
      match r with
      | None => None
      | Some l => run_children rs' ce (out ++ l)
      end
  end.

Definition step (ts : list tok) (ins : list (N * N)) (rs : list child_r)
           (st : N * list tree) (p : N) : option (N * list tree) :=
  let '(cur, out) := st in
  if p <? cur then None                                   (* unreachable!("wrongly constructed") *)
  else
    match (if cur <? p then slice ts cur p else Some []) with
    | None => None
    | Some gap =>
        match metas_at (N.of_nat (length ts)) p ins with
        | None => None
        | Some ms =>
            run_children (filter (fun r => fst (fst r) =? p) rs) p
                         ((out ++ map tok_tree gap) ++ ms)
        end
    end.

Fixpoint fold_opt {S A} (f : S -> A -> option S) (l : list A) (s : S) : option S :=
  match l with
  | [] => Some s
  | x :: l' => match f s x with None => None | Some s' => fold_opt f l' s' end
  end.

Definition retag (k : N) (t : tree) : tree :=
  match t with
  | Tok i _ => Tok i k
  | Meta _ p => Meta k p
  | Node _ _ => t      (* a Newtype match over a node does not occur (WF: span of one token) *)
  end.

Definition last_opt {A} (l : list A) : option A :=
  match rev l with x :: _ => Some x | [] => None end.

Definition assemble (ts : list tok) (s e : N) (m : option matched) (ins : list (N * N))
           (rs : list child_r) : option (list tree) :=
  let keys := sort_keys (map fst ins ++ map (fun r => fst (fst r)) rs) in
  match fold_opt (step ts ins rs) keys (s, []) with
  | None => None
  | Some (cur, out) =>
      match (if cur <? e then slice ts cur e else Some []) with
      | None => None
      | Some tail =>
          let out := out ++ map tok_tree tail in
          match m with
          | None => Some out
          | Some (MKind k) => if is_empty out then None else Some [Node k out]
          | Some (MNewtype k) =>
              match last_opt out with Some t => Some [retag k t] | None => None end
          end
      end
  end.

Fixpoint apply (ts : list tok) (x : mr) : option (list tree) :=
  match x with
  | MR s e m ins ch =>
      assemble ts s e m ins (map (fun c => (mr_start c, mr_end c, apply ts c)) ch)
  end.

(** --- root_parse *)
Inductive gm_result := GErr | GOk (m : mr).
Inductive parse_result := PErr | POk (t : tree).

Fixpoint position {A} (f : A -> bool) (l : list A) : option N :=
  match l with
  | [] => None
  | x :: l' => if f x then Some 0 else option_map N.succ (position f l')
  end.
(** [rposition f l + 1] *)
Fixpoint rposition_succ {A} (f : A -> bool) (l : list A) : option N :=
  match l with
  | [] => None
  | x :: l' =>
      match rposition_succ f l' with
      | Some i => Some (N.succ i)
      | None => if f x then Some 1 else None
      end
  end.

Definition start_idx (ts : list tok) : N :=
  match position t_code ts with Some i => i | None => 0 end.
Definition end_idx (ts : list tok) : N :=
  match rposition_succ t_code ts with Some i => i | None => start_idx ts end.

Definition node_of (k : N) (ch : list tree) : option tree :=
  if is_empty ch then None else Some (Node k ch).   (* position_from_segments panics on [] *)

(** [ktail] is the kind of the node that takes the code left after the root match: [Unparsable]
    in the repaired code (repo commit "fix: code left after the root match is kept in an
    unparsable node ..."), a second [File] node before it ([root_parse_legacy], finding F1). *)
Definition root_parse_gen (ktail : N) (ts : list tok) (gm : gm_result) : option parse_result :=
  let n := N.of_nat (length ts) in
  let si := start_idx ts in
  let ei := end_idx ts in
  if si =? ei then option_map POk (node_of K_File (map tok_tree ts))
  else
    match gm with
    | GErr => Some PErr
    | GOk m =>
        match apply ts m, slice ts (mr_end m) ei, slice ts si ei, slice ts 0 si, slice ts ei n with
        | Some matched, Some unmatched, Some code, Some pre, Some post =>
            let content : option (list tree) :=
              if negb (has_match m) then
                option_map (fun u => [u]) (node_of K_Unparsable (map tok_tree code))
              else if negb (is_empty unmatched) then
                let idx := match position t_code unmatched with
                           | Some i => i | None => N.of_nat (length unmatched) end in
                let head := firstn (N.to_nat idx) unmatched in
                let tail := skipn (N.to_nat idx) unmatched in
                option_map (fun f => matched ++ map tok_tree head ++ [f])
                           (node_of ktail (map tok_tree tail))
              else Some matched
            in
            match content with
            | None => None
            | Some c => option_map POk (node_of K_File (map tok_tree pre ++ c ++ map tok_tree post))
            end
        | _, _, _, _, _ => None
        end
    end.

Definition root_parse := root_parse_gen K_Unparsable.
Definition root_parse_legacy := root_parse_gen K_File.

(** ids of the token leaves that are outside every [Unparsable] node *)
Fixpoint outside (t : tree) : list N :=
  match t with
  | Tok i _ => [i]
  | Meta _ _ => []
  | Node k ch => if k =? K_Unparsable then [] else flat_map outside ch
  end.
Definition outside_l (l : list tree) : list N := flat_map outside l.

(** --- well-formed match results (decidable; monitored on every recorded match) *)
Definition span_t : Type := (N * N)%type.

Fixpoint chain_ok (l : list span_t) : bool :=
  match l with
  | [] => true
  | c :: l' => forallb (fun c' => implb (fst c =? fst c') (snd c =? fst c)) l' && chain_ok l'
  end.

(** a match whose [apply] yields at least one segment: it spans a token, or inserts a meta, or
    has a child that does *)
Fixpoint produces (x : mr) : bool :=
  match x with
  | MR s e _ ins ch => negb (s =? e) || negb (is_empty ins) || existsb produces ch
  end.

Definition wf_node (n s e : N) (m : option matched) (ins : list (N * N)) (sp : list span_t)
           (prod : bool) : bool :=
  (s <=? e) && (e <=? n)
  && forallb (fun c => (s <=? fst c) && (fst c <=? snd c) && (snd c <=? e)) sp
  && forallb (fun c => forallb (fun c' => implb (fst c <? fst c') (snd c <=? fst c')) sp) sp
  && forallb (fun c => forallb (fun q => implb (fst c <? fst q) (snd c <=? fst q)) ins) sp
  && chain_ok sp
  && forallb (fun q => (s <=? fst q) && (fst q <=? e)) ins
  && (is_empty ins || (0 <? n))
  && match m with
     | None => true
     | Some (MKind _) => negb (s =? e) || negb (is_empty ins) || prod
     | Some (MNewtype _) => (e =? s + 1) && is_empty ins && is_empty sp
     end.

Fixpoint wf (n : N) (x : mr) : bool :=
  match x with
  | MR s e m ins ch =>
      forallb (wf n) ch
      && wf_node n s e m ins (map (fun c => (mr_start c, mr_end c)) ch) (existsb produces ch)
  end.

(** the root match must start where the grammar was started ([start_idx]: [root_parse] copies
    [segments[..start_idx]] itself) and end inside the code span handed to the grammar *)
Definition wf_root (ts : list tok) (m : mr) : bool :=
  wf (N.of_nat (length ts)) m && (mr_start m =? start_idx ts) && (mr_end m <=? end_idx ts).
